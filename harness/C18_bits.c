/* C18 — bit-level writers and readers are inverse and stay within bounds.
 * Oracle: independent MSB-first packer; exact-size heap buffers so ASan sees
 * any access outside the buffer; block reader over arbitrary segmentation. */
#include "vp.h"
#include "tape.h"
#include "fix_mem.h"

#include "upipe/ubits.h"
#include "upipe/ubuf_block_stream.h"

#include <stdlib.h>
#include <stdio.h>

#define MAXF 48

enum { CL_W32, CL_STRADDLE, CL_EXACT, CL_SHORT, CL_SEG, CL_BITOFF, CL_RDOVER, CL_EMPTYSEG, CL_W32EMPTY, CL_OPAQUE, CL_EXTRACT_BITS, CL_RESEG, CL_LATE_START, CL_SPLICED, CL_LEAD_STRIPPED, CL_INSERTED };
static const char *const class_names[] = {
    "field_32bit", "field_straddles_cache", "buffer_exactly_full", "buffer_too_small",
    "read_segmented", "read_bit_offset", "read_past_end", "empty_segment", "w32_on_empty_cache", "read_from_plain_memory", "extract_bits_into_writer", "block_resegmented_before_reading",
    "reader_starts_at_a_later_field", "reader_over_a_splice_that_ends_inside_a_segment", "lead_octets_deleted_after_an_access_further_in", "piece_cut_out_and_inserted_back", NULL };

static void ref_pack(const uint8_t *w, const uint32_t *v, int n, uint8_t *out, size_t outsz)
{
    memset(out, 0, outsz);
    size_t bit = 0;
    for (int i = 0; i < n; i++)
        for (int b = w[i] - 1; b >= 0; b--, bit++)
            if ((v[i] >> b) & 1)
                out[bit / 8] |= 0x80 >> (bit % 8);
}

static uint32_t ref_bits(const uint8_t *buf, size_t bitpos, int w)
{
    uint32_t r = 0;
    for (int i = 0; i < w; i++, bitpos++)
        r = (r << 1) | ((buf[bitpos / 8] >> (7 - bitpos % 8)) & 1);
    return r;
}

static uint32_t stream_read(struct ubuf_block_stream *s, int w)
{
    uint32_t r = 0;
    while (w > 0) {
        int c = w > 24 ? 16 : w;
        ubuf_block_stream_fill_bits(s, c);
        r = (c == 32 ? 0 : (r << c)) | ubuf_block_stream_show_bits(s, c);
        ubuf_block_stream_skip_bits(s, c);
        w -= c;
    }
    return r;
}

static int run(const uint8_t *tp_, size_t len, struct vp_report *rep, unsigned flags)
{
    struct tape t;
    tp_init(&t, tp_, len);
    bool render = flags & VP_RENDER;
    int ret = 0;

    int n = tp_range(&t, 0, MAXF);
    uint8_t w[MAXF + 1];
    uint32_t v[MAXF + 1];
    size_t total = 0;
    uint64_t h = VP_HASH_INIT;
    bool straddle = false, w32 = false, w32empty = false;
    for (int i = 0; i < n; i++) {
        uint8_t sel = tp_u8(&t);
        static const uint8_t fav[] = { 1, 32, 8, 24, 16, 31, 7, 9, 25, 3 };
        w[i] = (sel & 1) ? fav[(sel >> 1) % 10] : 1 + (sel >> 1) % 32;
        uint32_t raw;
        switch (tp_u8(&t) % 4) {
        case 0: raw = 0xffffffffu; break;
        case 1: raw = tp_u8(&t); break;
        case 2: raw = tp_u32(&t); break;
        default: raw = 0x80000001u | tp_u32(&t); break;
        }
        v[i] = w[i] == 32 ? raw : raw & ((1u << w[i]) - 1);
        if (w[i] == 32) { w32 = true; if (total % 32 == 0) w32empty = true; }
        if (total / 32 != (total + w[i] - 1) / 32) straddle = true;
        total += w[i];
        h = vp_hash_mix(h, (uint64_t)w[i] << 32 | v[i]);
    }
    size_t need = (total + 7) / 8;
    /* buffer size: exact, or smaller, or larger */
    size_t bufsz;
    uint8_t bsel = tp_u8(&t);
    switch (bsel % 8) {
    case 0: case 1: bufsz = need; break;
    case 2: bufsz = need ? need - 1 : 0; break;
    case 3: bufsz = need > 4 ? need - 4 : 0; break;
    case 4: bufsz = need + 1; break;
    case 5: bufsz = need + 5; break;
    case 6: bufsz = need ? tp_range(&t, 0, need - 1) : 0; break;
    default: bufsz = 0; break;
    }
    h = vp_hash_mix(h, bufsz);
    if (render) {
        vp_render(rep, "C18 fields=%d total_bits=%zu need=%zu bufsz=%zu\n  write:", n, total, need, bufsz);
        for (int i = 0; i < n; i++) vp_render(rep, " (%u,0x%x)", w[i], v[i]);
        vp_render(rep, "\n");
    }
    uint8_t *expect = calloc(1, need + 1);
    ref_pack(w, v, n, expect, need);

    /* ---- writer ---- */
    uint8_t *buf = malloc(bufsz ? bufsz : 1);   /* exact-size: ASan red zones are the guards */
    uint8_t *wbuf = bufsz ? buf : buf + 1;       /* size 0: point at the end of a 1-byte area */
    memset(buf, 0xAA, bufsz ? bufsz : 1);
    struct ubits ub;
    ubits_init(&ub, wbuf, bufsz, UBITS_WRITE);
    for (int i = 0; i < n; i++)
        ubits_put(&ub, w[i], v[i]);
    uint8_t *end = NULL;
    int err = ubits_clean(&ub, &end);
    if (bufsz >= need) {
        if (err != UBASE_ERR_NONE)
            ret = vp_fail(rep, "C18/write/spurious-nospc", "buffer of %zu >= needed %zu but ubits_clean returned %d", bufsz, need, err);
        else if ((size_t)(end - wbuf) != need)
            ret = vp_fail(rep, "C18/write/count", "wrote %td octets, expected %zu", end - wbuf, need);
        else if (memcmp(wbuf, expect, need)) {
            size_t k = 0; while (wbuf[k] == expect[k]) k++;
            ret = vp_fail(rep, "C18/write/bytes", "octet %zu is %02x, reference packer says %02x", k, wbuf[k], expect[k]);
        } else
            for (size_t k = need; k < bufsz; k++)
                if (wbuf[k] != 0xAA) { ret = vp_fail(rep, "C18/write/beyond", "octet %zu beyond the data was modified", k); break; }
    } else {
        if (err == UBASE_ERR_NONE)
            ret = vp_fail(rep, "C18/write/no-overflow", "buffer %zu < needed %zu but no overflow reported", bufsz, need);
        /* bytes written before the overflow must be a prefix of the reference */
    }
    if (bufsz == 0 && buf[0] != 0xAA)
        ret = vp_fail(rep, "C18/write/before", "octet before an empty buffer was modified");

    /* ---- ubits_get over the reference bytes (exact-size area) ---- */
    int nread = n;
    int over_extra = tp_u8(&t) % 3;   /* read 0..2 extra fields past the end */
    if (ret == 0) {
        uint8_t *rb = malloc(need ? need : 1);
        memcpy(rb, expect, need);
        struct ubits rd;
        ubits_init(&rd, need ? rb : rb + 1, need, UBITS_READ);
        for (int i = 0; i < nread && ret == 0; i++) {
            uint32_t g = ubits_get(&rd, w[i]);
            if (rd.overflow)
                ret = vp_fail(rep, "C18/get/spurious-overflow", "field %d (%u bits) overflow inside the data", i, w[i]);
            else if (g != v[i])
                ret = vp_fail(rep, "C18/get/value", "field %d (%u bits) read 0x%x, written 0x%x", i, w[i], g, v[i]);
        }
        /* past the end: pad bits of the last octet may be returned, then zeros + overflow */
        if (ret == 0 && over_extra) {
            size_t padbits = need * 8 - total;
            for (int k = 0; k < over_extra && ret == 0; k++) {
                int ww = 1 + (tp_u8(&t) % 32);
                uint32_t g = ubits_get(&rd, ww);
                if ((size_t)ww <= padbits) { padbits -= ww; if (rd.overflow) ret = vp_fail(rep, "C18/get/spurious-overflow", "pad bits read flagged overflow"); }
                else {
                    padbits = 0;
                    if (!rd.overflow) ret = vp_fail(rep, "C18/get/no-overflow", "read of %d bits past the end not flagged", ww);
                    else if (g != 0) ret = vp_fail(rep, "C18/get/nonzero-past-end", "read past the end returned 0x%x", g);
                }
            }
        }
        free(rb);
    }

    /* ---- block bit-stream reader over a segmentation ---- */
    int nseg = 0, bitoff = 0; bool emptyseg = false; bool rdover = false; bool reseg = false; int skipf = 0; bool spliced = false, stripped = false, inserted = false;
    if (ret == 0) {
        struct fix_mem fm;
        if (fix_mem_init(&fm, 0, 0, 0) != 0) { free(buf); free(expect); return vp_internal(rep, "fix_mem_init"); }
        /* lead-in octets so that a start bit offset is meaningful */
        int lead = tp_u8(&t) % 3;
        bitoff = tp_u8(&t) % 8;
        size_t streamlen = lead + (total + bitoff + 7) / 8;
        uint8_t *src = calloc(1, streamlen + 1), *src_base = src;
        /* lead octets random, then bitoff random bits, then the fields */
        for (int i = 0; i < lead; i++) src[i] = 0x5a + i;
        {
            size_t bit = lead * 8;
            uint8_t junk = tp_u8(&t);
            for (int b = 0; b < bitoff; b++, bit++) if ((junk >> b) & 1) src[bit / 8] |= 0x80 >> (bit % 8);
            for (int i = 0; i < n; i++)
                for (int b = w[i] - 1; b >= 0; b--, bit++)
                    if ((v[i] >> b) & 1) src[bit / 8] |= 0x80 >> (bit % 8);
        }
        /* cut into segments */
        struct ubuf *ubuf = NULL;
        size_t pos = 0;
        if (render) vp_render(rep, "  block: lead=%d bitoff=%d streamlen=%zu segs:", lead, bitoff, streamlen);
        do {
            size_t rest = streamlen - pos;
            size_t seg;
            uint8_t s = tp_u8(&t);
            if (s == 0) seg = rest;
            else if (s % 5 == 0 && ubuf != NULL) seg = 0;
            else seg = 1 + (s % 7);
            if (seg > rest) seg = rest;
            /* a zero-size first segment is not a valid block to build upon; allow empty later segments */
            struct ubuf *piece = ubuf_block_alloc(fm.block_mgr, seg);
            if (!piece) { ret = vp_internal(rep, "ubuf_block_alloc"); break; }
            if (seg) {
                uint8_t *wp; int ws = -1;
                if (!ubase_check(ubuf_block_write(piece, 0, &ws, &wp)) || ws != (int)seg) { ret = vp_internal(rep, "ubuf_block_write"); ubuf_free(piece); break; }
                memcpy(wp, src + pos, seg);
                ubuf_block_unmap(piece, 0);
            } else emptyseg = true;
            if (render) vp_render(rep, " %zu", seg);
            if (ubuf == NULL) ubuf = piece;
            else if (!ubase_check(ubuf_block_append(ubuf, piece))) { ret = vp_internal(rep, "ubuf_block_append"); ubuf_free(piece); break; }
            pos += seg;
            nseg++;
        } while (pos < streamlen && nseg < 64);
        if (ret == 0 && pos < streamlen) {
            /* remainder in one piece */
            size_t seg = streamlen - pos;
            struct ubuf *piece = ubuf_block_alloc(fm.block_mgr, seg);
            uint8_t *wp; int ws = -1;
            ubuf_block_write(piece, 0, &ws, &wp);
            memcpy(wp, src + pos, seg);
            ubuf_block_unmap(piece, 0);
            ubuf_block_append(ubuf, piece);
            nseg++;
        }
        if (render) vp_render(rep, "\n");
        h = vp_hash_mix(h, (uint64_t)nseg << 8 | bitoff);
        /* re-segmentation that leaves the content as it is (the readers must not care how the block came to be segmented, nor what
         * was accessed before): split at a tape-chosen offset and append the tail again, an access near the end, removal and
         * restoration of the first octets (resize + prepend). */
        if (ret == 0 && ubuf != NULL && streamlen > 0) {
            uint8_t sh = tp_u8(&t);
            h = vp_hash_mix(h, 0x5e00 | sh);
            int k = 1 + (sh >> 6); bool shrunk = false;
            /* more of the same, chosen by one more octet: the reader starts at a later field, the block is replaced by a splice whose
             * window ends inside a segment, the lead octets are deleted for good after an access further in */
            uint8_t sh2 = (sh & 0x04) ? tp_u8(&t) : 0;
            if (sh & 0x04) h = vp_hash_mix(h, 0x5f00 | sh2);
            if ((sh & 0x04) && n > 1) skipf = (sh2 >> 2) % n;
            if (sh & 0x20) {            /* the first k octets are taken away now and given back after the other steps */
                size_t lin = 0;
                if (ubase_check(ubuf_block_size_linear(ubuf, 0, &lin)) && lin > (size_t)k && streamlen > (size_t)k && ubase_check(ubuf_block_resize(ubuf, k, -1))) {
                    shrunk = true;
                    if (render) vp_render(rep, "  resize(%d,-1)\n", k);
                }
            }
            size_t cur = streamlen - (shrunk ? k : 0);
            for (int q = 0; q < sh % 4 && ret == 0; q++) {
                size_t off = tp_u8(&t) % (cur + 1);
                if (off == 0 || off >= cur) continue;
                struct ubuf *tail = ubuf_block_split(ubuf, (int)off);
                if (tail == NULL) { ret = vp_internal(rep, "ubuf_block_split(%zu) of %zu octets", off, cur); break; }
                if ((sh2 & 0x10) && cur - off >= 2) {
                    /* the tail is cut once more, its end appended and its beginning -- one or several segments -- inserted back in between */
                    size_t m = 1 + tp_u8(&t) % (cur - off - 1);
                    struct ubuf *end = ubuf_block_split(tail, (int)m);
                    if (end == NULL) { ubuf_free(tail); ret = vp_internal(rep, "ubuf_block_split(%zu) of the tail of %zu octets", m, cur - off); break; }
                    if (!ubase_check(ubuf_block_append(ubuf, end))) { ubuf_free(end); ubuf_free(tail); ret = vp_internal(rep, "ubuf_block_append of the end"); break; }
                    if (!ubase_check(ubuf_block_insert(ubuf, (int)off, tail))) { ubuf_free(tail); ret = vp_internal(rep, "ubuf_block_insert(%zu) of %zu octets", off, m); break; }
                    if (render) vp_render(rep, "  split(%zu), split of the tail at %zu, append of its end, insert(%zu) of its beginning\n", off, m, off);
                    reseg = inserted = true;
                    continue;
                }
                if (!ubase_check(ubuf_block_append(ubuf, tail))) { ubuf_free(tail); ret = vp_internal(rep, "ubuf_block_append after split"); break; }
                if (render) vp_render(rep, "  split(%zu)+append\n", off);
                reseg = true;
            }
            if (ret == 0 && (sh & 0x08) && cur > 1) {
                /* the tail is cut off (truncate releases the segments behind the cut) and a fresh copy of it appended again */
                size_t off = 1 + tp_u8(&t) % (cur - 1);
                size_t base = shrunk ? (size_t)k : 0;
                size_t extra = ((sh2 & 1) && !shrunk) ? 1 + (size_t)(sh2 >> 5) : 0;    /* octets behind the window of the splice */
                struct ubuf *piece = ubuf_block_alloc(fm.block_mgr, (int)(cur - off + extra));
                uint8_t *wp; int ws = -1;
                if (!piece || !ubase_check(ubuf_block_write(piece, 0, &ws, &wp)) || ws != (int)(cur - off + extra)) { if (piece) ubuf_free(piece); ret = vp_internal(rep, "piece for the truncated tail"); }
                else {
                    memcpy(wp, src + base + off, cur - off);
                    memset(wp + (cur - off), 0xa5, extra);
                    ubuf_block_unmap(piece, 0);
                    if (!ubase_check(ubuf_block_truncate(ubuf, (int)off))) { ubuf_free(piece); ret = vp_internal(rep, "ubuf_block_truncate(%zu) of %zu octets", off, cur); }
                    else if (!ubase_check(ubuf_block_append(ubuf, piece))) { ubuf_free(piece); ret = vp_internal(rep, "ubuf_block_append after truncate"); }
                    else { if (render) vp_render(rep, "  truncate(%zu)+append of the same octets%s\n", off, extra ? " and some more" : ""); reseg = true; }
                    if (ret == 0 && extra) {
                        struct ubuf *win = ubuf_block_splice(ubuf, 0, (int)cur);
                        if (win == NULL) ret = vp_internal(rep, "ubuf_block_splice(0, %zu) of %zu octets", cur, cur + extra);
                        else { ubuf_free(ubuf); ubuf = win; spliced = true; if (render) vp_render(rep, "  splice(0,%zu) of %zu octets replaces the block\n", cur, cur + extra); }
                    }
                }
            }
            if (ret == 0 && (sh & 0x10) && cur > 0) {
                /* an access that leaves the segment cache somewhere: at the end, or at or before the offset the reader will start from */
                uint8_t ab = tp_u8(&t), tmp;
                size_t acc = (ab & 1) ? cur - 1 : (size_t)(ab >> 1) % (size_t)(lead + 1);
                if (acc >= cur) acc = cur - 1;
                ubuf_block_extract(ubuf, (int)acc, 1, &tmp);
                if (render) vp_render(rep, "  access at offset %zu\n", acc);
            }
            if (ret == 0 && shrunk) {
                if (!ubase_check(ubuf_block_prepend(ubuf, k))) ret = vp_internal(rep, "ubuf_block_prepend(%d) after resize(%d,-1)", k, k);
                else { if (render) vp_render(rep, "  prepend(%d)\n", k); reseg = true; }
            }
            if (ret == 0 && (sh2 & 2) && lead > 0 && !spliced) {
                size_t lin = 0, S = (size_t)lead + ((size_t)bitoff) / 8; uint8_t tmp;
                for (int q = 0, bits = bitoff; q < skipf; q++) { bits += w[q]; S = (size_t)lead + (size_t)bits / 8; }
                if (ubase_check(ubuf_block_size_linear(ubuf, 0, &lin)) && lin > (size_t)lead && streamlen > (size_t)lead + 1) {
                    size_t acc = (sh2 & 0x80) ? streamlen - 1 : S < streamlen ? S : streamlen - 1;
                    ubuf_block_extract(ubuf, (int)acc, 1, &tmp);
                    if (!ubase_check(ubuf_block_resize(ubuf, lead, -1))) ret = vp_internal(rep, "ubuf_block_resize(%d,-1)", lead);
                    else {
                        if (render) vp_render(rep, "  access at offset %zu, then resize(%d,-1) for good\n", acc, lead);
                        src += lead; streamlen -= lead; lead = 0; stripped = true; reseg = true;
                    }
                }
            }
            if (ret == 0) {         /* the harness' own premise: the content is what it was (read through a duplicate: the block's own segment cache stays as the steps above left it) */
                uint8_t *chk = malloc(streamlen);
                size_t sz = 0;
                struct ubuf *d = ubuf_dup(ubuf);
                if (!chk || !d || !ubase_check(ubuf_block_size(d, &sz)) || sz != streamlen || !ubase_check(ubuf_block_extract(d, 0, -1, chk)) || memcmp(chk, src, streamlen))
                    ret = vp_fail(rep, "C18/stream/content-after-resegmentation", "after split+append / resize+prepend (which leave the content as it is) the block of %zu octets no longer reads back the octets written", streamlen);
                if (d) ubuf_free(d);
                free(chk);
            }
        }
        if (ret == 0 && total > 0) {
            struct ubuf_block_stream s;
            int startbit = lead * 8 + bitoff;
            for (int q = 0; q < skipf; q++) startbit += w[q];
            if (!ubase_check(ubuf_block_stream_init_bits(&s, ubuf, startbit)))
                ret = vp_fail(rep, "C18/stream/init", "ubuf_block_stream_init_bits(%d) failed on a block of %zu octets", startbit, streamlen);
            else {
                for (int i = skipf; i < n && ret == 0; i++) {
                    uint32_t g = stream_read(&s, w[i]);
                    if (s.overflow)
                        ret = vp_fail(rep, "C18/stream/spurious-overflow", "field %d overflow inside the data", i);
                    else if (g != v[i])
                        ret = vp_fail(rep, "C18/stream/value", "field %d (%u bits) read 0x%x, written 0x%x (segments=%d bitoff=%d)", i, w[i], g, v[i], nseg, bitoff);
                    else {
                        int p = ubuf_block_stream_position(&s);
                        size_t want = lead * 8 + bitoff;
                        for (int k = 0; k <= i; k++) want += w[k];
                        if ((size_t)p != want)
                            ret = vp_fail(rep, "C18/stream/position", "after field %d position %d, expected %zu", i, p, want);
                    }
                }
                if (ret == 0 && over_extra) {
                    /* drain the remaining pad bits, then must get zeros + overflow */
                    size_t consumed = lead * 8 + bitoff + total;
                    size_t padbits = streamlen * 8 - consumed;
                    if (padbits) stream_read(&s, padbits);
                    if (s.overflow) ret = vp_fail(rep, "C18/stream/spurious-overflow", "pad bits flagged overflow");
                    else {
                        /* the cache may hold already-fetched octets? no: all octets consumed exactly */
                        uint32_t g = stream_read(&s, 1 + tp_u8(&t) % 24);
                        rdover = true;
                        if (!s.overflow) ret = vp_fail(rep, "C18/stream/no-overflow", "read past the end of the block not flagged");
                        else if (g != 0) ret = vp_fail(rep, "C18/stream/nonzero-past-end", "read past the end returned 0x%x", g);
                    }
                }
                ubuf_block_stream_clean(&s);
            }
        }
        /* ---- the same octets read from plain memory (ubuf_block_stream_init_from_opaque): fields from bit 0 of an exact-size
         * copy (its end is an ASan red zone), then past the end: zeros and the overflow indication ---- */
        if (ret == 0 && total > 0 && bitoff == 0) {
            size_t olen = streamlen - lead;
            uint8_t *mem = malloc(olen);
            memcpy(mem, src + lead, olen);
            struct ubuf_block_stream s;
            ubuf_block_stream_init_from_opaque(&s, mem, olen);
            rep->classes |= 1u << CL_OPAQUE;
            for (int i = 0; i < n && ret == 0; i++) {
                uint32_t g = stream_read(&s, w[i]);
                if (s.overflow) ret = vp_fail(rep, "C18/opaque/spurious-overflow", "opaque reader: field %d overflow inside the data", i);
                else if (g != v[i]) ret = vp_fail(rep, "C18/opaque/value", "opaque reader: field %d (%u bits) read 0x%x, written 0x%x", i, w[i], g, v[i]);
            }
            if (ret == 0) {
                size_t padbits = olen * 8 - total;
                if (padbits) stream_read(&s, padbits);
                if (s.overflow) ret = vp_fail(rep, "C18/opaque/spurious-overflow", "opaque reader: pad bits flagged overflow");
                else {
                    uint32_t g = stream_read(&s, 1 + (n % 24));
                    if (!s.overflow) ret = vp_fail(rep, "C18/opaque/no-overflow", "opaque reader: read past the end of the memory not flagged");
                    else if (g != 0) ret = vp_fail(rep, "C18/opaque/nonzero-past-end", "opaque reader: read past the end returned 0x%x", g);
                }
            }
            ubuf_block_stream_clean(&s);
            free(mem);
        }
        /* ---- ubuf_block_extract_bits: a window of the segmented block copied into a bit writer that already holds k bits;
         * the writer's output is those k bits followed by exactly the octets of the window; too small a buffer => overflow,
         * nothing written outside it (exact-size allocation) ---- */
        if (ret == 0 && ubuf != NULL && streamlen > 0) {
            int k = n ? (int)(v[0] % 8) : 0;                    /* bits already in the writer */
            int off = (int)(lead % (streamlen));                 /* window inside the block */
            int wsz = (int)(streamlen - off);
            if (wsz > 64) wsz = 64;
            bool tight = n > 1 && (v[1] & 1);                   /* one octet short */
            size_t need = (size_t)(k + 8 * wsz + 7) / 8;
            size_t cap = tight && need > 0 ? need - 1 : need;
            uint8_t *out = malloc(cap ? cap : 1);
            struct ubits bw;
            ubits_init(&bw, out, cap, UBITS_WRITE);
            if (k) ubits_put(&bw, k, 0x55 & ((1u << k) - 1));
            int e = ubuf_block_extract_bits(ubuf, off, wsz, &bw);
            uint8_t *end;
            int ce = ubits_clean(&bw, &end);
            rep->classes |= 1u << CL_EXTRACT_BITS;
            if (!ubase_check(e)) ret = vp_fail(rep, "C18/extract-bits/refused", "ubuf_block_extract_bits(offset %d, size %d) failed (%d) on a block of %zu octets", off, wsz, e, streamlen);
            else if (tight && need > 0) {
                if (ubase_check(ce)) ret = vp_fail(rep, "C18/extract-bits/no-overflow", "%zu octets needed, %zu given: the writer did not report the overflow", need, cap);
            } else if (!ubase_check(ce)) ret = vp_fail(rep, "C18/extract-bits/spurious-overflow", "the writer reports an overflow with exactly enough room (%zu octets)", need);
            else if ((size_t)(end - out) != need) ret = vp_fail(rep, "C18/extract-bits/count", "%zu octets produced, %zu expected", (size_t)(end - out), need);
            else {
                /* reference: k bits of 0x55.. then the window, MSB first, zero padding */
                for (size_t bi = 0; bi < need && ret == 0; bi++) {
                    unsigned acc = 0;
                    for (int b = 0; b < 8; b++) {
                        size_t pos = bi * 8 + b; unsigned bit;
                        if (pos < (size_t)k) bit = ((0x55u & ((1u << k) - 1)) >> (k - 1 - pos)) & 1;
                        else if (pos < (size_t)k + 8 * (size_t)wsz) { size_t q = pos - k; bit = (src[off + q / 8] >> (7 - q % 8)) & 1; }
                        else bit = 0;
                        acc = acc << 1 | bit;
                    }
                    if (out[bi] != acc) ret = vp_fail(rep, "C18/extract-bits/bytes", "octet %zu of the writer is 0x%02x, expected 0x%02x (k=%d offset=%d size=%d)", bi, out[bi], acc, k, off, wsz);
                }
            }
            free(out);
        }
        if (ubuf) ubuf_free(ubuf);
        free(src_base);
        const char *leak = fix_mem_clean(&fm);
        if (leak && ret == 0) ret = vp_internal(rep, "fixture: %s", leak);
    }

    free(buf);
    free(expect);
    rep->case_hash = h;
    if (w32) rep->classes |= 1u << CL_W32;
    if (straddle) rep->classes |= 1u << CL_STRADDLE;
    if (bufsz == need && n) rep->classes |= 1u << CL_EXACT;
    if (bufsz < need) rep->classes |= 1u << CL_SHORT;
    if (nseg > 1) rep->classes |= 1u << CL_SEG;
    if (bitoff) rep->classes |= 1u << CL_BITOFF;
    if (rdover || over_extra) rep->classes |= 1u << CL_RDOVER;
    if (emptyseg) rep->classes |= 1u << CL_EMPTYSEG;
    if (reseg) rep->classes |= 1u << CL_RESEG;
    if (skipf) rep->classes |= 1u << CL_LATE_START;
    if (spliced) rep->classes |= 1u << CL_SPLICED;
    if (stripped) rep->classes |= 1u << CL_LEAD_STRIPPED;
    if (inserted) rep->classes |= 1u << CL_INSERTED;
    if (w32empty) rep->classes |= 1u << CL_W32EMPTY;
    /* NT: a 32-bit field or a field straddling the cache boundary, and (buffer exactly full or short or segmented read) */
    rep->nontrivial = (w32 || straddle) && (bufsz <= need) && n >= 2;
    return ret;
}

const struct vp_executor vp_executor = { "C18", "bits", 160, class_names, run, NULL };

/* C02 — shared buffer memory is copy-on-write: handles are isolated.
 * Model shared by the three C02 executors (cow_block, cow_pic, cow_sound).
 *
 * A case is a family of <= 8 handles over one block manager (plus, in the picture / sound
 * executors, one picture or sound manager whose planes can be re-exported as blocks).
 *
 * Model, per live handle:
 *   - its complete content (octets; pixels / samples are kept by the executor),
 *   - for every octet the memory area (one area = one umem allocation) it lives in,
 *   - `may`   : set of areas the handle may hold a reference on (over-approximation: every
 *               area it ever acquired; only ubuf_free releases for sure — truncate/resize/
 *               delete/split are documented as "possibly releasing segments"),
 *   - `multi` : set of areas on which the handle may hold MORE than one reference (a segment
 *               was sliced by insert/delete, or a handle holding the same area was appended).
 *
 * Oracle:
 *   isolation   after EVERY operation every live handle is read back completely and compared
 *               with its own model copy; only the handle an operation was applied to (and the
 *               handles it created / consumed) may differ from before.
 *   refuse      a write mapping on an octet of area X MUST be refused when another live handle
 *               currently shows at least one octet of X (exact: derived from the contents).
 *   grant       a write mapping on an octet of area X MUST be granted when no other live handle
 *               may hold X and the handle itself holds exactly one reference on X.
 *   either      all other states (sharing that depends on internal segmentation): both answers
 *               accepted, isolation still checked.
 *   A granted mapping is always exercised: every octet of the granted window is changed to a
 *   value different from the old one, then every handle is compared again.
 */
#ifndef C02_MODEL_H_
#define C02_MODEL_H_
#include "faultmalloc.h"
#include "vp.h"
#include "tape.h"
#include "umem_count.h"
#include "upipe/ubuf.h"
#include "upipe/ubuf_block.h"
#include "upipe/ubuf_block_mem.h"
#include <stdlib.h>
#include <stdio.h>

#ifndef C2_MAXSZ
#define C2_MAXSZ 640          /* model capacity of one block handle, octets */
#endif
#define C2_MAXH 8
#define C2_MAXAREA 62
#define C2_MAXBND 8

enum { C2_NONE = 0, C2_BLOCK, C2_PLANAR };
enum { C2_EITHER = 0, C2_MUST_GRANT, C2_MUST_REFUSE };

/* classes: 0..13 common, 14..21 for the executors with picture / sound planes; executor-specific from 22 */
enum { CL_REFUSED_SHARED, CL_GRANTED_AFTER_FREE, CL_GRANTED_FRESH, CL_MULTISEG_SHARING,
       CL_EITHER_GRANTED, CL_EITHER_REFUSED, CL_SLICED, CL_HIDDEN_REF, CL_PREPEND_OK,
       CL_NEGOFF, CL_POOL, CL_ALIGN, CL_COPY, CL_EMPTY_HANDLE,
       CL_REEXPORT, CL_PLANAR_REFUSED, CL_PLANAR_GRANTED_AFTER_FREE, CL_BLOCK_REFUSED_BY_PLANAR,
       CL_PLANAR_REFUSED_BY_BLOCK, CL_REEXPORT_MULTISEG, CL_REEXPORT_FAILED, CL_CROPPED, CL_EXEC0 };
#define C2_COMMON_CLASS_NAMES \
    "write_refused_because_shared", "write_granted_after_siblings_freed", "write_granted_never_shared", \
    "multi_segment_handle_sharing_area", "undecided_state_granted", "undecided_state_refused", \
    "handle_sliced_internally", "hidden_reference_while_shared", "prepend_ok", "negative_offset", \
    "pool_depth_gt0", "align_gt0", "copy_made", "empty_handle"
#define C2_FAULT_CLASS_NAMES "allocation_refused_inside_operation", "operation_failed_after_refused_allocation"
#define C2_FAULT_CLASSES(rep, c, bit) do { if ((c)->nfaults) (rep)->classes |= 1ull << (bit); if ((c)->nfault_failed) (rep)->classes |= 1ull << ((bit) + 1); } while (0)
#define C2_PLANAR_CLASS_NAMES \
    "plane_reexported_as_block", "plane_write_refused_because_shared", "plane_write_granted_after_siblings_freed", \
    "block_write_refused_because_plane_handle_alive", "plane_write_refused_because_reexported_block_alive", \
    "reexported_block_multi_segment_while_plane_handle_alive", "reexport_returned_null", "resize_cropped"

struct c2_hnd {
    int kind;
    struct ubuf *u;
    uint64_t may, multi;
    int head_area;              /* area of the head segment (prepend extends it) */
    /* block */
    size_t n;
    uint8_t m[C2_MAXSZ], wild[C2_MAXSZ];
    int8_t area[C2_MAXSZ];
    int nseg;
    int64_t bnd[C2_MAXBND]; int nb;
    /* planar (picture / sound): content lives in the executor */
    int parea;
};

struct c2_ctx {
    struct tape t;
    struct vp_report *rep;
    bool render;
    unsigned flags;
    struct umem_mgr *umem;
    struct ubuf_mgr *block_mgr, *planar_mgr;
    struct c2_hnd h[C2_MAXH];
    int nareas;
    uint64_t shared_once;       /* areas that have been referenced by >= 2 live handles at once */
    unsigned pat;
    int ret;
    uint64_t hash;
    uint32_t cl;
    int max_alloc;
    /* executor hook: complete read-back of a picture / sound handle */
    void (*planar_check)(struct c2_ctx *c, int hi, const char *after);
    char leakmsg[200];
    bool faultmode, fault_failed;
    unsigned nfaults, nfault_failed;
};

/* fault mode (chosen by the configuration octet): the operations whose octet is >= 128 run with their 1st..4th allocation refused */
static inline void c2_fault_begin(struct c2_ctx *c, uint8_t opbyte)
{
    c->fault_failed = false;
    vp_fault_arm(c->faultmode && opbyte >= 128 ? 1 + (opbyte / 32) % 4 : 0);
}

/* returns the handle to check from: after a refused allocation every handle is compared with its model, whatever the operation answered */
static inline int c2_fault_end(struct c2_ctx *c, int hi)
{
    vp_fault_disarm();
    if (!vp_fault_refused()) return hi;
    c->nfaults++; if (c->fault_failed) c->nfault_failed++;
    c->hash = vp_hash_mix(c->hash, 0xfa17);
    if (c->render) vp_render(c->rep, "    (an allocation inside the operation was refused%s)\n", c->fault_failed ? ": the operation failed" : "");
    if (hi < 0) for (int i = 0; i < C2_MAXH; i++) if (c->h[i].kind != 0) { hi = i; break; }
    return hi;
}

#define R(...) do { if (c->render) vp_render(c->rep, __VA_ARGS__); } while (0)
#define FAIL(key, ...) do { if (!c->ret) c->ret = vp_fail(c->rep, key, __VA_ARGS__); } while (0)
#define CL(bit) (c->cl |= 1u << (bit))
/* allocation fault injection (engine/faultmalloc.h): an operation inside which an allocation was refused may fail; it must
 * then leave every handle of the family -- content, size and who may write -- exactly as it was */
#define DOMFAIL(key, ...) do { if (vp_fault_refused()) c->fault_failed = true; else FAIL(key, __VA_ARGS__); } while (0)
#define ABIT(a) (1ULL << (a))

static inline uint8_t c2_rnd(struct c2_ctx *c) { c->pat = c->pat * 1103515245u + 12345u; return c->pat >> 16; }
/* a value guaranteed to differ from old */
static inline uint8_t c2_fresh(struct c2_ctx *c, uint8_t old) { return old ^ (uint8_t)(1 + c2_rnd(c) % 255); }

/* ---------------------------------------------------------------- fixture */
static inline int c2_fix_init(struct c2_ctx *c, int depth, int prepend, int append, int align, int align_offset)
{
    c->umem = umem_count_mgr_alloc();
    if (!c->umem) return -1;
    c->block_mgr = ubuf_block_mem_mgr_alloc(depth, depth, c->umem, prepend, append, align, align_offset);
    return c->block_mgr ? 0 : -1;
}

/* every handle has been freed by the caller: managers back to one reference, no area left */
static inline const char *c2_fix_clean(struct c2_ctx *c)
{
    const char *r = NULL;
    if (!urefcount_single(c->block_mgr->refcount)) r = "block manager still referenced after every handle was freed (a segment or an area descriptor was not released: owner count too high)";
    if (!r && c->planar_mgr && !urefcount_single(c->planar_mgr->refcount)) r = "picture/sound manager still referenced after every handle was freed (a buffer or an area descriptor was not released: owner count too high)";
    ubuf_mgr_vacuum(c->block_mgr);
    if (c->planar_mgr) ubuf_mgr_vacuum(c->planar_mgr);
    ubuf_mgr_release(c->block_mgr);
    if (c->planar_mgr) ubuf_mgr_release(c->planar_mgr);
    struct umem_count_stats *st = umem_count_stats(c->umem);
    if (!r && st->bad_free) r = "a memory area was freed twice (owner count fell below the number of owners)";
    if (!r && st->live != 0) {
        snprintf(c->leakmsg, sizeof c->leakmsg, "%ld memory area(s) (%ld octets) still allocated after every handle was freed (owner count never returned to zero)", st->live, st->live_bytes);
        r = c->leakmsg;
    }
    if (!r && !umem_count_single(c->umem)) r = "umem manager still referenced";
    umem_mgr_release(c->umem);
    return r;
}

/* ---------------------------------------------------------------- model helpers */
static inline int c2_new_area(struct c2_ctx *c) { return c->nareas < C2_MAXAREA ? c->nareas++ : -1; }

static inline uint64_t c2_showmask(const struct c2_hnd *h)
{
    if (h->kind == C2_PLANAR) return ABIT(h->parea);
    uint64_t m = 0;
    if (h->kind == C2_BLOCK) for (size_t i = 0; i < h->n; i++) m |= ABIT(h->area[i]);
    return m;
}
static inline uint64_t c2_showmask_range(const struct c2_hnd *h, size_t from, size_t to)
{
    uint64_t m = 0;
    for (size_t i = from; i < to; i++) m |= ABIT(h->area[i]);
    return m;
}

/* decision for a write mapping through handle hi on an octet of area X;
 * *who receives a handle that justifies MUST_REFUSE / prevents MUST_GRANT */
static inline int c2_decide(struct c2_ctx *c, int hi, int X, int *who)
{
    int may_other = -1;
    *who = -1;
    for (int g = 0; g < C2_MAXH; g++) {
        if (g == hi || c->h[g].kind == C2_NONE) continue;
        if (c2_showmask(&c->h[g]) & ABIT(X)) { *who = g; return C2_MUST_REFUSE; }
        if (c->h[g].may & ABIT(X)) may_other = g;
    }
    if (may_other >= 0) { *who = may_other; return C2_EITHER; }
    if (c->h[hi].multi & ABIT(X)) { *who = hi; return C2_EITHER; }
    return C2_MUST_GRANT;
}

static inline int c2_pick_kind(struct c2_ctx *c, int kind)
{
    int live[C2_MAXH], n = 0;
    for (int i = 0; i < C2_MAXH; i++) if (c->h[i].kind != C2_NONE && (kind == 0 || c->h[i].kind == kind)) live[n++] = i;
    if (!n) return -1;
    return live[tp_pick(&c->t, n)];
}
static inline int c2_pick_free(struct c2_ctx *c)
{
    for (int i = 0; i < C2_MAXH; i++) if (c->h[i].kind == C2_NONE) return i;
    return -1;
}
static inline int c2_nlive(struct c2_ctx *c)
{
    int n = 0;
    for (int i = 0; i < C2_MAXH; i++) if (c->h[i].kind != C2_NONE) n++;
    return n;
}

static inline void c2_release(struct c2_ctx *c, int hi)
{
    struct c2_hnd *h = &c->h[hi];
    if (h->kind == C2_NONE) return;
    if (h->u) ubuf_free(h->u);
    h->u = NULL; h->kind = C2_NONE; h->n = 0; h->may = h->multi = 0; h->nseg = 0; h->nb = 0;
}

/* the handle was consumed by append/insert: its references now belong to another handle */
static inline void c2_consumed(struct c2_ctx *c, int hi)
{
    struct c2_hnd *h = &c->h[hi];
    h->u = NULL; h->kind = C2_NONE; h->n = 0; h->may = h->multi = 0; h->nseg = 0; h->nb = 0;
}

/* in-domain offset into a block of n > 0 octets, biased to the ends and to the real segment boundaries */
static inline size_t c2_off(struct c2_ctx *c, const struct c2_hnd *h)
{
    uint8_t sel = tp_u8(&c->t);
    size_t n = h->n;
    switch (sel % 8) {
    case 0: return 0;
    case 1: return n - 1;
    case 2: return n / 2;
    case 3: case 4:
        if (h->nb > 0) {
            int64_t b = h->bnd[(sel / 8) % h->nb] - ((sel % 8) == 4 ? 1 : 0);
            if (b >= 0 && (size_t)b < n) return b;
        }
        /* fallthrough */
    default: return (size_t)tp_range(&c->t, 0, n - 1);
    }
}
/* in-domain size for a range starting at off: -1 (to the end) or 0..n-off */
static inline int c2_len(struct c2_ctx *c, size_t n, size_t off, bool allow_zero)
{
    uint8_t sel = tp_u8(&c->t);
    size_t rest = n - off;
    switch (sel % 6) {
    case 0: return -1;
    case 1: return 1 <= rest ? 1 : (int)rest;
    case 2: return (int)rest;
    case 3: return (int)(rest / 2) ? (int)(rest / 2) : (allow_zero ? 0 : (int)rest);
    case 4: return allow_zero ? 0 : (int)rest;
    default: return (int)tp_range(&c->t, 1, rest);
    }
}

/* ---------------------------------------------------------------- read-back of one block handle */
static inline void c2_block_check(struct c2_ctx *c, int hi, const char *after)
{
    struct c2_hnd *h = &c->h[hi];
    if (c->ret) return;
    size_t sz = (size_t)-1;
    if (!ubase_check(ubuf_block_size(h->u, &sz)) || sz != h->n) {
        FAIL("C02/isolation/size", "after %s: block handle h%d has size %zu, its model copy says %zu", after, hi, sz, h->n);
        return;
    }
    static uint8_t buf[C2_MAXSZ + 16];
    if (!ubase_check(ubuf_block_extract(h->u, 0, -1, buf))) {
        FAIL("C02/isolation/extract", "after %s: block handle h%d (size %zu) cannot be read back completely", after, hi, h->n);
        return;
    }
    for (size_t i = 0; i < h->n; i++) {
        if (h->wild[i]) { h->m[i] = buf[i]; h->wild[i] = 0; }
        else if (h->m[i] != buf[i]) {
            FAIL("C02/isolation/content", "after %s: octet %zu of block handle h%d (area a%d) reads %02x, its model copy says %02x",
                 after, i, hi, h->area[i], buf[i], h->m[i]);
            return;
        }
    }
    /* real segmentation (for the generator's boundary bias and the class counters) */
    size_t off = 0; h->nseg = 0; h->nb = 0;
    while (off < h->n) {
        int s = -1; const uint8_t *p;
        if (!ubase_check(ubuf_block_read(h->u, off, &s, &p)) || s <= 0 || off + s > h->n) {
            FAIL("C02/isolation/read", "after %s: block handle h%d read(%zu,-1) fails or returns size %d inside %zu octets", after, hi, off, s, h->n);
            return;
        }
        if (memcmp(p, h->m + off, s)) { FAIL("C02/isolation/content", "after %s: block handle h%d segment at %zu differs from its model copy", after, hi, off); ubuf_block_unmap(h->u, off); return; }
        ubuf_block_unmap(h->u, off);
        off += s; h->nseg++;
        if (off < h->n && h->nb < C2_MAXBND) h->bnd[h->nb++] = off;
    }
}

static inline void c2_check_all(struct c2_ctx *c, const char *after)
{
    for (int i = 0; i < C2_MAXH && !c->ret; i++) {
        if (c->h[i].kind == C2_BLOCK) c2_block_check(c, i, after);
        else if (c->h[i].kind == C2_PLANAR && c->planar_check) c->planar_check(c, i, after);
    }
    if (c->ret) return;
    /* sharing statistics */
    uint64_t show[C2_MAXH];
    for (int i = 0; i < C2_MAXH; i++) show[i] = c->h[i].kind != C2_NONE ? c2_showmask(&c->h[i]) : 0;
    for (int i = 0; i < C2_MAXH; i++) {
        struct c2_hnd *h = &c->h[i];
        if (h->kind == C2_NONE) continue;
        if (h->multi) CL(CL_SLICED);
        if (h->kind == C2_BLOCK && h->n == 0) CL(CL_EMPTY_HANDLE);
        for (int g = 0; g < C2_MAXH; g++) {
            if (g == i || c->h[g].kind == C2_NONE) continue;
            c->shared_once |= h->may & c->h[g].may;
            if (h->kind == C2_BLOCK && h->nseg >= 2 && (show[i] & show[g])) { CL(CL_MULTISEG_SHARING); if (c->h[g].kind == C2_PLANAR) CL(CL_REEXPORT_MULTISEG); }
            if ((h->may & ~show[i]) & show[g]) CL(CL_HIDDEN_REF);
        }
    }
}

/* ---------------------------------------------------------------- write mapping through a block handle */
/* returns true if the mapping was granted (and exercised) */
static inline bool c2_block_write(struct c2_ctx *c, int hi, int64_t off, int size, const char *what, bool count)
{
    struct c2_hnd *h = &c->h[hi];
    size_t noff = off < 0 ? (size_t)(off + (int64_t)h->n) : (size_t)off;
    int X = h->area[noff], who;
    int dec = c2_decide(c, hi, X, &who);
    int s = size; uint8_t *p = NULL;
    int err = ubuf_block_write(h->u, off, &s, &p);
    R("  %s -> %s", what, ubase_check(err) ? "granted" : err == UBASE_ERR_BUSY ? "BUSY" : "error");
    if (ubase_check(err)) R(" size %d", s);
    if (dec == C2_MUST_REFUSE) R("   [model: area a%d is also shown by h%d: must be refused]\n", X, who);
    else if (dec == C2_MUST_GRANT) R("   [model: area a%d has a single owner%s: must be granted]\n", X, (c->shared_once & ABIT(X)) ? " again" : "");
    else R("   [model: h%d may hold %s reference on area a%d: either answer]\n", who, who == hi ? "a second" : "a hidden", X);
    if (!ubase_check(err)) {
        if (dec == C2_MUST_GRANT)
            FAIL("C02/write-refused/block", "%s refused (error %d) although area a%d is referenced by this handle only (%s) and the handle holds one reference on it",
                 what, err, X, (c->shared_once & ABIT(X)) ? "all other referencing handles have been freed" : "it was never shared");
        else if (dec == C2_MUST_REFUSE) { CL(CL_REFUSED_SHARED); if (c->h[who].kind == C2_PLANAR) CL(CL_BLOCK_REFUSED_BY_PLANAR); }
        else CL(CL_EITHER_REFUSED);
        return false;
    }
    int64_t want = size == -1 ? (int64_t)(h->n - noff) : size;
    if (s <= 0 || s > want || noff + s > h->n) {
        FAIL("C02/write-window/block", "%s on %zu octets granted a window of %d octets", what, h->n, s);
        ubuf_block_unmap(h->u, off);
        return false;
    }
    for (int i = 0; i < s; i++) {
        uint8_t old = h->wild[noff + i] ? p[i] : h->m[noff + i];
        p[i] = c2_fresh(c, old);
        h->m[noff + i] = p[i]; h->wild[noff + i] = 0;
    }
    ubuf_block_unmap(h->u, off);
    if (dec == C2_MUST_REFUSE) {
        /* show the damage in the message: which octet of the sibling changed */
        struct c2_hnd *g = &c->h[who];
        char dmg[160] = "";
        if (g->kind == C2_BLOCK) {
            static uint8_t buf[C2_MAXSZ + 16];
            if (ubase_check(ubuf_block_extract(g->u, 0, -1, buf)))
                for (size_t i = 0; i < g->n; i++)
                    if (!g->wild[i] && buf[i] != g->m[i]) { snprintf(dmg, sizeof dmg, "; after writing through h%d, octet %zu of h%d changed from %02x to %02x", hi, i, who, g->m[i], buf[i]); break; }
        }
        FAIL("C02/write-granted/block", "%s granted although live handle h%d shows octets of the same memory area a%d%s", what, who, X, dmg);
        return true;
    }
    if (!count) return true;
    if (dec == C2_MUST_GRANT) CL((c->shared_once & ABIT(X)) ? CL_GRANTED_AFTER_FREE : CL_GRANTED_FRESH);
    else CL(CL_EITHER_GRANTED);
    return true;
}

/* ---------------------------------------------------------------- write mapping through a picture / sound handle */
/* the executor asks the library, then calls c2_planar_answer(); if that returns true the mapping
 * was granted and the executor writes fresh values into the window, unmaps, and calls c2_planar_written() */
static inline int c2_planar_decide(struct c2_ctx *c, int hi, int *who) { return c2_decide(c, hi, c->h[hi].parea, who); }

static inline bool c2_planar_answer(struct c2_ctx *c, int hi, int dec, int who, int err, const char *what, const char *failkey_refused)
{
    int X = c->h[hi].parea;
    R("  %s -> %s", what, ubase_check(err) ? "granted" : err == UBASE_ERR_BUSY ? "BUSY" : "error");
    if (dec == C2_MUST_REFUSE) R("   [model: area a%d is also shown by h%d: must be refused]\n", X, who);
    else if (dec == C2_MUST_GRANT) R("   [model: area a%d has a single owner%s: must be granted]\n", X, (c->shared_once & ABIT(X)) ? " again" : "");
    else R("   [model: h%d may hold a hidden reference on area a%d: either answer]\n", who, X);
    if (ubase_check(err)) return true;
    if (dec == C2_MUST_GRANT)
        FAIL(failkey_refused, "%s refused (error %d) although area a%d is referenced by this handle only (%s)", what, err, X,
             (c->shared_once & ABIT(X)) ? "all other referencing handles have been freed" : "it was never shared");
    else if (dec == C2_MUST_REFUSE) { CL(CL_PLANAR_REFUSED); if (c->h[who].kind == C2_BLOCK) CL(CL_PLANAR_REFUSED_BY_BLOCK); }
    else CL(CL_EITHER_REFUSED);
    return false;
}

static inline void c2_planar_written(struct c2_ctx *c, int hi, int dec, int who, const char *what, const char *failkey_granted, bool count)
{
    int X = c->h[hi].parea;
    if (dec == C2_MUST_REFUSE) {
        FAIL(failkey_granted, "%s granted although live %s handle h%d shows the same memory area a%d", what,
             c->h[who].kind == C2_BLOCK ? "block" : "plane", who, X);
        return;
    }
    if (!count) return;
    if (dec == C2_MUST_GRANT) { if (c->shared_once & ABIT(X)) { CL(CL_GRANTED_AFTER_FREE); CL(CL_PLANAR_GRANTED_AFTER_FREE); } else CL(CL_GRANTED_FRESH); }
    else CL(CL_EITHER_GRANTED);
}

static inline void c2_planar_init(struct c2_hnd *h, struct ubuf *u, int X)
{
    h->kind = C2_PLANAR; h->u = u; h->parea = X; h->may = ABIT(X); h->multi = 0; h->n = 0; h->head_area = X; h->nseg = 0; h->nb = 0;
}

static inline bool c2_find_planar_target(struct c2_ctx *c, int want, int *hi_p)
{
    int start = tp_u8(&c->t) % C2_MAXH;
    for (int k = 0; k < C2_MAXH; k++) {
        int hi = (start + k) % C2_MAXH, who;
        if (c->h[hi].kind != C2_PLANAR) continue;
        if (c2_decide(c, hi, c->h[hi].parea, &who) != want) continue;
        if (want == C2_MUST_GRANT && !(c->shared_once & ABIT(c->h[hi].parea))) continue;
        *hi_p = hi;
        return true;
    }
    return false;
}

/* ---------------------------------------------------------------- block operations */
static inline void c2_block_init(struct c2_hnd *h, struct ubuf *u)
{
    h->kind = C2_BLOCK; h->u = u; h->n = 0; h->may = h->multi = 0; h->nseg = 0; h->nb = 0; h->head_area = -1; h->parea = -1;
}

/* alloc + fill */
static inline int c2_op_alloc(struct c2_ctx *c, char *what, size_t wn)
{
    int slot = c2_pick_free(c);
    int size = 1 + tp_u8(&c->t) % c->max_alloc;
    c->hash = vp_hash_mix(c->hash, size);
    if (slot < 0 || c->nareas >= C2_MAXAREA) return -1;
    int X = c2_new_area(c);
    struct c2_hnd *h = &c->h[slot];
    struct ubuf *u = ubuf_block_alloc(c->block_mgr, size);
    snprintf(what, wn, "h%d=block_alloc(%d)+fill [area a%d]", slot, size, X);
    if (!u) { R("  %s -> NULL\n", what); DOMFAIL("C02/domain/alloc", "ubuf_block_alloc(%d) failed", size); return -1; }
    c2_block_init(h, u);
    h->n = size; h->may = ABIT(X); h->head_area = X;
    memset(h->wild, 1, size); memset(h->area, X, size);
    char w2[128]; snprintf(w2, sizeof w2, "%s: write(h%d,0,-1)", what, slot);
    if (!c2_block_write(c, slot, 0, -1, w2, false) && !c->ret)
        FAIL("C02/write-refused/fresh", "%s: write mapping refused on a freshly allocated block", what);
    return slot;
}

static inline uint64_t c2_acquired(const struct c2_hnd *a, uint64_t shown_in_part)
{
    /* areas a handle built from some of a's segments may reference: everything a may hold,
     * except areas a shows elsewhere only and holds exactly one reference on */
    uint64_t shown = c2_showmask(a);
    return a->may & ~(shown & ~shown_in_part & ~a->multi);
}

static inline int c2_op_dup(struct c2_ctx *c, char *what, size_t wn)
{
    int s = c2_pick_kind(c, C2_BLOCK), slot = c2_pick_free(c);
    if (s < 0 || slot < 0) return -1;
    struct c2_hnd *a = &c->h[s], *h = &c->h[slot];
    snprintf(what, wn, "h%d=dup(h%d)", slot, s);
    struct ubuf *u = ubuf_dup(a->u);
    R("  %s -> %s\n", what, u ? "ok" : "NULL");
    if (!u) { DOMFAIL("C02/domain/dup", "ubuf_dup fails"); return -1; }
    c2_block_init(h, u);
    h->n = a->n; memcpy(h->m, a->m, a->n); memcpy(h->wild, a->wild, a->n); memcpy(h->area, a->area, a->n);
    h->may = a->may; h->multi = a->multi; h->head_area = a->head_area;
    return slot;
}

static inline int c2_op_splice(struct c2_ctx *c, char *what, size_t wn)
{
    int s = c2_pick_kind(c, C2_BLOCK), slot = c2_pick_free(c);
    if (s < 0 || slot < 0 || c->h[s].n == 0) return -1;
    struct c2_hnd *a = &c->h[s], *h = &c->h[slot];
    size_t off = c2_off(c, a);
    int sz = c2_len(c, a->n, off, true);
    bool neg = tp_u8(&c->t) % 4 == 3;
    int64_t aoff = neg ? (int64_t)off - (int64_t)a->n : (int64_t)off;
    c->hash = vp_hash_mix(c->hash, aoff * 4096 + sz);
    snprintf(what, wn, "h%d=splice(h%d,%lld,%d)", slot, s, (long long)aoff, sz);
    struct ubuf *u = ubuf_block_splice(a->u, aoff, sz);
    R("  %s -> %s\n", what, u ? "ok" : "NULL");
    if (!u) { DOMFAIL("C02/domain/splice", "%s inside a block of %zu octets fails", what, a->n); return -1; }
    if (neg) CL(CL_NEGOFF);
    size_t want = sz == -1 ? a->n - off : (size_t)sz;
    c2_block_init(h, u);
    h->n = want; memcpy(h->m, a->m + off, want); memcpy(h->wild, a->wild + off, want); memcpy(h->area, a->area + off, want);
    h->head_area = a->area[off];
    h->may = c2_acquired(a, c2_showmask_range(a, off, off + want)) | ABIT(h->head_area);
    h->multi = a->multi & h->may;
    return slot;
}

static inline int c2_op_split(struct c2_ctx *c, char *what, size_t wn)
{
    int s = c2_pick_kind(c, C2_BLOCK), slot = c2_pick_free(c);
    if (s < 0 || slot < 0 || c->h[s].n == 0) return -1;
    struct c2_hnd *a = &c->h[s], *h = &c->h[slot];
    size_t off = c2_off(c, a);
    bool neg = tp_u8(&c->t) % 4 == 3;
    int64_t aoff = neg ? (int64_t)off - (int64_t)a->n : (int64_t)off;
    c->hash = vp_hash_mix(c->hash, aoff);
    snprintf(what, wn, "h%d=split(h%d,%lld)", slot, s, (long long)aoff);
    struct ubuf *u = ubuf_block_split(a->u, aoff);
    R("  %s -> %s\n", what, u ? "ok" : "NULL");
    if (!u) { DOMFAIL("C02/domain/split", "%s inside a block of %zu octets fails", what, a->n); return -1; }
    if (neg) CL(CL_NEGOFF);
    c2_block_init(h, u);
    h->n = a->n - off; memcpy(h->m, a->m + off, h->n); memcpy(h->wild, a->wild + off, h->n); memcpy(h->area, a->area + off, h->n);
    h->head_area = a->area[off];
    h->may = c2_acquired(a, c2_showmask_range(a, off, a->n)) | ABIT(h->head_area);
    h->multi = a->multi & h->may;
    /* the original keeps everything it may hold ("may" only shrinks on free) */
    a->n = off;
    return slot;
}

static inline int c2_op_join(struct c2_ctx *c, bool insert, char *what, size_t wn)
{
    int ai = c2_pick_kind(c, C2_BLOCK), bi = c2_pick_kind(c, C2_BLOCK);
    if (ai < 0 || bi < 0 || ai == bi) return -1;
    struct c2_hnd *a = &c->h[ai], *b = &c->h[bi];
    if (a->n + b->n > C2_MAXSZ) return -1;
    size_t off = a->n;
    int err;
    if (insert) {
        if (a->n == 0) return -1;
        off = c2_off(c, a);
        c->hash = vp_hash_mix(c->hash, off);
        snprintf(what, wn, "insert(h%d,%zu,h%d)", ai, off, bi);
        err = ubuf_block_insert(a->u, off, b->u);
    } else {
        snprintf(what, wn, "append(h%d,h%d)", ai, bi);
        err = ubuf_block_append(a->u, b->u);
    }
    R("  %s -> %d\n", what, err);
    if (!ubase_check(err)) { DOMFAIL(insert ? "C02/domain/insert" : "C02/domain/append", "%s fails (%zu octets)", what, a->n); return -1; }
    /* references: the inserted chain now belongs to a; a segment of a was cut at off */
    uint64_t cut = 0;
    if (insert) { cut = ABIT(a->area[off]); if (off > 0) cut |= ABIT(a->area[off - 1]); }
    a->multi |= b->multi | (a->may & b->may) | cut;
    a->may |= b->may;
    memmove(a->m + off + b->n, a->m + off, a->n - off); memmove(a->wild + off + b->n, a->wild + off, a->n - off); memmove(a->area + off + b->n, a->area + off, a->n - off);
    memcpy(a->m + off, b->m, b->n); memcpy(a->wild + off, b->wild, b->n); memcpy(a->area + off, b->area, b->n);
    a->n += b->n;
    c2_consumed(c, bi);
    return ai;
}

static inline int c2_op_delete(struct c2_ctx *c, char *what, size_t wn)
{
    int ai = c2_pick_kind(c, C2_BLOCK);
    if (ai < 0 || c->h[ai].n == 0) return -1;
    struct c2_hnd *a = &c->h[ai];
    size_t off = c2_off(c, a);
    int sz = c2_len(c, a->n, off, true);
    c->hash = vp_hash_mix(c->hash, off * 4096 + sz);
    snprintf(what, wn, "delete(h%d,%zu,%d)", ai, off, sz);
    int err = ubuf_block_delete(a->u, off, sz);
    R("  %s -> %d\n", what, err);
    if (!ubase_check(err)) { DOMFAIL("C02/domain/delete", "%s inside a block of %zu octets fails", what, a->n); return -1; }
    size_t d = sz == -1 ? a->n - off : (size_t)sz;
    /* a cut strictly inside a run of one area may slice the segment: a second reference
     * (also for an empty range: the implementation slices at off) */
    if (off > 0 && off + d < a->n && a->area[off - 1] == a->area[off + d]) a->multi |= ABIT(a->area[off - 1]);
    memmove(a->m + off, a->m + off + d, a->n - off - d); memmove(a->wild + off, a->wild + off + d, a->n - off - d); memmove(a->area + off, a->area + off + d, a->n - off - d);
    a->n -= d;
    return ai;
}

static inline int c2_op_truncate(struct c2_ctx *c, char *what, size_t wn)
{
    int ai = c2_pick_kind(c, C2_BLOCK);
    if (ai < 0) return -1;
    struct c2_hnd *a = &c->h[ai];
    uint8_t sel = tp_u8(&c->t);
    size_t off = sel % 8 == 7 ? 0 : sel % 8 == 6 ? a->n : a->n ? c2_off(c, a) : 0;
    c->hash = vp_hash_mix(c->hash, off);
    snprintf(what, wn, "truncate(h%d,%zu)", ai, off);
    int err = ubuf_block_truncate(a->u, off);
    R("  %s -> %d\n", what, err);
    if (!ubase_check(err)) { DOMFAIL("C02/domain/truncate", "%s inside a block of %zu octets fails", what, a->n); return -1; }
    a->n = off;
    return ai;
}

static inline int c2_op_resize(struct c2_ctx *c, char *what, size_t wn)
{
    int ai = c2_pick_kind(c, C2_BLOCK);
    if (ai < 0 || c->h[ai].n == 0) return -1;
    struct c2_hnd *a = &c->h[ai];
    size_t off = c2_off(c, a);
    int sz = c2_len(c, a->n, off, false);
    bool neg = tp_u8(&c->t) % 4 == 3 && off > 0;
    int64_t aoff = neg ? (int64_t)off - (int64_t)a->n : (int64_t)off;
    c->hash = vp_hash_mix(c->hash, aoff * 4096 + sz);
    snprintf(what, wn, "resize(h%d,%lld,%d)", ai, (long long)aoff, sz);
    int err = ubuf_block_resize(a->u, aoff, sz);
    R("  %s -> %d\n", what, err);
    if (!ubase_check(err)) { DOMFAIL("C02/domain/resize", "%s inside a block of %zu octets fails", what, a->n); return -1; }
    if (neg) CL(CL_NEGOFF);
    size_t ns = sz == -1 ? a->n - off : (size_t)sz;
    memmove(a->m, a->m + off, ns); memmove(a->wild, a->wild + off, ns); memmove(a->area, a->area + off, ns);
    a->n = ns;
    return ai;
}

static inline int c2_op_prepend(struct c2_ctx *c, char *what, size_t wn)
{
    int ai = c2_pick_kind(c, C2_BLOCK);
    if (ai < 0) return -1;
    struct c2_hnd *a = &c->h[ai];
    static const int ks[] = { 1, 3, 8, 9, 32, 33, 0, 2 };
    int k = ks[tp_u8(&c->t) % 8];
    if (a->n + k > C2_MAXSZ) return -1;
    c->hash = vp_hash_mix(c->hash, k);
    snprintf(what, wn, "prepend(h%d,%d)", ai, k);
    int err = ubuf_block_prepend(a->u, k);
    R("  %s -> %d   [new octets belong to the head segment's area a%d; their value is whatever the area holds]\n", what, err, a->head_area);
    if (!ubase_check(err)) return ai;      /* no room: documented failure, nothing may have changed */
    memmove(a->m + k, a->m, a->n); memmove(a->wild + k, a->wild, a->n); memmove(a->area + k, a->area, a->n);
    memset(a->wild, 1, k); memset(a->area, a->head_area, k);
    a->n += k;
    if (k) CL(CL_PREPEND_OK);
    return ai;
}

/* looks for a (block handle, offset) whose write decision is `want` (and, for MUST_GRANT, whose
 * area has been shared before); start handle chosen by the tape */
static inline bool c2_find_target(struct c2_ctx *c, int want, int *hi_p, size_t *off_p)
{
    int start = tp_u8(&c->t) % C2_MAXH;
    for (int k = 0; k < C2_MAXH; k++) {
        int hi = (start + k) % C2_MAXH;
        struct c2_hnd *h = &c->h[hi];
        if (h->kind != C2_BLOCK) continue;
        for (size_t i = 0; i < h->n; i++) {
            if (i > 0 && h->area[i] == h->area[i - 1]) continue;
            int who, X = h->area[i];
            if (c2_decide(c, hi, X, &who) != want) continue;
            if (want == C2_MUST_GRANT && !(c->shared_once & ABIT(X))) continue;
            *hi_p = hi; *off_p = i;
            return true;
        }
    }
    return false;
}

static inline int c2_op_write(struct c2_ctx *c, char *what, size_t wn)
{
    uint8_t strat = tp_u8(&c->t) % 4;
    int ai = -1; size_t off = 0;
    bool found = false;
    if (strat == 1) found = c2_find_target(c, C2_MUST_GRANT, &ai, &off);
    else if (strat == 2) found = c2_find_target(c, C2_EITHER, &ai, &off);
    if (!found) {
        ai = c2_pick_kind(c, C2_BLOCK);
        if (ai < 0 || c->h[ai].n == 0) return -1;
        off = c2_off(c, &c->h[ai]);
    }
    struct c2_hnd *a = &c->h[ai];
    int sz = c2_len(c, a->n, off, false);
    bool neg = tp_u8(&c->t) % 4 == 3;
    int64_t aoff = neg ? (int64_t)off - (int64_t)a->n : (int64_t)off;
    c->hash = vp_hash_mix(c->hash, (aoff * 4096 + sz) * 8 + ai);
    snprintf(what, wn, "write(h%d,%lld,%d)", ai, (long long)aoff, sz);
    if (c2_block_write(c, ai, aoff, sz, what, true) && neg) CL(CL_NEGOFF);
    return ai;
}

static inline int c2_op_copy(struct c2_ctx *c, char *what, size_t wn)
{
    int s = c2_pick_kind(c, C2_BLOCK), slot = c2_pick_free(c);
    if (s < 0 || slot < 0 || c->h[s].n == 0 || c->nareas >= C2_MAXAREA) return -1;
    struct c2_hnd *a = &c->h[s], *h = &c->h[slot];
    int X = c2_new_area(c);
    snprintf(what, wn, "h%d=block_copy(h%d,0,-1) [area a%d]", slot, s, X);
    struct ubuf *u = ubuf_block_copy(c->block_mgr, a->u, 0, -1);
    R("  %s -> %s\n", what, u ? "ok" : "NULL");
    if (!u) { DOMFAIL("C02/domain/copy", "%s of %zu octets fails", what, a->n); return -1; }
    c2_block_init(h, u);
    h->n = a->n; memcpy(h->m, a->m, a->n); memcpy(h->wild, a->wild, a->n); memset(h->area, X, a->n);
    h->may = ABIT(X); h->head_area = X;
    CL(CL_COPY);
    return slot;
}

/* ubuf_block_merge: "Merges part of a (segmented) ubuf in a single segment ubuf": the handle gets a window of itself in a
 * fresh area of its own (which it alone references: a write must be granted afterwards); a refused merge (window outside the
 * block) must leave the handle as it was -- still readable, still sharing what it shared */
static inline int c2_op_merge(struct c2_ctx *c, char *what, size_t wn)
{
    int ai = c2_pick_kind(c, C2_BLOCK);
    if (ai < 0 || c->h[ai].n == 0 || c->nareas >= C2_MAXAREA) return -1;
    struct c2_hnd *a = &c->h[ai];
    uint8_t sel = tp_u8(&c->t);
    size_t off = c2_off(c, a);
    int sz = c2_len(c, a->n, off, false);
    bool bad = (sel & 7) == 7;                  /* window beyond the end */
    int64_t aoff = bad ? (int64_t)a->n + 1 + (sel >> 3) : (int64_t)off;
    if (bad) sz = 1 + (sel >> 5);
    c->hash = vp_hash_mix(c->hash, 0xabc000 + aoff * 64 + sz);
    snprintf(what, wn, "merge(h%d,%lld,%d)", ai, (long long)aoff, sz);
    int err = ubuf_block_merge(c->block_mgr, &a->u, (int)aoff, sz);
    R("  %s -> %d\n", what, err);
    if (bad) {
        if (ubase_check(err)) FAIL("C02/domain/merge", "%s beyond the end of a block of %zu octets succeeded", what, a->n);
        return ai;                              /* c2_check_all reads the handle back: it must be unchanged and alive */
    }
    if (!ubase_check(err)) { DOMFAIL("C02/domain/merge", "%s inside a block of %zu octets fails", what, a->n); return -1; }
    int X = c2_new_area(c);
    size_t ns = sz == -1 ? a->n - off : (size_t)sz;
    memmove(a->m, a->m + off, ns); memmove(a->wild, a->wild + off, ns);
    memset(a->area, X, ns);
    a->n = ns; a->nseg = 1; a->nb = 0;
    a->may = ABIT(X); a->multi = 0; a->head_area = X;
    return ai;
}

static inline int c2_op_free(struct c2_ctx *c, int kind, char *what, size_t wn)
{
    int ai = c2_pick_kind(c, kind);
    if (ai < 0) return -1;
    snprintf(what, wn, "free(h%d)", ai);
    R("  %s\n", what);
    c2_release(c, ai);
    return ai;
}

/* downstream consumers let go: frees every OTHER handle that may hold the area shown by a
 * chosen octet of the picked handle (which then is the only possible owner of that area) */
static inline int c2_op_free_sharers(struct c2_ctx *c, char *what, size_t wn)
{
    int ai = c2_pick_kind(c, 0);
    if (ai < 0) return -1;
    struct c2_hnd *a = &c->h[ai];
    int X = a->kind == C2_PLANAR ? a->parea : a->n ? a->area[c2_off(c, a)] : a->head_area;
    int k = snprintf(what, wn, "free_sharers(h%d, area a%d):", ai, X);
    for (int g = 0; g < C2_MAXH; g++)
        if (g != ai && c->h[g].kind != C2_NONE && (c->h[g].may & ABIT(X))) {
            if (k < (int)wn - 8) k += snprintf(what + k, wn - k, " free(h%d)", g);
            c2_release(c, g);
        }
    R("  %s\n", what);
    return ai;
}

/* one block operation; code 0..15. Returns the handle acted upon or -1 (nothing done). */
static inline int c2_block_op(struct c2_ctx *c, unsigned code, char *what, size_t wn)
{
    switch (code) {
    case 0: return c2_op_alloc(c, what, wn);
    case 1: return c2_op_dup(c, what, wn);
    case 2: return c2_op_splice(c, what, wn);
    case 3: return c2_op_write(c, what, wn);
    case 4: return c2_op_free(c, 0, what, wn);
    case 5: return c2_op_split(c, what, wn);
    case 6: return c2_op_join(c, true, what, wn);
    case 7: return c2_op_join(c, false, what, wn);
    case 8: return c2_op_delete(c, what, wn);
    case 9: return c2_op_truncate(c, what, wn);
    case 10: return c2_op_resize(c, what, wn);
    case 11: return c2_op_prepend(c, what, wn);
    case 12: return c2_op_copy(c, what, wn);
    case 13: return c2_op_write(c, what, wn);
    case 14: return c2_op_free_sharers(c, what, wn);
    case 15: return c2_op_merge(c, what, wn);
    default: return c2_op_splice(c, what, wn);
    }
}
#endif

/* C19 (sound) — plane windows stay inside the allocation, never alias, keep their content.
 * Same scheme as C19_pic.c: per handle a model (size in samples, octets of every plane for the
 * visible window, share group); after every operation every plane of every handle is mapped in
 * full, must lie inside the exact umem area of the buffer, must not share octets with another
 * plane, and must hold the model's values. Argument domains from include/upipe/ubuf_sound.h:
 * negative offsets count from the end, size -1 means up to the end. */
#include "vp.h"
#include "tape.h"
#include "fix_mem.h"

#include "upipe/ubuf_sound.h"
#include "upipe/ubuf_sound_mem.h"
#include "upipe/ubuf_mem.h"
#include "upipe/uref_flow.h"
#include "upipe/uref_sound_flow.h"

#include <stdlib.h>
#include <stdio.h>

/* ASan keeps freed blocks in a 256 MB quarantine by default; with thousands of tiny exact-size
 * areas per second a worker grows by ~15 KB per case (several GB in the thorough tier). A case
 * allocates well under 1 MB, so a 16 MB quarantine still covers every use-after-free inside a case.
 * (ASAN_OPTIONS set by the driver does not mention these keys, so these defaults apply.) */
const char *__asan_default_options(void) { return "quarantine_size_mb=16:thread_local_quarantine_size_kb=256"; }

#define MAXH 4
#define MAXP 8
#define MAXOPS 40
#define MAXS 256            /* samples (thorough bound) */
#define MAXSS 8
#define PLANE_BYTES (MAXS * MAXSS)
#define MAXALLOC (1u << 16)

enum { CL_SS, CL_PLANES, CL_ALIGN, CL_FLOWDEF, CL_NOT_MULT, CL_MAP_REFUSED, CL_MAP_NEG, CL_MAP_SUB, CL_MAP_WRITE,
       CL_RESIZE_OK, CL_RESIZE_REFUSED, CL_RESIZE_NEG, CL_CHAIN, CL_COPY, CL_COPY_EXT, CL_COPY_OTHER_SS, CL_DUP, CL_ILV_OK, CL_ILV_REFUSED,
       CL_OUTDOM, CL_TWO_MGR, CL_POOL, CL_ZERO, CL_SHRINK_SHARED };
static const char *const class_names[] = {
    "sample_size_gt1", "planes_gt1", "align_nonzero", "mgr_from_flow_def", "plane_not_multiple_of_align",
    "map_refused", "map_negative_offset_accepted", "map_subwindow_accepted", "map_write_window",
    "resize_accepted", "resize_refused", "resize_negative_offset_accepted", "chain_ge2_nonzero_offsets",
    "copy_accepted", "copy_extending", "copy_to_manager_with_another_sample_size_refused", "dup", "interleave_ok", "interleave_refused",
    "out_of_domain_accepted", "two_managers_used", "pool_depth_gt0", "zero_size_buffer", "resize_on_shared", NULL };

static const char *const chan_names[MAXP] = { "l", "r", "c", "L", "R", "S", "x6", "x7" };

struct mgrcfg { struct ubuf_mgr *mgr; int how, align, depth; bool used; };

struct hnd {
    struct ubuf *u;
    int m, size, group;
    uint8_t *base; size_t asize;
    int nmoves;
};

static uint8_t g_val[MAXH + 1][MAXP][PLANE_BYTES];
static uint8_t g_known[MAXH + 1][MAXP][PLANE_BYTES];
static uint32_t g_stamp[MAXALLOC], g_owner[MAXALLOC];
static uint32_t g_pass;

struct ctx {
    struct tape t;
    struct vp_report *rep;
    bool render, thorough;
    struct fix_mem fm;
    int ss, np;
    const char *chan[MAXP];
    struct mgrcfg mg[2];
    struct hnd h[MAXH];
    int grefs[MAXH * MAXOPS + 8]; int ngroups;
    uint32_t gen;
    int ret;
    uint64_t hash;
    uint32_t cl;
    bool chain;
};

#define R(...) do { if (c->render) vp_render(c->rep, __VA_ARGS__); } while (0)
#define FAIL(key, ...) do { if (!c->ret) c->ret = vp_fail(c->rep, key, __VA_ARGS__); } while (0)
#define CL(x) (c->cl |= 1u << (x))

static int imax(int a, int b) { return a > b ? a : b; }

static uint8_t pat(uint32_t gen, int plane, int xb)
{
    uint32_t h = gen * 0x9E3779B1u ^ (uint32_t)plane * 0x85EBCA6Bu ^ (uint32_t)xb * 0x27D4EB2Fu;
    h ^= h >> 15; h *= 0x2C1B3C6Du; h ^= h >> 12;
    return (uint8_t)h;
}

static void build_mgr(struct ctx *c, int mi, const struct mgrcfg *like)
{
    static const int aligns[] = { 0, 16, 1, 32, 64 };
    struct mgrcfg *m = &c->mg[mi];
    memset(m, 0, sizeof(*m));
    if (like) { *m = *like; m->mgr = NULL; m->used = false; m->how = !like->how; }
    else {
        uint8_t b = tp_u8(&c->t);
        m->how = b & 1; m->depth = (b & 2) ? 2 : 0; m->align = aligns[(b >> 2) % 5];
    }
    if (m->how == 0) {
        m->mgr = ubuf_sound_mem_mgr_alloc(m->depth, m->depth, c->fm.umem_mgr, c->ss, m->align);
        if (!m->mgr) { c->ret = vp_internal(c->rep, "ubuf_sound_mem_mgr_alloc failed"); return; }
        for (int p = 0; p < c->np; p++)
            if (!ubase_check(ubuf_sound_mem_mgr_add_plane(m->mgr, c->chan[p]))) { c->ret = vp_internal(c->rep, "add_plane failed"); return; }
    } else {
        struct uref *fd = uref_sound_flow_alloc_def(c->fm.uref_mgr, "u8.", c->np, c->ss);
        if (!fd) { c->ret = vp_internal(c->rep, "flow definition allocation failed"); return; }
        bool ok = true;
        for (int p = 0; p < c->np; p++) ok = ok && ubase_check(uref_sound_flow_add_plane(fd, c->chan[p]));
        if (m->align) ok = ok && ubase_check(uref_sound_flow_set_align(fd, m->align));
        if (!ok) { uref_free(fd); c->ret = vp_internal(c->rep, "flow definition attributes"); return; }
        m->mgr = ubuf_mem_mgr_alloc_from_flow_def(m->depth, m->depth, c->fm.umem_mgr, fd);
        uref_free(fd);
        if (!m->mgr) { FAIL("C19/domain/mgr-from-flow-def", "ubuf_mem_mgr_alloc_from_flow_def refuses a complete sound flow definition"); return; }
        CL(CL_FLOWDEF);
    }
    if (m->align) CL(CL_ALIGN);
    if (m->depth) CL(CL_POOL);
    R("  mgr%c: %s align=%d pool=%d\n", 'A' + mi, m->how ? "ubuf_mem_mgr_alloc_from_flow_def" : "ubuf_sound_mem_mgr_alloc", m->align, m->depth);
    c->hash = vp_hash_mix(c->hash, m->how + m->depth * 2 + m->align * 8);
}

static int slot_of(struct ctx *c, struct hnd *h) { return (int)(h - c->h); }
static bool single(struct ctx *c, struct hnd *h) { return c->grefs[h->group] == 1; }
static bool inside(struct hnd *h, const uint8_t *p, size_t n)
{
    uintptr_t a = (uintptr_t)p, b = (uintptr_t)h->base;
    return a >= b && a - b <= h->asize && n <= h->asize - (a - b);
}

/* new window = [skip, skip + nsize) of the old one; what was not visible is unknown */
static void model_window(struct ctx *c, int s, int dst, int osize, int skip, int nsize)
{
    for (int p = 0; p < c->np; p++) {
        uint8_t *tv = g_val[MAXH][p], *tk = g_known[MAXH][p];
        for (int i = 0; i < nsize; i++) {
            int si = i + skip;
            for (int k = 0; k < c->ss; k++) {
                if (si >= 0 && si < osize) { tv[i * c->ss + k] = g_val[s][p][si * c->ss + k]; tk[i * c->ss + k] = g_known[s][p][si * c->ss + k]; }
                else { tv[i * c->ss + k] = 0; tk[i * c->ss + k] = 0; }
            }
        }
        memcpy(g_val[dst][p], tv, (size_t)nsize * c->ss);
        memcpy(g_known[dst][p], tk, (size_t)nsize * c->ss);
    }
}

static void drop(struct ctx *c, struct hnd *h)
{
    if (!h->u) return;
    ubuf_free(h->u);
    h->u = NULL;
    c->grefs[h->group]--;
}

static void learn_span(struct ctx *c, struct hnd *h, const char *what)
{
    const uint8_t *q = NULL;
    if (!ubase_check(ubuf_sound_plane_read_uint8_t(h->u, c->chan[0], 0, -1, &q))) {
        FAIL("C19/domain/map-full", "%s: mapping the whole first plane (0,-1) of a fresh sound of %d samples fails", what, h->size); return; }
    ubuf_sound_plane_unmap(h->u, c->chan[0], 0, -1);
    if (h->size == 0) {
        /* an empty plane may legitimately start one past the end of the area (or anywhere): nothing to demand */
        if (!umem_count_lookup(c->fm.umem_mgr, q, &h->base, &h->asize) && !umem_count_lookup(c->fm.umem_mgr, q - 1, &h->base, &h->asize)) { h->base = (uint8_t *)q; h->asize = 0; }
        return;
    }
    if (!umem_count_lookup(c->fm.umem_mgr, q, &h->base, &h->asize))
        FAIL("C19/bounds/outside-allocation", "%s: plane %s of a fresh sound of %d samples maps to %p, which is in no memory area allocated by the manager", what, c->chan[0], h->size, (void *)q);
    else if (h->asize > MAXALLOC) c->ret = vp_internal(c->rep, "allocation of %zu octets larger than the harness bound", h->asize);
}

static void verify(struct ctx *c, struct hnd *h, const char *opk, const char *what)
{
    if (!h->u || c->ret) return;
    int s = slot_of(c, h);
    char key[64];
    size_t size = (size_t)-1; uint8_t ss = 0;
    if (!ubase_check(ubuf_sound_size(h->u, &size, &ss)) || size != (size_t)h->size || ss != c->ss) {
        snprintf(key, sizeof key, "C19/size/%s", opk);
        FAIL(key, "after %s: h%d ubuf_sound_size says %zu samples of %u octets, expected %d of %d", what, s, size, ss, h->size, c->ss);
        return;
    }
    const char *channel = NULL; int np = 0;
    while (ubase_check(ubuf_sound_iterate_plane(h->u, &channel)) && channel != NULL) {
        if (np >= c->np || strcmp(channel, c->chan[np])) { c->ret = vp_internal(c->rep, "plane %d is %s", np, channel); return; }
        np++;
    }
    if (np != c->np) { c->ret = vp_internal(c->rep, "%d planes iterated, expected %d", np, c->np); return; }
    g_pass++;
    size_t nb = (size_t)h->size * c->ss;
    for (int p = 0; p < c->np && !c->ret; p++) {
        const uint8_t *q = NULL;
        if (!ubase_check(ubuf_sound_plane_read_uint8_t(h->u, c->chan[p], 0, -1, &q))) {
            FAIL("C19/domain/map-full", "after %s: h%d plane %s: mapping the whole window (0,-1) of %d samples fails", what, s, c->chan[p], h->size); return; }
        if (!inside(h, q, nb)) {
            snprintf(key, sizeof key, "C19/bounds/%s", opk);
            FAIL(key, "after %s: h%d plane %s (%d samples of %d octets) occupies [%td, %td) relative to the memory area of %zu octets allocated for the sound",
                 what, s, c->chan[p], h->size, c->ss, q - h->base, q - h->base + (ptrdiff_t)nb, h->asize);
        } else {
            size_t off = q - h->base;
            for (size_t b = 0; b < nb; b++) {
                if (g_stamp[off + b] == g_pass) {
                    uint32_t o = g_owner[off + b];
                    snprintf(key, sizeof key, "C19/alias/%s", opk);
                    FAIL(key, "after %s: h%d plane %s sample %zu octet %zu shares its address (area offset %zu) with plane %s sample %u octet %u",
                         what, s, c->chan[p], b / c->ss, b % c->ss, off + b, c->chan[o >> 24], (o & 0xffffff) / c->ss, (o & 0xffffff) % c->ss);
                    break;
                }
                g_stamp[off + b] = g_pass; g_owner[off + b] = ((uint32_t)p << 24) | (uint32_t)b;
                if (g_known[s][p][b]) {
                    if (g_val[s][p][b] != q[b]) {
                        snprintf(key, sizeof key, "C19/content/%s", opk);
                        FAIL(key, "after %s: h%d plane %s sample %zu octet %zu reads %02x, the value it had while staying visible is %02x (size %d)",
                             what, s, c->chan[p], b / c->ss, b % c->ss, q[b], g_val[s][p][b], h->size);
                        break;
                    }
                } else { g_val[s][p][b] = q[b]; g_known[s][p][b] = 1; }
            }
        }
        ubuf_sound_plane_unmap(h->u, c->chan[p], 0, -1);
    }
}

static void verify_all(struct ctx *c, const char *opk, const char *what)
{
    for (int i = 0; i < MAXH; i++) verify(c, &c->h[i], opk, what);
}

static void fill(struct ctx *c, struct hnd *h, const char *opk, const char *what)
{
    if (!h->u || c->ret || !single(c, h)) return;
    int s = slot_of(c, h);
    char key[64];
    c->gen++;
    size_t nb = (size_t)h->size * c->ss;
    for (int p = 0; p < c->np && !c->ret; p++) {
        uint8_t *q = NULL;
        if (!ubase_check(ubuf_sound_plane_write_uint8_t(h->u, c->chan[p], 0, -1, &q))) {
            FAIL("C19/domain/map-full", "after %s: h%d (not shared) plane %s: mapping the whole window for writing fails", what, s, c->chan[p]); return; }
        if (!inside(h, q, nb)) {
            snprintf(key, sizeof key, "C19/bounds/%s", opk);
            FAIL(key, "after %s: h%d plane %s (%d samples of %d octets) occupies [%td, %td) relative to the memory area of %zu octets allocated for the sound",
                 what, s, c->chan[p], h->size, c->ss, q - h->base, q - h->base + (ptrdiff_t)nb, h->asize);
        } else
            for (size_t b = 0; b < nb; b++) { q[b] = pat(c->gen, p, (int)b); g_val[s][p][b] = q[b]; g_known[s][p][b] = 1; }
        ubuf_sound_plane_unmap(h->u, c->chan[p], 0, -1);
    }
}

static int pick_live(struct ctx *c)
{
    int live[MAXH], n = 0;
    for (int i = 0; i < MAXH; i++) if (c->h[i].u) live[n++] = i;
    if (!n) return -1;
    return live[tp_pick(&c->t, n)];
}
static bool any_live(struct ctx *c) { for (int i = 0; i < MAXH; i++) if (c->h[i].u) return true; return false; }
static int pick_free(struct ctx *c) { for (int i = 0; i < MAXH; i++) if (!c->h[i].u) return i; return -1; }

static int gen_off(struct ctx *c, int size, bool valid)
{
    uint8_t sel = tp_u8(&c->t);
    if (valid) {
        switch (sel % 8) {
        case 0: return 0;
        case 1: return size > 1 ? 1 : 0;
        case 2: return imax(size - 1, 0);
        case 3: return size ? -1 : 0;
        case 4: return -size;
        case 5: return size / 2;
        case 6: return size ? (int)tp_range(&c->t, 0, size - 1) : 0;
        default: return size ? -(int)tp_range(&c->t, 1, size) : 0;
        }
    }
    switch (sel % 16) {
    case 0: return 0;
    case 1: return 1;
    case 2: return size - 1;
    case 3: return size;
    case 4: return size + 1;
    case 5: return -1;
    case 6: return -size;
    case 7: return -size - 1;
    case 8: return -2 * size;
    case 9: return -2 * size - 1;
    case 10: return size + 8;
    case 11: return size ? (int)tp_range(&c->t, 0, size) : 0;
    case 12: return size ? -(int)tp_range(&c->t, 1, size) : 0;
    case 13: return size / 2;
    case 14: return (int)tp_range(&c->t, -2 * size - 8, size + 8);
    default: return 2 * size + 3;
    }
}

static int gen_size(struct ctx *c, int size, int noff, bool valid)
{
    uint8_t sel = tp_u8(&c->t);
    int rest = size - noff, r;
    if (valid) {
        switch (sel % 4) {
        case 0: return -1;
        case 1: return rest;
        case 2: return rest > 0 ? 1 : 0;
        default: return rest > 0 ? (int)tp_range(&c->t, 1, rest) : 0;
        }
    }
    switch (sel % 10) {
    case 0: return -1;
    case 1: r = rest; break;
    case 2: r = rest - 1; break;
    case 3: r = rest + 1; break;
    case 4: r = 1; break;
    case 5: r = size; break;
    case 6: r = 0; break;
    case 7: r = rest > 0 ? (int)tp_range(&c->t, 0, rest) : 0; break;
    case 8: r = (int)tp_range(&c->t, 0, size + 8); break;
    default: r = size + 1; break;
    }
    return r < 0 ? 1 : r;      /* sizes below -1 have no documented meaning: not generated */
}

static void op_alloc(struct ctx *c)
{
    int slot = pick_free(c);
    if (slot < 0) { slot = pick_live(c); R("  free(h%d)\n", slot); drop(c, &c->h[slot]); }
    struct hnd *h = &c->h[slot];
    uint8_t b = tp_u8(&c->t);
    int mi = (b & 1) && c->mg[1].mgr ? 1 : 0;
    int maxs = c->thorough ? 200 : 48;
    int size = 1 + (b >> 1) % maxs;
    if ((b >> 1) == 127) size = 0;
    c->hash = vp_hash_mix(c->hash, 0x100 + mi + size * 4);
    struct ubuf *u = ubuf_sound_alloc(c->mg[mi].mgr, size);
    R("  h%d=ubuf_sound_alloc(mgr%c,%d) -> %s\n", slot, 'A' + mi, size, u ? "ok" : "NULL");
    c->mg[mi].used = true;
    if (!u) { FAIL("C19/domain/alloc", "ubuf_sound_alloc(%d) fails", size); return; }
    memset(h, 0, sizeof(*h));
    h->u = u; h->m = mi; h->size = size;
    h->group = c->ngroups++; c->grefs[h->group] = 1;
    if (!size) CL(CL_ZERO);
    if (c->mg[mi].align && (size * c->ss) % c->mg[mi].align) CL(CL_NOT_MULT);
    for (int p = 0; p < c->np; p++) memset(g_known[slot][p], 0, (size_t)size * c->ss);
    char what[64]; snprintf(what, sizeof what, "h%d=alloc(%d)", slot, size);
    learn_span(c, h, what);
    if (c->ret) return;
    if (!(tp_u8(&c->t) & 0x80)) fill(c, h, "alloc", what);
    verify_all(c, "alloc", what);
}

static void op_map(struct ctx *c, bool want_write)
{
    int hi = pick_live(c); if (hi < 0) return;
    struct hnd *h = &c->h[hi];
    int p = tp_pick(&c->t, c->np);
    int S = h->size;
    bool valid = tp_u8(&c->t) & 1;
    int off = gen_off(c, S, valid);
    int noff = off < 0 ? off + S : off;
    int sz = gen_size(c, S, noff, valid);
    int rs = sz == -1 ? S - noff : sz;
    bool write = want_write && single(c, h);
    /* negative extent (offset beyond the end with -1) or a non-empty window leaving the buffer: must be refused; empty windows are not judged */
    const char *why = rs < 0 ? "map-offset-beyond-end" : rs == 0 ? NULL : noff < 0 ? "map-offset-before-start" : noff > S ? "map-offset-beyond-end" : noff + rs > S ? "map-extent-beyond-end" : NULL;
    bool must_accept = !why && rs > 0;
    c->hash = vp_hash_mix(c->hash, 0x200 + hi + p * 8 + write * 64);
    c->hash = vp_hash_mix(c->hash, ((uint64_t)(uint32_t)off << 32) | (uint32_t)sz);
    uint8_t *q = NULL;
    int err = write ? ubuf_sound_plane_write_uint8_t(h->u, c->chan[p], off, sz, &q)
                    : ubuf_sound_plane_read_uint8_t(h->u, c->chan[p], off, sz, (const uint8_t **)&q);
    char what[96];
    snprintf(what, sizeof what, "ubuf_sound_plane_%s(h%d size %d,%s,%d,%d)", write ? "write" : "read", hi, S, c->chan[p], off, sz);
    R("  %s -> %d%s%s%s\n", what, err, why ? " [must be refused: " : "", why ? why : "", why ? "]" : "");
    if (!ubase_check(err)) {
        CL(CL_MAP_REFUSED);
        if (must_accept) FAIL("C19/domain/map", "%s is refused (error %d) although the window [%d,%d) lies inside the %d samples", what, err, noff, noff + rs, S);
        return;
    }
    if (why) {
        char key[64]; snprintf(key, sizeof key, "C19/refuse/%s", why);
        FAIL(key, "%s is accepted: after normalisation the window is [%d,%d) of %d samples; returned pointer is at octet %td relative to the plane's first visible sample and %s the sound's memory area",
             what, noff, noff + rs, S, (ptrdiff_t)noff * c->ss, inside(h, q, 1) ? "inside" : "OUTSIDE");
        ubuf_sound_plane_unmap(h->u, c->chan[p], off, sz);
        return;
    }
    if (must_accept) {
        if (off < 0) CL(CL_MAP_NEG);
        if (noff > 0 || rs < S) CL(CL_MAP_SUB);
        size_t nb = (size_t)rs * c->ss;
        if (!inside(h, q, nb))
            FAIL("C19/bounds/map", "%s accepted, but the window occupies [%td, %td) relative to the memory area of %zu octets allocated for the sound", what, q - h->base, q - h->base + (ptrdiff_t)nb, h->asize);
        else {
            if (write) { c->gen++; CL(CL_MAP_WRITE); }
            for (size_t b = 0; b < nb; b++) {
                size_t mi = (size_t)noff * c->ss + b;
                if (write) { q[b] = pat(c->gen, p, (int)mi) ^ 0x5a; g_val[hi][p][mi] = q[b]; g_known[hi][p][mi] = 1; }
                else if (g_known[hi][p][mi]) {
                    if (g_val[hi][p][mi] != q[b]) {
                        FAIL("C19/content/map", "%s: sample %zu octet %zu of the window reads %02x; sample %zu of the plane holds %02x", what, b / c->ss, b % c->ss, q[b], mi / c->ss, g_val[hi][p][mi]);
                        break;
                    }
                } else { g_val[hi][p][mi] = q[b]; g_known[hi][p][mi] = 1; }
            }
        }
    }
    if (!ubase_check(ubuf_sound_plane_unmap(h->u, c->chan[p], off, sz)))
        FAIL("C19/domain/unmap", "%s accepted but the matching unmap fails", what);
    if (write) verify_all(c, "map", what);
}

static void op_resize(struct ctx *c)
{
    int hi = pick_live(c); if (hi < 0) return;
    struct hnd *h = &c->h[hi];
    int S = h->size;
    bool valid = tp_u8(&c->t) & 1;
    int off = gen_off(c, S, valid);
    int noff = off < 0 ? off + S : off;
    int sz = gen_size(c, S, noff, valid);
    int rs = sz == -1 ? S - noff : sz;
    const char *why = rs < 0 ? "resize-offset-beyond-end" : rs == 0 ? NULL : noff < 0 ? "resize-offset-before-start" : noff > S ? "resize-offset-beyond-end" : noff + rs > S ? "resize-extent-beyond-end" : NULL;
    bool must_accept = !why && rs > 0;
    bool defined = noff >= 0 && noff <= S && rs >= 0 && noff + rs <= S;
    c->hash = vp_hash_mix(c->hash, 0x300 + hi);
    c->hash = vp_hash_mix(c->hash, ((uint64_t)(uint32_t)off << 32) | (uint32_t)sz);
    int err = ubuf_sound_resize(h->u, off, sz);
    char what[96];
    snprintf(what, sizeof what, "ubuf_sound_resize(h%d size %d,%d,%d)", hi, S, off, sz);
    R("  %s -> %d%s%s%s\n", what, err, why ? " [must be refused: " : "", why ? why : "", why ? "]" : "");
    if (!ubase_check(err)) {
        CL(CL_RESIZE_REFUSED);
        if (must_accept) FAIL("C19/domain/resize", "%s is refused (error %d) although [%d,%d) lies inside the %d samples", what, err, noff, noff + rs, S);
        verify_all(c, "resize-refused", what);
        return;
    }
    if (why) {
        size_t ns = 0; ubuf_sound_size(h->u, &ns, NULL);
        char key[64]; snprintf(key, sizeof key, "C19/refuse/%s", why);
        FAIL(key, "%s is accepted: after normalisation the new window is [%d,%d) of %d samples; the buffer now reports %zu samples", what, noff, noff + rs, S, ns);
        return;
    }
    if (!defined) {        /* an empty result at a position outside the buffer: no documented meaning, retire the handle */
        CL(CL_OUTDOM); R("    (accepted outside the documented domain: handle retired)\n");
        drop(c, h); return;
    }
    /* inside the documented domain (possibly an empty result) */
    model_window(c, hi, hi, S, noff, rs);
    h->size = rs;
    if (noff != 0 || rs != S) {
        CL(CL_RESIZE_OK);
        if (off < 0) CL(CL_RESIZE_NEG);
        if (!single(c, h)) CL(CL_SHRINK_SHARED);
        if (noff != 0) { h->nmoves++; if (h->nmoves >= 2) { CL(CL_CHAIN); c->chain = true; } }
    }
    if (!rs) CL(CL_ZERO);
    verify_all(c, "resize", what);
    if (!(tp_u8(&c->t) & 0x80)) { fill(c, h, "resize", what); verify_all(c, "resize", what); }
}

static void op_dup(struct ctx *c)
{
    int s = pick_live(c), slot = pick_free(c);
    if (s < 0 || slot < 0) return;
    struct ubuf *u = ubuf_dup(c->h[s].u);
    R("  h%d=ubuf_dup(h%d) -> %s\n", slot, s, u ? "ok" : "NULL");
    c->hash = vp_hash_mix(c->hash, 0x400 + s);
    if (!u) { FAIL("C19/domain/dup", "ubuf_dup fails"); return; }
    c->h[slot] = c->h[s]; c->h[slot].u = u;
    c->grefs[c->h[s].group]++;
    for (int p = 0; p < c->np; p++) {
        memcpy(g_val[slot][p], g_val[s][p], (size_t)c->h[s].size * c->ss);
        memcpy(g_known[slot][p], g_known[s][p], (size_t)c->h[s].size * c->ss);
    }
    CL(CL_DUP);
    char what[32]; snprintf(what, sizeof what, "h%d=dup(h%d)", slot, s);
    verify_all(c, "dup", what);
}

static void op_copy(struct ctx *c, bool replace)
{
    int s = pick_live(c); if (s < 0) return;
    int slot = replace ? s : pick_free(c);
    if (slot < 0) return;
    struct hnd *h = &c->h[s];
    int S = h->size;
    uint8_t b = tp_u8(&c->t);
    int mi = (b & 1) && c->mg[1].mgr ? 1 : 0;
    int skip, sz;
    switch ((b >> 1) % 8) {
    case 0: skip = 0; break;
    case 1: skip = S ? (int)tp_range(&c->t, 0, S - 1) : 0; break;
    case 2: skip = -(int)tp_range(&c->t, 1, 8); break;
    case 3: skip = S; break;
    case 4: skip = S + 1; break;
    case 5: skip = -1; break;
    case 6: skip = S - 1; break;
    default: skip = (int)tp_range(&c->t, -8, S + 2); break;
    }
    uint8_t b2 = tp_u8(&c->t);
    switch (b2 % 8) {
    case 0: sz = -1; break;
    case 1: sz = S - skip; break;
    case 2: sz = S - skip + (int)tp_range(&c->t, 1, 8); break;
    case 3: sz = 1; break;
    case 4: sz = 0; break;
    case 5: sz = -skip; break;
    case 6: sz = imax(1, S - skip - 1); break;
    default: sz = (int)tp_range(&c->t, 0, S + 8); break;
    }
    if (sz < -1) sz = 1;
    int rs = sz == -1 ? S - skip : sz;
    int maxs = c->thorough ? MAXS : 64;
    if (rs > maxs) return;
    bool must_accept = skip < S && rs > 0 && skip + rs > 0;
    c->hash = vp_hash_mix(c->hash, 0x500 + s + replace * 8 + mi * 16);
    c->hash = vp_hash_mix(c->hash, ((uint64_t)(uint32_t)skip << 32) | (uint32_t)sz);
    if ((b & 0xf0) == 0xf0) {
        /* a manager with the same planes and another sample size: the samples cannot be copied, the request is refused and the
         * source stays as it is */
        int ss2 = c->ss > 1 ? c->ss / 2 : 2;
        struct ubuf_mgr *mx = ubuf_sound_mem_mgr_alloc(0, 0, c->fm.umem_mgr, ss2, 0);
        for (int p = 0; mx && p < c->np; p++) if (!ubase_check(ubuf_sound_mem_mgr_add_plane(mx, c->chan[p]))) { ubuf_mgr_release(mx); mx = NULL; }
        if (!mx) { c->ret = vp_internal(c->rep, "manager with sample size %d", ss2); return; }
        struct ubuf *before = h->u, *got = NULL; int err = 0;
        if (replace) { err = ubuf_sound_replace(mx, &h->u, skip, sz); got = ubase_check(err) ? h->u : NULL; }
        else got = ubuf_sound_copy(mx, h->u, skip, sz);
        R("  %s(h%d size %d -> manager with sample size %d instead of %d, %d,%d) -> %s\n", replace ? "ubuf_sound_replace" : "ubuf_sound_copy", s, S, ss2, c->ss, skip, sz, got ? "ok" : "refused");
        c->hash = vp_hash_mix(c->hash, 0x5f0);
        if (got != NULL) {
            if (!replace) ubuf_free(got); else { c->grefs[h->group]--; h->u = NULL; ubuf_free(got); }
            ubuf_mgr_release(mx);
            FAIL("C19/refuse/copy-sample-size", "%s of %d samples of %d octets into a manager whose samples have %d octets is accepted", replace ? "ubuf_sound_replace" : "ubuf_sound_copy", S, c->ss, ss2);
            return;
        }
        if (h->u != before) { ubuf_mgr_release(mx); c->ret = vp_internal(c->rep, "replace failed but changed the pointer"); return; }
        ubuf_mgr_release(mx);
        CL(CL_COPY_OTHER_SS);
        verify_all(c, "copy-refused", "copy to a manager with another sample size");
        return;
    }
    struct ubuf *nu = NULL;
    if (replace) { int err = ubuf_sound_replace(c->mg[mi].mgr, &h->u, skip, sz); nu = ubase_check(err) ? h->u : NULL; }
    else nu = ubuf_sound_copy(c->mg[mi].mgr, h->u, skip, sz);
    c->mg[mi].used = true;
    char what[112], lhs[8] = "";
    if (!replace) snprintf(lhs, sizeof lhs, "h%d=", slot);
    snprintf(what, sizeof what, "%sh%d size %d -> mgr%c, %d,%d)", replace ? "ubuf_sound_replace(" : "ubuf_sound_copy(", s, S, 'A' + mi, skip, sz);
    R("  %s%s -> %s\n", lhs, what, nu ? "ok" : "failed");
    if (!nu) {
        if (must_accept) FAIL("C19/domain/copy", "%s fails although the new window [%d,%d) overlaps the %d samples", what, skip, skip + rs, S);
        verify_all(c, "copy-refused", what);
        return;
    }
    if (rs < 0) {       /* cannot happen with a working allocator; no defined meaning */
        CL(CL_OUTDOM);
        if (replace) { c->grefs[h->group]--; h->u = NULL; }
        ubuf_free(nu); return;
    }
    struct hnd old = *h;
    model_window(c, s, slot, S, skip, rs);
    if (replace) c->grefs[old.group]--;
    struct hnd *d = &c->h[slot];
    memset(d, 0, sizeof(*d));
    d->u = nu; d->m = mi; d->size = rs; d->nmoves = old.nmoves;
    d->group = c->ngroups++; c->grefs[d->group] = 1;
    CL(CL_COPY);
    if (skip < 0 || skip + rs > S) CL(CL_COPY_EXT);
    if (skip != 0) { d->nmoves++; if (d->nmoves >= 2) { CL(CL_CHAIN); c->chain = true; } }
    if (!rs) CL(CL_ZERO);
    learn_span(c, d, what);
    if (c->ret) return;
    verify_all(c, replace ? "replace" : "copy", what);
    if (tp_u8(&c->t) & 0x80) { fill(c, d, "copy", what); verify_all(c, "copy", what); }
}

static void op_interleave(struct ctx *c)
{
    int hi = pick_live(c); if (hi < 0) return;
    struct hnd *h = &c->h[hi];
    int S = h->size;
    uint8_t b = tp_u8(&c->t);
    int planes = 1 + (b >> 4) % c->np;
    int off, n;
    switch (b % 8) {
    case 0: off = 0; n = S; break;
    case 1: off = S ? (int)tp_range(&c->t, 0, S) : 0; n = S - off; break;
    case 2: off = S ? (int)tp_range(&c->t, 0, S) : 0; n = S - off ? (int)tp_range(&c->t, 0, S - off) : 0; break;
    case 3: off = 0; n = S + 1; break;
    case 4: off = S; n = 1; break;
    case 5: off = S + 1; n = 0; break;
    case 6: off = S ? (int)tp_range(&c->t, 0, S) : 0; n = S - off + 1; break;
    default: off = S / 2; n = S - off; break;
    }
    bool beyond = n > 0 && off + n > S;
    size_t nb = (size_t)n * c->ss * planes;
    uint8_t *buf = malloc(nb ? nb : 1);        /* exact size: ASan sees a write past the caller's buffer */
    if (!buf) { c->ret = vp_internal(c->rep, "malloc"); return; }
    memset(buf, 0xEE, nb);
    c->hash = vp_hash_mix(c->hash, 0x800 + hi + planes * 8);
    c->hash = vp_hash_mix(c->hash, ((uint64_t)(uint32_t)off << 32) | (uint32_t)n);
    int err = ubuf_sound_interleave(h->u, buf, off, n, c->ss, planes);
    char what[96];
    snprintf(what, sizeof what, "ubuf_sound_interleave(h%d size %d, offset %d, samples %d, planes %d)", hi, S, off, n, planes);
    R("  %s -> %d%s\n", what, err, beyond ? " [must be refused: beyond the end]" : "");
    if (beyond) {
        if (ubase_check(err)) FAIL("C19/refuse/interleave-beyond-end", "%s is accepted although [%d,%d) exceeds the %d samples", what, off, off + n, S);
        else CL(CL_ILV_REFUSED);
    } else if (!ubase_check(err)) {
        if (n > 0 && off <= S) FAIL("C19/domain/interleave", "%s fails (error %d) inside the buffer", what, err);
    } else if (off + n <= S) {
        CL(CL_ILV_OK);
        for (int i = 0; i < n && !c->ret; i++)
            for (int p = 0; p < planes && !c->ret; p++)
                for (int k = 0; k < c->ss; k++) {
                    size_t mi = (size_t)(off + i) * c->ss + k;
                    uint8_t got = buf[((size_t)i * planes + p) * c->ss + k];
                    if (g_known[hi][p][mi] && g_val[hi][p][mi] != got) {
                        FAIL("C19/content/interleave", "%s: output sample %d plane %s octet %d is %02x, the plane holds %02x there", what, i, c->chan[p], k, got, g_val[hi][p][mi]);
                        break;
                    }
                    if (!g_known[hi][p][mi]) { g_val[hi][p][mi] = got; g_known[hi][p][mi] = 1; }
                }
    }
    free(buf);
    verify_all(c, "interleave", what);
}

static int run(const uint8_t *tp_, size_t len, struct vp_report *rep, unsigned flags)
{
    static struct ctx ctx;
    struct ctx *c = &ctx;
    memset(c, 0, sizeof(*c));
    tp_init(&c->t, tp_, len);
    c->rep = rep; c->render = flags & VP_RENDER; c->thorough = flags & VP_THOROUGH; c->hash = VP_HASH_INIT;
    if (fix_mem_init(&c->fm, 0, 0, 0) != 0) return vp_internal(rep, "fixture init");

    uint8_t b = tp_u8(&c->t);
    c->ss = 1 + b % MAXSS; c->np = 1 + (b / MAXSS) % MAXP;
    for (int p = 0; p < c->np; p++) c->chan[p] = chan_names[p];
    if (c->np == 1 && (b & 0x40)) c->chan[0] = "lr";
    if (c->ss > 1) CL(CL_SS);
    if (c->np > 1) CL(CL_PLANES);
    c->hash = vp_hash_mix(c->hash, b);
    R("C19 sound: sample_size=%d planes=%d\n", c->ss, c->np);
    build_mgr(c, 0, NULL);
    if (!c->ret) { uint8_t bsel = tp_u8(&c->t); build_mgr(c, 1, bsel == 0 ? &c->mg[0] : NULL); }

    int nops = 0;
    while (!c->ret && nops < MAXOPS && (!tp_done(&c->t) || nops == 0)) {
        nops++;
        uint8_t op = tp_u8(&c->t) % 16;
        if (!any_live(c)) op = 0;
        switch (op) {
        case 0: op_alloc(c); break;
        case 1: case 2: case 3: op_resize(c); break;
        case 4: case 5: case 6: op_map(c, false); break;
        case 7: case 8: op_map(c, true); break;
        case 9: op_dup(c); break;
        case 10: case 11: op_copy(c, false); break;
        case 12: op_copy(c, true); break;
        case 13: op_interleave(c); break;
        case 14: { int a = pick_live(c); if (a >= 0) { R("  free(h%d)\n", a); c->hash = vp_hash_mix(c->hash, 0x600 + a); drop(c, &c->h[a]); verify_all(c, "free", "free"); } break; }
        default: { int a = pick_live(c); if (a >= 0 && single(c, &c->h[a])) { char w[24]; snprintf(w, sizeof w, "fill(h%d)", a); R("  %s\n", w); c->hash = vp_hash_mix(c->hash, 0x700 + a); fill(c, &c->h[a], "fill", w); verify_all(c, "fill", w); } break; }
        }
    }
    for (int i = 0; i < MAXH; i++) drop(c, &c->h[i]);
    for (int i = 0; i < 2; i++) if (c->mg[i].mgr) {
        if (!urefcount_single(c->mg[i].mgr->refcount) && !c->ret) c->ret = vp_internal(rep, "sound manager %c still referenced at the end of the case", 'A' + i);
        ubuf_mgr_release(c->mg[i].mgr);
    }
    const char *leak = fix_mem_clean(&c->fm);
    if (leak && !c->ret) c->ret = vp_internal(rep, "memory audit: %s", leak);
    if (c->mg[0].used && c->mg[1].used) CL(CL_TWO_MGR);
    rep->case_hash = c->hash;
    rep->classes = c->cl;
    rep->nontrivial = (c->ss > 1 || c->np > 1) && c->chain;
    return c->ret;
}

const struct vp_executor vp_executor = { "C19", "sound", 140, class_names, run, NULL };

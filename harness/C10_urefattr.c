/* C10 — attribute dictionaries behave as typed key-value maps.
 * Executor "urefattr": the same property observed where pipes use it — through the accessor
 * functions that include/upipe/uref_attr.h generates (the real uref_flow.h, uref_pic.h,
 * uref_pic_flow.h, uref_clock.h, uref_event.h, uref_block_flow.h, plus accessors declared here
 * with the same macros for the remaining types and for names that are prefixes of one another or
 * equal a shorthand's name), uref_dup, uref_attr_import, per-attribute copy and cmp, over <= 4 urefs.
 *
 * Oracle: per uref a map accessor -> value octets (the harness' own representation).
 *   get     present => exact value; absent (or no dictionary yet) => error
 *   delete  present => success; absent => error and nothing changes
 *   copy    "copies the attribute from an uref to another": afterwards dst[k] == src[k], absent if src lacks it
 *   cmp     "@return 0 if both attributes are absent or identical" — and therefore non-zero otherwise
 *           (every caller tests it as "changed?"); float compared numerically, NaN operands not judged
 *   import  right-biased union; with a source without dictionary nothing changes
 *   dup     independent copy (flags included)
 *   iteration of uref->udict visits every present dictionary attribute exactly once
 * Flag attributes (UREF_ATTR_VOID_UREF) live in uref->flags: get/set/delete/copy/dup only.
 *
 * Second family of operations (op octets 96..159, see NEWOPS; every other octet decodes as before, and so do all recorded tapes):
 *   match        uref_<group>_match_<attr>(): "compares the attribute to a given prefix" / "to given values (min, max)",
 *                "@return an error code": UBASE_ERR_NONE iff the attribute is present and the stored string starts with the
 *                prefix / min <= value <= max; any error otherwise (the body returns the get error when absent,
 *                UBASE_ERR_INVALID when out of range; every caller writes UBASE_RETURN(match)) — only "ok / not ok" is judged
 *   copy_list    uref_attr_copy_list == the listed copy functions applied in order, stopping at the first one that returns
 *                an error, whose code is returned (generated copy functions never fail here; the list also holds "strict"
 *                copies written in this file that refuse an absent source, as a caller may write them)
 *   delete_list  likewise with the generated delete functions (an absent attribute is the first error)
 *   from_hex     uref_attr_set_opaque_from_hex[_va] and the generated uref_<group>_set_<attr>_from_hex: an even number of
 *                hexadecimal digits of either case (or none) == set_opaque of the decoded octets. Anything else (odd number
 *                of digits, other characters) is not documented: accepted are "error and nothing changed" or "success and
 *                the attribute then reads back consistently" (the model follows the value read back)
 *   set_va       uref_<group>_set_<attr>_va / uref_flow_set_def_va == set of the formatted string (the expected string is
 *                assembled here by hand, not with printf)
 *   priv         UREF_ATTR_UNSIGNED_UREF(attr, priv): a member of struct uref, absent iff UINT64_MAX (so set(UINT64_MAX)
 *                reads back absent); get/set/delete/copy/cmp/match as for a dictionary attribute, uref_dup/fork copy it
 *   fork         "duplicates a uref and attaches a new ubuf to the copy": attributes, flags and priv as uref_dup,
 *                copy->ubuf == the ubuf passed, the source keeps its own
 *   sibling      "allocates and initializes a new uref, allocated with a manager from an existing uref": no attribute,
 *                no flag, same manager, source untouched; _control: "with extra attributes space" => has a dictionary
 *   attach/detach_ubuf  change uref->ubuf only: every attribute of every uref reads as before; detach returns the
 *                ubuf that was attached */
#include "vp.h"
#include "tape.h"
#include "umem_count.h"
#include "upipe/ubase.h"
#include "upipe/udict.h"
#include "upipe/udict_inline.h"
#include "upipe/uref.h"
#include "upipe/uref_std.h"
#include "upipe/uref_attr.h"
#include "upipe/uref_flow.h"
#include "upipe/uref_pic.h"
#include "upipe/uref_pic_flow.h"
#include "upipe/uref_clock.h"
#include "upipe/uref_event.h"
#include "upipe/uref_block_flow.h"
#include "upipe/ubuf.h"
#include "upipe/ubuf_block.h"
#include "upipe/ubuf_block_mem.h"
#include "upipe/ubuf_mem.h"
#include "upipe/uref_sound_flow.h"
#include <stdlib.h>
#include <stdio.h>
#include <inttypes.h>
#include <math.h>
#ifdef UREFATTR_AS_C01
/* The same generated histories serve C01 at uref level ("each uref, buffer, dictionary ... is destroyed exactly once ... nothing
 * remains allocated"): only the memory oracles are reported (ASan, the end-of-case audit of the four managers and of the counting
 * umem), and in a share of the cases an allocation inside an operation is refused (engine/faultmalloc.h): the operation may fail,
 * but what it had built must be given back exactly once. */
#endif
/* allocation fault injection (engine/faultmalloc.h, force-included): the twin refuses allocations inside any operation; the C10
 * executor proper only inside uref_dup (a duplicate that is returned holds the attributes of its original) */
#include "faultmalloc.h"
#undef malloc
#undef calloc
#undef realloc

/* accessors declared by the harness with the repository's macros */
UREF_ATTR_STRING(vt, s_a, "v.a", test string)
UREF_ATTR_STRING(vt, s_ab, "v.ab", test string)
UREF_ATTR_STRING(vt, s_abc, "v.abc", test string)
UREF_ATTR_OPAQUE(vt, o_a, "v.a", test opaque)
UREF_ATTR_OPAQUE(vt, o_ab, "v.ab", test opaque)
UREF_ATTR_VOID(vt, v_a, "v.a", test void)
UREF_ATTR_BOOL(vt, b_a, "v.a", test bool)
UREF_ATTR_SMALL_UNSIGNED(vt, su_a, "v.a", test small unsigned)
UREF_ATTR_UNSIGNED(vt, u_a, "v.a", test unsigned)
UREF_ATTR_UNSIGNED(vt, u_ab, "v.ab", test unsigned)
UREF_ATTR_INT(vt, i_a, "v.a", test int)
UREF_ATTR_FLOAT(vt, f_a, "v.a", test float)
UREF_ATTR_FLOAT(vt, f_ab, "v.ab", test float)
UREF_ATTR_RATIONAL(vt, r_a, "v.a", test rational)
UREF_ATTR_STRING(vt, n_fdef, "f.def", named attribute with the name of a string shorthand)
UREF_ATTR_UNSIGNED(vt, n_fid, "f.id", named attribute with the name of an unsigned shorthand)
UREF_ATTR_OPAQUE(vt, n_cea, "p.cea_708", named attribute with the name of an opaque shorthand)
UREF_ATTR_VOID(vt, n_ferror, "f.error", named attribute with the name of a void shorthand)
UREF_ATTR_OPAQUE_VA(vt, o_n, "v.o[%u]", test opaque, unsigned nb, nb)
UREF_ATTR_INT_VA(vt, i_n, "v.i[%u]", test int, unsigned nb, nb)
UREF_ATTR_FLOAT_VA(vt, f_n, "v.f[%u]", test float, unsigned nb, nb)
UREF_ATTR_RATIONAL_VA(vt, r_n, "v.r[%u]", test rational, unsigned nb, nb)

#define MAXU 4
#define MAXOPS 64
#define NBASE 10

enum { CL_REPL_DIFF, CL_REPL_SAME, CL_DEL_NOTLAST, CL_DEL_ABSENT, CL_GREW, CL_ALIAS, CL_SH, CL_VA, CL_NAMED_SHNAME, CL_PREFIX,
       CL_TYPECONF, CL_NODICT, CL_CONTROL, CL_DUP, CL_DUP_THEN_MUT, CL_IMPORT_NULL_DST, CL_IMPORT_NULL_SRC, CL_IMPORT_OVER,
       CL_COPY_PRESENT, CL_COPY_ABSENT_CLEARS, CL_CMP_BOTH_ABSENT, CL_CMP_ONE_ABSENT, CL_CMP_EQUAL, CL_CMP_DIFFER,
       CL_CMP_DIFF_2_32, CL_CMP_FLOAT_LT1, CL_FLAG, CL_UDICT_CMP_EQ, CL_UDICT_CMP_NE, CL_NEG_INT, CL_FLOAT_SPECIAL, CL_POOL,
       /* second family */
       CL_M_STR_HIT, CL_M_STR_WHOLE, CL_M_STR_EMPTY, CL_M_STR_LAST_DIFF, CL_M_STR_LONGER, CL_M_ABSENT,
       CL_M_NUM_HIT, CL_M_NUM_AT_MIN, CL_M_NUM_AT_MAX, CL_M_NUM_BELOW, CL_M_NUM_ABOVE, CL_M_NUM_INVERTED, CL_M_NUM_WIDE,
       CL_CL_ALL, CL_CL_STOP, CL_DL_ALL, CL_DL_STOP,
       CL_HEX_OK, CL_HEX_EMPTY, CL_HEX_ODD, CL_HEX_BAD_REFUSED, CL_HEX_BAD_TAKEN, CL_HEX_VA,
       CL_SETVA, CL_SETDEFVA, CL_PRIV, CL_BOOLVA, CL_FORK, CL_SIBLING, CL_SIBLING_CONTROL, CL_ATTACH, CL_DETACH, CL_NCLASSES };
/* (all 64 class bits are taken: the C01 twin reports refused allocations in the place of a class it has no use for) */
#define CL_FAULT CL_IMPORT_NULL_SRC
#define CL_MGR_FROM_DEF CL_CMP_FLOAT_LT1
#ifdef UREFATTR_AS_C01
#define CLS_C10(x) do { } while (0)
#else
#define CLS_C10(x) CLS(x)
#endif
#define CL_MGR_INCOMPLETE_DEF CL_CMP_DIFF_2_32
static const char *const class_names[] = {
    "replace_var_different_size", "replace_var_same_size", "delete_not_last", "delete_absent_refused", "storage_grew",
    "alias_source", "shorthand_accessor", "printf_named_accessor", "named_with_shorthand_name", "prefix_names_same_type",
    "same_name_two_types", "access_without_dictionary", "uref_alloc_control", "uref_dup", "mutation_after_dup",
    "import_into_uref_without_dict", "import_from_uref_without_dict", "import_overwrites", "attr_copy_present",
    "attr_copy_absent_clears_dst", "attr_cmp_both_absent", "attr_cmp_one_absent", "attr_cmp_identical", "attr_cmp_different",
    "attr_cmp_int_differ_by_multiple_of_2_32", "attr_cmp_float_differ_by_less_than_1", "flag_attribute",
    "udict_cmp_equal", "udict_cmp_differ", "negative_int_or_rational", "float_special", "pool_depth_gt0",
    "match_string_proper_prefix_hit", "match_string_whole_value", "match_string_empty_prefix", "match_string_prefix_differs_in_last_char",
    "match_string_prefix_longer_than_value", "match_absent_attribute",
    "match_number_hit", "match_number_value_eq_min", "match_number_value_eq_max", "match_number_value_eq_min_minus_1",
    "match_number_value_eq_max_plus_1", "match_number_min_gt_max", "match_unsigned_bound_above_255_on_va_or_member_accessor",
    "copy_list_all_applied", "copy_list_stopped_at_error", "delete_list_all_applied", "delete_list_stopped_at_error",
    "from_hex_well_formed", "from_hex_empty_string", "from_hex_odd_digits", "from_hex_malformed_refused", "from_hex_malformed_accepted",
    "from_hex_va",
    "set_string_va", "flow_set_def_va", "priv_member_attribute", "bool_va_accessors", "uref_fork", "uref_sibling_alloc",
    "uref_sibling_alloc_control", "uref_attach_ubuf", "uref_detach_ubuf", NULL };
static const char *const base_str[NBASE + 1] = { "flag", "opaque", "string", "void", "bool", "small_unsigned", "small_int",
                                                 "unsigned", "int", "rational", "float" };

typedef int (*get_f)(struct uref *, uint8_t *got, const uint8_t **gp, size_t *gn);
typedef int (*set_f)(struct uref *, const uint8_t *v, size_t n);
typedef int (*del_f)(struct uref *);
typedef int (*copy_f)(struct uref *, struct uref *);
typedef int (*cmp_f)(struct uref *, struct uref *);
typedef int (*match_f)(struct uref *, const uint8_t *x, const uint8_t *y);   /* string: x = prefix; numbers: x = min, y = max */
#define NO_ACCESSOR (-1000)

#define W_COMMON(id, g, a, ...) \
static int id##_del(struct uref *u) { return uref_##g##_delete_##a(u, ##__VA_ARGS__); } \
static int id##_copy(struct uref *d, struct uref *s) { return uref_##g##_copy_##a(d, s, ##__VA_ARGS__); }
#define W_CMP(id, g, a, ...) \
static int id##_cmp(struct uref *x, struct uref *y) { return uref_##g##_cmp_##a(x, y, ##__VA_ARGS__); }

#define W_NOMATCH(id) static int id##_match(struct uref *u, const uint8_t *x_, const uint8_t *y_) { return NO_ACCESSOR; }
#define W_OPAQUE(id, g, a, ...) W_COMMON(id, g, a, ##__VA_ARGS__) W_NOMATCH(id) \
static int id##_get(struct uref *u, uint8_t *got, const uint8_t **gp, size_t *gn) { const uint8_t *p = NULL; size_t n = 0; \
    int e = uref_##g##_get_##a(u, &p, &n, ##__VA_ARGS__); if (ubase_check(e)) { *gp = p; *gn = n; } return e; } \
static int id##_set(struct uref *u, const uint8_t *v, size_t n) { return uref_##g##_set_##a(u, v, n, ##__VA_ARGS__); }
#define W_STRING(id, g, a, ...) W_COMMON(id, g, a, ##__VA_ARGS__) W_CMP(id, g, a, ##__VA_ARGS__) \
static int id##_match(struct uref *u, const uint8_t *x_, const uint8_t *y_) { return uref_##g##_match_##a(u, (const char *)x_, ##__VA_ARGS__); } \
static int id##_get(struct uref *u, uint8_t *got, const uint8_t **gp, size_t *gn) { const char *s = NULL; \
    int e = uref_##g##_get_##a(u, &s, ##__VA_ARGS__); if (ubase_check(e) && s) { *gp = (const uint8_t *)s; *gn = strlen(s) + 1; } return e; } \
static int id##_set(struct uref *u, const uint8_t *v, size_t n) { return uref_##g##_set_##a(u, (const char *)v, ##__VA_ARGS__); }
#define W_VOID(id, g, a, ...) W_COMMON(id, g, a, ##__VA_ARGS__) W_CMP(id, g, a, ##__VA_ARGS__) W_NOMATCH(id) \
static int id##_get(struct uref *u, uint8_t *got, const uint8_t **gp, size_t *gn) { *gn = 0; return uref_##g##_get_##a(u, ##__VA_ARGS__); } \
static int id##_set(struct uref *u, const uint8_t *v, size_t n) { return uref_##g##_set_##a(u, ##__VA_ARGS__); }
#define W_BOOL(id, g, a, ...) W_COMMON(id, g, a, ##__VA_ARGS__) W_CMP(id, g, a, ##__VA_ARGS__) W_NOMATCH(id) \
static int id##_get(struct uref *u, uint8_t *got, const uint8_t **gp, size_t *gn) { bool b = false; int e = uref_##g##_get_##a(u, &b, ##__VA_ARGS__); got[0] = b; *gn = 1; return e; } \
static int id##_set(struct uref *u, const uint8_t *v, size_t n) { return uref_##g##_set_##a(u, v[0] != 0, ##__VA_ARGS__); }
#define W_SMALLU(id, g, a, ...) W_COMMON(id, g, a, ##__VA_ARGS__) W_CMP(id, g, a, ##__VA_ARGS__) \
static int id##_match(struct uref *u, const uint8_t *x_, const uint8_t *y_) { return uref_##g##_match_##a(u, x_[0], y_[0], ##__VA_ARGS__); } \
static int id##_get(struct uref *u, uint8_t *got, const uint8_t **gp, size_t *gn) { uint8_t b = 0; int e = uref_##g##_get_##a(u, &b, ##__VA_ARGS__); got[0] = b; *gn = 1; return e; } \
static int id##_set(struct uref *u, const uint8_t *v, size_t n) { return uref_##g##_set_##a(u, v[0], ##__VA_ARGS__); }
#define W_UNSIGNED(id, g, a, ...) W_COMMON(id, g, a, ##__VA_ARGS__) W_CMP(id, g, a, ##__VA_ARGS__) \
static int id##_match(struct uref *u, const uint8_t *x_, const uint8_t *y_) { uint64_t mi, ma; memcpy(&mi, x_, 8); memcpy(&ma, y_, 8); \
    return uref_##g##_match_##a(u, mi, ma, ##__VA_ARGS__); } \
static int id##_get(struct uref *u, uint8_t *got, const uint8_t **gp, size_t *gn) { uint64_t x = 0; int e = uref_##g##_get_##a(u, &x, ##__VA_ARGS__); memcpy(got, &x, 8); *gn = 8; return e; } \
static int id##_set(struct uref *u, const uint8_t *v, size_t n) { uint64_t x; memcpy(&x, v, 8); return uref_##g##_set_##a(u, x, ##__VA_ARGS__); }
#define W_INT(id, g, a, ...) W_COMMON(id, g, a, ##__VA_ARGS__) W_CMP(id, g, a, ##__VA_ARGS__) W_NOMATCH(id) \
static int id##_get(struct uref *u, uint8_t *got, const uint8_t **gp, size_t *gn) { int64_t x = 0; int e = uref_##g##_get_##a(u, &x, ##__VA_ARGS__); memcpy(got, &x, 8); *gn = 8; return e; } \
static int id##_set(struct uref *u, const uint8_t *v, size_t n) { int64_t x; memcpy(&x, v, 8); return uref_##g##_set_##a(u, x, ##__VA_ARGS__); }
#define W_FLOAT_(id, g, a, ...) W_COMMON(id, g, a, ##__VA_ARGS__) W_NOMATCH(id) \
static int id##_get(struct uref *u, uint8_t *got, const uint8_t **gp, size_t *gn) { double x = 0; int e = uref_##g##_get_##a(u, &x, ##__VA_ARGS__); memcpy(got, &x, 8); *gn = 8; return e; } \
static int id##_set(struct uref *u, const uint8_t *v, size_t n) { double x; memcpy(&x, v, 8); return uref_##g##_set_##a(u, x, ##__VA_ARGS__); }
#define W_FLOAT(id, g, a, ...) W_FLOAT_(id, g, a, ##__VA_ARGS__) W_CMP(id, g, a, ##__VA_ARGS__)
#define W_RATIONAL(id, g, a, ...) W_COMMON(id, g, a, ##__VA_ARGS__) W_NOMATCH(id) \
static int id##_get(struct uref *u, uint8_t *got, const uint8_t **gp, size_t *gn) { struct urational r; r.num = 0; r.den = 0; \
    int e = uref_##g##_get_##a(u, &r, ##__VA_ARGS__); memcpy(got, &r.num, 8); memcpy(got + 8, &r.den, 8); *gn = 16; return e; } \
static int id##_set(struct uref *u, const uint8_t *v, size_t n) { struct urational r; memcpy(&r.num, v, 8); memcpy(&r.den, v + 8, 8); return uref_##g##_set_##a(u, r, ##__VA_ARGS__); }
#define W_FLAG(id, g, a) W_NOMATCH(id) \
static int id##_get(struct uref *u, uint8_t *got, const uint8_t **gp, size_t *gn) { *gn = 0; return uref_##g##_get_##a(u); } \
static int id##_set(struct uref *u, const uint8_t *v, size_t n) { uref_##g##_set_##a(u); return UBASE_ERR_NONE; } \
static int id##_del(struct uref *u) { uref_##g##_delete_##a(u); return UBASE_ERR_NONE; } \
static int id##_copy(struct uref *d, struct uref *s) { uref_##g##_copy_##a(d, s); return UBASE_ERR_NONE; }
/* the generic template accessors (no specialised macro exists for small_int) */
static int g_si_get(struct uref *u, uint8_t *got, const uint8_t **gp, size_t *gn) { int8_t x = 0; int e = uref_attr_get_small_int(u, &x, UDICT_TYPE_SMALL_INT, "v.a"); got[0] = (uint8_t)x; *gn = 1; return e; }
static int g_si_set(struct uref *u, const uint8_t *v, size_t n) { return uref_attr_set_small_int(u, (int8_t)v[0], UDICT_TYPE_SMALL_INT, "v.a"); }
static int g_si_del(struct uref *u) { return uref_attr_delete(u, UDICT_TYPE_SMALL_INT, "v.a"); }
static int g_si_copy(struct uref *d, struct uref *s) { return uref_attr_copy_small_int(d, s, UDICT_TYPE_SMALL_INT, "v.a"); }
static int g_si2_get(struct uref *u, uint8_t *got, const uint8_t **gp, size_t *gn) { int8_t x = 0; int e = uref_attr_get_small_int_va(u, &x, UDICT_TYPE_SMALL_INT, "v.%s", "ab"); got[0] = (uint8_t)x; *gn = 1; return e; }
static int g_si2_set(struct uref *u, const uint8_t *v, size_t n) { return uref_attr_set_small_int_va(u, (int8_t)v[0], UDICT_TYPE_SMALL_INT, "v.%s", "ab"); }
static int g_si2_del(struct uref *u) { return uref_attr_delete_va(u, UDICT_TYPE_SMALL_INT, "v.%s", "ab"); }
static int g_si2_copy(struct uref *d, struct uref *s) { return uref_attr_copy_small_int_va(d, s, UDICT_TYPE_SMALL_INT, "v.%s", "ab"); }
W_NOMATCH(g_si) W_NOMATCH(g_si2)
/* bool through the generic printf-named template functions (no UREF_ATTR_BOOL_VA macro exists) */
static int g_b2_get(struct uref *u, uint8_t *got, const uint8_t **gp, size_t *gn) { bool b = false; int e = uref_attr_get_bool_va(u, &b, UDICT_TYPE_BOOL, "v.%s", "ab"); got[0] = b; *gn = 1; return e; }
static int g_b2_set(struct uref *u, const uint8_t *v, size_t n) { return uref_attr_set_bool_va(u, v[0] != 0, UDICT_TYPE_BOOL, "v.%s", "ab"); }
static int g_b2_del(struct uref *u) { return uref_attr_delete_va(u, UDICT_TYPE_BOOL, "v.%s", "ab"); }
static int g_b2_copy(struct uref *d, struct uref *s) { return uref_attr_copy_bool_va(d, s, UDICT_TYPE_BOOL, "v.%s", "ab"); }
W_NOMATCH(g_b2)
/* the "private" attribute: UREF_ATTR_UNSIGNED_UREF(attr, priv, priv, ...) at the end of uref_attr.h, a member of struct uref */
static int attr_priv_get(struct uref *u, uint8_t *got, const uint8_t **gp, size_t *gn) { uint64_t x = 0; int e = uref_attr_get_priv(u, &x); memcpy(got, &x, 8); *gn = 8; return e; }
static int attr_priv_set(struct uref *u, const uint8_t *v, size_t n) { uint64_t x; memcpy(&x, v, 8); uref_attr_set_priv(u, x); return UBASE_ERR_NONE; }
static int attr_priv_del(struct uref *u) { uref_attr_delete_priv(u); return UBASE_ERR_NONE; }
static int attr_priv_copy(struct uref *d, struct uref *s) { uref_attr_copy_priv(d, s); return UBASE_ERR_NONE; }
static int attr_priv_cmp(struct uref *x, struct uref *y) { return uref_attr_cmp_priv(x, y); }
static int attr_priv_match(struct uref *u, const uint8_t *x_, const uint8_t *y_) { uint64_t mi, ma; memcpy(&mi, x_, 8); memcpy(&ma, y_, 8); return uref_attr_match_priv(u, mi, ma); }

/* ---- wrappers: real headers */
W_FLAG(fl_end, flow, end) W_FLAG(fl_disc, flow, discontinuity) W_FLAG(fl_random, flow, random) W_FLAG(fl_ref, clock, ref)
W_VOID(flow_error, flow, error) W_STRING(flow_def, flow, def) W_VOID(flow_complete, flow, complete) W_UNSIGNED(flow_id, flow, id)
W_STRING(flow_raw_def, flow, raw_def) W_SMALLU(flow_languages, flow, languages)
W_STRING(flow_language_0, flow, language, 0) W_STRING(flow_language_1, flow, language, 1) W_STRING(flow_language_10, flow, language, 10)
W_VOID(flow_himp_1, flow, hearing_impaired, 1) W_VOID(flow_himp_10, flow, hearing_impaired, 10)
W_VOID(flow_lowdelay, flow, lowdelay) W_OPAQUE(flow_headers, flow, headers) W_STRING(flow_name, flow, name) W_STRING(flow_role, flow, role)
W_UNSIGNED(clock_duration, clock, duration) W_RATIONAL(clock_rate, clock, rate) W_UNSIGNED(clock_latency, clock, latency)
W_UNSIGNED(clock_wrap, clock, wrap) W_SMALLU(clock_index_rap, clock, index_rap)
W_UNSIGNED(event_events, event, events) W_UNSIGNED(event_id_1, event, id, 1) W_UNSIGNED(event_id_big, event, id, UINT64_MAX)
W_STRING(event_name_1, event, name, 1)
W_UNSIGNED(pic_number, pic, number) W_VOID(pic_key, pic, key) W_UNSIGNED(pic_hposition, pic, hposition) W_UNSIGNED(pic_vposition, pic, vposition)
W_UNSIGNED(pic_lpadding, pic, lpadding) W_UNSIGNED(pic_rpadding, pic, rpadding) W_UNSIGNED(pic_tpadding, pic, tpadding)
W_UNSIGNED(pic_bpadding, pic, bpadding) W_VOID(pic_progressive, pic, progressive) W_VOID(pic_tf, pic, tf) W_VOID(pic_bf, pic, bf)
W_VOID(pic_tff, pic, tff) W_SMALLU(pic_afd, pic, afd) W_OPAQUE(pic_cea_708, pic, cea_708) W_OPAQUE(pic_bar_data, pic, bar_data)
W_RATIONAL(pic_flow_sar, pic_flow, sar) W_BOOL(pic_flow_overscan, pic_flow, overscan) W_UNSIGNED(pic_flow_hsize, pic_flow, hsize)
W_UNSIGNED(pic_flow_vsize, pic_flow, vsize) W_UNSIGNED(pic_flow_hsize_visible, pic_flow, hsize_visible)
W_UNSIGNED(pic_flow_vsize_visible, pic_flow, vsize_visible) W_STRING(pic_flow_video_format, pic_flow, video_format)
W_VOID(pic_flow_full_range, pic_flow, full_range) W_STRING(pic_flow_colour_primaries, pic_flow, colour_primaries)
W_STRING(pic_flow_transfer_characteristics, pic_flow, transfer_characteristics) W_STRING(pic_flow_matrix_coefficients, pic_flow, matrix_coefficients)
W_SMALLU(pic_flow_afd, pic_flow, afd) W_SMALLU(pic_flow_hsub_0, pic_flow, hsubsampling, 0) W_SMALLU(pic_flow_hsub_1, pic_flow, hsubsampling, 1)
W_STRING(pic_flow_chroma_0, pic_flow, chroma, 0) W_RATIONAL(pic_flow_fps, pic_flow, fps) W_INT(pic_flow_align_hmoffset, pic_flow, align_hmoffset)
W_OPAQUE(pic_flow_bar, pic_flow, bar) W_UNSIGNED(pic_flow_align, pic_flow, align)
W_UNSIGNED(block_flow_octetrate, block_flow, octetrate) W_INT(block_flow_align_offset, block_flow, align_offset)
/* ---- wrappers: harness-declared */
W_STRING(vt_s_a, vt, s_a) W_STRING(vt_s_ab, vt, s_ab) W_STRING(vt_s_abc, vt, s_abc) W_OPAQUE(vt_o_a, vt, o_a) W_OPAQUE(vt_o_ab, vt, o_ab)
W_VOID(vt_v_a, vt, v_a) W_BOOL(vt_b_a, vt, b_a) W_SMALLU(vt_su_a, vt, su_a) W_UNSIGNED(vt_u_a, vt, u_a) W_UNSIGNED(vt_u_ab, vt, u_ab)
W_INT(vt_i_a, vt, i_a) W_FLOAT(vt_f_a, vt, f_a) W_FLOAT(vt_f_ab, vt, f_ab) W_RATIONAL(vt_r_a, vt, r_a)
W_STRING(vt_n_fdef, vt, n_fdef) W_UNSIGNED(vt_n_fid, vt, n_fid) W_OPAQUE(vt_n_cea, vt, n_cea) W_VOID(vt_n_ferror, vt, n_ferror)
W_OPAQUE(vt_o_1, vt, o_n, 1) W_OPAQUE(vt_o_10, vt, o_n, 10) W_INT(vt_i_1, vt, i_n, 1) W_INT(vt_i_10, vt, i_n, 10)
W_FLOAT_(vt_f_1, vt, f_n, 1) W_RATIONAL(vt_r_1, vt, r_n, 1)

struct acc {
    const char *label; int base; enum udict_type type; const char *name;
    get_f get; set_f set; del_f del; copy_f copy; cmp_f cmp; match_f match;
    bool member;                      /* stored in a member of struct uref (priv), not in the dictionary */
};
#define E(id, base, type, name) { #id, base, type, name, id##_get, id##_set, id##_del, id##_copy, id##_cmp, id##_match, false }
#define EN(id, base, type, name) { #id, base, type, name, id##_get, id##_set, id##_del, id##_copy, NULL, id##_match, false }
#define T_O UDICT_TYPE_OPAQUE
#define T_S UDICT_TYPE_STRING
#define T_V UDICT_TYPE_VOID
#define T_B UDICT_TYPE_BOOL
#define T_SU UDICT_TYPE_SMALL_UNSIGNED
#define T_SI UDICT_TYPE_SMALL_INT
#define T_U UDICT_TYPE_UNSIGNED
#define T_I UDICT_TYPE_INT
#define T_R UDICT_TYPE_RATIONAL
#define T_F UDICT_TYPE_FLOAT
/* neighbours in this table are related: same name with another type, or names that are prefixes */
static const struct acc accs[] = {
    EN(fl_end, 0, UDICT_TYPE_END, NULL), EN(fl_disc, 0, UDICT_TYPE_END, NULL), EN(fl_random, 0, UDICT_TYPE_END, NULL), EN(fl_ref, 0, UDICT_TYPE_END, NULL),
    E(vt_s_a, T_S, T_S, "v.a"), E(vt_s_ab, T_S, T_S, "v.ab"), E(vt_s_abc, T_S, T_S, "v.abc"),
    EN(vt_o_a, T_O, T_O, "v.a"), EN(vt_o_ab, T_O, T_O, "v.ab"), E(vt_v_a, T_V, T_V, "v.a"), E(vt_b_a, T_B, T_B, "v.a"),
    E(vt_su_a, T_SU, T_SU, "v.a"), EN(g_si, T_SI, T_SI, "v.a"), EN(g_si2, T_SI, T_SI, "v.ab"), E(vt_u_a, T_U, T_U, "v.a"), E(vt_u_ab, T_U, T_U, "v.ab"),
    E(vt_i_a, T_I, T_I, "v.a"), E(vt_f_a, T_F, T_F, "v.a"), E(vt_f_ab, T_F, T_F, "v.ab"), EN(vt_r_a, T_R, T_R, "v.a"),
    EN(vt_o_1, T_O, T_O, "v.o[1]"), EN(vt_o_10, T_O, T_O, "v.o[10]"), E(vt_i_1, T_I, T_I, "v.i[1]"), E(vt_i_10, T_I, T_I, "v.i[10]"),
    EN(vt_f_1, T_F, T_F, "v.f[1]"), EN(vt_r_1, T_R, T_R, "v.r[1]"),
    E(vt_n_fdef, T_S, T_S, "f.def"), E(flow_def, T_S, UDICT_TYPE_FLOW_DEF, NULL), E(flow_raw_def, T_S, UDICT_TYPE_FLOW_RAWDEF, NULL),
    E(vt_n_fid, T_U, T_U, "f.id"), E(flow_id, T_U, UDICT_TYPE_FLOW_ID, NULL),
    EN(vt_n_cea, T_O, T_O, "p.cea_708"), EN(pic_cea_708, T_O, UDICT_TYPE_PIC_CEA_708, NULL), EN(pic_bar_data, T_O, UDICT_TYPE_PIC_BAR_DATA, NULL),
    E(vt_n_ferror, T_V, T_V, "f.error"), E(flow_error, T_V, UDICT_TYPE_FLOW_ERROR, NULL),
    E(pic_flow_afd, T_SU, T_SU, "p.afd"), E(pic_afd, T_SU, UDICT_TYPE_PIC_AFD, NULL),
    E(flow_complete, T_V, T_V, "f.comp"), E(flow_languages, T_SU, UDICT_TYPE_FLOW_LANGUAGES, NULL),
    E(flow_language_0, T_S, T_S, "f.lang[0]"), E(flow_language_1, T_S, T_S, "f.lang[1]"), E(flow_language_10, T_S, T_S, "f.lang[10]"),
    E(flow_himp_1, T_V, T_V, "f.himp[1]"), E(flow_himp_10, T_V, T_V, "f.himp[10]"), E(flow_lowdelay, T_V, T_V, "f.lowdelay"),
    EN(flow_headers, T_O, T_O, "f.headers"), E(flow_name, T_S, T_S, "f.name"), E(flow_role, T_S, T_S, "f.role"),
    E(clock_duration, T_U, UDICT_TYPE_CLOCK_DURATION, NULL), EN(clock_rate, T_R, UDICT_TYPE_CLOCK_RATE, NULL),
    E(clock_latency, T_U, UDICT_TYPE_CLOCK_LATENCY, NULL), E(clock_wrap, T_U, UDICT_TYPE_CLOCK_WRAP, NULL), E(clock_index_rap, T_SU, T_SU, "k.index_rap"),
    E(event_events, T_U, UDICT_TYPE_EVENT_EVENTS, NULL), E(event_id_1, T_U, T_U, "e.id[1]"), E(event_id_big, T_U, T_U, "e.id[18446744073709551615]"),
    E(event_name_1, T_S, T_S, "e.name[1]"),
    E(pic_number, T_U, UDICT_TYPE_PIC_NUM, NULL), E(pic_key, T_V, UDICT_TYPE_PIC_KEY, NULL), E(pic_hposition, T_U, UDICT_TYPE_PIC_HPOSITION, NULL),
    E(pic_vposition, T_U, UDICT_TYPE_PIC_VPOSITION, NULL), E(pic_lpadding, T_U, UDICT_TYPE_PIC_LPADDING, NULL), E(pic_rpadding, T_U, UDICT_TYPE_PIC_RPADDING, NULL),
    E(pic_tpadding, T_U, UDICT_TYPE_PIC_TPADDING, NULL), E(pic_bpadding, T_U, UDICT_TYPE_PIC_BPADDING, NULL), E(pic_progressive, T_V, UDICT_TYPE_PIC_PROGRESSIVE, NULL),
    E(pic_tf, T_V, UDICT_TYPE_PIC_TF, NULL), E(pic_bf, T_V, UDICT_TYPE_PIC_BF, NULL), E(pic_tff, T_V, UDICT_TYPE_PIC_TFF, NULL),
    EN(pic_flow_sar, T_R, UDICT_TYPE_PIC_SAR, NULL), E(pic_flow_overscan, T_B, UDICT_TYPE_PIC_OVERSCAN, NULL), E(pic_flow_hsize, T_U, UDICT_TYPE_PIC_HSIZE, NULL),
    E(pic_flow_vsize, T_U, UDICT_TYPE_PIC_VSIZE, NULL), E(pic_flow_hsize_visible, T_U, UDICT_TYPE_PIC_HSIZE_VISIBLE, NULL),
    E(pic_flow_vsize_visible, T_U, UDICT_TYPE_PIC_VSIZE_VISIBLE, NULL), E(pic_flow_video_format, T_S, UDICT_TYPE_PIC_VIDEO_FORMAT, NULL),
    E(pic_flow_full_range, T_V, UDICT_TYPE_PIC_FULL_RANGE, NULL), E(pic_flow_colour_primaries, T_S, UDICT_TYPE_PIC_COLOUR_PRIMARIES, NULL),
    E(pic_flow_transfer_characteristics, T_S, UDICT_TYPE_PIC_TRANSFER_CHARACTERISTICS, NULL),
    E(pic_flow_matrix_coefficients, T_S, UDICT_TYPE_PIC_MATRIX_COEFFICIENTS, NULL),
    E(pic_flow_hsub_0, T_SU, T_SU, "p.hsub[0]"), E(pic_flow_hsub_1, T_SU, T_SU, "p.hsub[1]"), E(pic_flow_chroma_0, T_S, T_S, "p.chroma[0]"),
    EN(pic_flow_fps, T_R, T_R, "p.fps"), E(pic_flow_align_hmoffset, T_I, T_I, "p.align_hmoffset"), EN(pic_flow_bar, T_O, T_O, "p.bar"),
    E(pic_flow_align, T_U, T_U, "p.align"), E(block_flow_octetrate, T_U, T_U, "b.octetrate"), E(block_flow_align_offset, T_I, T_I, "b.align_offset"),
    /* appended later: never reached by the older key choices (they keep counting modulo NOLD) */
    { "attr_priv", T_U, UDICT_TYPE_END, NULL, attr_priv_get, attr_priv_set, attr_priv_del, attr_priv_copy, attr_priv_cmp, attr_priv_match, true },
    EN(g_b2, T_B, T_B, "v.ab"),
};
#define NACC ((int)(sizeof(accs) / sizeof(accs[0])))
#define NNEW 2
#define NOLD (NACC - NNEW)
#define K_PRIV NOLD
#define K_BOOLVA (NOLD + 1)
#define MAXACC 128
#define MAXUSED 40

struct mval { bool present; size_t size; uint8_t *v; };
struct muref {
    struct uref *u;
    struct mval e[MAXACC];
    int ndict;                        /* present attributes that live in the dictionary */
    int order[MAXACC]; int norder;
    bool from_dup; int peer;
    struct ubuf *ub;                  /* the ubuf this uref is expected to hold */
};
struct ctx {
    struct tape t; struct vp_report *rep; bool render;
    struct umem_mgr *umem; struct udict_mgr *dmgr; struct uref_mgr *umgr; struct ubuf_mgr *bmgr;
    struct muref mu[MAXU];
    int used[MAXUSED]; int nused;
    unsigned pat; int ret; uint64_t hash; uint64_t cls;
    const char *opname; char what[200]; int pool_depth;
    int touched, touched_key;
};
static uint8_t valbuf[8192];

#define R(...) do { if (c->render) vp_render(c->rep, __VA_ARGS__); } while (0)
#ifdef UREFATTR_AS_C01
#define FAILK(oracle, ...) do { } while (0)
#define REFUSED() (vp_fault_refused() > 0)
#else
#define REFUSED() false
#define FAILK(oracle, ...) do { if (!c->ret) { char k_[96]; snprintf(k_, sizeof k_, "C10/%s/%s", oracle, c->opname); \
                                c->ret = vp_fail(c->rep, k_, __VA_ARGS__); } } while (0)
#endif
#define CLS(b) (c->cls |= (uint64_t)1 << (b))
static bool base_var(int b) { return b == T_O || b == T_S; }
static bool is_flag(int k) { return accs[k].base == 0; }
static bool in_uref(int k) { return accs[k].base == 0 || accs[k].member; }     /* flag or member: not a dictionary attribute */

static const char *key_str(int k)
{
    static char buf[4][120]; static int rot;
    char *b = buf[rot++ & 3];
    if (is_flag(k)) snprintf(b, 120, "uref_%s (flag)", accs[k].label);
    else if (accs[k].member) snprintf(b, 120, "uref_%s (member of struct uref)", accs[k].label);
    else if (accs[k].name) snprintf(b, 120, "uref_%s (%s \"%s\")", accs[k].label, base_str[accs[k].base], accs[k].name);
    else snprintf(b, 120, "uref_%s (%s shorthand %d)", accs[k].label, base_str[accs[k].base], (int)accs[k].type);
    return b;
}
static int key_lookup(enum udict_type type, const char *name)
{
    for (int k = 0; k < NACC; k++) {
        if (in_uref(k) || accs[k].type != type) continue;
        if (accs[k].name == NULL ? name == NULL : (name != NULL && !strcmp(accs[k].name, name))) return k;
    }
    return -1;
}
static void use_key(struct ctx *c, int k)
{
    for (int i = 0; i < c->nused; i++) if (c->used[i] == k) return;
    if (c->nused < MAXUSED) c->used[c->nused++] = k;
}

/* ------------------------------------------------------------------ model */
static void m_del(struct muref *m, int k)
{
    if (!m->e[k].present) return;
    free(m->e[k].v); m->e[k].v = NULL; m->e[k].size = 0; m->e[k].present = false;
    if (!in_uref(k)) m->ndict--;
}
static void m_set(struct muref *m, int k, const uint8_t *v, size_t n)
{
    uint8_t *nv = n ? malloc(n) : NULL;
    if (n) memcpy(nv, v, n);
    if (m->e[k].present) free(m->e[k].v); else if (!in_uref(k)) m->ndict++;
    m->e[k].v = nv; m->e[k].size = n; m->e[k].present = true;
}
static void m_clear(struct muref *m) { for (int k = 0; k < NACC; k++) m_del(m, k); m->norder = 0; }
static bool mv_eq(const struct mval *a, const struct mval *b)
{ return a->present == b->present && (!a->present || (a->size == b->size && (!a->size || !memcmp(a->v, b->v, a->size)))); }
static bool m_dict_equal(const struct muref *a, const struct muref *b)
{ for (int k = 0; k < NACC; k++) if (!in_uref(k) && !mv_eq(&a->e[k], &b->e[k])) return false; return true; }
/* a value as the accessor will report it: priv == UINT64_MAX is the member's "absent" */
static void m_store(struct muref *m, int k, const uint8_t *v, size_t n)
{
    uint64_t x = 0;
    if (accs[k].member && n == 8) memcpy(&x, v, 8);
    if (accs[k].member && x == UINT64_MAX) m_del(m, k); else m_set(m, k, v, n);
}

static void val_str(char *out, size_t cap, int k, const uint8_t *v, size_t n)
{
    int b = accs[k].base;
    if (b == T_U) { uint64_t u; memcpy(&u, v, 8); snprintf(out, cap, "%" PRIu64, u); }
    else if (b == T_I) { int64_t i; memcpy(&i, v, 8); snprintf(out, cap, "%" PRId64, i); }
    else if (b == T_R) { int64_t i; uint64_t u; memcpy(&i, v, 8); memcpy(&u, v + 8, 8); snprintf(out, cap, "%" PRId64 "/%" PRIu64, i, u); }
    else if (b == T_F) { uint64_t u; double f; memcpy(&u, v, 8); memcpy(&f, v, 8); snprintf(out, cap, "%g [bits %016" PRIx64 "]", f, u); }
    else if (b == T_SI) snprintf(out, cap, "%d", (int8_t)v[0]);
    else if (b == T_V || b == 0) snprintf(out, cap, "(void)");
    else if (!base_var(b)) snprintf(out, cap, "%u", v[0]);
    else {
        int o = snprintf(out, cap, "%zu octets", n);
        for (size_t i = 0; i < n && i < 6 && (size_t)o + 4 < cap; i++) o += snprintf(out + o, cap - o, " %02x", v[i]);
        if (n > 6 && (size_t)o + 4 < cap) snprintf(out + o, cap - o, " ..");
    }
}

/* ------------------------------------------------------------------ checks */
static void check_key(struct ctx *c, int ui, int k)
{
    struct muref *m = &c->mu[ui]; struct mval *e = &m->e[k];
    uint8_t got[16]; const uint8_t *gp = got; size_t gn = 0;
    int err = accs[k].get(m->u, got, &gp, &gn);
    if (!e->present) {
        if (ubase_check(err)) FAILK("lookup-absent", "after %s: u%d %s get succeeds, but that attribute was never set or was deleted", c->what, ui, key_str(k));
        return;
    }
    if (!ubase_check(err)) { FAILK("lookup-present", "after %s: u%d %s get fails (error %d) although a value of %zu octets was stored", c->what, ui, key_str(k), err, e->size); return; }
    if (gn != e->size) { FAILK("lookup-size", "after %s: u%d %s has size %zu, last stored value has size %zu", c->what, ui, key_str(k), gn, e->size); return; }
    if (gn && memcmp(gp, e->v, gn)) {
        char a[80], b[80]; val_str(a, sizeof a, k, gp, gn); val_str(b, sizeof b, k, e->v, gn);
        FAILK("lookup-value", "after %s: u%d %s reads %s, last stored %s", c->what, ui, key_str(k), a, b);
    }
}
static void check_uref(struct ctx *c, int ui)
{
    struct muref *m = &c->mu[ui];
    if (!m->u || c->ret) return;
    for (int k = 0; k < NACC && !c->ret; k++) check_key(c, ui, k);
    if (c->ret) return;
    if (m->u->ubuf != m->ub) { FAILK("ubuf", "after %s: u%d holds ubuf %p, expected %p (only attach/detach/fork/dup/free touch the ubuf)", c->what, ui, (void *)m->u->ubuf, (void *)m->ub); return; }
    m->norder = 0;
    if (m->u->udict == NULL) { CLS(CL_NODICT); return; }     /* every lookup above already said "absent" */
    static uint8_t seen[MAXACC];
    memset(seen, 0, sizeof seen);
    const char *name = NULL; enum udict_type type = UDICT_TYPE_END;
    int n = 0;
    for (;;) {
        int err = udict_iterate(m->u->udict, &name, &type);
        if (!ubase_check(err)) { FAILK("iterate-error", "after %s: u%d udict_iterate returns error %d", c->what, ui, err); return; }
        if (type == UDICT_TYPE_END) break;
        int k = key_lookup(type, name);
        if (k < 0) { FAILK("iterate-unknown", "after %s: u%d iteration yields type %d name %.40s which was never stored", c->what, ui, (int)type, name ? name : "(null)"); return; }
        if (seen[k]) { FAILK("iterate-twice", "after %s: u%d iteration visits %s twice", c->what, ui, key_str(k)); return; }
        seen[k] = 1;
        if (!m->e[k].present) { FAILK("iterate-absent", "after %s: u%d iteration visits %s, which is not present", c->what, ui, key_str(k)); return; }
        m->order[n++] = k;
    }
    if (n != m->ndict) { FAILK("iterate-missing", "after %s: u%d iteration visits %d attributes, %d are present", c->what, ui, n, m->ndict); return; }
    m->norder = n;
}
static void check_all(struct ctx *c) { for (int i = 0; i < MAXU; i++) check_uref(c, i); }

static void attr_cmp_check(struct ctx *c, int k, int a, int b, bool classify)
{
    if (!accs[k].cmp) return;
    struct mval *ea = &c->mu[a].e[k], *eb = &c->mu[b].e[k];
    bool want_zero;
    if (!ea->present || !eb->present) want_zero = !ea->present && !eb->present;
    else if (accs[k].base == T_F) {
        double x, y; memcpy(&x, ea->v, 8); memcpy(&y, eb->v, 8);
        if (isnan(x) || isnan(y)) return;              /* "identical" is not defined for NaN: not judged */
        want_zero = x == y;
        if (classify && !want_zero && fabs(x - y) < 1.0) CLS_C10(CL_CMP_FLOAT_LT1);
    } else want_zero = mv_eq(ea, eb);
    if (classify) {
        if (!ea->present && !eb->present) CLS(CL_CMP_BOTH_ABSENT);
        else if (!ea->present || !eb->present) CLS(CL_CMP_ONE_ABSENT);
        else if (want_zero) { if (a != b) CLS(CL_CMP_EQUAL); }
        else {
            CLS(CL_CMP_DIFFER);
            if (accs[k].base == T_U || accs[k].base == T_I) { uint64_t x, y; memcpy(&x, ea->v, 8); memcpy(&y, eb->v, 8); if ((uint32_t)(x - y) == 0) CLS_C10(CL_CMP_DIFF_2_32); }
        }
    }
    int r = accs[k].cmp(c->mu[a].u, c->mu[b].u);
    R("    uref_%s cmp(u%d,u%d) -> %d\n", accs[k].label, a, b, r);
    if ((r == 0) == want_zero) return;
    char va[80] = "absent", vb[80] = "absent";
    if (ea->present) val_str(va, sizeof va, k, ea->v, ea->size);
    if (eb->present) val_str(vb, sizeof vb, k, eb->v, eb->size);
    FAILK("attr-cmp", "after %s: %s cmp(u%d,u%d) returns %d; u%d holds %s, u%d holds %s (documented: 0 if both absent or identical)",
          c->what, key_str(k), a, b, r, a, va, b, vb);
}
static void udict_cmp_check(struct ctx *c, int a, int b)
{
    struct muref *ma = &c->mu[a], *mb = &c->mu[b];
    if (!ma->u->udict || !mb->u->udict) return;
    bool eq = m_dict_equal(ma, mb);
    int r = udict_cmp(ma->u->udict, mb->u->udict);
    if (a != b) CLS(eq ? CL_UDICT_CMP_EQ : CL_UDICT_CMP_NE);
    if ((r == 0) != eq) {
        int dk = -1; for (int k = 0; k < NACC; k++) if (!in_uref(k) && !mv_eq(&ma->e[k], &mb->e[k])) { dk = k; break; }
        FAILK("cmp", "after %s: udict_cmp(u%d,u%d) = %d but the dictionaries %s%s", c->what, a, b, r,
              eq ? "hold the same attributes with the same values" : "differ, e.g. in ", eq ? "" : key_str(dk));
    }
}

/* ------------------------------------------------------------------ slots */
static int nlive(struct ctx *c) { int n = 0; for (int i = 0; i < MAXU; i++) if (c->mu[i].u) n++; return n; }
static void release(struct ctx *c, int i) { if (c->mu[i].u) { uref_free(c->mu[i].u); c->mu[i].u = NULL; } m_clear(&c->mu[i]); c->mu[i].from_dup = false; c->mu[i].peer = -1; c->mu[i].ub = NULL; }
static int do_alloc(struct ctx *c, int slot, bool control)
{
    release(c, slot);
    c->mu[slot].u = control ? uref_alloc_control(c->umgr) : uref_alloc(c->umgr);
    if (!c->mu[slot].u) { FAILK("alloc", "uref_alloc fails"); return -1; }
    if (control) CLS(CL_CONTROL);
    return 0;
}
static int pick_live(struct ctx *c)
{
    int live[MAXU], n = 0;
    for (int i = 0; i < MAXU; i++) if (c->mu[i].u) live[n++] = i;
    if (!n) { R("  u0 = uref_alloc()\n"); if (do_alloc(c, 0, false) < 0) return -1; return 0; }
    return live[tp_pick(&c->t, n)];
}
static int pick_other(struct ctx *c, int a)
{
    int live[MAXU], n = 0;
    for (int i = 0; i < MAXU; i++) if (c->mu[i].u && i != a) live[n++] = i;
    if (!n) {
        for (int i = 0; i < MAXU; i++) if (!c->mu[i].u) { R("  u%d = uref_alloc()\n", i); if (do_alloc(c, i, false) < 0) return -1; return i; }
        return -1;
    }
    return live[tp_pick(&c->t, n)];
}
static int pick_slot(struct ctx *c, int keep)
{
    for (int i = 0; i < MAXU; i++) if (!c->mu[i].u) return i;
    int v = tp_pick(&c->t, MAXU - 1);
    if (v >= keep) v++;
    R("  uref_free(u%d)\n", v);
    release(c, v);
    return v;
}

/* ------------------------------------------------------------------ generator pieces */
static uint8_t pat_byte(struct ctx *c, bool str)
{
    c->pat = c->pat * 1103515245u + 12345u;
    uint8_t b = c->pat >> 16;
    if (str) return b ? b : 'z';
    return (b & 0xc0) ? b : (b & 0x1f);
}
static int pick_key(struct ctx *c, bool need_cmp)
{
    uint8_t sel = tp_u8(&c->t);
    int k;
    if ((sel & 3) <= 1 && c->nused) {
        k = c->used[tp_pick(&c->t, c->nused)];
        if (k >= NOLD) ;                                             /* appended keys have no neighbours */
        else if ((sel >> 2) % 4 == 1) k = (k + 1) % NOLD;            /* table neighbour: related name / type */
        else if ((sel >> 2) % 4 == 2) k = (k + NOLD - 1) % NOLD;
    } else if ((sel & 3) == 2) k = 4 + tp_u8(&c->t) % 32;          /* the harness-declared families */
    else if (sel & 4) {                                             /* 64-bit and float attributes that have a cmp accessor */
        static const char *const num[] = { "vt_u_a", "vt_f_a", "vt_i_a", "vt_f_ab", "vt_u_ab", "vt_i_1", "flow_id", "clock_duration",
                                           "block_flow_octetrate", "block_flow_align_offset", "vt_f_a", "vt_f_ab" };
        const char *l = num[(sel >> 3) % 12];
        k = 0;
        for (int i = 0; i < NOLD; i++) if (!strcmp(accs[i].label, l)) k = i;
    } else k = tp_u8(&c->t) % NOLD;
    if (need_cmp) for (int i = 0; i < NOLD && !accs[k].cmp; i++) k = (k + 1) % NOLD;
    return k;
}
static size_t gen_value(struct ctx *c, int ui, int k)
{
    struct muref *m = &c->mu[ui];
    int b = accs[k].base;
    uint8_t sel = tp_u8(&c->t);
    memset(valbuf, 0, 16);
    if (base_var(b)) {
        bool str = b == T_S;
        long cur = m->e[k].present ? (long)m->e[k].size : 3, n;
        switch (sel & 15) {
        case 0: n = 0; break;
        case 1: n = 1; break;
        case 2: n = 2; break;
        case 3: case 4: n = cur; break;
        case 5: n = cur + 1; break;
        case 6: n = cur - 1; break;
        case 7: n = 254 + (sel >> 4) % 4 - (accs[k].name ? (long)strlen(accs[k].name) + 1 : 0); break;
        case 8: n = 60 + (sel >> 4); break;
        case 9: n = 120 + (sel >> 4); break;
        case 10: n = (sel >> 6) == 3 ? 1000 + tp_u16(&c->t) % 6000 : 300 + (sel >> 4); break;
        case 11: case 12: n = tp_u8(&c->t) % 41; break;
        default: n = 4 + (sel >> 4); break;
        }
        if (n < 0) n = 0;
        if (n > 8000) n = 8000;
        if (str && n == 0) n = 1;
        c->pat = c->pat * 31 + sel + (unsigned)n;
        for (long i = 0; i < n; i++) valbuf[i] = pat_byte(c, str);
        if (str) valbuf[n - 1] = 0;
        return n;
    }
    uint64_t u; int64_t i;
    switch (b) {
    case 0: case T_V: return 0;
    case T_B: valbuf[0] = sel & 1; return 1;
    case T_SU: { static const uint8_t v[] = { 0, 1, 127, 128, 255 }; valbuf[0] = (sel % 8) < 5 ? v[sel % 8] : tp_u8(&c->t); return 1; }
    case T_SI: { static const int8_t v[] = { 0, 1, -1, 127, -128 }; valbuf[0] = (sel % 8) < 5 ? (uint8_t)v[sel % 8] : tp_u8(&c->t); return 1; }
    case T_U: case T_I: case T_R:
        switch (sel % 10) {
        case 0: u = 0; break;
        case 1: u = 1; break;
        case 2: u = b == T_U ? UINT64_MAX : (uint64_t)INT64_MAX; break;
        case 3: u = b == T_U ? (uint64_t)1 << 63 : (uint64_t)(INT64_MIN + 1); break;
        case 4: u = (uint64_t)1 << 32; break;
        case 5: u = b == T_U ? 0xffffffffu : (uint64_t)(int64_t)-1; break;
        case 6: u = tp_u8(&c->t); break;
        case 7: u = b == T_U ? ((uint64_t)(1 + (sel >> 4) % 4) << 32) + tp_u8(&c->t) : (uint64_t)(-((int64_t)(1 + (sel >> 4) % 4) << 32) + (int64_t)tp_u8(&c->t)); break;
        case 8: u = 27000000; break;
        default: u = tp_u64(&c->t); break;
        }
        if (b != T_U) { i = (int64_t)u; if (i == INT64_MIN) i = INT64_MIN + 1; if (i < 0) CLS(CL_NEG_INT); memcpy(valbuf, &i, 8); }
        else memcpy(valbuf, &u, 8);
        if (b == T_R) {
            static const uint64_t dens[] = { 1, 0, 1001, UINT64_MAX, (uint64_t)1 << 63, 90000 };
            uint8_t s2 = tp_u8(&c->t);
            u = (s2 % 8) < 6 ? dens[s2 % 8] : tp_u64(&c->t);
            memcpy(valbuf + 8, &u, 8);
            return 16;
        }
        return 8;
    default: {
        static const uint64_t fb[] = { 0, 0x8000000000000000ULL, 0x3ff0000000000000ULL, 0xbff8000000000000ULL, 0x3fd0000000000000ULL,
            0x3fe0000000000000ULL, 0x7ff0000000000000ULL, 0xfff0000000000000ULL, 0x7ff8000000000000ULL, 1, 0x7fefffffffffffffULL, 0x4037000000000000ULL };
        u = (sel % 13) < 12 ? fb[sel % 13] : tp_u64(&c->t);
        if ((u & 0x7ff0000000000000ULL) == 0x7ff0000000000000ULL && (u & 0x000fffffffffffffULL)) u |= 0x0008000000000000ULL;
        if ((sel % 13) == 1 || ((sel % 13) >= 6 && (sel % 13) <= 9)) CLS(CL_FLOAT_SPECIAL);
        memcpy(valbuf, &u, 8);
        return 8; }
    }
}
static void hash_val(struct ctx *c, int k, size_t n)
{
    c->hash = vp_hash_mix(c->hash, (uint64_t)k << 20 | n);
    c->hash = vp_hash_bytes(c->hash, valbuf, n < 24 ? n : 24);
}
static void classify_keys(struct ctx *c, struct muref *m, int k)
{
    if (is_flag(k)) { CLS(CL_FLAG); return; }
    if (accs[k].member) { CLS(CL_PRIV); return; }
    if (k == K_BOOLVA) CLS(CL_BOOLVA);
    if (!accs[k].name) { CLS(CL_SH); return; }
    if (strchr(accs[k].name, '[')) CLS(CL_VA);
    if (!strcmp(accs[k].name, "f.def") || !strcmp(accs[k].name, "f.id") || !strcmp(accs[k].name, "p.cea_708") ||
        !strcmp(accs[k].name, "f.error") || !strcmp(accs[k].name, "p.afd")) CLS(CL_NAMED_SHNAME);
    for (int j = 0; j < NACC; j++) {
        if (j == k || !m->e[j].present || !accs[j].name) continue;
        size_t a = strlen(accs[j].name), b = strlen(accs[k].name);
        if (a == b && !strcmp(accs[j].name, accs[k].name)) CLS(CL_TYPECONF);
        else if (accs[j].type == accs[k].type && !strncmp(accs[j].name, accs[k].name, a < b ? a : b)) CLS(CL_PREFIX);
    }
}
static void after_store(struct ctx *c, struct muref *m, int k, bool was, size_t old, size_t n, unsigned long re0)
{
    if (was && base_var(accs[k].base)) CLS(old != n ? CL_REPL_DIFF : CL_REPL_SAME);
    if (umem_count_stats(c->umem)->reallocs != re0) CLS(CL_GREW);
    if (m->from_dup) CLS(CL_DUP_THEN_MUT);
    classify_keys(c, m, k);
}

/* ------------------------------------------------------------------ operations */
static void do_set(struct ctx *c, int ui, int k)
{
    struct muref *m = &c->mu[ui];
    use_key(c, k);
    c->touched = ui; c->touched_key = k;
    size_t n = gen_value(c, ui, k);
    hash_val(c, k, n);
    bool was = m->e[k].present; size_t old = m->e[k].size;
    unsigned long re0 = umem_count_stats(c->umem)->reallocs;
    char vs[80]; val_str(vs, sizeof vs, k, valbuf, n);
    snprintf(c->what, sizeof c->what, "u%d %s set %s", ui, key_str(k), vs);
    int err = accs[k].set(m->u, valbuf, n);
    R("  %s -> %d%s\n", c->what, err, was ? (old != n ? " [replaces, other size]" : " [replaces]") : "");
    if (!ubase_check(err)) { FAILK("set-refused", "%s returns error %d inside the documented domain", c->what, err); return; }
    m_store(m, k, valbuf, n);
    after_store(c, m, k, was, old, n, re0);
}
static void op_set(struct ctx *c)
{
    c->opname = "set";
    int ui = pick_live(c); if (ui < 0) return;
    do_set(c, ui, pick_key(c, false));
}
static void do_delete(struct ctx *c, int ui, int k)
{
    struct muref *m = &c->mu[ui];
    c->touched = ui; c->touched_key = k;
    c->hash = vp_hash_mix(c->hash, k);
    bool was = m->e[k].present;
    bool notlast = was && !in_uref(k) && m->norder > 0 && m->order[m->norder - 1] != k;
    snprintf(c->what, sizeof c->what, "u%d %s delete", ui, key_str(k));
    int err = accs[k].del(m->u);
    R("  %s -> %d%s\n", c->what, err, was ? (notlast ? " [present, not last]" : " [present]") : " [absent]");
    if (in_uref(k)) { m_del(m, k); CLS(is_flag(k) ? CL_FLAG : CL_PRIV); return; }
    if (was) {
        if (!ubase_check(err)) { FAILK("delete-refused", "%s returns error %d although the attribute is present", c->what, err); return; }
        m_del(m, k);
        if (notlast) CLS(CL_DEL_NOTLAST);
        if (m->from_dup) CLS(CL_DUP_THEN_MUT);
    } else {
        if (ubase_check(err)) { FAILK("delete-absent", "%s succeeds although the attribute is absent", c->what); return; }
        CLS(CL_DEL_ABSENT);
    }
}
static void op_delete(struct ctx *c)
{
    c->opname = "delete";
    int ui = pick_live(c); if (ui < 0) return;
    struct muref *m = &c->mu[ui];
    uint8_t sel = tp_u8(&c->t);
    int k;
    if ((sel & 3) != 3 && m->norder > 0) {
        int pos = (sel >> 2) % 4 == 0 ? 0 : (sel >> 2) % 4 == 1 ? m->norder - 1 : (int)tp_pick(&c->t, m->norder);
        k = m->order[pos];
    } else k = pick_key(c, false);
    do_delete(c, ui, k);
}
/* C01 twin: once an allocation was refused the model may differ from the urefs (the oracles that would notice are off there);
 * operations whose ARGUMENTS are computed from the model (a pointer into a stored value and its modelled length) are not issued any more */
static bool g_model_stale;

static void op_alias(struct ctx *c)
{
    if (g_model_stale) return;
    c->opname = "alias";
    int ui = pick_live(c); if (ui < 0) return;
    struct muref *m = &c->mu[ui];
    int src[MAXACC], ns = 0;
    for (int k = 0; k < NACC; k++) if (m->e[k].present && base_var(accs[k].base) && m->e[k].size >= 1) src[ns++] = k;
    if (!ns) { op_set(c); return; }
    int a = src[tp_pick(&c->t, ns)];
    bool a_str = accs[a].base == T_S;
    uint8_t sel = tp_u8(&c->t);
    bool t_str = a_str && (sel & 3) != 3;
    int want = t_str ? T_S : T_O;
    int k = -1;
    if (((sel >> 2) & 3) <= 1 && accs[a].base == want) k = a;
    else {
        int cand[MAXACC], nc = 0;
        bool present_only = ((sel >> 2) & 3) == 2;
        for (int j = 0; j < NACC; j++) if (j != a && accs[j].base == want && (!present_only || m->e[j].present)) cand[nc++] = j;
        if (!nc) for (int j = 0; j < NACC; j++) if (accs[j].base == want) cand[nc++] = j;
        k = cand[tp_pick(&c->t, nc)];
    }
    use_key(c, k);
    c->touched = ui; c->touched_key = k;
    size_t asz = m->e[a].size, off, len;
    uint8_t s3 = tp_u8(&c->t);
    switch (s3 & 7) {
    case 0: off = 0; break;
    case 1: off = 1; break;
    case 2: off = asz - 1; break;
    case 3: off = asz / 2; break;
    default: off = tp_range(&c->t, 0, asz - 1); break;
    }
    if (off > asz - 1) off = asz - 1;
    if (t_str) len = asz - off;
    else switch ((s3 >> 3) & 7) {
    case 0: case 1: len = asz - off; break;
    case 2: len = 1; break;
    case 3: len = 0; break;
    case 4: len = (asz - off) / 2; break;
    default: len = tp_range(&c->t, 0, asz - off); break;
    }
    uint8_t got[16]; const uint8_t *p = NULL; size_t gn = 0;
    int err = accs[a].get(m->u, got, &p, &gn);
    if (!ubase_check(err) || !p) { snprintf(c->what, sizeof c->what, "get of the source"); FAILK("lookup-present", "u%d %s get fails although it is present", ui, key_str(a)); return; }
    memcpy(valbuf, m->e[a].v + off, len);
    hash_val(c, k, len);
    c->hash = vp_hash_mix(c->hash, (uint64_t)a << 32 | off);
    bool was = m->e[k].present; size_t old = m->e[k].size;
    unsigned long re0 = umem_count_stats(c->umem)->reallocs;
    snprintf(c->what, sizeof c->what, "u%d %s set from the value of uref_%s at [%zu,+%zu) (pointer into u%d's own dictionary)", ui, key_str(k), accs[a].label, off, len, ui);
    err = accs[k].set(m->u, p + off, len);
    R("  %s -> %d%s\n", c->what, err, was ? (old != len ? " [replaces, other size]" : " [replaces]") : "");
    if (!ubase_check(err)) { FAILK("set-refused", "%s returns error %d", c->what, err); return; }
    m_set(m, k, valbuf, len);
    CLS(CL_ALIAS);
    after_store(c, m, k, was, old, len, re0);
}
static void op_dup(struct ctx *c)
{
    c->opname = "dup";
    int s = pick_live(c); if (s < 0) return;
    int slot = pick_slot(c, s);
    struct muref *m = &c->mu[slot];
    snprintf(c->what, sizeof c->what, "u%d = uref_dup(u%d)", slot, s);
#ifndef UREFATTR_AS_C01
    bool fault = ((c->hash >> 7) & 7) == 0;      /* (every octet of the operation byte is taken: decided by the history so far) */
    if (fault) vp_fault_arm(1 + (c->hash >> 10) % 3);
    m->u = uref_dup(c->mu[s].u);
    bool refused = fault && vp_fault_disarm() > 0;
    R("  %s -> %s%s\n", c->what, m->u ? "ok" : "NULL", refused ? " (an allocation inside was refused)" : "");
    c->hash = vp_hash_mix(c->hash, s * 8 + slot);
    if (!m->u && refused) return;              /* no duplicate: fine; a duplicate that IS returned is judged like any other */
#else
    m->u = uref_dup(c->mu[s].u);
    R("  %s -> %s\n", c->what, m->u ? "ok" : "NULL");
    c->hash = vp_hash_mix(c->hash, s * 8 + slot);
#endif
    if (!m->u) { FAILK("dup-refused", "%s fails", c->what); return; }
    for (int k = 0; k < NACC; k++) if (c->mu[s].e[k].present) m_set(m, k, c->mu[s].e[k].v, c->mu[s].e[k].size);
    m->from_dup = c->mu[s].from_dup = true; m->peer = s; c->mu[s].peer = slot;
    c->touched = slot;
    /* the ubuf is duplicated too (a new ubuf structure): the copy holds one iff the source does */
    if ((m->u->ubuf != NULL) != (c->mu[s].ub != NULL) || (m->u->ubuf && m->u->ubuf == c->mu[s].ub))
        FAILK("ubuf", "%s: source holds %s ubuf, the copy holds %s", c->what, c->mu[s].ub ? "a" : "no", m->u->ubuf ? (m->u->ubuf == c->mu[s].ub ? "the very same structure" : "a") : "no");
    m->ub = m->u->ubuf;
    CLS(CL_DUP);
}
static void op_import(struct ctx *c)
{
    c->opname = "import";
    int dst = pick_live(c); if (dst < 0) return;
    int src = pick_other(c, dst); if (src < 0) return;
    struct muref *md = &c->mu[dst], *ms = &c->mu[src];
    unsigned long re0 = umem_count_stats(c->umem)->reallocs;
    snprintf(c->what, sizeof c->what, "uref_attr_import(u%d <- u%d)", dst, src);
    c->hash = vp_hash_mix(c->hash, dst * 8 + src);
    if (!md->u->udict) CLS(CL_IMPORT_NULL_DST);
#ifndef UREFATTR_AS_C01
    if (!ms->u->udict) CLS(CL_IMPORT_NULL_SRC);
#endif
    int err = uref_attr_import(md->u, ms->u);
    R("  %s -> %d\n", c->what, err);
    if (!ubase_check(err)) { FAILK("import-refused", "%s returns error %d", c->what, err); return; }
    for (int k = 0; k < NACC; k++) {
        if (in_uref(k)) {        /* flags and priv are not dictionary attributes: no expectation, the model follows the uref */
            uint8_t g[16]; const uint8_t *gp = g; size_t gn = 0;
            if (ubase_check(accs[k].get(md->u, g, &gp, &gn))) m_set(md, k, gp, gn); else m_del(md, k);
            continue;
        }
        if (!ms->e[k].present) continue;
        if (md->e[k].present) { CLS(CL_IMPORT_OVER); if (base_var(accs[k].base) && md->e[k].size != ms->e[k].size) CLS(CL_REPL_DIFF); }
        m_set(md, k, ms->e[k].v, ms->e[k].size);
    }
    if (umem_count_stats(c->umem)->reallocs != re0) CLS(CL_GREW);
    if (md->from_dup) CLS(CL_DUP_THEN_MUT);
    c->touched = dst;
}
static void do_attr_copy(struct ctx *c, int dst, int src, int k)
{
    struct muref *md = &c->mu[dst], *ms = &c->mu[src];
    use_key(c, k);
    c->touched = dst; c->touched_key = k;
    c->hash = vp_hash_mix(c->hash, (uint64_t)k << 8 | dst * 8 | src);
    bool was = md->e[k].present; size_t old = md->e[k].size;
    unsigned long re0 = umem_count_stats(c->umem)->reallocs;
    snprintf(c->what, sizeof c->what, "%s copy(u%d <- u%d)", key_str(k), dst, src);
    int err = accs[k].copy(md->u, ms->u);
    R("  %s -> %d [source %s, destination %s]\n", c->what, err, ms->e[k].present ? "present" : "absent", was ? "present" : "absent");
    if (!ubase_check(err)) { FAILK("attr-copy-refused", "%s returns error %d", c->what, err); return; }
    if (ms->e[k].present) { m_set(md, k, ms->e[k].v, ms->e[k].size); CLS(CL_COPY_PRESENT); after_store(c, md, k, was, old, ms->e[k].size, re0); }
    else { if (was) CLS(CL_COPY_ABSENT_CLEARS); m_del(md, k); }
}
static void op_attr_copy(struct ctx *c)
{
    c->opname = "attrcopy";
    int dst = pick_live(c); if (dst < 0) return;
    int src = pick_other(c, dst); if (src < 0) return;
    struct muref *md = &c->mu[dst], *ms = &c->mu[src];
    uint8_t sel = tp_u8(&c->t);
    int k;
    if ((sel & 1) && ms->norder) k = ms->order[tp_pick(&c->t, ms->norder)];
    else if ((sel & 2) && md->norder) k = md->order[tp_pick(&c->t, md->norder)];
    else k = pick_key(c, false);
    do_attr_copy(c, dst, src, k);
}
static void op_attr_cmp(struct ctx *c)
{
    c->opname = "attrcmp";
    int a = pick_live(c); if (a < 0) return;
    int b = pick_live(c);
    uint8_t sel = tp_u8(&c->t);
    if ((sel & 1) && c->mu[a].peer >= 0 && c->mu[c->mu[a].peer].u) b = c->mu[a].peer;
    int k = pick_key(c, true);
    snprintf(c->what, sizeof c->what, "cmp");
    R("  %s cmp u%d u%d\n", key_str(k), a, b);
    c->hash = vp_hash_mix(c->hash, (uint64_t)k << 8 | a * 8 | b);
    attr_cmp_check(c, k, a, b, true);
    if (!c->ret && a != b) attr_cmp_check(c, k, b, a, false);
}
static void op_alloc(struct ctx *c)
{
    c->opname = "alloc";
    bool control = tp_u8(&c->t) & 1;
    int slot = pick_slot(c, -1);
    snprintf(c->what, sizeof c->what, "u%d = %s()", slot, control ? "uref_alloc_control" : "uref_alloc");
    R("  %s\n", c->what);
    c->hash = vp_hash_mix(c->hash, control * 8 + slot);
    if (do_alloc(c, slot, control) == 0) c->touched = slot;
}
static void op_free(struct ctx *c)
{
    c->opname = "free";
    if (nlive(c) == 0) return;
    int a = pick_live(c);
    snprintf(c->what, sizeof c->what, "uref_free(u%d)", a);
    R("  %s\n", c->what);
    c->hash = vp_hash_mix(c->hash, a);
    release(c, a);
}

/* ================================================================== second family of operations */
static int key_by_label(const char *l) { for (int k = 0; k < NACC; k++) if (!strcmp(accs[k].label, l)) return k; return 0; }
static bool has_match(int k) { return accs[k].base == T_S || accs[k].base == T_SU || accs[k].base == T_U; }
static bool is_opaque(int k) { return accs[k].base == T_O; }
/* UREF_ATTR_UNSIGNED_VA and UREF_ATTR_UNSIGNED_UREF declare the match bounds of their 64-bit attribute as uint8_t */
static bool match_bounds_declared_u8(int k) { return accs[k].member || !strncmp(accs[k].label, "event_id_", 9); }
/* a key satisfying pred: two times out of three one that is present in m (when there is one) */
static int pick_key_where(struct ctx *c, struct muref *m, bool (*pred)(int))
{
    int pres[MAXACC], np = 0, all[MAXACC], na = 0;
    for (int k = 0; k < NACC; k++) if (pred(k)) { all[na++] = k; if (m && m->e[k].present) pres[np++] = k; }
    uint8_t sel = tp_u8(&c->t);
    if (np && sel % 3 != 2) return pres[tp_pick(&c->t, np)];
    if (c->nused && (sel & 0x40)) { int k = c->used[tp_pick(&c->t, c->nused)]; if (pred(k)) return k; }
    return all[tp_pick(&c->t, na)];
}
static char strbuf[17000];     /* prefix / hexadecimal text / formatted string handed to the library */
static char expbuf[8300];

static void op_match(struct ctx *c)
{
    c->opname = "match";
    int ui = pick_live(c); if (ui < 0) return;
    struct muref *m = &c->mu[ui];
    int k = pick_key_where(c, m, has_match);
    struct mval *e = &m->e[k];
    uint8_t sel = tp_u8(&c->t);
    bool want; int err;
    c->hash = vp_hash_mix(c->hash, (uint64_t)k << 16 | sel << 3 | ui);
    if (!e->present && (sel & 0xc0) != 0xc0) {        /* three times out of four give the attribute a value first */
        c->opname = "set"; do_set(c, ui, k); c->opname = "match";
        if (c->ret) return;
    }
    if (accs[k].base == T_S) {
        const char *v = e->present ? (const char *)e->v : "";
        size_t vl = e->present ? e->size - 1 : 0, pl;
        bool lastdiff = false;
        switch (sel & 7) {
        case 0: pl = vl; memcpy(strbuf, v, pl); break;                                    /* the whole value */
        case 1: pl = vl ? vl - 1 : 0; memcpy(strbuf, v, pl); break;                       /* all but the last character */
        case 2: pl = vl ? vl : 1; memcpy(strbuf, v, vl); strbuf[pl - 1] = vl && v[vl - 1] == 'x' ? 'y' : 'x'; lastdiff = vl > 0; break;
        case 3: pl = vl + 1; memcpy(strbuf, v, vl); strbuf[vl] = 'q'; break;              /* one character more than the value */
        case 4: pl = 0; break;
        case 5: pl = vl ? 1 : 0; memcpy(strbuf, v, pl); break;
        case 6: {                                                                         /* a prefix with one character changed */
            pl = vl ? (size_t)tp_range(&c->t, 1, vl) : 0; memcpy(strbuf, v, pl);
            if (pl) { size_t at = tp_range(&c->t, 0, pl - 1); strbuf[at] = v[at] == 'x' ? 'y' : 'x'; lastdiff = at == pl - 1; }
            break; }
        default: pl = tp_u8(&c->t) % 5; for (size_t i = 0; i < pl; i++) strbuf[i] = "fbp.xyz"[tp_u8(&c->t) % 7]; break;
        }
        strbuf[pl] = 0;
        want = e->present && pl <= vl;
        for (size_t i = 0; want && i < pl; i++) if (v[i] != strbuf[i]) want = false;
        c->hash = vp_hash_bytes(c->hash, strbuf, pl < 24 ? pl : 24);
        if (!e->present) CLS(CL_M_ABSENT);
        else if (want) CLS(pl == 0 ? CL_M_STR_EMPTY : pl == vl ? CL_M_STR_WHOLE : CL_M_STR_HIT);
        else if (pl > vl && !memcmp(v, strbuf, vl)) CLS(CL_M_STR_LONGER);
        else if (lastdiff && !memcmp(v, strbuf, pl - 1)) CLS(CL_M_STR_LAST_DIFF);
        snprintf(c->what, sizeof c->what, "u%d %s match(prefix of %zu characters \"%.24s\"%s)", ui, key_str(k), pl, strbuf, pl > 24 ? ".." : "");
        err = accs[k].match(m->u, (const uint8_t *)strbuf, NULL);
        R("  %s -> %d [%s]\n", c->what, err, !e->present ? "absent" : want ? "value starts with it" : "value does not start with it");
        if (ubase_check(err) != want)
            FAILK("match", "%s returns %d; the attribute is %s%s (documented: compares the attribute to a given prefix, returns an error code)",
                  c->what, err, e->present ? "present and " : "absent", e->present ? (want ? "starts with that prefix" : "does not start with that prefix") : "");
        return;
    }
    bool small = accs[k].base == T_SU;
    uint64_t top = small ? 255 : UINT64_MAX, v = 5, mi, ma;
    if (e->present) { if (small) v = e->v[0]; else memcpy(&v, e->v, 8); }
    switch (sel & 15) {
    case 0: mi = ma = v; break;
    case 1: mi = 0; ma = top; break;
    case 2: mi = v < top ? v + 1 : top; ma = top; break;                  /* value == min - 1 */
    case 3: mi = 0; ma = v ? v - 1 : 0; break;                            /* value == max + 1 */
    case 4: mi = v ? v - 1 : 0; ma = v < top ? v + 1 : top; break;
    case 5: mi = v; ma = top; break;
    case 6: mi = 0; ma = v; break;
    case 7: mi = v ? v : 1; ma = mi - 1; break;                           /* min > max: nothing lies in between */
    case 8: mi = tp_u8(&c->t); ma = tp_u8(&c->t); break;
    case 9: { uint64_t d = tp_u8(&c->t); mi = v > d ? v - d : 0; ma = top - v > d ? v + d : top; break; }
    case 10: mi = small ? v : (v >> 32 < 0xffffffffu ? v + ((uint64_t)1 << 32) : v); ma = top; break;    /* differs from the value in the high half only */
    case 11: mi = 0; ma = small ? v : (v >> 32 ? v - ((uint64_t)1 << 32) : v); break;
    case 12: mi = small ? tp_u8(&c->t) : (uint64_t)tp_u8(&c->t) << 8; ma = small ? 255 : mi + tp_u16(&c->t); break;   /* e.g. [256, 1000] */
    case 13: mi = v & ~(uint64_t)0xff; ma = small ? 255 : (v | 0xff) + 256; break;
    default: mi = small ? tp_u8(&c->t) : tp_u64(&c->t); ma = small ? tp_u8(&c->t) : tp_u64(&c->t); if ((sel & 16) && mi > ma) { uint64_t t_ = mi; mi = ma; ma = t_; } break;
    }
    if (small) { mi &= 255; ma &= 255; }
    want = e->present && mi <= v && v <= ma;
    c->hash = vp_hash_mix(vp_hash_mix(c->hash, mi), ma);
    if (!e->present) CLS(CL_M_ABSENT);
    else {
        if (want) { CLS(CL_M_NUM_HIT); if (v == mi && mi != ma) CLS(CL_M_NUM_AT_MIN); if (v == ma && mi != ma) CLS(CL_M_NUM_AT_MAX); }
        else if (mi > ma) CLS(CL_M_NUM_INVERTED);
        else if (v + 1 == mi) CLS(CL_M_NUM_BELOW);
        else if (v == ma + 1) CLS(CL_M_NUM_ABOVE);
        if (match_bounds_declared_u8(k) && (mi > 255 || ma > 255)) CLS(CL_M_NUM_WIDE);
    }
    uint8_t a8[8], b8[8];
    if (small) { a8[0] = (uint8_t)mi; b8[0] = (uint8_t)ma; } else { memcpy(a8, &mi, 8); memcpy(b8, &ma, 8); }
    snprintf(c->what, sizeof c->what, "u%d %s match(min %" PRIu64 ", max %" PRIu64 ")", ui, key_str(k), mi, ma);
    err = accs[k].match(m->u, a8, b8);
    char vs[40] = "absent"; if (e->present) snprintf(vs, sizeof vs, "value %" PRIu64, v);
    R("  %s -> %d [%s]\n", c->what, err, vs);
    if (ubase_check(err) != want)
        FAILK("match", "%s returns %d; the attribute is %s%s (documented: compares the attribute to given values, min = minimum value, max = maximum value, returns an error code)%s",
              c->what, err, vs, !e->present ? "" : want ? ", inside the range" : ", outside the range",
              match_bounds_declared_u8(k) && (mi > 255 || ma > 255) ? " [this kind of accessor has been seen declaring min and max as uint8_t for its 64-bit attribute: a bound above 255 then arrives truncated]" : "");
}

/* copy functions as a caller may write them: they refuse an absent source (and so make uref_attr_copy_list stop) */
static int strict_copy_flow_def(struct uref *d, struct uref *s) { const char *v; UBASE_RETURN(uref_flow_get_def(s, &v)); return uref_flow_set_def(d, v); }
static int strict_copy_vt_u_a(struct uref *d, struct uref *s) { uint64_t v; UBASE_RETURN(uref_vt_get_u_a(s, &v)); return uref_vt_set_u_a(d, v); }
static int strict_copy_vt_o_a(struct uref *d, struct uref *s) { const uint8_t *p; size_t n; UBASE_RETURN(uref_vt_get_o_a(s, &p, &n)); return uref_vt_set_o_a(d, p, n); }
static const struct { const char *label; copy_f f; } stricts[] = {
    { "flow_def", strict_copy_flow_def }, { "vt_u_a", strict_copy_vt_u_a }, { "vt_o_a", strict_copy_vt_o_a } };
#define MAXLIST 6
#define NEWOPS 96                   /* op octets 96 .. 159 select the second family (a window none of the recorded replay tapes uses: they all decode as before) */

static void op_copy_list(struct ctx *c)
{
    c->opname = "copylist";
    int dst = pick_live(c); if (dst < 0) return;
    int src = pick_other(c, dst); if (src < 0) return;
    struct muref *md = &c->mu[dst], *ms = &c->mu[src];
    int n = tp_u8(&c->t) % (MAXLIST + 1);
    int (*list[MAXLIST + 1])(struct uref *, struct uref *);
    int keys[MAXLIST]; bool strict[MAXLIST];
    char txt[160]; int o = 0; txt[0] = 0;
    for (int i = 0; i < n; i++) {
        uint8_t el = tp_u8(&c->t);
        strict[i] = (el & 7) == 7;
        if (strict[i]) { int si = (el >> 3) % 3; keys[i] = key_by_label(stricts[si].label); list[i] = stricts[si].f; }
        else {
            if ((el & 1) && ms->norder) keys[i] = ms->order[tp_pick(&c->t, ms->norder)];
            else if ((el & 2) && md->norder) keys[i] = md->order[tp_pick(&c->t, md->norder)];
            else keys[i] = pick_key(c, false);
            list[i] = accs[keys[i]].copy;
        }
        use_key(c, keys[i]);
        c->hash = vp_hash_mix(c->hash, keys[i] * 2 + strict[i]);
        if (o < (int)sizeof txt - 40) o += snprintf(txt + o, sizeof txt - o, "%s%s%s", i ? ", " : "", strict[i] ? "strict " : "", accs[keys[i]].label);
    }
    c->hash = vp_hash_mix(c->hash, n << 8 | dst * 8 | src);
    unsigned long re0 = umem_count_stats(c->umem)->reallocs;
    snprintf(c->what, sizeof c->what, "uref_attr_copy_list(u%d <- u%d, {%s}, %d)", dst, src, txt, n);
    int err = uref_attr_copy_list(md->u, ms->u, list, n);
    int stop = -1;
    for (int i = 0; i < n && stop < 0; i++) {
        int k = keys[i];
        if (!ms->e[k].present) { if (strict[i]) { stop = i; break; } m_del(md, k); continue; }
        bool was = md->e[k].present; size_t old = md->e[k].size;
        m_set(md, k, ms->e[k].v, ms->e[k].size);
        after_store(c, md, k, was, old, ms->e[k].size, re0);
    }
    c->touched = dst; if (n) c->touched_key = keys[stop >= 0 ? stop : n - 1];
    R("  %s -> %d [%s]\n", c->what, err, stop >= 0 ? "element refuses: stops there" : "all applied");
    if (stop >= 0) { if (stop < n - 1) CLS(CL_CL_STOP); } else if (n > 1) CLS(CL_CL_ALL);
    if (ubase_check(err) != (stop < 0))
        FAILK("copy-list", "%s returns %d, but %s", c->what, err, stop >= 0 ? "one of the listed functions returned an error" : "none of the listed functions returns an error");
}

static void op_delete_list(struct ctx *c)
{
    c->opname = "deletelist";
    int ui = pick_live(c); if (ui < 0) return;
    struct muref *m = &c->mu[ui];
    int n = tp_u8(&c->t) % (MAXLIST + 1);
    int (*list[MAXLIST + 1])(struct uref *);
    int keys[MAXLIST];
    char txt[160]; int o = 0; txt[0] = 0;
    for (int i = 0; i < n; i++) {
        uint8_t el = tp_u8(&c->t);
        if ((el & 3) != 3 && m->norder > 0) {
            int pos = (el >> 2) % 4 == 0 ? 0 : (el >> 2) % 4 == 1 ? m->norder - 1 : (int)tp_pick(&c->t, m->norder);
            keys[i] = m->order[pos];
        } else keys[i] = pick_key(c, false);
        list[i] = accs[keys[i]].del;
        c->hash = vp_hash_mix(c->hash, keys[i]);
        if (o < (int)sizeof txt - 40) o += snprintf(txt + o, sizeof txt - o, "%s%s", i ? ", " : "", accs[keys[i]].label);
    }
    c->hash = vp_hash_mix(c->hash, n << 8 | ui);
    snprintf(c->what, sizeof c->what, "uref_attr_delete_list(u%d, {%s}, %d)", ui, txt, n);
    int err = uref_attr_delete_list(m->u, list, n);
    int stop = -1, ndel = 0;
    for (int i = 0; i < n && stop < 0; i++) {
        int k = keys[i];
        if (in_uref(k)) { m_del(m, k); continue; }              /* these delete functions return nothing: the wrapper reports success */
        if (!m->e[k].present) { stop = i; break; }
        if (ndel == 0 && m->norder > 0 && m->order[m->norder - 1] != k) CLS(CL_DEL_NOTLAST);   /* order as iterated before this operation */
        m_del(m, k); ndel++;
    }
    c->touched = ui; if (n) c->touched_key = keys[stop >= 0 ? stop : n - 1];
    R("  %s -> %d [%s, %d deleted]\n", c->what, err, stop >= 0 ? "an absent attribute: stops there" : "all present", ndel);
    if (ndel && m->from_dup) CLS(CL_DUP_THEN_MUT);
    if (stop >= 0) { if (stop < n - 1 && stop > 0) CLS(CL_DL_STOP); } else if (n > 1) CLS(CL_DL_ALL);
    if (ubase_check(err) != (stop < 0))
        FAILK("delete-list", "%s returns %d, but %s", c->what, err, stop >= 0 ? "one of the listed attributes is absent when its turn comes" : "every listed attribute is present when its turn comes");
}

static void op_from_hex(struct ctx *c)
{
    c->opname = "fromhex";
    int ui = pick_live(c); if (ui < 0) return;
    struct muref *m = &c->mu[ui];
    int k = pick_key_where(c, m, is_opaque);
    use_key(c, k);
    c->touched = ui; c->touched_key = k;
    size_t n = gen_value(c, ui, k);
    if (n > 700) n = 700;                                     /* the library decodes into a variable-length array on the stack, one sscanf per octet */
    uint8_t mode = tp_u8(&c->t);
    int form = mode & 7, api = (mode >> 3) & 3;
    if (n == 0) form = 0;
    const char *digits = (form == 2) ? "0123456789ABCDEF" : "0123456789abcdef";
    size_t sl = 0;
    for (size_t i = 0; i < n; i++) {
        strbuf[sl++] = digits[valbuf[i] >> 4];
        strbuf[sl++] = (form == 2 && (i & 1)) ? "0123456789abcdef"[valbuf[i] & 15] : digits[valbuf[i] & 15];
    }
    bool in_domain = true;
    size_t at = 0;
    switch (form) {
    case 3: sl--; in_domain = false; break;                                             /* odd number of digits */
    case 4: at = 2 * (size_t)tp_range(&c->t, 0, n - 1); strbuf[at] = "gz:x"[(mode >> 5) & 3]; in_domain = false; break;       /* first of a pair */
    case 5: at = 2 * (size_t)tp_range(&c->t, 0, n - 1) + 1; strbuf[at] = "gz:x"[(mode >> 5) & 3]; in_domain = false; break;   /* second of a pair */
    case 6: at = 2 * (size_t)tp_range(&c->t, 0, n - 1); strbuf[at + ((mode >> 5) & 1)] = " -+\t"[(mode >> 6) & 3]; in_domain = false; break;
    default: break;
    }
    strbuf[sl] = 0;
    hash_val(c, k, n);
    c->hash = vp_hash_mix(c->hash, (uint64_t)mode << 16 | at);
    bool was = m->e[k].present; size_t old = m->e[k].size;
    unsigned long re0 = umem_count_stats(c->umem)->reallocs;
    int err = NO_ACCESSOR; const char *how = "uref_attr_set_opaque_from_hex";
    if (api >= 2) {                                           /* the accessor UREF_ATTR_OPAQUE generates, where the table has one */
        const char *l = accs[k].label; how = "generated _from_hex";
        if (!strcmp(l, "vt_o_a")) err = uref_vt_set_o_a_from_hex(m->u, strbuf);
        else if (!strcmp(l, "vt_o_ab")) err = uref_vt_set_o_ab_from_hex(m->u, strbuf);
        else if (!strcmp(l, "vt_n_cea")) err = uref_vt_set_n_cea_from_hex(m->u, strbuf);
        else if (!strcmp(l, "flow_headers")) err = uref_flow_set_headers_from_hex(m->u, strbuf);
        else if (!strcmp(l, "pic_flow_bar")) err = uref_pic_flow_set_bar_from_hex(m->u, strbuf);
    }
    if (err == NO_ACCESSOR && api == 1 && accs[k].name) {
        how = "uref_attr_set_opaque_from_hex_va"; CLS(CL_HEX_VA);
        if (!strcmp(accs[k].label, "vt_o_1")) err = uref_attr_set_opaque_from_hex_va(m->u, strbuf, accs[k].type, "v.o[%u]", 1u);
        else if (!strcmp(accs[k].label, "vt_o_10")) err = uref_attr_set_opaque_from_hex_va(m->u, strbuf, accs[k].type, "v.%c[%d]", 'o', 10);
        else err = uref_attr_set_opaque_from_hex_va(m->u, strbuf, accs[k].type, "%s", accs[k].name);
    }
    if (err == NO_ACCESSOR) { how = "uref_attr_set_opaque_from_hex"; err = uref_attr_set_opaque_from_hex(m->u, strbuf, accs[k].type, accs[k].name); }
    static const char *const forms[] = { "digits", "digits", "upper/mixed case", "odd number of digits", "non-digit first in a pair", "non-digit second in a pair", "blank or sign inside", "digits" };
    snprintf(c->what, sizeof c->what, "u%d %s %s(\"%.16s%s\": %zu characters, %s)", ui, key_str(k), how, strbuf, sl > 16 ? ".." : "", sl, forms[form]);
    R("  %s -> %d\n", c->what, err);
    if (in_domain) {
        if (!ubase_check(err)) { FAILK("hex-refused", "%s returns error %d for a well-formed hexadecimal string", c->what, err); return; }
        m_set(m, k, valbuf, n);
        CLS(n ? CL_HEX_OK : CL_HEX_EMPTY);
        after_store(c, m, k, was, old, n, re0);
        return;
    }
    if (form == 3) CLS(CL_HEX_ODD);
    /* not a documented input: an error must leave everything as it was (the lookups that follow check that); on success
     * the attribute has to exist and read back the same from now on, whatever octets were made of the text */
    if (!ubase_check(err)) { if (form != 3) CLS(CL_HEX_BAD_REFUSED); return; }
    if (form != 3) CLS(CL_HEX_BAD_TAKEN);
    uint8_t got[16]; const uint8_t *gp = got; size_t gn = 0;
    if (!ubase_check(accs[k].get(m->u, got, &gp, &gn))) { FAILK("hex-inconsistent", "%s succeeds but the attribute is absent afterwards", c->what); return; }
    m_set(m, k, gp, gn);
    after_store(c, m, k, was, old, gn, re0);
}

static size_t put_dec(char *out, unsigned v) { char t[12]; int n = 0; do { t[n++] = '0' + v % 10; v /= 10; } while (v); for (int i = 0; i < n; i++) out[i] = t[n - 1 - i]; return n; }
static void op_set_va(struct ctx *c)
{
    c->opname = "setva";
    int ui = pick_live(c); if (ui < 0) return;
    struct muref *m = &c->mu[ui];
    static const char *const labels[] = { "flow_def", "vt_s_a", "vt_s_ab", "flow_name", "vt_n_fdef", "flow_role", "vt_s_abc", "flow_def" };
    uint8_t sel = tp_u8(&c->t);
    int which = sel & 7, kind = (sel >> 3) & 3;
    int k = key_by_label(labels[which]);
    use_key(c, k);
    c->touched = ui; c->touched_key = k;
    size_t n = gen_value(c, ui, k);                           /* a string of n - 1 characters in valbuf */
    unsigned num = kind >= 2 ? ((sel & 0x80) ? tp_u32(&c->t) : tp_u8(&c->t)) : 0;
    memcpy(strbuf, valbuf, n);
    const char *s = strbuf, *fmt; size_t el = 0;
    switch (kind) {
    case 0: fmt = "%s"; memcpy(expbuf, s, n - 1); el = n - 1; break;
    case 1: fmt = "block.%s."; memcpy(expbuf, "block.", 6); memcpy(expbuf + 6, s, n - 1); el = 6 + n - 1; expbuf[el++] = '.'; break;
    case 2: fmt = "%s[%u]"; memcpy(expbuf, s, n - 1); el = n - 1; expbuf[el++] = '['; el += put_dec(expbuf + el, num); expbuf[el++] = ']'; break;
    default: fmt = "%u%%"; el = put_dec(expbuf, num); expbuf[el++] = '%'; break;
    }
    expbuf[el++] = 0;
    memcpy(valbuf, expbuf, el);
    hash_val(c, k, el);
    c->hash = vp_hash_mix(c->hash, sel);
    bool was = m->e[k].present; size_t old = m->e[k].size;
    unsigned long re0 = umem_count_stats(c->umem)->reallocs;
    int err;
#define CALL_VA(fn) (kind == 0 ? fn(m->u, "%s", s) : kind == 1 ? fn(m->u, "block.%s.", s) : kind == 2 ? fn(m->u, "%s[%u]", s, num) : fn(m->u, "%u%%", num))
    switch (which) {
    case 0: case 7: err = CALL_VA(uref_flow_set_def_va); CLS(CL_SETDEFVA); break;
    case 1: err = CALL_VA(uref_vt_set_s_a_va); break;
    case 2: err = CALL_VA(uref_vt_set_s_ab_va); break;
    case 3: err = CALL_VA(uref_flow_set_name_va); break;
    case 4: err = CALL_VA(uref_vt_set_n_fdef_va); break;
    case 5: err = CALL_VA(uref_flow_set_role_va); break;
    default: err = CALL_VA(uref_vt_set_s_abc_va); break;
    }
#undef CALL_VA
    if (which != 0 && which != 7) CLS(CL_SETVA);
    snprintf(c->what, sizeof c->what, "u%d %s set_va(\"%s\"%s) = string of %zu characters \"%.24s\"%s", ui, key_str(k), fmt,
             kind == 3 ? ", number" : kind == 2 ? ", string, number" : ", string", el - 1, expbuf, el - 1 > 24 ? ".." : "");
    R("  %s -> %d%s\n", c->what, err, was ? (old != el ? " [replaces, other size]" : " [replaces]") : "");
    if (!ubase_check(err)) { FAILK("set-refused", "%s returns error %d", c->what, err); return; }
    m_set(m, k, (const uint8_t *)expbuf, el);
    after_store(c, m, k, was, old, el, re0);
}

/* entry point for the two appended keys (afterwards the older operations reach them through the recently-used list) */
static void op_member(struct ctx *c)
{
    int ui = pick_live(c); if (ui < 0) return;
    uint8_t sel = tp_u8(&c->t);
    int k = (sel & 1) ? K_BOOLVA : K_PRIV;
    switch ((sel >> 1) & 3) {
    case 0: case 1: c->opname = "set"; do_set(c, ui, k); break;
    case 2: c->opname = "delete"; do_delete(c, ui, k); break;
    default: { c->opname = "attrcopy"; int src = pick_other(c, ui); if (src >= 0) do_attr_copy(c, ui, src, k); break; }
    }
}

static void op_fork(struct ctx *c)
{
    c->opname = "fork";
    int s = pick_live(c); if (s < 0) return;
    uint8_t sel = tp_u8(&c->t);
    int slot = pick_slot(c, s);
    struct muref *m = &c->mu[slot], *ms = &c->mu[s];
    c->hash = vp_hash_mix(c->hash, (sel & 3) << 8 | s * 8 | slot);
    c->touched = slot;
    if ((sel & 3) == 1 || (sel & 3) == 2) {
        bool control = (sel & 3) == 2;
        c->opname = "sibling";
        snprintf(c->what, sizeof c->what, "u%d = %s(u%d)", slot, control ? "uref_sibling_alloc_control" : "uref_sibling_alloc", s);
        m->u = control ? uref_sibling_alloc_control(ms->u) : uref_sibling_alloc(ms->u);
        R("  %s -> %s\n", c->what, m->u ? "ok" : "NULL");
        if (!m->u) { FAILK("alloc", "%s fails", c->what); return; }
        CLS(control ? CL_SIBLING_CONTROL : CL_SIBLING);
        if (control) CLS(CL_CONTROL);
        if (m->u->mgr != ms->u->mgr) FAILK("sibling", "%s: the new uref belongs to another manager than u%d", c->what, s);
        else if (control && m->u->udict == NULL) FAILK("sibling", "%s: the new uref has no dictionary (documented: a new uref with extra attributes space)", c->what);
        return;                                   /* the lookups that follow require: no attribute, no flag, no ubuf */
    }
    struct ubuf *b = ubuf_block_alloc(c->bmgr, 1 + (sel >> 4));
    if (!b) { if (REFUSED()) return; c->ret = vp_internal(c->rep, "ubuf_block_alloc"); return; }
    snprintf(c->what, sizeof c->what, "u%d = uref_fork(u%d, new ubuf)", slot, s);
    m->u = uref_fork(ms->u, b);
    R("  %s -> %s\n", c->what, m->u ? "ok" : "NULL");
    if (!m->u) { ubuf_free(b); FAILK("dup-refused", "%s fails", c->what); return; }
    for (int k = 0; k < NACC; k++) if (ms->e[k].present) m_set(m, k, ms->e[k].v, ms->e[k].size);
    m->from_dup = ms->from_dup = true; m->peer = s; ms->peer = slot;
    m->ub = b;                                     /* "attaches a new ubuf to the copy" */
    CLS(CL_FORK); CLS(CL_DUP);
}

#ifdef UREFATTR_AS_C01
/* a buffer manager asked for with a flow definition (ubuf_mem_mgr_alloc_from_flow_def, what the probes that answer ubuf manager
 * requests do): block, picture or sound; complete, or announcing more planes than it describes -- then there is no manager, and nothing
 * stays allocated (audit at the end of the case) */
static void op_mgr_from_flow_def(struct ctx *c)
{
    c->opname = "mgr_from_flow_def";
    uint8_t sel = tp_u8(&c->t);
    int kind = sel % 3, described = 1 + (sel >> 2) % 3, announced = described + ((sel & 0x40) ? 1 + (sel >> 7) : 0);
    c->hash = vp_hash_mix(c->hash, 0x3f00 | sel);
    struct uref *fd = NULL;
    bool ok = true;
    static const char *const chroma[] = { "y8", "u8", "v8" }, *const chan[] = { "l", "r", "c" };
    if (kind == 0) { fd = uref_block_flow_alloc_def(c->umgr, "x."); announced = described = 0; }
    else if (kind == 1) {
        fd = uref_pic_flow_alloc_def(c->umgr, 1);
        for (int p = 0; fd && p < described; p++) ok = ok && ubase_check(uref_pic_flow_add_plane(fd, p ? 2 : 1, p ? 2 : 1, 1, chroma[p]));
        if (fd && announced != described) ok = ok && ubase_check(uref_pic_flow_set_planes(fd, announced));
    } else {
        fd = uref_sound_flow_alloc_def(c->umgr, "s16.", described, 2);
        for (int p = 0; fd && p < described; p++) ok = ok && ubase_check(uref_sound_flow_add_plane(fd, chan[p]));
        if (fd && announced != described) ok = ok && ubase_check(uref_sound_flow_set_planes(fd, announced));
    }
    if (!fd || !ok) { if (fd) uref_free(fd); if (REFUSED()) return; c->ret = vp_internal(c->rep, "flow definition for a buffer manager"); return; }
    struct ubuf_mgr *mgr = ubuf_mem_mgr_alloc_from_flow_def(c->pool_depth, c->pool_depth, c->umem, fd);
    snprintf(c->what, sizeof c->what, "ubuf_mem_mgr_alloc_from_flow_def(%s, %d plane(s) described, %d announced) -> %s", kind == 0 ? "block" : kind == 1 ? "pic" : "sound", described, announced, mgr ? "manager" : "NULL");
    R("  %s\n", c->what);
    uref_free(fd);
    if (announced != described) CLS(CL_MGR_INCOMPLETE_DEF); else CLS(CL_MGR_FROM_DEF);
    if (mgr != NULL) ubuf_mgr_release(mgr);
}
#endif

static void op_ubuf(struct ctx *c)
{
    c->opname = "ubuf";
    int ui = pick_live(c); if (ui < 0) return;
    struct muref *m = &c->mu[ui];
    uint8_t sel = tp_u8(&c->t);
    c->hash = vp_hash_mix(c->hash, (sel & 3) << 4 | ui << 1 | (m->ub != NULL));
    if (!m->ub || (sel & 3) == 2) {
        struct ubuf *b = ubuf_block_alloc(c->bmgr, 1 + (sel >> 4));
        if (!b) { if (REFUSED()) return; c->ret = vp_internal(c->rep, "ubuf_block_alloc"); return; }
        snprintf(c->what, sizeof c->what, "uref_attach_ubuf(u%d, new ubuf)%s", ui, m->ub ? " [the one it held is freed]" : "");
        R("  %s\n", c->what);
        uref_attach_ubuf(m->u, b);
        m->ub = b; CLS(CL_ATTACH);
        return;
    }
    struct ubuf *b = uref_detach_ubuf(m->u);
    CLS(CL_DETACH);
    if (b != m->ub || m->u->ubuf != NULL) {
        snprintf(c->what, sizeof c->what, "uref_detach_ubuf(u%d)", ui);
        FAILK("ubuf", "%s returns %p and leaves %p in the uref; it held %p", c->what, (void *)b, (void *)m->u->ubuf, (void *)m->ub);
        if (b && b != m->ub) ubuf_free(b);
        return;
    }
    m->ub = NULL;
    int to = -1;
    if ((sel & 3) == 1) to = pick_other(c, ui); else if ((sel & 3) == 3) to = ui;
    if (to < 0) { snprintf(c->what, sizeof c->what, "ubuf_free(uref_detach_ubuf(u%d))", ui); ubuf_free(b); }
    else { snprintf(c->what, sizeof c->what, "uref_attach_ubuf(u%d, uref_detach_ubuf(u%d))", to, ui); uref_attach_ubuf(c->mu[to].u, b); c->mu[to].ub = b; CLS(CL_ATTACH); }
    R("  %s\n", c->what);
}

static int run(const uint8_t *tp_, size_t len, struct vp_report *rep, unsigned flags)
{
    static struct ctx ctx;
    struct ctx *c = &ctx;
    memset(c, 0, sizeof(*c));
    tp_init(&c->t, tp_, len);
    c->rep = rep; c->render = flags & VP_RENDER; c->pat = 2463534242u; c->hash = VP_HASH_INIT; c->opname = "init";
    for (int i = 0; i < MAXU; i++) c->mu[i].peer = -1;
    if (NACC > MAXACC) return vp_internal(rep, "accessor table too large");
    if (CL_NCLASSES > 64) return vp_internal(rep, "too many classes");
    for (int i = 0; i < NACC; i++) if (!in_uref(i) && key_lookup(accs[i].type, accs[i].name) != i) return vp_internal(rep, "accessor table: %s duplicates another (type, name)", accs[i].label);

    static const int depths[] = { 0, 1, 4 }, mins[] = { -1, 1, 2, 5, 16, 64, 300, 0 }, extras[] = { -1, 1, 3, 16, 200, 5000, 0, 2 }, ctl[] = { 0, 1, 64, 1000 };
    uint8_t cfg = tp_u8(&c->t), cfg2 = tp_u8(&c->t);
    int depth = depths[cfg % 3], minsz = mins[(cfg / 3) % 8], extra = extras[cfg2 % 8], ctlsz = ctl[(cfg2 >> 3) % 4];
    c->hash = vp_hash_mix(c->hash, cfg | cfg2 << 8);
    c->umem = umem_count_mgr_alloc();
    if (!c->umem) return vp_internal(rep, "umem_count_mgr_alloc");
    c->dmgr = udict_inline_mgr_alloc(depth, c->umem, minsz, extra);
    c->umgr = c->dmgr ? uref_std_mgr_alloc(depth, c->dmgr, ctlsz) : NULL;
    c->bmgr = ubuf_block_mem_mgr_alloc(depth, depth, c->umem, 0, 0, 0, 0);
    if (!c->umgr || !c->bmgr) return vp_internal(rep, "manager allocation");
    R("C10 uref attributes: pool_depth=%d udict min_size=%d extra_size=%d control_attr_size=%d\n", depth, minsz, extra, ctlsz);
    if (depth) CLS(CL_POOL);
    c->pool_depth = depth;
#ifdef UREFATTR_AS_C01
    bool faultmode = cfg >= 96; unsigned nfaults = 0; g_model_stale = false;      /* (cfg 72..255 alias other configurations) */
    if (faultmode) R("  [allocation faults]\n");
#endif
    R("  u0 = uref_alloc()\n");
    do_alloc(c, 0, false);

    int nops = 0;
    while (!tp_done(&c->t) && nops < MAXOPS && !c->ret) {
        nops++;
        uint8_t raw = tp_u8(&c->t), op = raw % 32, sub = raw - NEWOPS;
        bool second = raw >= NEWOPS && raw < NEWOPS + 64;
        c->hash = vp_hash_mix(c->hash, second ? 64 + sub : op);
        c->what[0] = 0; c->touched = -1; c->touched_key = -1;
#ifdef UREFATTR_AS_C01
        /* (every octet of the operation byte is taken: whether and which allocation is refused follows from the history so far) */
        unsigned nth = (faultmode && (c->hash & 3) == 0) ? 1 + (c->hash >> 2) % 4 : 0;
        vp_fault_arm(nth);
#endif
        if (second) {                              /* the second family; the other octets decode as they always did */
            if (sub <= 17) op_match(c);
            else if (sub <= 25) op_copy_list(c);
            else if (sub <= 33) op_delete_list(c);
            else if (sub <= 43) op_from_hex(c);
            else if (sub <= 49) op_set_va(c);
            else if (sub <= 55) op_member(c);
            else if (sub <= 59) op_fork(c);
#ifdef UREFATTR_AS_C01
            else if (sub == 63) op_mgr_from_flow_def(c);
#endif
            else op_ubuf(c);
        }
        else if (op <= 11) op_set(c);
        else if (op <= 15) op_delete(c);
        else if (op <= 17) op_alias(c);
        else if (op <= 19) op_dup(c);
        else if (op <= 21) op_import(c);
        else if (op <= 24) op_attr_copy(c);
        else if (op <= 27) op_attr_cmp(c);
        else if (op == 28) op_alloc(c);
        else if (op == 29) op_free(c);
        else op_set(c);
#ifdef UREFATTR_AS_C01
        vp_fault_disarm();
        if (nth && vp_fault_refused()) { nfaults++; g_model_stale = true; R("    (allocation %u inside the operation was refused)\n", nth); c->hash = vp_hash_mix(c->hash, 0xfa00 + nth); }
        for (int i = 0; i < MAXU; i++) if (c->mu[i].u) c->mu[i].ub = c->mu[i].u->ubuf;       /* the model follows the urefs */
#endif
        if (!c->ret) check_all(c);
        if (c->touched >= 0 && c->mu[c->touched].u)
            for (int j = 0; j < MAXU && !c->ret; j++) if (j != c->touched && c->mu[j].u) {
                udict_cmp_check(c, c->touched, j);
                if (!c->ret) udict_cmp_check(c, j, c->touched);
                if (!c->ret && c->touched_key >= 0) {
                    attr_cmp_check(c, c->touched_key, c->touched, j, true);
                    if (!c->ret) attr_cmp_check(c, c->touched_key, j, c->touched, false);
                }
            }
    }

    for (int i = 0; i < MAXU; i++) release(c, i);
    const char *leak = NULL;
    if (!urefcount_single(c->umgr->refcount)) leak = "uref manager still referenced (leaked uref)";
    uref_mgr_vacuum(c->umgr);
    udict_mgr_vacuum(c->dmgr);
    ubuf_mgr_vacuum(c->bmgr);
    if (!leak && !urefcount_single(c->bmgr->refcount)) leak = "ubuf manager still referenced (leaked ubuf)";
    ubuf_mgr_release(c->bmgr);
    uref_mgr_release(c->umgr);
    if (!leak && !urefcount_single(c->dmgr->refcount)) leak = "udict manager still referenced (leaked udict)";
    udict_mgr_release(c->dmgr);
    struct umem_count_stats *st = umem_count_stats(c->umem);
    static char lm[128];
    if (!leak && st->bad_free) leak = "free of an unknown memory area";
    if (!leak && st->live) { snprintf(lm, sizeof lm, "%ld memory areas (%ld octets) still allocated", st->live, st->live_bytes); leak = lm; }
    if (!leak && !umem_count_single(c->umem)) leak = "umem manager still referenced";
    umem_mgr_release(c->umem);
#ifdef UREFATTR_AS_C01
    if (leak && !c->ret) c->ret = vp_fail(rep, "C01/audit-urefs", "%s", leak);
    if (nfaults) CLS(CL_FAULT);
#else
    if (leak && !c->ret) c->ret = vp_internal(rep, "fixture: %s", leak);
#endif

    rep->case_hash = c->hash;
    rep->classes = c->cls;
    rep->nontrivial = (c->cls & (1u << CL_REPL_DIFF | 1u << CL_DEL_NOTLAST | 1u << CL_GREW | 1u << CL_ALIAS)) != 0;
#ifdef UREFATTR_AS_C01
    rep->nontrivial = rep->nontrivial && (c->cls & ((uint64_t)1 << CL_DUP));
#endif
    return c->ret;
}

#ifdef UREFATTR_AS_C01
static const char *class_names_c01[CL_NCLASSES + 1];
static const char *const *names_c01(void)
{
    for (int i = 0; i <= CL_NCLASSES; i++) class_names_c01[i] = class_names[i];
    class_names_c01[CL_FAULT] = "allocation_refused_inside_operation";
    class_names_c01[CL_MGR_FROM_DEF] = "buffer_manager_from_complete_flow_def";
    class_names_c01[CL_MGR_INCOMPLETE_DEF] = "buffer_manager_from_flow_def_announcing_more_planes_than_described";
    return class_names_c01;
}
__attribute__((constructor)) static void names_init(void) { names_c01(); }
const struct vp_executor vp_executor = { "C01", "urefs", 320, class_names_c01, run, NULL };
#else
const struct vp_executor vp_executor = { "C10", "urefattr", 320, class_names, run, NULL };
#endif

/* C12 — requests travel downstream, answers travel back, surviving re-plumbing.
 *
 * One source, two executors:
 *   -DC12_QUEUE=0  "inthread": head -> p1 .. pn -> tail, everything in one logical thread
 *   -DC12_QUEUE=1  "queue":    a .. -> qsink ~~> qsrc -> .. -> tail; the qsink side runs on fake loop A,
 *                              the qsrc side on fake loop B (two logical threads in one OS thread)
 *
 * The harness is the requester (slots with their own provide callback), the application (set_output,
 * release, set_flow_def) and, for tails with policy HOLD, the provider.  A model mirrors which request is
 * registered where (per pipe: the ordered request list of upipe_helper_output / bin_input, per queue: the
 * out-of-band messages in flight) and predicts, for every operation, (1) the requests lodged at each tail,
 * (2) the provide_request events per probe, (3) the callbacks on the original requests and the objects
 * they carry.  Pointers seen at the tails are never assumed to come in any order: a lodged request is
 * identified by its type and, when it has a flow format, by the attributes x.rid / x.gen the requester put
 * into the dictionary; when several registered requests are indistinguishable the expectation is the set of
 * candidates. */
#include "vp.h"
#include "tape.h"
#include "pipefix.h"
#include "upipe/uref_attr.h"
#include "upipe/uref_flow.h"
#include "upipe/uclock.h"
#include "upipe/uprobe_upump_mgr.h"
#include "upipe-modules/upipe_idem.h"
#include "upipe-modules/upipe_skip.h"
#include "upipe-modules/upipe_htons.h"
#include "upipe-modules/upipe_delay.h"
#include "upipe-modules/upipe_setattr.h"
#include "upipe-modules/upipe_setflowdef.h"
#include "upipe-modules/upipe_probe_uref.h"
#include "upipe-modules/upipe_match_attr.h"
#include "upipe-modules/upipe_setrap.h"
#include "upipe-modules/upipe_dup.h"
#include "upipe-modules/upipe_genaux.h"
#include "upipe-ts/upipe_ts_align.h"
#ifndef C12_QUEUE
#define C12_QUEUE 0
#endif
#if C12_QUEUE
#include "upipe-modules/upipe_queue_source.h"
#include "upipe-modules/upipe_queue_sink.h"
#include "upipe-modules/upipe_queue.h"      /* private header of lib/upipe-modules: only uqueue_length() of the two out-of-band queues is read */
#endif
#include <stdlib.h>
#include <stdio.h>

#define MAXN    6                   /* chain nodes (queue: <=2 + qsink + qsrc + <=2) */
#define MAXMN   (MAXN * 3)          /* + two model slots per node for the inner pipe of a bin */
#define NSLOT   8                   /* harness request slots */
#define NS      (NSLOT + MAXN)      /* + one pseudo slot per node: the pipe's own request (genaux) */
#define MAXENT  40
#define MAXCB   64
#define MAXMSG  1024
#define MAXANS  160
#define MAXCAND 6
#define MAXOPS_Q 70
#define MAXOPS_T 140

#define T_NONE (-1)
#define TT0 64                      /* target codes of the two tails */
#define IS_TAIL(t) ((t) >= TT0)

enum { NK_IDEM, NK_SKIP, NK_DELAY, NK_SETATTR, NK_PROBE_UREF, NK_SETFLOWDEF, NK_SETRAP, NK_HTONS, NK_MATCH_ATTR, NK_DUP,
       NK_GENAUX, NK_BIN, NK_NKINDS, NK_QSINK, NK_QSRC };
static const char *const kind_name[] = { "idem", "skip", "delay", "setattr", "probe_uref", "setflowdef", "setrap", "htons", "match_attr", "dup",
                                         "genaux", "ts_align(bin)", "?", "qsink", "qsrc" };
enum { MK_PASS, MK_GENAUX, MK_BIN, MK_QSINK, MK_QSRC };

enum { CL_SETOUT_WITH_REQ, CL_ANSWER_AFTER_REPLUMB, CL_DROP_ACROSS_QUEUE, CL_NO_PROVIDER, CL_PROBE_ANSWER, CL_DEFERRED, CL_REPEATED_ANSWER,
       CL_T_UREF_MGR, CL_T_FLOW_FORMAT, CL_T_UBUF_MGR, CL_T_UCLOCK, CL_T_SINK_LATENCY, CL_ACROSS_QUEUE, CL_RELEASE_WITH_REQ, CL_BIN_FLOWDEF_WITH_REQ,
       CL_GENAUX_STOPS, CL_OWN_REQUEST_ANSWERED, CL_CHAIN3, CL_REENTRANT, CL_UNREG_WHILE_LODGED, CL_SETOUT_NULL_WITH_REQ, CL_SAME_TYPE_TWICE,
       CL_STALE_AND_LIVE, CL_REGISTER_MID_CHAIN, CL_BURST };
static const char *const class_names[] = {
    "set_output_with_requests_registered", "answer_after_replumbing", "provide_after_unregister_across_queue_dropped", "no_provider_provide_request_unhandled",
    "provide_request_answered_by_probe", "deferred_answer_from_tail", "repeated_answer_same_request",
    "answered_uref_mgr", "answered_flow_format", "answered_ubuf_mgr", "answered_uclock", "answered_sink_latency", "answer_crossed_queue",
    "pipe_released_with_requests_flowing", "bin_inner_replaced_with_requests", "genaux_stops_ubuf_mgr_or_flow_format", "pipe_own_request_answered",
    "chain_of_3plus", "callback_re_requires_other_request", "unregister_while_lodged_at_tail", "set_output_null_with_requests", "two_live_requests_same_type",
    "stale_and_live_incarnation_lodged", "registered_in_mid_chain", "oob_burst", NULL };

/* ---------------------------------------------------------------- structures */

struct ent { int16_t slot, q; uint32_t gen; uint8_t type, dictv; bool reg; };

struct mnode {
    int mk;
    bool exists;
    int out;                /* T_NONE, node index, TT0+t */
    int probe;              /* recording probe that logs this pipe's provide_request events */
    int n; struct ent l[MAXENT];
    int inner;              /* MK_BIN: model node of the inner pipe or -1 */
};

struct rnode {              /* real side */
    int kind;
    struct upipe *upipe;
    int probe;
    bool held, dead;
    bool sideB;
    int nflowdefs;          /* bin / genaux: flow definitions set so far */
    int own_ans;            /* genaux: -1 = own request not answered since it was (re)issued; else answer id (0 = service probe) */
};

struct slot {
    struct urequest req;
    int id, type, dictv, at;
    uint32_t gen;
    bool reg;               /* registered (callbacks are legitimate) */
    bool inited;
    bool replumbed;         /* an output was replaced on its path while it was registered */
    int action;             /* callback re-requires this other slot (-1 none) */
    unsigned ncb;
};

struct rt { struct urequest *ptr; uint8_t type; int rid; uint32_t gen; int bslot, bq; int nprov; };   /* request lodged at a real tail */
struct tail {
    struct upipe *upipe; int sink; int probe; int policy; bool held;
    int nrt; struct rt rt[MAXENT];
    int nm; struct ent m[MAXENT];
};

struct cand { int16_t slot, q; };
struct expcb { int ans; int ncand; struct cand cand[MAXCAND]; bool optional, matched; int tail; struct urequest *ptr; };
struct cbrec { int slot; int ans; bool matched; };
struct dmsg { uint8_t kind; struct ent e; };
enum { DM_REG, DM_UNREG, DM_SRCEND, DM_REFEND };
struct umsg { int ans; int ncand; struct cand cand[MAXCAND]; int tail; struct urequest *ptr; };
struct ans { int type; void *ptr; uint64_t lat; };

struct ctx {
    struct tape t;
    struct vp_report *rep;
    bool render, thorough, noexclude;
    struct pfx pfx;
    int ret;
    uint64_t hash;
    uint32_t cls;
    int nn;
    struct rnode rn[MAXN];
    struct mnode mn[MAXMN];
    struct tail tl[2];
    struct slot slot[NS];
    uint32_t gen;
    int qsink, qsrc;                /* node indices or -1 */
    struct upump_mgr *loopB;
    int nextq;
    bool refend_pushed;
    struct dmsg dq[MAXMSG]; int dqh, dqt;
    struct umsg uq[MAXMSG]; int uqh, uqt;
    struct ans ans[MAXANS]; int nans;
    /* per-operation window */
    int ev_mark, rec_mark;
    int exp_throw[PFX_MAX_PROBES], opt_throw[PFX_MAX_PROBES];
    int nexp; struct expcb exp[MAXCB];
    int ncb; struct cbrec cb[MAXCB];
    bool in_action, m_in_action;
    bool actions_enabled;
    bool replumb_pending;
    bool nt;
    int nops;
};

static struct ctx ctx;

#define R(...) do { if (c->render) vp_render(c->rep, __VA_ARGS__); } while (0)
#define FAILC(key, ...) do { if (!c->ret) c->ret = vp_fail(c->rep, "C12/" key, __VA_ARGS__); } while (0)
#define INTERNAL(...) do { if (!c->ret) c->ret = vp_internal(c->rep, __VA_ARGS__); } while (0)

static const char *tname(int type)
{
    static const char *n[] = { "uref_mgr", "flow_format", "ubuf_mgr", "uclock", "sink_latency" };
    return type >= 0 && type < 5 ? n[type] : "?";
}
static bool has_uref(int type) { return type == UREQUEST_FLOW_FORMAT || type == UREQUEST_UBUF_MGR; }
static const char *tgt_name(int t)
{
    static char b[4][16]; static int i; i = (i + 1) & 3;
    if (t == T_NONE) return "NULL";
    if (IS_TAIL(t)) { snprintf(b[i], sizeof b[i], "tail%d", t - TT0); return b[i]; }
    snprintf(b[i], sizeof b[i], "p%d", t); return b[i];
}

/* ---------------------------------------------------------------- service probes: who answers a thrown provide_request */

static bool svc_answers(struct ctx *c, const struct ent *e)
{
    switch (e->type) {
    case UREQUEST_UREF_MGR: return c->pfx.cfg.with_uref_mgr;           /* uprobe_uref_mgr */
    case UREQUEST_FLOW_FORMAT: return c->pfx.cfg.with_ubuf_mem;        /* uprobe_ubuf_mem: dup of the proposed format */
    case UREQUEST_UBUF_MGR: return c->pfx.cfg.with_ubuf_mem && e->dictv != 2;   /* only for a flow format it can allocate for ("block.") */
    case UREQUEST_UCLOCK: return c->pfx.cfg.with_uclock;               /* uprobe_uclock */
    case UREQUEST_SINK_LATENCY: return c->pfx.cfg.with_ubuf_mem;       /* uprobe_ubuf_mem answers 0 */
    }
    return false;
}

/* ---------------------------------------------------------------- model */

static struct mnode *MN(struct ctx *c, int i) { return &c->mn[i]; }

static int ent_find(struct mnode *m, int slot, int q)
{
    for (int i = 0; i < m->n; i++) if (m->l[i].slot == slot && (q == -2 || m->l[i].q == q)) return i;
    return -1;
}
static void ent_del(struct mnode *m, int i) { for (; i + 1 < m->n; i++) m->l[i] = m->l[i + 1]; m->n--; }
static int ent_add(struct ctx *c, struct mnode *m, struct ent e)
{
    if (m->n >= MAXENT) { INTERNAL("model list overflow"); return 0; }
    m->l[m->n] = e;
    return m->n++;
}

static void m_callback(struct ctx *c, int slot, int ans);
static int m_deliver_reg(struct ctx *c, int tgt, struct ent e);
static void m_deliver_unreg(struct ctx *c, int tgt, struct ent e);

static void m_answer(struct ctx *c, struct ent e, int ans)
{
    if (e.q >= 0) {     /* the request came through the queue: the answer is an upstream message */
        if (c->uqt >= MAXMSG) { INTERNAL("model upstream queue overflow"); return; }
        struct umsg *u = &c->uq[c->uqt++];
        memset(u, 0, sizeof *u);
        u->ans = ans; u->ncand = 1; u->cand[0].slot = e.slot; u->cand[0].q = e.q; u->tail = -1;
    } else m_callback(c, e.slot, ans);
}

/* a pipe throws provide_request(e) on the probe; returns 0 if a service probe provided it, 1 (UBASE_ERR_UNHANDLED) otherwise */
static int m_throw(struct ctx *c, int probe, struct ent e, bool optional)
{
    if (optional) c->opt_throw[probe]++; else c->exp_throw[probe]++;
    if (svc_answers(c, &e)) {
        if (optional) {     /* only reachable when a tail answered UNHANDLED during set_output (see m_set_output) */
            if (c->nexp < MAXCB) { struct expcb *x = &c->exp[c->nexp++]; memset(x, 0, sizeof *x); x->ans = 0; x->ncand = 1; x->cand[0].slot = e.slot; x->cand[0].q = e.q; x->optional = true; x->tail = -1; }
            return 0;
        }
        c->cls |= 1u << CL_PROBE_ANSWER;
        m_answer(c, e, 0);
        return 0;
    }
    if (!optional) c->cls |= 1u << CL_NO_PROVIDER;
    return 1;
}

/* upipe_helper_output register_output_request on node k */
static int m_roq(struct ctx *c, int k, struct ent e)
{
    struct mnode *m = MN(c, k);
    e.reg = false;
    int i = ent_add(c, m, e);
    if (m->out != T_NONE) {
        m->l[i].reg = true;
        int r = m_deliver_reg(c, m->out, e);
        if (r != 1) return r;
    }
    return m_throw(c, m->probe, e, false);
}

/* upipe_helper_output unregister_output_request on node k */
static void m_uoq(struct ctx *c, int k, struct ent e)
{
    struct mnode *m = MN(c, k);
    int i = ent_find(m, e.slot, e.q);
    if (i < 0) { INTERNAL("model: unregister of a request p%d does not hold (slot %d q %d)", k, e.slot, e.q); return; }
    bool was = m->l[i].reg;
    ent_del(m, i);
    if (m->out != T_NONE && was) m_deliver_unreg(c, m->out, e);
}

static bool genaux_stops(int type) { return type == UREQUEST_UBUF_MGR || type == UREQUEST_FLOW_FORMAT; }

/* upipe_register_request(target, request): what the target does with the control command */
static int m_deliver_reg(struct ctx *c, int tgt, struct ent e)
{
    if (c->ret) return 0;
    if (IS_TAIL(tgt)) {
        struct tail *t = &c->tl[tgt - TT0];
        if (t->nm >= MAXENT) { INTERNAL("model tail overflow"); return 0; }
        e.reg = true;
        t->m[t->nm++] = e;
        switch (t->policy) {
        case PFX_REQ_HOLD: return 0;
        case PFX_REQ_UNHANDLED: return 1;
        default: return m_throw(c, t->probe, e, false);
        }
    }
    struct mnode *m = MN(c, tgt);
    switch (m->mk) {
    case MK_GENAUX:
        if (genaux_stops(e.type)) { c->cls |= 1u << CL_GENAUX_STOPS; return m_throw(c, m->probe, e, false); }
        return m_roq(c, tgt, e);
    case MK_BIN: {
        e.reg = false;
        int i = ent_add(c, m, e);
        if (m->inner >= 0) { m->l[i].reg = true; return m_deliver_reg(c, m->inner, e); }
        return m_throw(c, m->probe, e, false);
    }
    case MK_QSINK: {
        e.q = c->nextq++; e.reg = true;
        ent_add(c, m, e);
        if (c->dqt >= MAXMSG) { INTERNAL("model downstream queue overflow"); return 0; }
        c->dq[c->dqt].kind = DM_REG; c->dq[c->dqt].e = e; c->dqt++;
        return 0;
    }
    default:
        return m_roq(c, tgt, e);
    }
}

static void m_deliver_unreg(struct ctx *c, int tgt, struct ent e)
{
    if (c->ret) return;
    if (IS_TAIL(tgt)) {
        struct tail *t = &c->tl[tgt - TT0];
        for (int i = 0; i < t->nm; i++)
            if (t->m[i].slot == e.slot && t->m[i].q == e.q) { for (; i + 1 < t->nm; i++) t->m[i] = t->m[i + 1]; t->nm--; return; }
        INTERNAL("model: unregister at tail%d of a request it does not hold", tgt - TT0);
        return;
    }
    struct mnode *m = MN(c, tgt);
    switch (m->mk) {
    case MK_GENAUX:
        if (genaux_stops(e.type)) return;
        m_uoq(c, tgt, e);
        return;
    case MK_BIN: {
        int i = ent_find(m, e.slot, e.q);
        if (i < 0) { INTERNAL("model: bin does not hold the request"); return; }
        bool was = m->l[i].reg;
        ent_del(m, i);
        if (m->inner >= 0 && was) m_deliver_unreg(c, m->inner, e);
        return;
    }
    case MK_QSINK: {
        int i = ent_find(m, e.slot, -2);
        if (i < 0) { INTERNAL("model: qsink does not hold the request"); return; }
        struct ent q = m->l[i];
        ent_del(m, i);
        if (c->dqt >= MAXMSG) { INTERNAL("model downstream queue overflow"); return; }
        c->dq[c->dqt].kind = DM_UNREG; c->dq[c->dqt].e = q; c->dqt++;
        return;
    }
    default:
        m_uoq(c, tgt, e);
    }
}

/* upipe_helper_output set_output on node k */
static void m_set_output(struct ctx *c, int k, int new)
{
    struct mnode *m = MN(c, k);
    if (m->out != T_NONE)
        for (int i = 0; i < m->n; i++) {
            m->l[i].reg = false;
            m_deliver_unreg(c, m->out, m->l[i]);
        }
    m->out = new;
    if (new == T_NONE) return;
    for (int guard = 0; guard < 4 * MAXENT && !c->ret; guard++) {
        int i;
        for (i = 0; i < m->n; i++) if (!m->l[i].reg) break;
        if (i == m->n) break;
        m->l[i].reg = true;
        struct ent e = m->l[i];
        int r = m_deliver_reg(c, new, e);
        /* The helper ignores the answer here.  When the new output does not handle requests at all
         * (UNHANDLED) nothing says whether the pipe should fall back to its probe as it does in
         * register_output_request: both behaviours are accepted. */
        if (r == 1) m_throw(c, m->probe, e, true);
    }
}

static void m_bin_set_flow_def(struct ctx *c, int k)
{
    struct mnode *b = MN(c, k);
    int old = b->inner;
    int ni = MAXN + 2 * k + (old == MAXN + 2 * k ? 1 : 0);
    struct mnode *in = MN(c, ni);
    memset(in, 0, sizeof *in);
    in->mk = MK_PASS; in->exists = true; in->out = T_NONE; in->probe = b->probe; in->inner = -1;
    /* store_bin_input: withdraw from the old first inner, re-issue to the new one */
    if (old >= 0)
        for (int i = 0; i < b->n; i++) { b->l[i].reg = false; m_deliver_unreg(c, old, b->l[i]); }
    if (old >= 0) MN(c, old)->exists = false;
    b->inner = ni;
    for (int guard = 0; guard < 4 * MAXENT && !c->ret; guard++) {
        int i;
        for (i = 0; i < b->n; i++) if (!b->l[i].reg) break;
        if (i == b->n) break;
        b->l[i].reg = true;
        m_deliver_reg(c, ni, b->l[i]);
    }
    /* store_bin_output: the new last inner gets the bin's output */
    if (b->out != T_NONE) m_set_output(c, ni, b->out);
}

static void m_node_set_output(struct ctx *c, int k, int new)
{
    struct mnode *m = MN(c, k);
    if (m->mk == MK_BIN) {
        if (m->inner >= 0) m_set_output(c, m->inner, new);
        m->out = new;
    } else m_set_output(c, k, new);
}

/* ---------------------------------------------------------------- requester side */

static struct uref *mk_dict(struct ctx *c, int dictv, int rid, uint32_t gen)
{
    static const char *defs[] = { "block.", "block.foo.", "void.x." };
    struct uref *u = uref_alloc_control(c->pfx.fm.uref_mgr);
    if (!u) return NULL;
    uref_flow_set_def(u, defs[dictv % 3]);
    uref_attr_set_small_unsigned(u, rid, UDICT_TYPE_SMALL_UNSIGNED, "x.rid");
    uref_attr_set_unsigned(u, gen, UDICT_TYPE_UNSIGNED, "x.gen");
    return u;
}

static void key_of(struct urequest *x, int *rid, uint32_t *gen)
{
    *rid = -1; *gen = 0;
    if (x->uref == NULL) return;
    uint8_t r; uint64_t g;
    if (ubase_check(uref_attr_get_small_unsigned(x->uref, &r, UDICT_TYPE_SMALL_UNSIGNED, "x.rid"))) *rid = r;
    if (ubase_check(uref_attr_get_unsigned(x->uref, &g, UDICT_TYPE_UNSIGNED, "x.gen"))) *gen = (uint32_t)g;
}

static int uref_ans(struct uref *u)
{
    uint64_t a;
    if (u && ubase_check(uref_attr_get_unsigned(u, &a, UDICT_TYPE_UNSIGNED, "x.ans"))) return (int)a;
    return 0;
}

static void real_unregister(struct ctx *c, struct slot *s);
static void real_register(struct ctx *c, struct slot *s, int type, int dictv, int at, int action);
static void m_slot_unregister(struct ctx *c, int slot);
static void m_slot_register(struct ctx *c, int slot);

static int req_cb(struct urequest *urequest, va_list args)
{
    struct ctx *c = &ctx;
    struct slot *s = container_of(urequest, struct slot, req);
    int ans = -2;
    char what[128] = "";
    switch (s->type) {
    case UREQUEST_UREF_MGR: {
        struct uref_mgr *m = va_arg(args, struct uref_mgr *);
        if (m == c->pfx.fm.uref_mgr) ans = 0;
        else for (int i = c->nans - 1; i >= 1; i--) if (c->ans[i].type == s->type && c->ans[i].ptr == m) { ans = i; break; }
        snprintf(what, sizeof what, "uref_mgr %s", ans == 0 ? "of the probe" : ans > 0 ? "provided at the tail" : "UNKNOWN");
        uref_mgr_release(m);
        break; }
    case UREQUEST_UCLOCK: {
        struct uclock *u = va_arg(args, struct uclock *);
        if (u == c->pfx.uclock) ans = 0;
        else for (int i = c->nans - 1; i >= 1; i--) if (c->ans[i].type == s->type && c->ans[i].ptr == u) { ans = i; break; }
        snprintf(what, sizeof what, "uclock %s", ans == 0 ? "of the probe" : ans > 0 ? "provided at the tail" : "UNKNOWN");
        uclock_release(u);
        break; }
    case UREQUEST_SINK_LATENCY: {
        uint64_t l = va_arg(args, uint64_t);
        if (l == 0) ans = 0;
        else if (l >= 1000 && l < 1000 + (uint64_t)c->nans && c->ans[l - 1000].type == s->type) ans = (int)(l - 1000);
        snprintf(what, sizeof what, "latency %llu", (unsigned long long)l);
        break; }
    case UREQUEST_FLOW_FORMAT:
    case UREQUEST_UBUF_MGR: {
        struct ubuf_mgr *bm = NULL;
        if (s->type == UREQUEST_UBUF_MGR) bm = va_arg(args, struct ubuf_mgr *);
        struct uref *u = va_arg(args, struct uref *);
        int a = uref_ans(u);
        int rid = -1; uint32_t gen = 0;
        if (u) { uint8_t r; uint64_t g;
            if (ubase_check(uref_attr_get_small_unsigned(u, &r, UDICT_TYPE_SMALL_UNSIGNED, "x.rid"))) rid = r;
            if (ubase_check(uref_attr_get_unsigned(u, &g, UDICT_TYPE_UNSIGNED, "x.gen"))) gen = (uint32_t)g; }
        bool mine = u != NULL && rid == s->id && gen == s->gen;
        if (a > 0 && a < c->nans && c->ans[a].type == s->type && mine && (s->type != UREQUEST_UBUF_MGR || bm == c->pfx.fm.block_mgr)) ans = a;
        else if (a == 0 && mine && s->req.uref && u->udict && s->req.uref->udict && !udict_cmp(u->udict, s->req.uref->udict) &&
                 (s->type != UREQUEST_UBUF_MGR || (bm != NULL && bm != c->pfx.fm.block_mgr))) ans = 0;
        snprintf(what, sizeof what, "%sflow format rid=%d gen=%u ans=%d", s->type == UREQUEST_UBUF_MGR ? "ubuf_mgr + " : "", rid, gen, a);
        if (s->type == UREQUEST_UBUF_MGR) ubuf_mgr_release(bm);
        uref_free(u);
        break; }
    }
    s->ncb++;
    R("      -> callback slot%d (%s%s): %s\n", s->id, tname(s->type), s->reg ? "" : ", UNREGISTERED", what);
    if (!s->reg)
        FAILC("callback/after-unregister", "the provide callback of request slot%d (%s) was invoked although the request is not registered (%s)", s->id, tname(s->type), what);
    else if (ans == -2)
        FAILC("callback/wrong-object", "the provide callback of request slot%d (%s, gen %u) received an object that was provided neither by a probe nor at the tail for this request: %s", s->id, tname(s->type), s->gen, what);
    if (c->ncb < MAXCB) { c->cb[c->ncb].slot = s->id; c->cb[c->ncb].ans = ans; c->cb[c->ncb].matched = false; c->ncb++; }
    else INTERNAL("callback log overflow");
    /* what real pipes do from their check function (e.g. a framer re-requires its ubuf_mgr when the flow format
     * arrives): re-require another request from inside the callback */
    if (s->action >= 0 && s->reg && !c->in_action && !c->ret) {
        struct slot *o = &c->slot[s->action];
        /* o == s: the requester renegotiates its own request from its callback (what upipe_helper_ubuf_mgr / flow_format do when check re-requires) */
        if (o->inited && c->rn[o->at].held && c->rn[o->at].sideB == c->rn[s->at].sideB) {
            c->in_action = true;
            c->cls |= 1u << CL_REENTRANT;
            R("         (callback re-requires slot%d)\n", o->id);
            int type = o->type, dictv = o->dictv, at = o->at, action = o->action;
            if (o->reg) real_unregister(c, o);
            real_register(c, o, type, dictv, at, action);
            c->in_action = false;
        }
    }
    return UBASE_ERR_NONE;
}

static void m_callback(struct ctx *c, int slot, int ans)
{
    if (slot >= NSLOT) {        /* a pipe's own request (genaux): its check function stores the provided format as flow definition */
        c->rn[slot - NSLOT].own_ans = ans;
        c->cls |= 1u << CL_OWN_REQUEST_ANSWERED;
        return;
    }
    if (c->nexp >= MAXCB) { INTERNAL("expected-callback overflow"); return; }
    struct expcb *x = &c->exp[c->nexp++];
    memset(x, 0, sizeof *x);
    x->ans = ans; x->ncand = 1; x->cand[0].slot = slot; x->cand[0].q = -1; x->tail = -1;
    struct slot *s = &c->slot[slot];
    if (s->action >= 0 && !c->m_in_action) {
        struct slot *o = &c->slot[s->action];
        if (o->inited && c->rn[o->at].held && c->rn[o->at].sideB == c->rn[s->at].sideB) {
            c->m_in_action = true;
            m_slot_unregister(c, o->id);    /* no-op if the model has it unregistered */
            m_slot_register(c, o->id);
            c->m_in_action = false;
        }
    }
}

/* The model of a slot's registration state is separate from slot.reg (the real one) because the model runs after the real operation. */
static bool m_slot_reg[NS];
static struct ent m_slot_ent[NS];

static void m_slot_register(struct ctx *c, int slot)
{
    struct slot *s = &c->slot[slot];
    struct ent e = { .slot = slot, .q = -1, .gen = m_slot_ent[slot].gen, .type = s->type, .dictv = s->dictv, .reg = false };
    m_slot_ent[slot] = e;
    m_slot_reg[slot] = true;
    m_deliver_reg(c, s->at, e);
}
static void m_slot_unregister(struct ctx *c, int slot)
{
    if (!m_slot_reg[slot]) return;
    m_slot_reg[slot] = false;
    m_deliver_unreg(c, c->slot[slot].at, m_slot_ent[slot]);
}

static void real_register(struct ctx *c, struct slot *s, int type, int dictv, int at, int action)
{
    s->type = type; s->dictv = dictv; s->at = at; s->action = action;
    s->gen = ++c->gen;
    m_slot_ent[s->id].gen = s->gen;         /* the model learns the generation of the incarnation it is about to register */
    struct uref *u = has_uref(type) ? mk_dict(c, dictv, s->id, s->gen) : NULL;
    switch (type) {
    case UREQUEST_UREF_MGR: urequest_init_uref_mgr(&s->req, req_cb, NULL); break;
    case UREQUEST_FLOW_FORMAT: urequest_init_flow_format(&s->req, u, req_cb, NULL); break;
    case UREQUEST_UBUF_MGR: urequest_init_ubuf_mgr(&s->req, u, req_cb, NULL); break;
    case UREQUEST_UCLOCK: urequest_init_uclock(&s->req, req_cb, NULL); break;
    default: urequest_init_sink_latency(&s->req, req_cb, NULL); break;
    }
    s->inited = true; s->reg = true; s->replumbed = false;
    int err = upipe_register_request(c->rn[at].upipe, &s->req);
    R("  %sregister slot%d (%s%s%s gen %u) at p%d:%s -> %d\n", c->in_action ? "         " : "", s->id, tname(type),
      has_uref(type) ? ", " : "", has_uref(type) ? (const char *[]){ "block.", "block.foo.", "void.x." }[dictv % 3] : "", s->gen, at, kind_name[c->rn[at].kind], err);
}

static void real_unregister(struct ctx *c, struct slot *s)
{
    int err = upipe_unregister_request(c->rn[s->at].upipe, &s->req);
    s->reg = false;
    urequest_clean(&s->req);
    R("  %sunregister slot%d (%s) at p%d -> %d\n", c->in_action ? "         " : "", s->id, tname(s->type), s->at, err);
}

/* ---------------------------------------------------------------- operation window: expectations against observations */

static void begin_op(struct ctx *c)
{
    memset(c->exp_throw, 0, sizeof c->exp_throw);
    memset(c->opt_throw, 0, sizeof c->opt_throw);
    c->nexp = 0; c->ncb = 0;
}

static bool node_dead_now(struct ctx *c, int k)
{
    struct pfx_probe *pr = pfx_probe(&c->pfx, c->rn[k].probe);
    return pr->ntracks > 0 && pr->tracks[0].dead;
}

static void model_deaths(struct ctx *c)
{
    bool qsink_died = false;
#if C12_QUEUE
    qsink_died = c->qsink >= 0 && !c->rn[c->qsink].dead && node_dead_now(c, c->qsink);
#endif
    for (int k = 0; k < c->nn; k++) {
        struct rnode *r = &c->rn[k];
        if (r->dead || !node_dead_now(c, k)) continue;
        r->dead = true;
        if (r->held) { FAILC("life/premature-dead", "p%d:%s threw DEAD while the application still holds a reference", k, kind_name[r->kind]); return; }
        struct mnode *m = MN(c, k);
        /* a dying pipe withdraws what is left in its list: only its own request can be left in a legal history */
        for (int i = m->n - 1; i >= 0; i--) {
            struct ent e = m->l[i];
            if (e.slot < NSLOT) { INTERNAL("p%d:%s died while the model still has request slot%d registered through it", k, kind_name[r->kind], e.slot); return; }
            bool was = e.reg;
            ent_del(m, i);
            if (m->out != T_NONE && was) m_deliver_unreg(c, m->out, e);
            m_slot_reg[e.slot] = false;
        }
        if (m->mk == MK_BIN && m->inner >= 0) { MN(c, m->inner)->out = T_NONE; MN(c, m->inner)->exists = false; m->inner = -1; }
        m->out = T_NONE;
        m->exists = false;
#if C12_QUEUE
        if (k == c->qsrc) { c->dqh = c->dqt; c->uqh = c->uqt; }     /* upipe_qsrc_free drains both out-of-band queues */
#endif
    }
#if C12_QUEUE
    /* the queue sink announces its end when it dies; the queue source, once nobody references it, asks its own
     * loop to free it: two more out-of-band messages behind whatever the dying pipes pushed */
    if (qsink_died && c->dqt < MAXMSG) { c->dq[c->dqt].kind = DM_SRCEND; c->dqt++; }
    if (c->qsrc >= 0 && !c->rn[c->qsrc].held && !c->rn[c->qsrc].dead && c->rn[c->qsink].dead && !c->refend_pushed && c->dqt < MAXMSG) {
        c->refend_pushed = true; c->dq[c->dqt].kind = DM_REFEND; c->dqt++;
    }
#endif
    (void)qsink_died;
}

static void scan_records(struct ctx *c)
{
    struct pfx *pfx = &c->pfx;
    for (int i = c->rec_mark; i < pfx->nrecs; i++) {
        struct pfx_rec *r = &pfx->recs[i];
        if (r->kind != PFX_REGISTER && r->kind != PFX_UNREGISTER) continue;
        struct tail *t = r->sink == c->tl[0].sink ? &c->tl[0] : r->sink == c->tl[1].sink ? &c->tl[1] : NULL;
        if (!t) continue;
        if (r->kind == PFX_REGISTER) {
            if (t->nrt >= MAXENT) { INTERNAL("tail overflow"); return; }
            struct rt *x = &t->rt[t->nrt++];
            memset(x, 0, sizeof *x);
            x->ptr = r->request; x->type = r->reqtype; x->rid = -2; x->bslot = -1; x->bq = -1;
        } else {
            int j;
            for (j = t->nrt - 1; j >= 0; j--) if (t->rt[j].ptr == r->request) break;
            if (j < 0) { FAILC("tail/unregister-unknown", "tail%d received unregister_request for a request it does not hold (type %s)", (int)(t - c->tl), tname(r->reqtype)); return; }
            for (; j + 1 < t->nrt; j++) t->rt[j] = t->rt[j + 1];
            t->nrt--;
        }
    }
    /* requests still lodged are alive: read their keys now */
    for (int ti = 0; ti < 2; ti++)
        for (int j = 0; j < c->tl[ti].nrt; j++) {
            struct rt *x = &c->tl[ti].rt[j];
            if (x->rid == -2) key_of(x->ptr, &x->rid, &x->gen);
        }
}

static bool key_match(const struct rt *x, const struct ent *e)
{
    if (x->type != e->type) return false;
    if (!has_uref(e->type)) return true;
    return x->rid == e->slot && x->gen == e->gen;
}

static void compare_tails(struct ctx *c, const char *what)
{
    for (int ti = 0; ti < 2 && !c->ret; ti++) {
        struct tail *t = &c->tl[ti];
        bool used[MAXENT] = { false };
        for (int j = 0; j < t->nrt && !c->ret; j++) {
            struct rt *x = &t->rt[j];
            int f = -1;
            for (int i = 0; i < t->nm; i++) if (!used[i] && key_match(x, &t->m[i])) { f = i; break; }
            if (f < 0) {
                bool conn = false;
                for (int k = 0; k < MAXMN; k++) if (c->mn[k].exists && c->mn[k].out == TT0 + ti) conn = true;
                if (has_uref(x->type))
                    FAILC("tail/stale-request", "after %s: %s tail%d holds a lodged %s request (slot%d gen %u) that no registered upstream request accounts for (it was unregistered, re-plumbed away, or lodged twice)",
                          what, conn ? "connected" : "DISCONNECTED", ti, tname(x->type), x->rid, x->gen);
                else
                    FAILC("tail/stale-request", "after %s: %s tail%d holds more lodged %s requests than there are registered upstream requests reaching it", what, conn ? "connected" : "DISCONNECTED", ti, tname(x->type));
                return;
            }
            used[f] = true;
            /* the whole flow-format dictionary must have travelled */
            struct ent *e = &t->m[f];
            if (has_uref(e->type) && e->slot < NSLOT && c->slot[e->slot].reg && c->slot[e->slot].gen == e->gen && c->slot[e->slot].req.uref &&
                (x->ptr->uref == NULL || x->ptr->uref->udict == NULL || udict_cmp(x->ptr->uref->udict, c->slot[e->slot].req.uref->udict)))
                FAILC("tail/dictionary", "after %s: the %s request lodged at tail%d for slot%d does not carry the requester's flow-format dictionary", what, tname(e->type), ti, e->slot);
        }
        for (int i = 0; i < t->nm && !c->ret; i++)
            if (!used[i])
                FAILC("tail/missing-request", "after %s: tail%d does not hold a lodged request for the registered upstream request slot%d (%s, gen %u) although the chain connects them", what, ti, t->m[i].slot, tname(t->m[i].type), t->m[i].gen);
        /* bindings whose entry is gone are forgotten */
        for (int j = 0; j < t->nrt; j++) {
            struct rt *x = &t->rt[j];
            if (x->bslot < 0) continue;
            bool ok = false;
            for (int i = 0; i < t->nm; i++) if (t->m[i].slot == x->bslot && t->m[i].q == x->bq) ok = true;
            if (!ok) { x->bslot = -1; x->bq = -1; }
        }
    }
}

static void compare_throws(struct ctx *c, const char *what)
{
    int act[PFX_MAX_PROBES] = { 0 };
    for (int i = c->ev_mark; i < c->pfx.nevents; i++)
        if (c->pfx.events[i].event == UPROBE_PROVIDE_REQUEST && c->pfx.events[i].probe >= 0 && c->pfx.events[i].probe < PFX_MAX_PROBES) act[c->pfx.events[i].probe]++;
    for (int p = 0; p < c->pfx.nprobes && !c->ret; p++) {
        if (act[p] < c->exp_throw[p])
            FAILC("throw/missing", "%s: %d provide_request event(s) on probe %d, the model requires %d (a request with no output / no handler downstream must be thrown on the pipe's probe)", what, act[p], p, c->exp_throw[p]);
        else if (act[p] > c->exp_throw[p] + c->opt_throw[p])
            FAILC("throw/unexpected", "%s: %d provide_request event(s) on probe %d, the model allows %d", what, act[p], p, c->exp_throw[p] + c->opt_throw[p]);
    }
}

static bool alive_cand(struct ctx *c, const struct cand *k)
{
    if (k->q < 0) return m_slot_reg[k->slot];
#if C12_QUEUE
    if (c->qsink < 0 || !MN(c, c->qsink)->exists) return false;
    struct mnode *m = MN(c, c->qsink);
    for (int i = 0; i < m->n; i++) if (m->l[i].slot == k->slot && m->l[i].q == k->q) return true;
#endif
    return false;
}

static void compare_callbacks(struct ctx *c, const char *what)
{
    for (int i = 0; i < c->ncb && !c->ret; i++) {
        struct cbrec *r = &c->cb[i];
        int f = -1;
        for (int j = 0; j < c->nexp && f < 0; j++) {
            struct expcb *x = &c->exp[j];
            if (x->matched || x->ans != r->ans) continue;
            for (int k = 0; k < x->ncand; k++) if (x->cand[k].slot == r->slot) { f = j; break; }
        }
        if (f < 0) {
            FAILC("callback/unexpected", "%s: the provide callback of request slot%d (%s) was invoked (answer %d) but no provider answered that request in this step (answer delivered to the wrong request, or delivered twice)", what, r->slot, tname(c->slot[r->slot].type), r->ans);
            return;
        }
        struct expcb *x = &c->exp[f];
        x->matched = true; r->matched = true;
        struct slot *s = &c->slot[r->slot];
        if (r->ans >= 0 && s->type >= 0 && s->type < 5) c->cls |= 1u << (CL_T_UREF_MGR + s->type);
        if (r->ans > 0) c->cls |= 1u << CL_DEFERRED;
        if (s->replumbed) { c->cls |= 1u << CL_ANSWER_AFTER_REPLUMB; c->nt = true; }
        /* learn which lodged pointer serves which request */
        if (x->tail >= 0 && x->ptr) {
            struct tail *t = &c->tl[x->tail];
            for (int j = 0; j < t->nrt; j++)
                if (t->rt[j].ptr == x->ptr)
                    for (int k = 0; k < x->ncand; k++) if (x->cand[k].slot == r->slot) { t->rt[j].bslot = r->slot; t->rt[j].bq = x->cand[k].q; }
        }
    }
    for (int j = 0; j < c->nexp && !c->ret; j++) {
        struct expcb *x = &c->exp[j];
        if (x->matched || x->optional) continue;
        FAILC("callback/missing", "%s: a provider answered request slot%d%s (%s, answer %d) but the provide callback of the original request was not invoked", what, x->cand[0].slot, x->ncand > 1 ? " (or an indistinguishable one)" : "",
              tname(c->slot[x->cand[0].slot].type), x->ans);
    }
}

static void check_own_requests(struct ctx *c, const char *what)
{
    for (int k = 0; k < c->nn && !c->ret; k++) {
        struct rnode *r = &c->rn[k];
        if (r->kind != NK_GENAUX || r->dead || !r->held || r->nflowdefs == 0) continue;
        struct uref *fd = NULL;
        if (!ubase_check(upipe_get_flow_def(r->upipe, &fd))) continue;
        if (r->own_ans < 0) {
            if (fd != NULL) FAILC("own/unexpected-answer", "after %s: p%d:genaux has an output flow definition although nobody answered its ubuf_mgr request since it was issued", what, k);
        } else {
            if (fd == NULL) FAILC("own/missing-answer", "after %s: p%d:genaux has no output flow definition although its ubuf_mgr request was answered (answer %d): the answer did not reach the requester", what, k, r->own_ans);
            else if (uref_ans(fd) != r->own_ans) FAILC("own/wrong-answer", "after %s: p%d:genaux stored the flow format of answer %d, the last answer to its request is %d", what, k, uref_ans(fd), r->own_ans);
        }
    }
}

static void end_op(struct ctx *c, const char *what)
{
    if (c->render) pfx_render_since(&c->pfx, c->rep, c->ev_mark, c->rec_mark);
    if (c->pfx.overflow) INTERNAL("fixture log overflow");
    if (!c->ret) scan_records(c);
    if (!c->ret) model_deaths(c);
    if (!c->ret) compare_callbacks(c, what);
    if (!c->ret) compare_throws(c, what);
    if (!c->ret) compare_tails(c, what);
    if (!c->ret) check_own_requests(c, what);
    c->ev_mark = c->pfx.nevents;
    c->rec_mark = c->pfx.nrecs;
}

/* ---------------------------------------------------------------- operations */

static struct upipe *tgt_upipe(struct ctx *c, int t)
{
    if (t == T_NONE) return NULL;
    if (IS_TAIL(t)) return c->tl[t - TT0].upipe;
    return c->rn[t].upipe;
}

static void mark_replumbed(struct ctx *c, int k)
{
    /* every request that currently flows through node k */
    struct mnode *m = MN(c, k);
    for (int i = 0; i < m->n; i++) if (m->l[i].slot < NSLOT) c->slot[m->l[i].slot].replumbed = true;
}

static void op_toggle(struct ctx *c)
{
    uint8_t a = tp_u8(&c->t), b = tp_u8(&c->t);
    struct slot *s = &c->slot[a % NSLOT];
    char what[96];
    c->hash = vp_hash_mix(c->hash, 0x100 + a + ((uint64_t)b << 8));
    begin_op(c);
    if (s->reg) {
        snprintf(what, sizeof what, "unregister slot%d", s->id);
        for (int ti = 0; ti < 2; ti++) for (int i = 0; i < c->tl[ti].nm; i++) if (c->tl[ti].m[i].slot == s->id) c->cls |= 1u << CL_UNREG_WHILE_LODGED;
        real_unregister(c, s);
        m_slot_unregister(c, s->id);
    } else {
        int type = (a / NSLOT) % 5;
        /* where: mostly the head */
        int at = 0, sel = b % 8;
        if (sel >= 5 && c->nn > 1) at = 1 + (sel - 5 + (b >> 6)) % (c->nn - 1);
        if (!c->rn[at].held || c->rn[at].kind == NK_QSRC) at = 0;
        if (!c->rn[at].held || c->rn[at].kind == NK_QSRC) {
            at = -1;
            for (int k = 0; k < c->nn; k++) if (c->rn[k].held && c->rn[k].kind != NK_QSRC) { at = k; break; }
            if (at < 0) return;
        }
        int dictv = (b >> 3) % 3;
        int action = -1;
        if (c->actions_enabled && (b >> 5) == 7) action = (s->id + (a >> 6)) % NSLOT;      /* (a >> 6) == 0: itself */
        if (at > 0) c->cls |= 1u << CL_REGISTER_MID_CHAIN;
        for (int i = 0; i < NSLOT; i++) if (c->slot[i].reg && c->slot[i].type == type) c->cls |= 1u << CL_SAME_TYPE_TWICE;
        snprintf(what, sizeof what, "register slot%d (%s) at p%d", s->id, tname(type), at);
        real_register(c, s, type, dictv, at, action);
        m_slot_register(c, s->id);
    }
    end_op(c, what);
}

static void op_set_output(struct ctx *c)
{
    uint8_t a = tp_u8(&c->t);
    int k = a % c->nn;
    int sel = (a / 8) % 4;
    struct rnode *r = &c->rn[k];
    if (!r->held || r->kind == NK_QSINK) return;
    int tgt;
    switch (sel) {
    case 1: tgt = T_NONE; break;
    case 0: tgt = TT0 + 1; break;       /* byte 0: re-plumb to the other tail */
    case 2: tgt = k + 1 < c->nn && c->rn[k + 1].held && !c->rn[k + 1].dead && c->rn[k + 1].kind != NK_QSRC ? k + 1 : TT0; break;
    default: tgt = TT0; break;
    }
    if (IS_TAIL(tgt)) {     /* a tail has one upstream at a time */
        for (int pass = 0; pass < 2; pass++) {
            bool busy = !c->tl[tgt - TT0].held;
            for (int o = 0; o < MAXMN; o++) if (o != k && c->mn[o].exists && c->mn[o].out == tgt && !(c->mn[k].mk == MK_BIN && o == c->mn[k].inner)) busy = true;
            if (!busy) break;
            if (pass == 1) return;
            tgt = tgt == TT0 ? TT0 + 1 : TT0;
        }
    }
    struct mnode *m = MN(c, k);
#if C12_QUEUE
    /* a tail that does not handle requests, connected while requests are registered: the helper's behaviour is
     * accepted either way (see m_set_output); across a queue that tolerance would need optional messages: not generated */
    if (IS_TAIL(tgt) && c->tl[tgt - TT0].policy == PFX_REQ_UNHANDLED && m->n > 0) return;
#endif
    char what[64];
    snprintf(what, sizeof what, "set_output(p%d:%s, %s)", k, kind_name[r->kind], tgt_name(tgt));
    c->hash = vp_hash_mix(c->hash, 0x200 + k * 256 + (tgt & 0xff));
    int through = m->n;
    if (through > 0 && m->out != tgt) {
        c->cls |= 1u << CL_SETOUT_WITH_REQ;
        if (tgt == T_NONE) c->cls |= 1u << CL_SETOUT_NULL_WITH_REQ;
        mark_replumbed(c, k);
    }
    begin_op(c);
    int err = upipe_set_output(r->upipe, tgt_upipe(c, tgt));
    R("  %s -> %d\n", what, err);
    if (!ubase_check(err)) FAILC("output/set", "%s fails (%d)", what, err);
    m_node_set_output(c, k, tgt);
    end_op(c, what);
}

static int new_answer(struct ctx *c, int type)
{
    if (c->nans >= MAXANS) return -1;
    c->ans[c->nans].type = type; c->ans[c->nans].ptr = NULL; c->ans[c->nans].lat = 0;
    return c->nans++;
}

static void op_provide(struct ctx *c)
{
    uint8_t a = tp_u8(&c->t);
    int ti = a & 1;
    if (c->tl[ti].policy != PFX_REQ_HOLD || c->tl[ti].nrt == 0) ti ^= 1;
    struct tail *t = &c->tl[ti];
    if (t->policy != PFX_REQ_HOLD || t->nrt == 0 || !t->held) return;
    struct rt *x = &t->rt[(a >> 1) % t->nrt];
    struct urequest *X = x->ptr;
    int id = new_answer(c, X->type);
    if (id < 0) return;
    /* candidates: registered upstream requests this lodged request may stand for */
    struct expcb item; memset(&item, 0, sizeof item);
    item.ans = id; item.tail = ti; item.ptr = X;
    bool bound = false;
    if (x->bslot >= 0)
        for (int i = 0; i < t->nm; i++) if (t->m[i].slot == x->bslot && t->m[i].q == x->bq) { item.cand[0].slot = x->bslot; item.cand[0].q = x->bq; item.ncand = 1; bound = true; }
    if (!bound)
        for (int i = 0; i < t->nm && item.ncand < MAXCAND; i++) {
            if (!key_match(x, &t->m[i])) continue;
            bool taken = false;
            for (int j = 0; j < t->nrt; j++) if (&t->rt[j] != x && t->rt[j].bslot == t->m[i].slot && t->rt[j].bq == t->m[i].q) taken = true;
            if (taken) continue;
            item.cand[item.ncand].slot = t->m[i].slot; item.cand[item.ncand].q = t->m[i].q; item.ncand++;
        }
    char what[96];
    snprintf(what, sizeof what, "provide(tail%d, lodged %s request%s, answer %d)", ti, tname(X->type), has_uref(X->type) ? " with flow format" : "", id);
    c->hash = vp_hash_mix(c->hash, 0x300 + a);
    R("  %s  [rid %d gen %u]\n", what, x->rid, x->gen);
    if (x->nprov++ > 0) c->cls |= 1u << CL_REPEATED_ANSWER;
    begin_op(c);
    int err = 0;
    switch (X->type) {
    case UREQUEST_UREF_MGR: {
        struct uref_mgr *m = uref_std_mgr_alloc(0, c->pfx.fm.udict_mgr, 0);
        c->ans[id].ptr = m;
        err = urequest_provide_uref_mgr(X, m);      /* the callee owns the reference */
        break; }
    case UREQUEST_UCLOCK: {
        struct uclock *u = fake_uclock_alloc(c->pfx.loop, id);
        c->ans[id].ptr = u;
        err = urequest_provide_uclock(X, u);
        break; }
    case UREQUEST_SINK_LATENCY:
        c->ans[id].lat = 1000 + id;
        err = urequest_provide_sink_latency(X, 1000 + id);
        break;
    default: {
        struct uref *u = uref_dup(X->uref);
        uref_attr_set_unsigned(u, id, UDICT_TYPE_UNSIGNED, "x.ans");
        if (X->type == UREQUEST_FLOW_FORMAT) err = urequest_provide_flow_format(X, u);
        else err = urequest_provide_ubuf_mgr(X, ubuf_mgr_use(c->pfx.fm.block_mgr), u);
        break; }
    }
    (void)err;
    /* model: candidates reached without a queue are called back at once, the others get an upstream message */
    struct expcb imm = item, far = item;
    imm.ncand = far.ncand = 0;
    for (int i = 0; i < item.ncand; i++) {
        if (item.cand[i].q >= 0) far.cand[far.ncand++] = item.cand[i];
        else imm.cand[imm.ncand++] = item.cand[i];
    }
    int pick = -1;      /* which indistinguishable request was served is taken from what was observed */
    for (int i = 0; i < c->ncb && pick < 0; i++)
        if (c->cb[i].ans == id) for (int k = 0; k < imm.ncand; k++) if (imm.cand[k].slot == c->cb[i].slot) pick = k;
    if (imm.ncand == 1 && far.ncand == 0) pick = 0;
    if (pick >= 0) {
        int before = c->nexp;
        m_callback(c, imm.cand[pick].slot, id);
        if (c->nexp > before) { c->exp[before].tail = ti; c->exp[before].ptr = X; c->exp[before].cand[0].q = imm.cand[pick].q; }
    } else if (far.ncand > 0) {
        if (c->uqt >= MAXMSG) { INTERNAL("model upstream queue overflow"); return; }
        struct umsg *u = &c->uq[c->uqt++];
        memset(u, 0, sizeof *u);
        u->ans = id; u->ncand = far.ncand; memcpy(u->cand, far.cand, sizeof far.cand); u->tail = ti; u->ptr = X;
    } else if (imm.ncand > 0) {
        if (c->nexp < MAXCB) c->exp[c->nexp++] = imm;
    }
    end_op(c, what);
}

static void op_release(struct ctx *c)
{
    uint8_t a = tp_u8(&c->t);
    int k = a % c->nn;
    struct rnode *r = &c->rn[k];
    if (!r->held) return;
    char what[64];
    snprintf(what, sizeof what, "release(p%d:%s)", k, kind_name[r->kind]);
    c->hash = vp_hash_mix(c->hash, 0x400 + k);
    begin_op(c);
    /* the requester withdraws what it registered directly on this pipe before letting go of it */
    for (int i = 0; i < NSLOT; i++)
        if (c->slot[i].reg && c->slot[i].at == k) { real_unregister(c, &c->slot[i]); m_slot_unregister(c, i); }
    if (MN(c, k)->n > 0) c->cls |= 1u << CL_RELEASE_WITH_REQ;
    R("  %s\n", what);
    r->held = false;
    upipe_release(r->upipe);
    end_op(c, what);
}

static void op_flow_def(struct ctx *c)
{
    uint8_t a = tp_u8(&c->t);
    int k = -1, n = 0;
    for (int i = 0; i < c->nn; i++) if ((c->rn[i].kind == NK_BIN || c->rn[i].kind == NK_GENAUX) && c->rn[i].held) n++;
    if (!n) return;
    int w = a % n;
    for (int i = 0; i < c->nn; i++) if ((c->rn[i].kind == NK_BIN || c->rn[i].kind == NK_GENAUX) && c->rn[i].held && w-- == 0) { k = i; break; }
    struct rnode *r = &c->rn[k];
    if (r->nflowdefs >= 6) return;      /* the recording probe tracks a bounded number of inner pipes */
    char what[64];
    snprintf(what, sizeof what, "set_flow_def(p%d:%s)", k, kind_name[r->kind]);
    c->hash = vp_hash_mix(c->hash, 0x500 + k);
    begin_op(c);
    struct mnode *m = MN(c, k);
    if (r->kind == NK_BIN) {
        struct uref *fd = uref_alloc_control(c->pfx.fm.uref_mgr);
        uref_flow_set_def(fd, "block.mpegts.");     /* ts_align: already aligned input -> the inner pipe is an idem */
        uref_attr_set_unsigned(fd, r->nflowdefs, UDICT_TYPE_UNSIGNED, "x.fd");
        if (m->n > 0 && m->inner >= 0) { c->cls |= 1u << CL_BIN_FLOWDEF_WITH_REQ; mark_replumbed(c, k); }
        int err = upipe_set_flow_def(r->upipe, fd);
        uref_free(fd);
        R("  %s -> %d\n", what, err);
        if (!ubase_check(err)) { FAILC("flowdef/refused", "%s refused (%d)", what, err); return; }
        r->nflowdefs++;
        m_bin_set_flow_def(c, k);
    } else {
        /* genaux issues its own ubuf_mgr request for the flow definition "block.aux." */
        int ps = NSLOT + k;
        struct slot *s = &c->slot[ps];
        uint32_t gen = ++c->gen;
        struct uref *fd = mk_dict(c, 1, ps, gen);
        int err = upipe_set_flow_def(r->upipe, fd);
        uref_free(fd);
        R("  %s (own request: pseudo slot%d gen %u) -> %d\n", what, ps, gen, err);
        if (!ubase_check(err)) { FAILC("flowdef/refused", "%s refused (%d)", what, err); return; }
        r->nflowdefs++;
        /* require_ubuf_mgr: withdraw the previous request, issue the new one through register_output_request */
        if (m_slot_reg[ps]) { m_slot_reg[ps] = false; m_uoq(c, k, m_slot_ent[ps]); }
        r->own_ans = -1;
        s->id = ps; s->type = UREQUEST_UBUF_MGR; s->dictv = 1; s->at = k; s->gen = gen; s->inited = true; s->action = -1;
        struct ent e = { .slot = ps, .q = -1, .gen = gen, .type = UREQUEST_UBUF_MGR, .dictv = 1, .reg = false };
        m_slot_ent[ps] = e; m_slot_reg[ps] = true;
        m_roq(c, k, e);
    }
    end_op(c, what);
}

#if C12_QUEUE
static unsigned qlen(struct ctx *c, bool down)
{
    if (c->qsrc < 0 || c->rn[c->qsrc].dead || node_dead_now(c, c->qsrc)) return 0;
    struct upipe_queue *q = upipe_queue(c->rn[c->qsrc].upipe);
    return uqueue_length(down ? &q->downstream_oob : &q->upstream_oob);
}

/* one dispatch on loop A (queue sink side) or loop B (queue source side) */
static bool op_step(struct ctx *c, bool sideB)
{
    struct upump_mgr *loop = sideB ? c->loopB : c->pfx.loop;
    if (!fake_upump_runnable(loop)) return false;
    unsigned l0 = qlen(c, sideB);
    bool alive0 = c->qsrc >= 0 && !c->rn[c->qsrc].dead;
    begin_op(c);
    R("  step loop %c\n", sideB ? 'B' : 'A');
    fake_upump_step(loop, 0);
    bool died = alive0 && node_dead_now(c, c->qsrc);
    unsigned l1 = qlen(c, sideB);
    bool consumed = died || l1 < l0;
    char what[64];
    snprintf(what, sizeof what, "step of loop %c", sideB ? 'B' : 'A');
    if (consumed && sideB && c->dqh < c->dqt) {
        struct dmsg d = c->dq[c->dqh++];
        switch (d.kind) {
        case DM_REG: snprintf(what, sizeof what, "loop B: qsrc handles REGISTER (slot%d)", d.e.slot); m_roq(c, c->qsrc, d.e); break;
        case DM_UNREG: snprintf(what, sizeof what, "loop B: qsrc handles UNREGISTER (slot%d)", d.e.slot); m_uoq(c, c->qsrc, d.e); break;
        case DM_SRCEND: snprintf(what, sizeof what, "loop B: qsrc handles SOURCE_END"); break;
        case DM_REFEND: snprintf(what, sizeof what, "loop B: qsrc handles REF_END"); break;
        }
    } else if (consumed && !sideB && c->uqh < c->uqt) {
        struct umsg u = c->uq[c->uqh++];
        struct expcb item; memset(&item, 0, sizeof item);
        item.ans = u.ans; item.tail = u.tail; item.ptr = u.ptr;
        bool anydead = false;
        for (int i = 0; i < u.ncand; i++) {
            if (alive_cand(c, &u.cand[i])) item.cand[item.ncand++] = u.cand[i];
            else anydead = true;
        }
        snprintf(what, sizeof what, "loop A: qsink handles PROVIDE (answer %d)", u.ans);
        if (item.ncand == 0) c->cls |= 1u << CL_DROP_ACROSS_QUEUE;
        else {
            item.optional = anydead;
            c->cls |= 1u << CL_ACROSS_QUEUE;
            /* is the tail pointer still lodged?  (binding is only learnt for pointers that are) */
            bool lodged = false;
            if (u.tail >= 0) for (int j = 0; j < c->tl[u.tail].nrt; j++) if (c->tl[u.tail].rt[j].ptr == u.ptr) lodged = true;
            if (!lodged) { item.tail = -1; item.ptr = NULL; }
            if (item.ncand == 1 && !item.optional) {
                int before = c->nexp;
                m_callback(c, item.cand[0].slot, u.ans);
                if (c->nexp > before) { c->exp[before].tail = item.tail; c->exp[before].ptr = item.ptr; c->exp[before].cand[0].q = item.cand[0].q; }
            } else if (c->nexp < MAXCB) c->exp[c->nexp++] = item;
        }
    }
    end_op(c, what);
    return true;
}

static void op_drain(struct ctx *c)
{
    for (int i = 0; i < 2000 && !c->ret; i++) {
        bool a = op_step(c, true);
        bool b = !c->ret && op_step(c, false);
        if (!a && !b) break;
    }
}
#endif

/* ---------------------------------------------------------------- main */

static struct upipe_mgr *kind_mgr(int kind)
{
    switch (kind) {
    case NK_IDEM: return upipe_idem_mgr_alloc();
    case NK_SKIP: return upipe_skip_mgr_alloc();
    case NK_DELAY: return upipe_delay_mgr_alloc();
    case NK_SETATTR: return upipe_setattr_mgr_alloc();
    case NK_PROBE_UREF: return upipe_probe_uref_mgr_alloc();
    case NK_SETFLOWDEF: return upipe_setflowdef_mgr_alloc();
    case NK_SETRAP: return upipe_setrap_mgr_alloc();
    case NK_HTONS: return upipe_htons_mgr_alloc();
    case NK_MATCH_ATTR: return upipe_match_attr_mgr_alloc();
    case NK_DUP: return upipe_dup_mgr_alloc();
    case NK_GENAUX: return upipe_genaux_mgr_alloc();
    case NK_BIN: return upipe_ts_align_mgr_alloc();
    }
    return NULL;
}

static int run(const uint8_t *tape, size_t len, struct vp_report *rep, unsigned flags)
{
    struct ctx *c = &ctx;
    memset(c, 0, sizeof *c);
    memset(m_slot_reg, 0, sizeof m_slot_reg);
    memset(m_slot_ent, 0, sizeof m_slot_ent);
    tp_init(&c->t, tape, len);
    c->rep = rep; c->render = flags & VP_RENDER; c->thorough = flags & VP_THOROUGH; c->noexclude = flags & VP_NO_EXCLUDE;
    c->hash = VP_HASH_INIT;
    c->qsink = c->qsrc = -1;
    c->nans = 1;

    uint8_t cfgb = tp_u8(&c->t), polb = tp_u8(&c->t), shapeb = tp_u8(&c->t);
    struct pfx_cfg cfg = { .pool_depth = (int[]){ 0, 1, 4 }[cfgb % 3], .prepend = 0, .append = 0, .align = 0,
                           .with_uref_mgr = !((cfgb / 3) & 1), .with_ubuf_mem = !((cfgb / 3) & 2), .with_uclock = !((cfgb / 3) & 4), .with_upump_mgr = true };
    if (pfx_init(&c->pfx, &cfg) != 0) return vp_internal(rep, "pfx_init");
    c->hash = vp_hash_mix(c->hash, cfgb | (polb << 8) | (shapeb << 16));
    /* tails: byte 0 = both hold requests (deferred provider) */
    static const int pol[3] = { PFX_REQ_HOLD, PFX_REQ_THROW, PFX_REQ_UNHANDLED };
    static const char *poln[3] = { "HOLD (provides later)", "THROW (its probe answers)", "UNHANDLED" };
    for (int i = 0; i < 2; i++) {
        struct tail *t = &c->tl[i];
        t->upipe = pfx_sink_alloc(&c->pfx, &t->sink);
        t->probe = c->pfx.nprobes - 1;
        int p = i == 0 ? polb % 3 : (polb / 3) % 3;
        t->policy = pol[p];
        pfx_sink(&c->pfx, t->sink)->req_policy = t->policy;
        t->held = true;
    }
    /* callbacks that re-require another request: only where every expectation is exact */
    c->actions_enabled = !C12_QUEUE && c->tl[0].policy != PFX_REQ_UNHANDLED && c->tl[1].policy != PFX_REQ_UNHANDLED && ((polb / 9) & 3) == 3;
    R("C12 %s: pool_depth=%d probes: uref_mgr=%d ubuf_mem=%d uclock=%d; tail0 %s, tail1 %s%s\n", C12_QUEUE ? "queue" : "inthread", cfg.pool_depth,
      cfg.with_uref_mgr, cfg.with_ubuf_mem, cfg.with_uclock, poln[polb % 3], poln[(polb / 3) % 3], c->actions_enabled ? "; callbacks may re-require" : "");

    /* chain */
    int kinds[MAXN]; int nn = 0;
#if C12_QUEUE
    int na = shapeb % 3, nb = (shapeb / 3) % 3;
    for (int i = 0; i < na; i++) kinds[nn++] = -1;
    c->qsink = nn; kinds[nn++] = NK_QSINK;
    c->qsrc = nn; kinds[nn++] = NK_QSRC;
    for (int i = 0; i < nb; i++) kinds[nn++] = -1;
    c->loopB = fake_upump_mgr_alloc(cfg.pool_depth, cfg.pool_depth);
#else
    nn = 1 + shapeb % 4;
    for (int i = 0; i < nn; i++) kinds[i] = -1;
#endif
    c->nn = nn;
    if (nn >= 3) c->cls |= 1u << CL_CHAIN3;
    for (int k = 0; k < nn; k++) if (kinds[k] < 0) { kinds[k] = tp_u8(&c->t) % NK_NKINDS; c->hash = vp_hash_mix(c->hash, kinds[k]); }
    /* the queue source is allocated first: the queue sink needs it */
    for (int pass = 0; pass < 2 && !c->ret; pass++)
        for (int k = 0; k < nn && !c->ret; k++) {
            struct rnode *r = &c->rn[k];
            if ((pass == 0) != (kinds[k] == NK_QSRC)) continue;
            r->kind = kinds[k];
            r->own_ans = -1;
            r->sideB = c->qsrc >= 0 && k >= c->qsrc;
            struct uprobe *probe = pfx_probe_alloc(&c->pfx, &r->probe);
#if C12_QUEUE
            if (r->kind == NK_QSRC) r->upipe = upipe_qsrc_alloc(upipe_qsrc_mgr_alloc(), uprobe_upump_mgr_alloc(probe, c->loopB), 4);
            else if (r->kind == NK_QSINK) r->upipe = upipe_qsink_alloc(upipe_qsink_mgr_alloc(), probe, c->rn[c->qsrc].upipe);
            else
#endif
            r->upipe = upipe_void_alloc(kind_mgr(r->kind), probe);
            if (!r->upipe) { INTERNAL("alloc %s", kind_name[r->kind]); break; }
            r->held = true;
            struct mnode *m = MN(c, k);
            m->exists = true; m->out = T_NONE; m->probe = r->probe; m->inner = -1;
            m->mk = r->kind == NK_GENAUX ? MK_GENAUX : r->kind == NK_BIN ? MK_BIN : r->kind == NK_QSINK ? MK_QSINK : r->kind == NK_QSRC ? MK_QSRC : MK_PASS;
        }
    for (int k = 0; k < nn; k++) R("  p%d = %s (probe %d)%s\n", k, kind_name[c->rn[k].kind], c->rn[k].probe, c->rn[k].sideB ? "  [loop B]" : "");
    for (int i = 0; i < NS; i++) { c->slot[i].id = i; c->slot[i].action = -1; }
    begin_op(c);
    /* initial plumbing: the chain, the last pipe to tail0 */
    for (int k = 0; k < nn && !c->ret; k++) {
        if (c->rn[k].kind == NK_QSINK) continue;
        int tgt = k + 1 < nn ? k + 1 : TT0;
        upipe_set_output(c->rn[k].upipe, tgt_upipe(c, tgt));
        m_node_set_output(c, k, tgt);
    }
    end_op(c, "initial plumbing");

    int maxops = c->thorough ? MAXOPS_T : MAXOPS_Q;
    while (!tp_done(&c->t) && c->nops < maxops && !c->ret) {
        c->nops++;
        uint8_t op = tp_u8(&c->t) % 16;
        switch (op) {
        case 0: case 1: case 2: case 3: op_toggle(c); break;
        case 4: case 5: case 14: op_set_output(c); break;
        case 6: case 7: case 13: op_provide(c); break;
        case 8: op_release(c); break;
        case 9: op_flow_def(c); break;
#if C12_QUEUE
        case 10: c->hash = vp_hash_mix(c->hash, 0x600); op_step(c, false); break;
        case 11: case 15: c->hash = vp_hash_mix(c->hash, 0x601); op_step(c, true); break;
        case 12: c->hash = vp_hash_mix(c->hash, 0x602); R("  run both loops until nothing is runnable\n"); op_drain(c); break;
#else
        default: op_toggle(c); break;
#endif
        }
    }

    /* tail of the history: everything settles, the requester withdraws its requests, everything is released */
    if (!c->ret) {
        R("  -- end of history: settle, unregister, release\n");
#if C12_QUEUE
        op_drain(c);
#endif
    }
    if (!c->ret) {
        begin_op(c);
        for (int i = 0; i < NSLOT; i++) if (c->slot[i].reg) { real_unregister(c, &c->slot[i]); m_slot_unregister(c, i); }
        end_op(c, "final unregister");
    }
#if C12_QUEUE
    if (!c->ret) op_drain(c);
#endif
    /* nothing may be lodged anywhere now except the pipes' own requests */
    if (c->ret) {
        /* a failed case is torn down without further checks; requests still registered are withdrawn to honour the contract */
        for (int i = 0; i < NSLOT; i++) if (c->slot[i].reg && c->rn[c->slot[i].at].held) { upipe_unregister_request(c->rn[c->slot[i].at].upipe, &c->slot[i].req); c->slot[i].reg = false; urequest_clean(&c->slot[i].req); }
    }
    for (int k = 0; k < nn; k++) {
        struct rnode *r = &c->rn[k];
        if (!r->held) continue;
        if (!c->ret) begin_op(c);
        r->held = false;
        R("  release(p%d)\n", k);
        upipe_release(r->upipe);
        if (!c->ret) end_op(c, "final release");
    }
    for (int i = 0; i < 2; i++) if (c->tl[i].held) { c->tl[i].held = false; upipe_release(c->tl[i].upipe); }
#if C12_QUEUE
    if (!c->ret) op_drain(c);
    else for (int i = 0; i < 4000; i++) { bool a = fake_upump_step(c->loopB, 0), b = fake_upump_step(c->pfx.loop, 0); if (!a && !b) break; }
#endif
    if (!c->ret) {
        begin_op(c);
        end_op(c, "teardown");
        for (int k = 0; k < nn && !c->ret; k++)
            if (!c->rn[k].dead) FAILC("life/not-dead", "p%d:%s is still alive after every reference was released and both loops are idle", k, kind_name[c->rn[k].kind]);
    }
    int loopb_left = 0; bool loopb_ref = false;
#if C12_QUEUE
    loopb_left = fake_upump_count(c->loopB);
    upump_mgr_vacuum(c->loopB);
    loopb_ref = !urefcount_single(c->loopB->refcount);
    upump_mgr_release(c->loopB);
#endif
    const char *audit = pfx_clean(&c->pfx);
    if (!c->ret) {
        if (audit && !strncmp(audit, "INTERNAL", 8)) c->ret = vp_internal(rep, "%s", audit);
        else if (audit) FAILC("audit", "%s", audit);
        else if (loopb_left) FAILC("audit", "%d pump(s) still allocated in loop B", loopb_left);
        else if (loopb_ref) FAILC("audit", "the upump manager of loop B is still referenced");
    }
    rep->case_hash = c->hash;
    rep->classes |= c->cls;
    rep->nontrivial = c->nt;
    return c->ret;
}

const struct vp_executor vp_executor = { "C12", C12_QUEUE ? "queue" : "inthread", 220, class_names, run, NULL };

/* C12 — requests travel downstream, answers travel back, surviving re-plumbing.
 *
 * One source, two executors:
 *   -DC12_QUEUE=0  "inthread": head -> p1 .. pn -> tail, everything in one logical thread
 *   -DC12_QUEUE=1  "queue":    a .. -> qsink ~~> qsrc -> .. -> tail; the qsink side runs on fake loop A,
 *                              the qsrc side on fake loop B (two logical threads in one OS thread)
 *
 * The harness is the requester (slots with their own provide callback), the application (set_output,
 * release, set_flow_def) and, for tails with policy HOLD, the provider.  A model mirrors which request is
 * registered where (per pipe: the ordered request list of upipe_helper_output / bin_input, per queue: the
 * out-of-band messages in flight) and predicts, for every operation, (1) the requests lodged at each tail,
 * (2) the provide_request events per probe, (3) the callbacks on the original requests and the objects
 * they carry.  Pointers seen at the tails are never assumed to come in any order: a lodged request is
 * identified by its type and, when it has a flow format, by the attributes x.rid / x.gen the requester put
 * into the dictionary; when several registered requests are indistinguishable the expectation is the set of
 * candidates. */
#include "vp.h"
#include "tape.h"
#include "pipefix.h"
#include "upipe/uref_attr.h"
#include "upipe/uref_flow.h"
#include "upipe/uclock.h"
#include "upipe/uprobe_upump_mgr.h"
#include "upipe-modules/upipe_idem.h"
#include "upipe-modules/upipe_skip.h"
#include "upipe-modules/upipe_htons.h"
#include "upipe-modules/upipe_delay.h"
#include "upipe-modules/upipe_setattr.h"
#include "upipe-modules/upipe_setflowdef.h"
#include "upipe-modules/upipe_probe_uref.h"
#include "upipe-modules/upipe_match_attr.h"
#include "upipe-modules/upipe_setrap.h"
#include "upipe-modules/upipe_dup.h"
#include "upipe-modules/upipe_genaux.h"
#include "upipe-modules/upipe_time_limit.h"
#include "upipe-modules/upipe_video_blank.h"
#include "upipe-modules/upipe_void_source.h"
#include "upipe-modules/upipe_rtp_decaps.h"
#include "upipe-modules/upipe_blit.h"
#include "upipe-ts/upipe_ts_align.h"
#include "upipe/uref_pic_flow.h"
#include "upipe/uref_clock.h"
#include "upipe/uref_std.h"
#include "upipe/uprobe_uref_mgr.h"
#include "upipe/uprobe_ubuf_mem.h"
#include "upipe/uprobe_uclock.h"
#include "upipe/upipe_helper_upipe.h"
#include "upipe/upipe_helper_urefcount.h"
#include "upipe/upipe_helper_void.h"
#include "upipe/upipe_helper_inner.h"
#include "upipe/upipe_helper_bin_input.h"
#include "upipe/upipe_helper_bin_output.h"
#include "upipe/upipe_helper_uclock.h"
#include "upipe/upipe_helper_uref_mgr.h"
#include "upipe/upipe_helper_ubuf_mgr.h"
#ifndef C12_QUEUE
#define C12_QUEUE 0
#endif
#if C12_QUEUE
#include "upipe-modules/upipe_queue_source.h"
#include "upipe-modules/upipe_queue_sink.h"
#include "upipe-modules/upipe_queue.h"      /* private header of lib/upipe-modules: only uqueue_length() of the two out-of-band queues is read */
#endif
#include <stdlib.h>
#include <stdio.h>

#define MAXN    6                   /* chain nodes (queue: <=2 + qsink + qsrc + <=2) */
#define MAXMN   (MAXN * 3)          /* + two model slots per node for the inner pipe of a bin */
#define NSLOT   8                   /* harness request slots */
#define NOWN    2                   /* requests of its own a node can have (video_blank: flow_format + ubuf_mgr; void_source: uref_mgr + uclock) */
#define NS      (NSLOT + NOWN * MAXN)   /* + pseudo slots: the pipes' own requests */
#define PS(k, j)   (NSLOT + NOWN * (k) + (j))
#define PS_NODE(s) (((s) - NSLOT) / NOWN)
#define PS_J(s)    (((s) - NSLOT) % NOWN)
#define MAXENT  40
#define MAXCB   64
#define MAXMSG  2048
#define MAXANS  160
#define MAXCAND 6
#define MAXOPS_Q 70
#define MAXOPS_T 140

#define T_NONE (-1)
#define TT0 64                      /* target codes of the two tails */
#define IS_TAIL(t) ((t) >= TT0)

enum { NK_IDEM, NK_SKIP, NK_DELAY, NK_SETATTR, NK_PROBE_UREF, NK_SETFLOWDEF, NK_SETRAP, NK_HTONS, NK_MATCH_ATTR, NK_DUP,
       NK_GENAUX, NK_BIN, NK_NKINDS, NK_QSINK, NK_QSRC,
       /* kinds with requests of their own through the helpers (appended: the first 12 codes decode as before) */
       NK_TIME_LIMIT,       /* upipe_helper_uclock: requires after every successful control command as long as it has no clock */
       NK_VIDEO_BLANK,      /* upipe_helper_flow_format then upipe_helper_ubuf_mgr: set_flow_def requires a flow format, its answer requires a ubuf_mgr, whose answer becomes the output flow definition */
       NK_RTP_DECAPS,       /* upipe_helper_ubuf_mgr, demand_ubuf_mgr: set_flow_def requires and, if nothing came synchronously, throws on its probe as well */
       NK_HBIN,             /* a bin defined below with the repository's UPIPE_HELPER_BIN_INPUT / BIN_OUTPUT / INNER / UCLOCK macros around an idem */
       NK_VOID_SOURCE,      /* upipe_helper_uref_mgr then upipe_helper_uclock (head of the chain only: it has no input) */
       NK_BLIT,             /* control_ubuf_mgr of upipe_helper_ubuf_mgr in front of control_output: ubuf_mgr requests from upstream stop here and are thrown on its probe
                             * (its flow_format negotiation is not modelled: no flow_format request is generated upstream of it) */
       NK_LAST };
#define NK_NEW0 NK_TIME_LIMIT
#define NK_OLD_SPAN 168      /* kind bytes below this decode as before (byte % 12); above: the new kinds */
static const char *const kind_name[] = { "idem", "skip", "delay", "setattr", "probe_uref", "setflowdef", "setrap", "htons", "match_attr", "dup",
                                         "genaux", "ts_align(bin)", "?", "qsink", "qsrc",
                                         "time_limit", "video_blank", "rtp_decaps", "hbin(harness bin)", "void_source", "blit" };
enum { MK_PASS, MK_GENAUX, MK_BIN, MK_QSINK, MK_QSRC, MK_HBIN };

enum { CL_SETOUT_WITH_REQ, CL_ANSWER_AFTER_REPLUMB, CL_DROP_ACROSS_QUEUE, CL_NO_PROVIDER, CL_PROBE_ANSWER, CL_DEFERRED, CL_REPEATED_ANSWER,
       CL_T_UREF_MGR, CL_T_FLOW_FORMAT, CL_T_UBUF_MGR, CL_T_UCLOCK, CL_T_SINK_LATENCY, CL_ACROSS_QUEUE, CL_RELEASE_WITH_REQ, CL_BIN_FLOWDEF_WITH_REQ,
       CL_GENAUX_STOPS, CL_OWN_REQUEST_ANSWERED, CL_CHAIN3, CL_REENTRANT, CL_UNREG_WHILE_LODGED, CL_SETOUT_NULL_WITH_REQ, CL_SAME_TYPE_TWICE,
       CL_STALE_AND_LIVE, CL_REGISTER_MID_CHAIN, CL_BURST,
       CL_OWN_UCLOCK, CL_OWN_UREF_MGR, CL_OWN_FLOW_FORMAT, CL_OWN_UBUF_MGR_CHAINED, CL_OWN_LODGED_AT_TAIL, CL_OWN_THROWN, CL_OWN_SETOUT, CL_OWN_WITHDRAWN_AT_DEATH,
       CL_OWN_REISSUED, CL_OWN_ACROSS_QUEUE, CL_OWN_TAIL_ANSWER, CL_DEMAND_THROWS_AGAIN, CL_VSRC_TIMER, CL_HBIN_DROP_WITH_REQ, CL_HBIN_BUILD_WITH_REQ,
       CL_HBIN_REPLACE_WITH_REQ, CL_HBIN_UNREG_NO_INNER, CL_HBIN_REG_NO_INNER, CL_BIN_OUTPUT_REQUEST, CL_SVC_SET, CL_SVC_NEW_OBJECT_ANSWERS, CL_SVC_OFF_THEN_UNANSWERED, CL_ANSWER_AGAIN, CL_QSINK_REATTACH };
static const char *const class_names[] = {
    "set_output_with_requests_registered", "answer_after_replumbing", "provide_after_unregister_across_queue_dropped", "no_provider_provide_request_unhandled",
    "provide_request_answered_by_probe", "deferred_answer_from_tail", "repeated_answer_same_request",
    "answered_uref_mgr", "answered_flow_format", "answered_ubuf_mgr", "answered_uclock", "answered_sink_latency", "answer_crossed_queue",
    "pipe_released_with_requests_flowing", "bin_inner_replaced_with_requests", "genaux_stops_ubuf_mgr_or_flow_format", "pipe_own_request_answered",
    "chain_of_3plus", "callback_re_requires_other_request", "unregister_while_lodged_at_tail", "set_output_null_with_requests", "two_live_requests_same_type",
    "stale_and_live_incarnation_lodged", "registered_in_mid_chain", "oob_burst",
    "own_uclock_answered(helper_uclock)", "own_uref_mgr_answered(helper_uref_mgr)", "own_flow_format_answered(helper_flow_format)", "own_ubuf_mgr_answered_after_flow_format",
    "own_request_lodged_at_tail", "own_request_thrown_on_own_probe", "set_output_with_own_request_registered", "own_request_withdrawn_when_pipe_dies",
    "own_request_re_required", "own_request_answer_crossed_queue", "own_request_answered_from_tail", "demand_throws_after_require", "void_source_timer_started",
    "hbin_inner_dropped_with_requests", "hbin_inner_built_after_drop_with_requests", "hbin_inner_replaced_with_requests", "hbin_unregister_while_no_inner", "hbin_register_while_no_inner",
    "bin_output_request_registered", "service_probe_object_set", "answer_by_replaced_service_object", "service_probe_switched_off_then_unanswered", "ubuf_mgr_answered_again_with_the_answer_before_last", "queue_sink_upump_mgr_attached_again", NULL };
#define CLS(x) ((uint64_t)1 << (x))

/* ---------------------------------------------------------------- structures */

struct ent { int16_t slot, q; uint32_t gen; uint8_t type, dictv; bool reg; int16_t krid, base; };   /* krid: the x.rid attribute its dictionary carries (the slot, except for a request built from another one's answer) */

struct mnode {
    int mk;
    bool exists;
    int out;                /* T_NONE, node index, TT0+t */
    int probe;              /* recording probe that logs this pipe's provide_request events */
    int n; struct ent l[MAXENT];
    int inner;              /* MK_BIN: model node of the inner pipe or -1 */
    unsigned stops;         /* bit per request type that control_ubuf_mgr, called in front of the other helpers, throws on the pipe's probe and lets go no further (hbin: ubuf_mgr, flow_format; blit: ubuf_mgr) */
};

struct rnode {              /* real side */
    int kind;
    struct upipe *upipe;
    int probe;
    bool held, dead;
    bool sideB;
    int nflowdefs;          /* bin / genaux / video_blank / rtp_decaps: flow definitions set so far; hbin: inner pipes built so far */
    int own_ans;            /* genaux, video_blank: -1 = nothing stored as output flow definition yet; else the answer id the stored format carries (0 = service probe) */
    struct { int obj; } own[NOWN];  /* identity of the object the helper stores for the own request j: -1 none, > 0 answer id, <= -2 service object generation */
    int um_base;            /* video_blank: answer id of the flow format its current ubuf_mgr request was built from */
    bool timer;             /* void_source: it has what it needs, its timer must exist */
    void *own_ptr[NOWN];    /* hbin: the uclock / uref manager its helpers must be holding */
};
struct bolist { int n; struct ent l[4]; };     /* hbin: the request list of upipe_helper_bin_output */

struct slot {
    struct urequest req;
    int id, type, dictv, at;
    uint32_t gen;
    bool reg;               /* registered (callbacks are legitimate) */
    bool inited;
    bool replumbed;         /* an output was replaced on its path while it was registered */
    int action;             /* callback re-requires this other slot (-1 none) */
    unsigned ncb;
};

struct rt { struct urequest *ptr; uint8_t type; int rid; uint32_t gen; int bslot, bq; int nprov; int last_id[2]; };   /* request lodged at a real tail */
struct tail {
    struct upipe *upipe; int sink; int probe; int policy; bool held;
    int nrt; struct rt rt[MAXENT];
    int nm; struct ent m[MAXENT];
};

struct cand { int16_t slot, q; };
struct expcb { int ans; int ncand; struct cand cand[MAXCAND]; bool optional, matched; int tail; struct urequest *ptr; };
struct cbrec { int slot; int ans; bool matched; };
struct dmsg { uint8_t kind; struct ent e; };
enum { DM_REG, DM_UNREG, DM_SRCEND, DM_REFEND };
struct umsg { int ans; int ncand; struct cand cand[MAXCAND]; int tail; struct urequest *ptr; };
struct ans { int type; void *ptr; uint64_t lat; };

struct ctx {
    struct tape t;
    struct vp_report *rep;
    bool render, thorough, noexclude;
    struct pfx pfx;
    int ret;
    uint64_t hash;
    uint64_t cls;
    int nn;
    struct bolist bo[MAXN];
    /* service probes: the probe, whether it answers now, the object it answers with, how often it was replaced */
    struct uprobe *svc_probe[3];
    bool svc_on[3];
    void *svc_obj[3], *svc_orig[3];
    int svc_gen[3];
    struct uref_mgr *alt_uref_mgr; struct umem_mgr *alt_umem; struct uclock *alt_uclock;
    bool svc_was_off[3];
    bool has_blit;
    struct rnode rn[MAXN];
    struct mnode mn[MAXMN];
    struct tail tl[2];
    struct slot slot[NS];
    uint32_t gen;
    int qsink, qsrc;                /* node indices or -1 */
    struct upump_mgr *loopB;
    int nextq;
    bool refend_pushed;
    struct dmsg dq[MAXMSG]; int dqh, dqt;
    struct umsg uq[MAXMSG]; int uqh, uqt;
    struct ans ans[MAXANS]; int nans;
    /* per-operation window */
    int ev_mark, rec_mark;
    int exp_throw[PFX_MAX_PROBES], opt_throw[PFX_MAX_PROBES];
    int exp_root, opt_root; unsigned root_mark;     /* provide_request events no service probe answers must travel on to the end of the probe chain */
    int exp_reg[2], exp_unreg[2];   /* register / unregister commands each tail must receive in this operation */
    int act_reg[2], act_unreg[2];
    int nexp; struct expcb exp[MAXCB];
    int ncb; struct cbrec cb[MAXCB];
    bool in_action, m_in_action;
    bool actions_enabled;
    bool replumb_pending;
    bool nt;
    int nops;
};

static struct ctx ctx;

#define R(...) do { if (c->render) vp_render(c->rep, __VA_ARGS__); } while (0)
#define FAILC(key, ...) do { if (!c->ret) c->ret = vp_fail(c->rep, "C12/" key, __VA_ARGS__); } while (0)
#define INTERNAL(...) do { if (!c->ret) c->ret = vp_internal(c->rep, __VA_ARGS__); } while (0)

static const char *tname(int type)
{
    static const char *n[] = { "uref_mgr", "flow_format", "ubuf_mgr", "uclock", "sink_latency" };
    return type >= 0 && type < 5 ? n[type] : "?";
}
static bool has_uref(int type) { return type == UREQUEST_FLOW_FORMAT || type == UREQUEST_UBUF_MGR; }
static const char *tgt_name(int t)
{
    static char b[4][16]; static int i; i = (i + 1) & 3;
    if (t == T_NONE) return "NULL";
    if (IS_TAIL(t)) { snprintf(b[i], sizeof b[i], "tail%d", t - TT0); return b[i]; }
    snprintf(b[i], sizeof b[i], "p%d", t); return b[i];
}

/* ---------------------------------------------------------------- hbin: a bin written with the repository's own helper macros
 *
 * The pattern of upipe_ffmt / upipe_fdec / upipe_blksrc / upipe_autoin (which cannot be compiled here): one inner pipe (an idem) that the bin drops
 * (store_bin_input(NULL), store_bin_output(NULL)), builds again or replaces directly, and, as upipe_seg_src / upipe_seq_src do, a uclock request of
 * the bin itself that goes straight to the bin's output through register_bin_output_request. */
#define HBIN_SIGNATURE UBASE_FOURCC('c','1','2','b')
struct hbin {
    struct urefcount urefcount;
    struct uprobe proxy_probe;
    struct uchain input_request_list;
    struct uchain output_request_list;
    struct upipe *first_inner;
    struct upipe *last_inner;
    struct upipe *output;
    struct uclock *uclock;
    struct urequest uclock_request;
    struct uref_mgr *uref_mgr;
    struct urequest uref_mgr_request;
    struct ubuf_mgr *ubuf_mgr;          /* never required: only control_ubuf_mgr of this helper is used */
    struct uref *flow_format;
    struct urequest ubuf_mgr_request;
    bool stops_ubuf;                    /* a bin that answers ubuf_mgr / flow_format requests itself (through its probe), as upipe_blit does with control_ubuf_mgr */
    struct upipe upipe;
};
static void hbin_free(struct upipe *upipe);
UPIPE_HELPER_UPIPE(hbin, upipe, HBIN_SIGNATURE)
UPIPE_HELPER_UREFCOUNT(hbin, urefcount, hbin_free)
UPIPE_HELPER_VOID(hbin)
UPIPE_HELPER_INNER(hbin, first_inner)
UPIPE_HELPER_BIN_INPUT(hbin, first_inner, input_request_list)
UPIPE_HELPER_INNER(hbin, last_inner)
UPIPE_HELPER_BIN_OUTPUT(hbin, last_inner, output, output_request_list)
UPIPE_HELPER_UCLOCK(hbin, uclock, uclock_request, NULL, hbin_register_bin_output_request, hbin_unregister_bin_output_request)
UPIPE_HELPER_UREF_MGR(hbin, uref_mgr, uref_mgr_request, NULL, hbin_register_bin_output_request, hbin_unregister_bin_output_request)
UPIPE_HELPER_UBUF_MGR(hbin, ubuf_mgr, flow_format, ubuf_mgr_request, NULL, hbin_register_bin_output_request, hbin_unregister_bin_output_request)

static int hbin_proxy_probe(struct uprobe *uprobe, struct upipe *inner, int event, va_list args)
{
    struct hbin *h = container_of(uprobe, struct hbin, proxy_probe);
    return upipe_throw_proxy(hbin_to_upipe(h), inner, event, args);
}

static struct upipe *hbin_alloc(struct upipe_mgr *mgr, struct uprobe *uprobe, uint32_t signature, va_list args)
{
    struct upipe *upipe = hbin_alloc_void(mgr, uprobe, signature, args);
    if (unlikely(upipe == NULL)) return NULL;
    struct hbin *h = hbin_from_upipe(upipe);
    hbin_init_urefcount(upipe);
    hbin_init_bin_input(upipe);
    hbin_init_bin_output(upipe);
    hbin_init_uclock(upipe);
    hbin_init_uref_mgr(upipe);
    hbin_init_ubuf_mgr(upipe);
    h->stops_ubuf = false;
    uprobe_init(&h->proxy_probe, hbin_proxy_probe, NULL);
    h->proxy_probe.refcount = NULL;
    upipe_throw_ready(upipe);
    return upipe;
}

static void hbin_build_inner(struct upipe *upipe)      /* also replaces an existing inner pipe directly */
{
    struct hbin *h = hbin_from_upipe(upipe);
    struct upipe *inner = upipe_void_alloc(upipe_idem_mgr_alloc(), uprobe_use(&h->proxy_probe));
    if (!inner) return;
    hbin_store_bin_input(upipe, upipe_use(inner));
    hbin_store_bin_output(upipe, inner);
}

static void hbin_drop_inner(struct upipe *upipe)
{
    hbin_store_bin_input(upipe, NULL);
    hbin_store_bin_output(upipe, NULL);
}

static int hbin_control(struct upipe *upipe, int command, va_list args)
{
    if (hbin_from_upipe(upipe)->stops_ubuf && (command == UPIPE_REGISTER_REQUEST || command == UPIPE_UNREGISTER_REQUEST)) {
        /* control_ubuf_mgr in front of the other helpers.  Its answer to register_request is what the probes answered: UBASE_ERR_UNHANDLED then
         * means "nobody provided", not "not my command" (UBASE_HANDLED_RETURN would pass the request on to the next helper: see NK_BLIT) */
        va_list args_copy;
        va_copy(args_copy, args);
        struct urequest *urequest = va_arg(args_copy, struct urequest *);
        va_end(args_copy);
        if (urequest->type == UREQUEST_UBUF_MGR || urequest->type == UREQUEST_FLOW_FORMAT)
            return hbin_control_ubuf_mgr(upipe, command, args);
    }
    switch (command) {
    case UPIPE_REGISTER_REQUEST:
    case UPIPE_UNREGISTER_REQUEST:
        return hbin_control_bin_input(upipe, command, args);
    case UPIPE_ATTACH_UCLOCK:
        hbin_require_uclock(upipe);
        return UBASE_ERR_NONE;
    }
    int err = hbin_control_bin_input(upipe, command, args);
    if (err == UBASE_ERR_UNHANDLED) return hbin_control_bin_output(upipe, command, args);
    return err;
}

static void hbin_free(struct upipe *upipe)
{
    struct hbin *h = hbin_from_upipe(upipe);
    upipe_throw_dead(upipe);
    hbin_clean_uclock(upipe);
    hbin_clean_uref_mgr(upipe);
    hbin_clean_ubuf_mgr(upipe);
    hbin_clean_bin_input(upipe);
    hbin_clean_bin_output(upipe);
    uprobe_clean(&h->proxy_probe);
    hbin_clean_urefcount(upipe);
    hbin_free_void(upipe);
}

static struct upipe_mgr hbin_mgr = { .refcount = NULL, .signature = HBIN_SIGNATURE, .upipe_alloc = hbin_alloc, .upipe_input = hbin_bin_input, .upipe_control = hbin_control };

/* ---------------------------------------------------------------- service probes: who answers a thrown provide_request */

enum { SVC_UREF_MGR, SVC_UBUF_MEM, SVC_UCLOCK };
static int svc_of(int type) { return type == UREQUEST_UREF_MGR ? SVC_UREF_MGR : type == UREQUEST_UCLOCK ? SVC_UCLOCK : SVC_UBUF_MEM; }

/* svc_on: the probe is in the chain and holds an object (uprobe_*_set(NULL) makes it pass every event on) */
static bool svc_answers(struct ctx *c, const struct ent *e)
{
    switch (e->type) {
    case UREQUEST_UREF_MGR: return c->svc_on[SVC_UREF_MGR];            /* uprobe_uref_mgr */
    case UREQUEST_FLOW_FORMAT: return c->svc_on[SVC_UBUF_MEM];         /* uprobe_ubuf_mem: dup of the proposed format */
    case UREQUEST_UBUF_MGR: return c->svc_on[SVC_UBUF_MEM] && e->dictv != 2 && e->dictv != 5;   /* only for a flow format it can allocate for ("block.", "pic." with planes) */
    case UREQUEST_UCLOCK: return c->svc_on[SVC_UCLOCK];                /* uprobe_uclock */
    case UREQUEST_SINK_LATENCY: return c->svc_on[SVC_UBUF_MEM];        /* uprobe_ubuf_mem answers 0 */
    }
    return false;
}

/* identity of a provided object as the helpers compare it ("same object as the one I hold: nothing to do") */
#define ANS_ALT (-10)        /* answer codes: > 0 provided at a tail; 0 by a service probe holding its first object; ANS_ALT by a service probe holding the object set later */
static int svc_code(struct ctx *c, int type)
{
    if (type == UREQUEST_FLOW_FORMAT || type == UREQUEST_SINK_LATENCY) return 0;       /* a copy of the format / latency 0: the umem manager plays no part */
    return c->svc_obj[svc_of(type)] == c->svc_orig[svc_of(type)] ? 0 : ANS_ALT;
}
static int objid(int ans) { return ans > 0 ? ans : ans == ANS_ALT ? -3 : -2; }

/* ---------------------------------------------------------------- model */

static struct mnode *MN(struct ctx *c, int i) { return &c->mn[i]; }

static int ent_find(struct mnode *m, int slot, int q)
{
    for (int i = 0; i < m->n; i++) if (m->l[i].slot == slot && (q == -2 || m->l[i].q == q)) return i;
    return -1;
}
static void ent_del(struct mnode *m, int i) { for (; i + 1 < m->n; i++) m->l[i] = m->l[i + 1]; m->n--; }
static int ent_add(struct ctx *c, struct mnode *m, struct ent e)
{
    if (m->n >= MAXENT) { INTERNAL("model list overflow"); return 0; }
    m->l[m->n] = e;
    return m->n++;
}

static void m_callback(struct ctx *c, int slot, int ans);
static int m_deliver_reg(struct ctx *c, int tgt, struct ent e);
static void m_deliver_unreg(struct ctx *c, int tgt, struct ent e);
static void m_after_control(struct ctx *c, int k);

/* The model of a slot's registration state is separate from slot.reg (the real one) because the model runs after the real operation. */
static bool m_slot_reg[NS];
static struct ent m_slot_ent[NS];

static void m_answer(struct ctx *c, struct ent e, int ans)
{
    if (e.q >= 0) {     /* the request came through the queue: the answer is an upstream message */
        if (c->uqt >= MAXMSG) { INTERNAL("model upstream queue overflow"); return; }
        struct umsg *u = &c->uq[c->uqt++];
        memset(u, 0, sizeof *u);
        u->ans = ans; u->ncand = 1; u->cand[0].slot = e.slot; u->cand[0].q = e.q; u->tail = -1;
    } else m_callback(c, e.slot, ans);
}

/* a pipe throws provide_request(e) on the probe; returns 0 if a service probe provided it, 1 (UBASE_ERR_UNHANDLED) otherwise */
static int m_throw(struct ctx *c, int probe, struct ent e, bool optional)
{
    if (optional) c->opt_throw[probe]++; else c->exp_throw[probe]++;
    if (svc_answers(c, &e)) {
        if (optional) {     /* only reachable when a tail answered UNHANDLED during set_output (see m_set_output) */
            if (c->nexp < MAXCB) { struct expcb *x = &c->exp[c->nexp++]; memset(x, 0, sizeof *x); x->ans = svc_code(c, e.type); x->ncand = 1; x->cand[0].slot = e.slot; x->cand[0].q = e.q; x->optional = true; x->tail = -1; }
            return 0;
        }
        c->cls |= 1u << CL_PROBE_ANSWER;
        if (c->svc_obj[svc_of(e.type)] != c->svc_orig[svc_of(e.type)]) c->cls |= CLS(CL_SVC_NEW_OBJECT_ANSWERS);
        m_answer(c, e, svc_code(c, e.type));
        return 0;
    }
    if (optional) c->opt_root++; else c->exp_root++;
    if (!optional) {
        c->cls |= 1u << CL_NO_PROVIDER;
        if (c->svc_was_off[svc_of(e.type)] && !c->svc_on[svc_of(e.type)]) c->cls |= CLS(CL_SVC_OFF_THEN_UNANSWERED);
    }
    return 1;
}

/* upipe_helper_output register_output_request on node k */
static int m_roq(struct ctx *c, int k, struct ent e)
{
    struct mnode *m = MN(c, k);
    e.reg = false;
    int i = ent_add(c, m, e);
    if (m->out != T_NONE) {
        m->l[i].reg = true;
        int r = m_deliver_reg(c, m->out, e);
        if (r != 1) return r;
    }
    if (e.slot >= NSLOT && e.q < 0 && PS_NODE(e.slot) == k) c->cls |= CLS(CL_OWN_THROWN);
    return m_throw(c, m->probe, e, false);
}

/* upipe_helper_output unregister_output_request on node k */
static void m_uoq(struct ctx *c, int k, struct ent e)
{
    struct mnode *m = MN(c, k);
    int i = ent_find(m, e.slot, e.q);
    if (i < 0) { INTERNAL("model: unregister of a request p%d does not hold (slot %d q %d)", k, e.slot, e.q); return; }
    bool was = m->l[i].reg;
    ent_del(m, i);
    if (m->out != T_NONE && was) m_deliver_unreg(c, m->out, e);
}

static bool genaux_stops(int type) { return type == UREQUEST_UBUF_MGR || type == UREQUEST_FLOW_FORMAT; }

/* upipe_register_request(target, request): what the target does with the control command */
static int m_deliver_reg(struct ctx *c, int tgt, struct ent e)
{
    if (c->ret) return 0;
    if (IS_TAIL(tgt)) {
        struct tail *t = &c->tl[tgt - TT0];
        if (t->nm >= MAXENT) { INTERNAL("model tail overflow"); return 0; }
        e.reg = true;
        t->m[t->nm++] = e;
        c->exp_reg[tgt - TT0]++;
        if (e.slot >= NSLOT) c->cls |= CLS(CL_OWN_LODGED_AT_TAIL);
        switch (t->policy) {
        case PFX_REQ_HOLD: return 0;
        case PFX_REQ_UNHANDLED: return 1;
        default: return m_throw(c, t->probe, e, false);
        }
    }
    struct mnode *m = MN(c, tgt);
    switch (m->mk) {
    case MK_GENAUX:
        if (genaux_stops(e.type)) { c->cls |= 1u << CL_GENAUX_STOPS; return m_throw(c, m->probe, e, false); }
        return m_roq(c, tgt, e);
    case MK_BIN:
    case MK_HBIN: {
        if (m->stops & (1u << e.type)) { c->cls |= 1u << CL_GENAUX_STOPS; return m_throw(c, m->probe, e, false); }
        e.reg = false;
        int i = ent_add(c, m, e);
        if (m->inner >= 0) { m->l[i].reg = true; return m_deliver_reg(c, m->inner, e); }
        if (m->mk == MK_HBIN) c->cls |= CLS(CL_HBIN_REG_NO_INNER);
        return m_throw(c, m->probe, e, false);
    }
    case MK_QSINK: {
        e.q = c->nextq++; e.reg = true;
        ent_add(c, m, e);
        if (c->dqt >= MAXMSG) { INTERNAL("model downstream queue overflow"); return 0; }
        c->dq[c->dqt].kind = DM_REG; c->dq[c->dqt].e = e; c->dqt++;
        return 0;
    }
    default: {
        if (m->stops & (1u << e.type)) { c->cls |= 1u << CL_GENAUX_STOPS; return m_throw(c, m->probe, e, false); }
        int r = m_roq(c, tgt, e);
        if (r == 0) m_after_control(c, tgt);    /* pipes that run their check function after every successful control command */
        return r;
    }
    }
}

static void m_deliver_unreg(struct ctx *c, int tgt, struct ent e)
{
    if (c->ret) return;
    if (IS_TAIL(tgt)) {
        struct tail *t = &c->tl[tgt - TT0];
        c->exp_unreg[tgt - TT0]++;
        for (int i = 0; i < t->nm; i++)
            if (t->m[i].slot == e.slot && t->m[i].q == e.q) { for (; i + 1 < t->nm; i++) t->m[i] = t->m[i + 1]; t->nm--; return; }
        INTERNAL("model: unregister at tail%d of a request it does not hold", tgt - TT0);
        return;
    }
    struct mnode *m = MN(c, tgt);
    switch (m->mk) {
    case MK_GENAUX:
        if (genaux_stops(e.type)) return;
        m_uoq(c, tgt, e);
        return;
    case MK_BIN:
    case MK_HBIN: {
        if (m->stops & (1u << e.type)) return;
        int i = ent_find(m, e.slot, e.q);
        if (i < 0) { INTERNAL("model: bin does not hold the request"); return; }
        bool was = m->l[i].reg;
        ent_del(m, i);
        if (m->inner >= 0 && was) m_deliver_unreg(c, m->inner, e);
        else if (m->mk == MK_HBIN && m->inner < 0) c->cls |= CLS(CL_HBIN_UNREG_NO_INNER);
        return;
    }
    case MK_QSINK: {
        int i = ent_find(m, e.slot, -2);
        if (i < 0) { INTERNAL("model: qsink does not hold the request"); return; }
        struct ent q = m->l[i];
        ent_del(m, i);
        if (c->dqt >= MAXMSG) { INTERNAL("model downstream queue overflow"); return; }
        c->dq[c->dqt].kind = DM_UNREG; c->dq[c->dqt].e = q; c->dqt++;
        return;
    }
    default:
        if (m->stops & (1u << e.type)) return;
        m_uoq(c, tgt, e);
        m_after_control(c, tgt);
    }
}

/* upipe_helper_output set_output on node k */
static void m_set_output(struct ctx *c, int k, int new)
{
    struct mnode *m = MN(c, k);
    if (m->out != T_NONE)
        for (int i = 0; i < m->n; i++) {
            m->l[i].reg = false;
            m_deliver_unreg(c, m->out, m->l[i]);
        }
    m->out = new;
    if (new == T_NONE) return;
    for (int guard = 0; guard < 4 * MAXENT && !c->ret; guard++) {
        int i;
        for (i = 0; i < m->n; i++) if (!m->l[i].reg) break;
        if (i == m->n) break;
        m->l[i].reg = true;
        struct ent e = m->l[i];
        int r = m_deliver_reg(c, new, e);
        /* The helper ignores the answer here.  When the new output does not handle requests at all
         * (UNHANDLED) nothing says whether the pipe should fall back to its probe as it does in
         * register_output_request: both behaviours are accepted.  (A pipe's own request is then taken as
         * not answered, which is what the helper as written does.) */
        if (r == 1) m_throw(c, m->probe, e, true);
    }
}

static void m_bin_set_flow_def(struct ctx *c, int k)
{
    struct mnode *b = MN(c, k);
    int old = b->inner;
    int ni = MAXN + 2 * k + (old == MAXN + 2 * k ? 1 : 0);
    struct mnode *in = MN(c, ni);
    memset(in, 0, sizeof *in);
    in->mk = MK_PASS; in->exists = true; in->out = T_NONE; in->probe = b->probe; in->inner = -1;
    /* store_bin_input: withdraw from the old first inner, re-issue to the new one */
    if (old >= 0)
        for (int i = 0; i < b->n; i++) { b->l[i].reg = false; m_deliver_unreg(c, old, b->l[i]); }
    if (old >= 0) MN(c, old)->exists = false;
    b->inner = ni;
    for (int guard = 0; guard < 4 * MAXENT && !c->ret; guard++) {
        int i;
        for (i = 0; i < b->n; i++) if (!b->l[i].reg) break;
        if (i == b->n) break;
        b->l[i].reg = true;
        m_deliver_reg(c, ni, b->l[i]);
    }
    /* store_bin_output: the new last inner gets the bin's output */
    if (b->out != T_NONE) m_set_output(c, ni, b->out);
}

/* store_bin_input(NULL) + store_bin_output(NULL): the proxies are withdrawn from the first inner pipe, which then goes away */
static void m_bin_drop_inner(struct ctx *c, int k)
{
    struct mnode *b = MN(c, k);
    int old = b->inner;
    if (old < 0) return;
    for (int i = 0; i < b->n; i++) { b->l[i].reg = false; m_deliver_unreg(c, old, b->l[i]); }
    MN(c, old)->exists = false; MN(c, old)->out = T_NONE;
    b->inner = -1;
}

static void m_node_set_output(struct ctx *c, int k, int new)
{
    struct mnode *m = MN(c, k);
    if (m->mk == MK_BIN) {
        if (m->inner >= 0) m_set_output(c, m->inner, new);
        m->out = new;
    } else if (m->mk == MK_HBIN) {
        /* set_bin_output: the bin's own output requests leave the old output, the last inner pipe is re-plumbed, then they are registered on the new one */
        struct bolist *b = &c->bo[k];
        if (m->out != T_NONE) for (int i = 0; i < b->n; i++) m_deliver_unreg(c, m->out, b->l[i]);
        m->out = T_NONE;
        if (m->inner >= 0) m_set_output(c, m->inner, new);
        m->out = new;
        if (new != T_NONE) for (int i = 0; i < b->n; i++) m_deliver_reg(c, new, b->l[i]);
    } else {
        m_set_output(c, k, new);
        m_after_control(c, k);
    }
}

/* ---------------------------------------------------------------- the pipes' own requests (upipe_helper_uclock / uref_mgr / flow_format / ubuf_mgr)
 *
 * What the helpers document: require_X withdraws the previous request if there is one (UNREGISTER function), drops the object held, initialises the
 * request anew and hands it to the REGISTER function (for the repository pipes: register_output_request of upipe_helper_output, so it is lodged at the
 * output or thrown on the pipe's probe; for hbin: register_bin_output_request); provide_X stores the object unless it is the one already held and then
 * calls the pipe's check function; nothing is unregistered by clean_X: the output helper withdraws what is left in its list when the pipe dies.
 * When the pipes call require_X is read from their sources (see the kinds' comments). */

static void own_register(struct ctx *c, int k, struct ent e)
{
    if (MN(c, k)->mk == MK_HBIN) {      /* register_bin_output_request: to the bin's output, or (no output) thrown on the bin's probe */
        struct bolist *b = &c->bo[k];
        if (b->n >= 4) { INTERNAL("bin output list overflow"); return; }
        b->l[b->n++] = e;
        c->cls |= CLS(CL_BIN_OUTPUT_REQUEST);
        if (MN(c, k)->out != T_NONE) m_deliver_reg(c, MN(c, k)->out, e);
        else { c->cls |= CLS(CL_OWN_THROWN); m_throw(c, MN(c, k)->probe, e, false); }
    } else m_roq(c, k, e);
}

static void own_unregister(struct ctx *c, int k, struct ent e)
{
    if (MN(c, k)->mk == MK_HBIN) {      /* unregister_bin_output_request */
        struct bolist *b = &c->bo[k];
        int i;
        for (i = 0; i < b->n; i++) if (b->l[i].slot == e.slot) break;
        if (i == b->n) { INTERNAL("model: bin output list does not hold the request"); return; }
        for (; i + 1 < b->n; i++) b->l[i] = b->l[i + 1];
        b->n--;
        if (MN(c, k)->out != T_NONE) m_deliver_unreg(c, MN(c, k)->out, e);
    } else m_uoq(c, k, e);
}

static void own_require(struct ctx *c, int k, int j, int type, int dictv, int krid, uint32_t gen)
{
    int ps = PS(k, j);
    struct rnode *r = &c->rn[k];
    if (m_slot_reg[ps]) { m_slot_reg[ps] = false; c->cls |= CLS(CL_OWN_REISSUED); own_unregister(c, k, m_slot_ent[ps]); }
    r->own[j].obj = -1;
    struct slot *s = &c->slot[ps];
    s->id = ps; s->type = type; s->dictv = dictv; s->at = k; s->gen = gen; s->inited = true; s->action = -1;
    struct ent e = { .slot = ps, .q = -1, .gen = gen, .type = type, .dictv = dictv, .reg = false, .krid = krid, .base = (int16_t)r->um_base };
    m_slot_ent[ps] = e; m_slot_reg[ps] = true;
    own_register(c, k, e);
}

/* upipe_time_limit_check / upipe_voidsrc_check, run after every control command that succeeded and from the provide callbacks */
static void m_check(struct ctx *c, int k)
{
    struct rnode *r = &c->rn[k];
    if (r->dead) return;
    switch (r->kind) {
    case NK_TIME_LIMIT:
        if (r->own[0].obj == -1) own_require(c, k, 0, UREQUEST_UCLOCK, 0, PS(k, 0), 0);
        break;
    case NK_VOID_SOURCE:
        if (r->own[0].obj == -1) { own_require(c, k, 0, UREQUEST_UREF_MGR, 0, PS(k, 0), 0); return; }
        if (r->own[1].obj == -1) { own_require(c, k, 1, UREQUEST_UCLOCK, 0, PS(k, 1), 0); return; }
        if (!r->timer) { r->timer = true; c->cls |= CLS(CL_VSRC_TIMER); }
        break;
    }
}

static void m_after_control(struct ctx *c, int k)
{
    if (k < 0 || k >= c->nn) return;    /* inner pipes of the bins are idems */
    m_check(c, k);
}

/* the provide callback of a pipe's own request */
static void m_own_provide(struct ctx *c, int ps, int ans)
{
    int k = PS_NODE(ps), j = PS_J(ps);
    struct rnode *r = &c->rn[k];
    if (!m_slot_reg[ps] || r->dead) return;
    int type = m_slot_ent[ps].type;
    int id = objid(ans);
    (void)type;
    c->cls |= 1u << CL_OWN_REQUEST_ANSWERED;
    if (ans > 0) c->cls |= CLS(CL_OWN_TAIL_ANSWER);
    switch (r->kind) {
    case NK_GENAUX:             /* its check function stores the provided format as flow definition */
        r->own_ans = ans > 0 ? ans : 0;
        break;
    case NK_TIME_LIMIT:
        c->cls |= CLS(CL_OWN_UCLOCK);
        if (id == r->own[0].obj) return;
        r->own[0].obj = id;
        m_check(c, k);
        break;
    case NK_VOID_SOURCE:
        c->cls |= CLS(j == 0 ? CL_OWN_UREF_MGR : CL_OWN_UCLOCK);
        if (id == r->own[j].obj) return;
        r->own[j].obj = id;
        m_check(c, k);
        break;
    case NK_VIDEO_BLANK:
        if (j == 0) {           /* check_flow_format: requires a ubuf_mgr for the amended format (which carries the tags of the flow-format request and of this answer) */
            c->cls |= CLS(CL_OWN_FLOW_FORMAT);
            r->um_base = ans > 0 ? ans : 0;
            own_require(c, k, 1, UREQUEST_UBUF_MGR, 3, PS(k, 0), m_slot_ent[ps].gen);
        } else {                /* check: the provided format becomes the output flow definition */
            c->cls |= CLS(CL_OWN_UBUF_MGR_CHAINED);
            r->own[1].obj = id;
            r->own_ans = ans > 0 ? ans : r->um_base;
        }
        break;
    case NK_RTP_DECAPS:
        r->own[0].obj = id;
        break;
    case NK_HBIN:
        c->cls |= CLS(j == 0 ? CL_OWN_UCLOCK : CL_OWN_UREF_MGR);
        if (id == r->own[j].obj) return;
        r->own[j].obj = id;
        if (j == 0) r->own_ptr[0] = ans > 0 ? c->ans[ans].ptr : ans == ANS_ALT ? (void *)c->alt_uclock : (void *)c->pfx.uclock;
        else r->own_ptr[1] = ans > 0 ? c->ans[ans].ptr : ans == ANS_ALT ? (void *)c->alt_uref_mgr : (void *)c->pfx.fm.uref_mgr;
        break;
    }
}

/* ---------------------------------------------------------------- requester side */

static struct uref *mk_dict(struct ctx *c, int dictv, int rid, uint32_t gen)
{
    static const char *defs[] = { "block.", "block.foo.", "void.x.", "pic.", "block.rtp.", "void." };
    struct uref *u = uref_alloc_control(c->pfx.fm.uref_mgr);
    if (!u) return NULL;
    uref_flow_set_def(u, defs[dictv % 6]);
    uref_attr_set_small_unsigned(u, rid, UDICT_TYPE_SMALL_UNSIGNED, "x.rid");
    uref_attr_set_unsigned(u, gen, UDICT_TYPE_UNSIGNED, "x.gen");
    return u;
}

static void key_of(struct urequest *x, int *rid, uint32_t *gen)
{
    *rid = -1; *gen = 0;
    if (x->uref == NULL) return;
    uint8_t r; uint64_t g;
    if (ubase_check(uref_attr_get_small_unsigned(x->uref, &r, UDICT_TYPE_SMALL_UNSIGNED, "x.rid"))) *rid = r;
    if (ubase_check(uref_attr_get_unsigned(x->uref, &g, UDICT_TYPE_UNSIGNED, "x.gen"))) *gen = (uint32_t)g;
}

/* which umem manager does a ubuf manager provided by uprobe_ubuf_mem allocate from: the probe's first one (0), the one set later (ANS_ALT), neither (-2) */
static int mgr_umem_code(struct ctx *c, struct ubuf_mgr *bm)
{
    struct ubuf *ub = ubuf_block_alloc(bm, 8);
    if (!ub) return -2;
    const uint8_t *p; int sz = -1; int code = -2;
    if (ubase_check(ubuf_block_read(ub, 0, &sz, &p))) {
        if (umem_count_lookup(c->pfx.fm.umem_mgr, p, NULL, NULL)) code = 0;
        else if (c->alt_umem && umem_count_lookup(c->alt_umem, p, NULL, NULL)) code = ANS_ALT;
        ubuf_block_unmap(ub, 0);
    }
    ubuf_free(ub);
    return code;
}

static int uref_ans(struct uref *u)
{
    uint64_t a;
    if (u && ubase_check(uref_attr_get_unsigned(u, &a, UDICT_TYPE_UNSIGNED, "x.ans"))) return (int)a;
    return 0;
}

static void real_unregister(struct ctx *c, struct slot *s);
static void real_register(struct ctx *c, struct slot *s, int type, int dictv, int at, int action);
static void m_slot_unregister(struct ctx *c, int slot);
static void m_slot_register(struct ctx *c, int slot);

static int req_cb(struct urequest *urequest, va_list args)
{
    struct ctx *c = &ctx;
    struct slot *s = container_of(urequest, struct slot, req);
    int ans = -2;
    char what[128] = "";
    switch (s->type) {
    case UREQUEST_UREF_MGR: {
        struct uref_mgr *m = va_arg(args, struct uref_mgr *);
        if (m == c->pfx.fm.uref_mgr) ans = 0;
        else if (m == c->alt_uref_mgr && m != NULL) ans = ANS_ALT;
        else for (int i = c->nans - 1; i >= 1; i--) if (c->ans[i].type == s->type && c->ans[i].ptr == m) { ans = i; break; }
        snprintf(what, sizeof what, "uref_mgr %s", ans == 0 ? "of the probe" : ans == ANS_ALT ? "given to the probe later" : ans > 0 ? "provided at the tail" : "UNKNOWN");
        uref_mgr_release(m);
        break; }
    case UREQUEST_UCLOCK: {
        struct uclock *u = va_arg(args, struct uclock *);
        if (u == c->pfx.uclock) ans = 0;
        else if (u == c->alt_uclock && u != NULL) ans = ANS_ALT;
        else for (int i = c->nans - 1; i >= 1; i--) if (c->ans[i].type == s->type && c->ans[i].ptr == u) { ans = i; break; }
        snprintf(what, sizeof what, "uclock %s", ans == 0 ? "of the probe" : ans == ANS_ALT ? "given to the probe later" : ans > 0 ? "provided at the tail" : "UNKNOWN");
        uclock_release(u);
        break; }
    case UREQUEST_SINK_LATENCY: {
        uint64_t l = va_arg(args, uint64_t);
        if (l == 0) ans = 0;
        else if (l >= 1000 && l < 1000 + (uint64_t)c->nans && c->ans[l - 1000].type == s->type) ans = (int)(l - 1000);
        snprintf(what, sizeof what, "latency %llu", (unsigned long long)l);
        break; }
    case UREQUEST_FLOW_FORMAT:
    case UREQUEST_UBUF_MGR: {
        struct ubuf_mgr *bm = NULL;
        if (s->type == UREQUEST_UBUF_MGR) bm = va_arg(args, struct ubuf_mgr *);
        struct uref *u = va_arg(args, struct uref *);
        int a = uref_ans(u);
        int rid = -1; uint32_t gen = 0;
        if (u) { uint8_t r; uint64_t g;
            if (ubase_check(uref_attr_get_small_unsigned(u, &r, UDICT_TYPE_SMALL_UNSIGNED, "x.rid"))) rid = r;
            if (ubase_check(uref_attr_get_unsigned(u, &g, UDICT_TYPE_UNSIGNED, "x.gen"))) gen = (uint32_t)g; }
        bool mine = u != NULL && rid == s->id && gen == s->gen;
        if (a > 0 && a < c->nans && c->ans[a].type == s->type && mine && (s->type != UREQUEST_UBUF_MGR || bm == c->pfx.fm.block_mgr)) ans = a;
        else if (a == 0 && mine && s->req.uref && u->udict && s->req.uref->udict && !udict_cmp(u->udict, s->req.uref->udict) &&
                 (s->type != UREQUEST_UBUF_MGR || (bm != NULL && bm != c->pfx.fm.block_mgr))) ans = s->type == UREQUEST_UBUF_MGR ? mgr_umem_code(c, bm) : 0;
        snprintf(what, sizeof what, "%sflow format rid=%d gen=%u ans=%d", s->type == UREQUEST_UBUF_MGR ? "ubuf_mgr + " : "", rid, gen, a);
        if (s->type == UREQUEST_UBUF_MGR) ubuf_mgr_release(bm);
        uref_free(u);
        break; }
    }
    s->ncb++;
    R("      -> callback slot%d (%s%s): %s\n", s->id, tname(s->type), s->reg ? "" : ", UNREGISTERED", what);
    if (!s->reg)
        FAILC("callback/after-unregister", "the provide callback of request slot%d (%s) was invoked although the request is not registered (%s)", s->id, tname(s->type), what);
    else if (ans == -2)
        FAILC("callback/wrong-object", "the provide callback of request slot%d (%s, gen %u) received an object that was provided neither by a probe nor at the tail for this request: %s", s->id, tname(s->type), s->gen, what);
    if (c->ncb < MAXCB) { c->cb[c->ncb].slot = s->id; c->cb[c->ncb].ans = ans; c->cb[c->ncb].matched = false; c->ncb++; }
    else INTERNAL("callback log overflow");
    /* what real pipes do from their check function (e.g. a framer re-requires its ubuf_mgr when the flow format
     * arrives): re-require another request from inside the callback */
    if (s->action >= 0 && s->reg && !c->in_action && !c->ret) {
        struct slot *o = &c->slot[s->action];
        /* o == s: the requester renegotiates its own request from its callback (what upipe_helper_ubuf_mgr / flow_format do when check re-requires) */
        if (o->inited && c->rn[o->at].held && c->rn[o->at].sideB == c->rn[s->at].sideB) {
            c->in_action = true;
            c->cls |= 1u << CL_REENTRANT;
            R("         (callback re-requires slot%d)\n", o->id);
            int type = o->type, dictv = o->dictv, at = o->at, action = o->action;
            if (o->reg) real_unregister(c, o);
            real_register(c, o, type, dictv, at, action);
            c->in_action = false;
        }
    }
    return UBASE_ERR_NONE;
}

static void m_callback(struct ctx *c, int slot, int ans)
{
    if (slot >= NSLOT) { m_own_provide(c, slot, ans); return; }     /* a pipe's own request */
    if (c->nexp >= MAXCB) { INTERNAL("expected-callback overflow"); return; }
    struct expcb *x = &c->exp[c->nexp++];
    memset(x, 0, sizeof *x);
    x->ans = ans; x->ncand = 1; x->cand[0].slot = slot; x->cand[0].q = -1; x->tail = -1;
    struct slot *s = &c->slot[slot];
    if (s->action >= 0 && !c->m_in_action) {
        struct slot *o = &c->slot[s->action];
        if (o->inited && c->rn[o->at].held && c->rn[o->at].sideB == c->rn[s->at].sideB) {
            c->m_in_action = true;
            m_slot_unregister(c, o->id);    /* no-op if the model has it unregistered */
            m_slot_register(c, o->id);
            c->m_in_action = false;
        }
    }
}

static void m_slot_register(struct ctx *c, int slot)
{
    struct slot *s = &c->slot[slot];
    struct ent e = { .slot = slot, .q = -1, .gen = m_slot_ent[slot].gen, .type = s->type, .dictv = s->dictv, .reg = false, .krid = slot };
    m_slot_ent[slot] = e;
    m_slot_reg[slot] = true;
    m_deliver_reg(c, s->at, e);
}
static void m_slot_unregister(struct ctx *c, int slot)
{
    if (!m_slot_reg[slot]) return;
    m_slot_reg[slot] = false;
    m_deliver_unreg(c, c->slot[slot].at, m_slot_ent[slot]);
}

static void real_register(struct ctx *c, struct slot *s, int type, int dictv, int at, int action)
{
    s->type = type; s->dictv = dictv; s->at = at; s->action = action;
    s->gen = ++c->gen;
    m_slot_ent[s->id].gen = s->gen;         /* the model learns the generation of the incarnation it is about to register */
    struct uref *u = has_uref(type) ? mk_dict(c, dictv, s->id, s->gen) : NULL;
    switch (type) {
    case UREQUEST_UREF_MGR: urequest_init_uref_mgr(&s->req, req_cb, NULL); break;
    case UREQUEST_FLOW_FORMAT: urequest_init_flow_format(&s->req, u, req_cb, NULL); break;
    case UREQUEST_UBUF_MGR: urequest_init_ubuf_mgr(&s->req, u, req_cb, NULL); break;
    case UREQUEST_UCLOCK: urequest_init_uclock(&s->req, req_cb, NULL); break;
    default: urequest_init_sink_latency(&s->req, req_cb, NULL); break;
    }
    s->inited = true; s->reg = true; s->replumbed = false;
    int err = upipe_register_request(c->rn[at].upipe, &s->req);
    R("  %sregister slot%d (%s%s%s gen %u) at p%d:%s -> %d\n", c->in_action ? "         " : "", s->id, tname(type),
      has_uref(type) ? ", " : "", has_uref(type) ? (const char *[]){ "block.", "block.foo.", "void.x." }[dictv % 3] : "", s->gen, at, kind_name[c->rn[at].kind], err);
}

static void real_unregister(struct ctx *c, struct slot *s)
{
    int err = upipe_unregister_request(c->rn[s->at].upipe, &s->req);
    s->reg = false;
    urequest_clean(&s->req);
    R("  %sunregister slot%d (%s) at p%d -> %d\n", c->in_action ? "         " : "", s->id, tname(s->type), s->at, err);
}

/* ---------------------------------------------------------------- operation window: expectations against observations */

static void begin_op(struct ctx *c)
{
    memset(c->exp_throw, 0, sizeof c->exp_throw);
    memset(c->opt_throw, 0, sizeof c->opt_throw);
    c->exp_root = c->opt_root = 0; c->root_mark = c->pfx.root_provide_requests;
    memset(c->exp_reg, 0, sizeof c->exp_reg);
    memset(c->exp_unreg, 0, sizeof c->exp_unreg);
    memset(c->act_reg, 0, sizeof c->act_reg);
    memset(c->act_unreg, 0, sizeof c->act_unreg);
    c->nexp = 0; c->ncb = 0;
}

static bool node_dead_now(struct ctx *c, int k)
{
    struct pfx_probe *pr = pfx_probe(&c->pfx, c->rn[k].probe);
    return pr->ntracks > 0 && pr->tracks[0].dead;
}

static void model_deaths(struct ctx *c)
{
    bool qsink_died = false;
#if C12_QUEUE
    qsink_died = c->qsink >= 0 && !c->rn[c->qsink].dead && node_dead_now(c, c->qsink);
#endif
    for (int k = 0; k < c->nn; k++) {
        struct rnode *r = &c->rn[k];
        if (r->dead || !node_dead_now(c, k)) continue;
        r->dead = true;
        if (r->held) { FAILC("life/premature-dead", "p%d:%s threw DEAD while the application still holds a reference", k, kind_name[r->kind]); return; }
        struct mnode *m = MN(c, k);
        /* a dying pipe withdraws what is left in its list: only its own request can be left in a legal history */
        while (m->n > 0) {      /* in list order, as clean_output pops them (the order is visible across a queue) */
            int i = 0;
            struct ent e = m->l[i];
            if (e.slot < NSLOT || PS_NODE(e.slot) != k) { INTERNAL("p%d:%s died while the model still has request slot%d registered through it", k, kind_name[r->kind], e.slot); return; }
            bool was = e.reg;
            ent_del(m, i);
            if (m->out != T_NONE && was) { c->cls |= CLS(CL_OWN_WITHDRAWN_AT_DEATH); m_deliver_unreg(c, m->out, e); }
            m_slot_reg[e.slot] = false;
        }
        if (m->mk == MK_HBIN) {     /* clean_bin_output withdraws the bin's own output requests */
            struct bolist *b = &c->bo[k];
            while (b->n > 0) {
                struct ent e = b->l[0];
                for (int i = 0; i + 1 < b->n; i++) b->l[i] = b->l[i + 1];
                b->n--;
                if (m->out != T_NONE) { c->cls |= CLS(CL_OWN_WITHDRAWN_AT_DEATH); m_deliver_unreg(c, m->out, e); }
                m_slot_reg[e.slot] = false;
            }
        }
        r->timer = false;
        if ((m->mk == MK_BIN || m->mk == MK_HBIN) && m->inner >= 0) { MN(c, m->inner)->out = T_NONE; MN(c, m->inner)->exists = false; m->inner = -1; }
        m->out = T_NONE;
        m->exists = false;
#if C12_QUEUE
        if (k == c->qsrc) { c->dqh = c->dqt; c->uqh = c->uqt; }     /* upipe_qsrc_free drains both out-of-band queues */
#endif
    }
#if C12_QUEUE
    /* the queue sink announces its end when it dies; the queue source, once nobody references it, asks its own
     * loop to free it: two more out-of-band messages behind whatever the dying pipes pushed */
    if (qsink_died && c->dqt < MAXMSG) { c->dq[c->dqt].kind = DM_SRCEND; c->dqt++; }
    if (c->qsrc >= 0 && !c->rn[c->qsrc].held && !c->rn[c->qsrc].dead && c->rn[c->qsink].dead && !c->refend_pushed && c->dqt < MAXMSG) {
        c->refend_pushed = true; c->dq[c->dqt].kind = DM_REFEND; c->dqt++;
    }
#endif
    (void)qsink_died;
}

static void scan_records(struct ctx *c)
{
    struct pfx *pfx = &c->pfx;
    for (int i = c->rec_mark; i < pfx->nrecs; i++) {
        struct pfx_rec *r = &pfx->recs[i];
        if (r->kind != PFX_REGISTER && r->kind != PFX_UNREGISTER) continue;
        struct tail *t = r->sink == c->tl[0].sink ? &c->tl[0] : r->sink == c->tl[1].sink ? &c->tl[1] : NULL;
        if (!t) continue;
        if (r->kind == PFX_REGISTER) c->act_reg[t - c->tl]++; else c->act_unreg[t - c->tl]++;
        if (r->kind == PFX_REGISTER) {
            if (t->nrt >= MAXENT) { INTERNAL("tail overflow"); return; }
            struct rt *x = &t->rt[t->nrt++];
            memset(x, 0, sizeof *x);
            x->ptr = r->request; x->type = r->reqtype; x->rid = -2; x->bslot = -1; x->bq = -1;
        } else {
            int j;
            for (j = t->nrt - 1; j >= 0; j--) if (t->rt[j].ptr == r->request) break;
            if (j < 0) { FAILC("tail/unregister-unknown", "tail%d received unregister_request for a request it does not hold (type %s)", (int)(t - c->tl), tname(r->reqtype)); return; }
            for (; j + 1 < t->nrt; j++) t->rt[j] = t->rt[j + 1];
            t->nrt--;
        }
    }
    /* requests still lodged are alive: read their keys now */
    for (int ti = 0; ti < 2; ti++)
        for (int j = 0; j < c->tl[ti].nrt; j++) {
            struct rt *x = &c->tl[ti].rt[j];
            if (x->rid == -2) key_of(x->ptr, &x->rid, &x->gen);
        }
}

static bool key_match(const struct rt *x, const struct ent *e)
{
    if (x->type != e->type) return false;
    if (!has_uref(e->type)) return true;
    return x->rid == e->krid && x->gen == e->gen;
}

static void compare_tails(struct ctx *c, const char *what)
{
    for (int ti = 0; ti < 2 && !c->ret; ti++) {
        struct tail *t = &c->tl[ti];
        bool used[MAXENT] = { false };
        for (int j = 0; j < t->nrt && !c->ret; j++) {
            struct rt *x = &t->rt[j];
            int f = -1;
            for (int i = 0; i < t->nm; i++) if (!used[i] && key_match(x, &t->m[i])) { f = i; break; }
            if (f < 0) {
                bool conn = false;
                for (int k = 0; k < MAXMN; k++) if (c->mn[k].exists && c->mn[k].out == TT0 + ti) conn = true;
                if (has_uref(x->type))
                    FAILC("tail/stale-request", "after %s: %s tail%d holds a lodged %s request (slot%d gen %u) that no registered upstream request accounts for (it was unregistered, re-plumbed away, or lodged twice)",
                          what, conn ? "connected" : "DISCONNECTED", ti, tname(x->type), x->rid, x->gen);
                else
                    FAILC("tail/stale-request", "after %s: %s tail%d holds more lodged %s requests than there are registered upstream requests reaching it", what, conn ? "connected" : "DISCONNECTED", ti, tname(x->type));
                return;
            }
            used[f] = true;
            /* the whole flow-format dictionary must have travelled */
            struct ent *e = &t->m[f];
            if (has_uref(e->type) && e->slot < NSLOT && c->slot[e->slot].reg && c->slot[e->slot].gen == e->gen && c->slot[e->slot].req.uref &&
                (x->ptr->uref == NULL || x->ptr->uref->udict == NULL || udict_cmp(x->ptr->uref->udict, c->slot[e->slot].req.uref->udict)))
                FAILC("tail/dictionary", "after %s: the %s request lodged at tail%d for slot%d does not carry the requester's flow-format dictionary", what, tname(e->type), ti, e->slot);
            /* video_blank requires its ubuf_mgr for the flow format it was provided (check_flow_format): the request carries the tag of that answer */
            if (e->slot >= NSLOT && e->type == UREQUEST_UBUF_MGR && c->rn[PS_NODE(e->slot)].kind == NK_VIDEO_BLANK && !c->ret && uref_ans(x->ptr->uref) != e->base)
                FAILC("tail/dictionary", "after %s: the ubuf_mgr request of p%d:video_blank lodged at tail%d was built from the flow format of answer %d, the flow format it was provided when it issued this request is answer %d", what, PS_NODE(e->slot), ti,
                      uref_ans(x->ptr->uref), e->base);
        }
        for (int i = 0; i < t->nm && !c->ret; i++)
            if (!used[i])
                FAILC("tail/missing-request", "after %s: tail%d does not hold a lodged request for the registered upstream request slot%d (%s, gen %u) although the chain connects them", what, ti, t->m[i].slot, tname(t->m[i].type), t->m[i].gen);
        /* bindings whose entry is gone are forgotten */
        for (int j = 0; j < t->nrt; j++) {
            struct rt *x = &t->rt[j];
            if (x->bslot < 0) continue;
            bool ok = false;
            for (int i = 0; i < t->nm; i++) if (t->m[i].slot == x->bslot && t->m[i].q == x->bq) ok = true;
            if (!ok) { x->bslot = -1; x->bq = -1; }
        }
    }
}

static void compare_throws(struct ctx *c, const char *what)
{
    int act[PFX_MAX_PROBES] = { 0 };
    for (int i = c->ev_mark; i < c->pfx.nevents; i++)
        if (c->pfx.events[i].event == UPROBE_PROVIDE_REQUEST && c->pfx.events[i].probe >= 0 && c->pfx.events[i].probe < PFX_MAX_PROBES) act[c->pfx.events[i].probe]++;
    for (int p = 0; p < c->pfx.nprobes && !c->ret; p++) {
        if (act[p] < c->exp_throw[p])
            FAILC("throw/missing", "%s: %d provide_request event(s) on probe %d, the model requires %d (a request with no output / no handler downstream must be thrown on the pipe's probe)", what, act[p], p, c->exp_throw[p]);
        else if (act[p] > c->exp_throw[p] + c->opt_throw[p])
            FAILC("throw/unexpected", "%s: %d provide_request event(s) on probe %d, the model allows %d", what, act[p], p, c->exp_throw[p] + c->opt_throw[p]);
    }
}

/* a service probe that holds no object (or does not serve the request's type) passes the event on: it reaches the root probe */
static void compare_root(struct ctx *c, const char *what)
{
    int act = (int)(c->pfx.root_provide_requests - c->root_mark);
    if (act < c->exp_root)
        FAILC("throw/not-passed-on", "%s: %d provide_request event(s) reached the end of the probe chain, the model requires %d (no probe of the chain provides them: each probe must pass the event on to the next)", what, act, c->exp_root);
    else if (act > c->exp_root + c->opt_root)
        FAILC("throw/passed-on-although-answered", "%s: %d provide_request event(s) reached the end of the probe chain, the model allows %d", what, act, c->exp_root + c->opt_root);
}

static bool alive_cand(struct ctx *c, const struct cand *k)
{
    if (k->q < 0) return m_slot_reg[k->slot];
#if C12_QUEUE
    if (c->qsink < 0 || !MN(c, c->qsink)->exists) return false;
    struct mnode *m = MN(c, c->qsink);
    for (int i = 0; i < m->n; i++) if (m->l[i].slot == k->slot && m->l[i].q == k->q) return true;
#endif
    return false;
}

static void compare_callbacks(struct ctx *c, const char *what)
{
    for (int i = 0; i < c->ncb && !c->ret; i++) {
        struct cbrec *r = &c->cb[i];
        int f = -1;
        for (int j = 0; j < c->nexp && f < 0; j++) {
            struct expcb *x = &c->exp[j];
            if (x->matched || x->ans != r->ans) continue;
            for (int k = 0; k < x->ncand; k++) if (x->cand[k].slot == r->slot) { f = j; break; }
        }
        if (f < 0) {
            FAILC("callback/unexpected", "%s: the provide callback of request slot%d (%s) was invoked (answer %d) but no provider answered that request in this step (answer delivered to the wrong request, or delivered twice)", what, r->slot, tname(c->slot[r->slot].type), r->ans);
            return;
        }
        struct expcb *x = &c->exp[f];
        x->matched = true; r->matched = true;
        struct slot *s = &c->slot[r->slot];
        if (r->ans != -2 && s->type >= 0 && s->type < 5) c->cls |= 1u << (CL_T_UREF_MGR + s->type);
        if (r->ans > 0) c->cls |= 1u << CL_DEFERRED;
        if (s->replumbed) { c->cls |= 1u << CL_ANSWER_AFTER_REPLUMB; c->nt = true; }
        /* learn which lodged pointer serves which request */
        if (x->tail >= 0 && x->ptr) {
            struct tail *t = &c->tl[x->tail];
            for (int j = 0; j < t->nrt; j++)
                if (t->rt[j].ptr == x->ptr)
                    for (int k = 0; k < x->ncand; k++) if (x->cand[k].slot == r->slot) { t->rt[j].bslot = r->slot; t->rt[j].bq = x->cand[k].q; }
        }
    }
    for (int j = 0; j < c->nexp && !c->ret; j++) {
        struct expcb *x = &c->exp[j];
        if (x->matched || x->optional) continue;
        FAILC("callback/missing", "%s: a provider answered request slot%d%s (%s, answer %d) but the provide callback of the original request was not invoked", what, x->cand[0].slot, x->ncand > 1 ? " (or an indistinguishable one)" : "",
              tname(c->slot[x->cand[0].slot].type), x->ans);
    }
}

/* Every time the model says a request is handed to a tail (first registration, re-issue after set_output / a new inner pipe, re-require of a pipe's
 * own request) the tail must receive exactly one register_request, and one unregister_request for every withdrawal: a pipe that keeps asking after it
 * was answered, or that does not ask again when it must, shows here even when the set of lodged requests ends up the same. */
static void compare_counts(struct ctx *c, const char *what)
{
    for (int ti = 0; ti < 2 && !c->ret; ti++) {
        if (c->act_reg[ti] != c->exp_reg[ti])
            FAILC("tail/register-count", "%s: tail%d received %d register_request command(s), the model requires %d (a request was issued to this output %s than the helpers document)", what, ti, c->act_reg[ti], c->exp_reg[ti],
                  c->act_reg[ti] > c->exp_reg[ti] ? "more often" : "less often");
        else if (c->act_unreg[ti] != c->exp_unreg[ti])
            FAILC("tail/unregister-count", "%s: tail%d received %d unregister_request command(s), the model requires %d", what, ti, c->act_unreg[ti], c->exp_unreg[ti]);
    }
}

static void check_own_requests(struct ctx *c, const char *what)
{
    int timers = 0;
    for (int k = 0; k < c->nn && !c->ret; k++) {
        struct rnode *r = &c->rn[k];
        if (r->dead) continue;
        if (r->kind == NK_VOID_SOURCE && r->timer) timers++;
        if (!r->held) continue;
        if (r->kind == NK_HBIN) {
            /* (the harness wrote this pipe: it may look) the uclock helper holds exactly the object of the last answer since the request was issued */
            struct hbin *h = hbin_from_upipe(r->upipe);
            for (int j = 0; j < 2 && !c->ret; j++) {
                void *want = r->own[j].obj == -1 ? NULL : r->own_ptr[j];
                void *has = j == 0 ? (void *)h->uclock : (void *)h->uref_mgr;
                const char *on = j == 0 ? "uclock" : "uref_mgr";
                if (has == want) continue;
                if (!want) FAILC("own/unexpected-answer", "after %s: p%d:hbin holds %s %p although nobody answered its %s request since it was issued", what, k, on, has, on);
                else if (!has) FAILC("own/missing-answer", "after %s: p%d:hbin holds no %s although its %s request was answered (with %p): the answer did not reach the requester", what, k, on, on, want);
                else FAILC("own/wrong-answer", "after %s: p%d:hbin holds %s %p, the last answer to its %s request is %p", what, k, on, has, on, want);
            }
            continue;
        }
        if ((r->kind != NK_GENAUX && r->kind != NK_VIDEO_BLANK) || r->nflowdefs == 0) continue;
        const char *kn = kind_name[r->kind];
        struct uref *fd = NULL;
        if (!ubase_check(upipe_get_flow_def(r->upipe, &fd))) continue;
        if (r->own_ans < 0) {
            if (fd != NULL) FAILC("own/unexpected-answer", "after %s: p%d:%s has an output flow definition although nobody answered its ubuf_mgr request since it was issued", what, k, kn);
        } else {
            if (fd == NULL) FAILC("own/missing-answer", "after %s: p%d:%s has no output flow definition although its ubuf_mgr request was answered (answer %d): the answer did not reach the requester", what, k, kn, r->own_ans);
            else if (uref_ans(fd) != r->own_ans) FAILC("own/wrong-answer", "after %s: p%d:%s stored the flow format of answer %d, the last answer to its request is %d", what, k, kn, uref_ans(fd), r->own_ans);
        }
    }
    /* void_source: once both its uref_mgr and its uclock request were answered (and only then) its check function allocates the timer */
    if (!c->ret) {
        int act = fake_upump_timers(c->pfx.loop, NULL);
        if (act < timers) FAILC("own/missing-answer", "after %s: no timer on the loop although the void source was given a uref manager and a clock: an answer did not reach it", what);
        else if (act > timers) FAILC("own/unexpected-answer", "after %s: %d timer(s) on the loop although the void source still lacks an answer to its uref_mgr or uclock request", what, act);
    }
}

static void end_op(struct ctx *c, const char *what)
{
    if (c->render) pfx_render_since(&c->pfx, c->rep, c->ev_mark, c->rec_mark);
    if (c->pfx.overflow) INTERNAL("fixture log overflow");
    if (!c->ret) scan_records(c);
    if (!c->ret) model_deaths(c);
    if (!c->ret) compare_callbacks(c, what);
    if (!c->ret) compare_throws(c, what);
    if (!c->ret) compare_root(c, what);
    if (!c->ret) compare_tails(c, what);
    if (!c->ret) compare_counts(c, what);
    if (!c->ret) check_own_requests(c, what);
    c->ev_mark = c->pfx.nevents;
    c->rec_mark = c->pfx.nrecs;
}

/* ---------------------------------------------------------------- operations */

static struct upipe *tgt_upipe(struct ctx *c, int t)
{
    if (t == T_NONE) return NULL;
    if (IS_TAIL(t)) return c->tl[t - TT0].upipe;
    return c->rn[t].upipe;
}

static void mark_replumbed(struct ctx *c, int k)
{
    /* every request that currently flows through node k */
    struct mnode *m = MN(c, k);
    for (int i = 0; i < m->n; i++) if (m->l[i].slot < NSLOT) c->slot[m->l[i].slot].replumbed = true;
}

static void op_toggle(struct ctx *c)
{
    uint8_t a = tp_u8(&c->t), b = tp_u8(&c->t);
    struct slot *s = &c->slot[a % NSLOT];
    char what[96];
    c->hash = vp_hash_mix(c->hash, 0x100 + a + ((uint64_t)b << 8));
    begin_op(c);
    if (s->reg) {
        snprintf(what, sizeof what, "unregister slot%d", s->id);
        for (int ti = 0; ti < 2; ti++) for (int i = 0; i < c->tl[ti].nm; i++) if (c->tl[ti].m[i].slot == s->id) c->cls |= 1u << CL_UNREG_WHILE_LODGED;
        real_unregister(c, s);
        m_slot_unregister(c, s->id);
    } else {
        int type = (a / NSLOT) % 5;
        /* where: mostly the head */
        int at = 0, sel = b % 8;
        if (sel >= 5 && c->nn > 1) at = 1 + (sel - 5 + (b >> 6)) % (c->nn - 1);
#define NO_INPUT(k) (c->rn[k].kind == NK_QSRC || c->rn[k].kind == NK_VOID_SOURCE)     /* sources do not take requests from upstream */
        if (!c->rn[at].held || NO_INPUT(at)) at = 0;
        if (!c->rn[at].held || NO_INPUT(at)) {
            at = -1;
            for (int k = 0; k < c->nn; k++) if (c->rn[k].held && !NO_INPUT(k)) { at = k; break; }
            if (at < 0) return;
        }
        int dictv = (b >> 3) % 3;
        bool above_blit = false;
        for (int k = at; k < c->nn; k++) if (c->rn[k].kind == NK_BLIT) above_blit = true;
        if (above_blit && type == UREQUEST_FLOW_FORMAT) type = UREQUEST_UBUF_MGR;       /* blit's flow_format negotiation is not modelled */
        if (above_blit && type == UREQUEST_UBUF_MGR && dictv == 2 && !c->noexclude) { c->rep->excluded++; dictv = 0; }     /* open finding blit-forwards-unanswered-ubuf-mgr */
        int action = -1;
        if (c->actions_enabled && (b >> 5) == 7) action = (s->id + (a >> 6)) % NSLOT;      /* (a >> 6) == 0: itself */
        if (at > 0) c->cls |= 1u << CL_REGISTER_MID_CHAIN;
        for (int i = 0; i < NSLOT; i++) if (c->slot[i].reg && c->slot[i].type == type) c->cls |= 1u << CL_SAME_TYPE_TWICE;
        snprintf(what, sizeof what, "register slot%d (%s) at p%d", s->id, tname(type), at);
        real_register(c, s, type, dictv, at, action);
        m_slot_register(c, s->id);
    }
    end_op(c, what);
}

static void op_set_output(struct ctx *c)
{
    uint8_t a = tp_u8(&c->t);
    int k = a % c->nn;
    int sel = (a / 8) % 4;
    struct rnode *r = &c->rn[k];
    if (!r->held || r->kind == NK_QSINK) return;
    int tgt;
    switch (sel) {
    case 1: tgt = T_NONE; break;
    case 0: tgt = TT0 + 1; break;       /* byte 0: re-plumb to the other tail */
    case 2: tgt = k + 1 < c->nn && c->rn[k + 1].held && !c->rn[k + 1].dead && c->rn[k + 1].kind != NK_QSRC ? k + 1 : TT0; break;
    default: tgt = TT0; break;
    }
    if (IS_TAIL(tgt)) {     /* a tail has one upstream at a time */
        for (int pass = 0; pass < 2; pass++) {
            bool busy = !c->tl[tgt - TT0].held;
            for (int o = 0; o < MAXMN; o++) if (o != k && c->mn[o].exists && c->mn[o].out == tgt && !((c->mn[k].mk == MK_BIN || c->mn[k].mk == MK_HBIN) && o == c->mn[k].inner)) busy = true;
            if (!busy) break;
            if (pass == 1) return;
            tgt = tgt == TT0 ? TT0 + 1 : TT0;
        }
    }
    struct mnode *m = MN(c, k);
#if C12_QUEUE
    /* a tail that does not handle requests, connected while requests are registered: the helper's behaviour is
     * accepted either way (see m_set_output); across a queue that tolerance would need optional messages: not generated */
    if (IS_TAIL(tgt) && c->tl[tgt - TT0].policy == PFX_REQ_UNHANDLED && m->n > 0) return;
#endif
    char what[64];
    snprintf(what, sizeof what, "set_output(p%d:%s, %s)", k, kind_name[r->kind], tgt_name(tgt));
    c->hash = vp_hash_mix(c->hash, 0x200 + k * 256 + (tgt & 0xff));
    int through = m->n;
    if (m->out != tgt) {
        bool own = c->bo[k].n > 0;
        for (int i = 0; i < m->n; i++) if (m->l[i].slot >= NSLOT) own = true;
        if (own) c->cls |= CLS(CL_OWN_SETOUT);
    }
    if (through > 0 && m->out != tgt) {
        c->cls |= 1u << CL_SETOUT_WITH_REQ;
        if (tgt == T_NONE) c->cls |= 1u << CL_SETOUT_NULL_WITH_REQ;
        mark_replumbed(c, k);
    }
    begin_op(c);
    int err = upipe_set_output(r->upipe, tgt_upipe(c, tgt));
    R("  %s -> %d\n", what, err);
    if (!ubase_check(err)) FAILC("output/set", "%s fails (%d)", what, err);
    m_node_set_output(c, k, tgt);
    end_op(c, what);
}

static int new_answer(struct ctx *c, int type)
{
    if (c->nans >= MAXANS) return -1;
    c->ans[c->nans].type = type; c->ans[c->nans].ptr = NULL; c->ans[c->nans].lat = 0;
    return c->nans++;
}

/* Which original request does a request lodged at a tail stand for?  Every proxy (upipe_helper_output, upipe_helper_bin_input) keeps a pointer to the
 * request it stands for, a helper's own request keeps a pointer to its pipe, the harness' requests are known by address: all of them are alive as long
 * as the request is lodged.  Returns a harness slot, a pseudo slot, or -1 (the request came through the queue, or the chain is not understood).  Only
 * used to tell apart requests the tail cannot tell apart (no dictionary), never to predict anything. */
static int origin_of(struct ctx *c, struct urequest *x)
{
    for (int d = 0; d < 32 && x != NULL; d++) {
        for (int i = 0; i < NSLOT; i++) if (x == &c->slot[i].req) return i;
        void *o = urequest_get_opaque(x, void *);
        if (o == NULL) return -1;
        for (int k = 0; k < c->nn; k++)
            if (!c->rn[k].dead && o == (void *)c->rn[k].upipe) {
                if (c->rn[k].kind == NK_QSRC || c->rn[k].kind == NK_QSINK) return -1;
                for (int j = 0; j < NOWN; j++) if (m_slot_reg[PS(k, j)] && m_slot_ent[PS(k, j)].type == x->type) return PS(k, j);
                return -1;
            }
        x = o;
    }
    return -1;
}

static void op_provide(struct ctx *c)
{
    uint8_t a = tp_u8(&c->t);
    int ti = a & 1;
    if (c->tl[ti].policy != PFX_REQ_HOLD || c->tl[ti].nrt == 0) ti ^= 1;
    struct tail *t = &c->tl[ti];
    if (t->policy != PFX_REQ_HOLD || t->nrt == 0 || !t->held) return;
    struct rt *x = &t->rt[(a >> 1) % t->nrt];
    struct urequest *X = x->ptr;
    /* a ubuf manager request may be answered again with an answer it got before -- the same manager with the flow format of the
     * answer before last: the helpers compare what is provided with what they hold, and must take what differs from it */
    int id;
    if (X->type == UREQUEST_UBUF_MGR && (a & 0x80) && x->nprov >= 2) { id = x->last_id[1]; c->cls |= CLS(CL_ANSWER_AGAIN); }
    else id = new_answer(c, X->type);
    if (id < 0) return;
    x->last_id[1] = x->last_id[0]; x->last_id[0] = id;
    /* candidates: registered upstream requests this lodged request may stand for */
    struct expcb item; memset(&item, 0, sizeof item);
    item.ans = id; item.tail = ti; item.ptr = X;
    bool bound = false;
    if (x->bslot >= 0)
        for (int i = 0; i < t->nm; i++) if (t->m[i].slot == x->bslot && t->m[i].q == x->bq) { item.cand[0].slot = x->bslot; item.cand[0].q = x->bq; item.ncand = 1; bound = true; }
    if (!bound)
        for (int i = 0; i < t->nm && item.ncand < MAXCAND; i++) {
            if (!key_match(x, &t->m[i])) continue;
            bool taken = false;
            for (int j = 0; j < t->nrt; j++) if (&t->rt[j] != x && t->rt[j].bslot == t->m[i].slot && t->rt[j].bq == t->m[i].q) taken = true;
            if (taken) continue;
            item.cand[item.ncand].slot = t->m[i].slot; item.cand[item.ncand].q = t->m[i].q; item.ncand++;
        }
    /* a pipe's own request among several candidates: no callback of the harness will tell which one was served */
    bool pseudo = false;
    for (int i = 0; i < item.ncand; i++) if (item.cand[i].slot >= NSLOT) pseudo = true;
    if (pseudo && item.ncand > 1) {
        int org = origin_of(c, X), keep = -1;
        for (int i = 0; i < item.ncand; i++) if (org >= 0 && item.cand[i].slot == org && item.cand[i].q < 0) keep = i;
        if (keep >= 0) { item.cand[0] = item.cand[keep]; item.ncand = 1; }
        else if (org >= 0 && org < NSLOT) { int n = 0; for (int i = 0; i < item.ncand; i++) if (item.cand[i].slot < NSLOT) item.cand[n++] = item.cand[i]; item.ncand = n; }
        else { c->nans--; return; }     /* across the queue the candidates cannot be told apart: this answer is not generated */
    }
    char what[96];
    snprintf(what, sizeof what, "provide(tail%d, lodged %s request%s, answer %d)", ti, tname(X->type), has_uref(X->type) ? " with flow format" : "", id);
    c->hash = vp_hash_mix(c->hash, 0x300 + a);
    R("  %s  [rid %d gen %u]\n", what, x->rid, x->gen);
    if (x->nprov++ > 0) c->cls |= 1u << CL_REPEATED_ANSWER;
    begin_op(c);
    int err = 0;
    switch (X->type) {
    case UREQUEST_UREF_MGR: {
        struct uref_mgr *m = uref_std_mgr_alloc(0, c->pfx.fm.udict_mgr, 0);
        c->ans[id].ptr = m;
        err = urequest_provide_uref_mgr(X, m);      /* the callee owns the reference */
        break; }
    case UREQUEST_UCLOCK: {
        struct uclock *u = fake_uclock_alloc(c->pfx.loop, id);
        c->ans[id].ptr = u;
        err = urequest_provide_uclock(X, u);
        break; }
    case UREQUEST_SINK_LATENCY:
        c->ans[id].lat = 1000 + id;
        err = urequest_provide_sink_latency(X, 1000 + id);
        break;
    default: {
        struct uref *u = uref_dup(X->uref);
        uref_attr_set_unsigned(u, id, UDICT_TYPE_UNSIGNED, "x.ans");
        if (X->type == UREQUEST_FLOW_FORMAT) err = urequest_provide_flow_format(X, u);
        else err = urequest_provide_ubuf_mgr(X, ubuf_mgr_use(c->pfx.fm.block_mgr), u);
        break; }
    }
    (void)err;
    /* model: candidates reached without a queue are called back at once, the others get an upstream message */
    struct expcb imm = item, far = item;
    imm.ncand = far.ncand = 0;
    for (int i = 0; i < item.ncand; i++) {
        if (item.cand[i].q >= 0) far.cand[far.ncand++] = item.cand[i];
        else imm.cand[imm.ncand++] = item.cand[i];
    }
    int pick = -1;      /* which indistinguishable request was served is taken from what was observed */
    for (int i = 0; i < c->ncb && pick < 0; i++)
        if (c->cb[i].ans == id) for (int k = 0; k < imm.ncand; k++) if (imm.cand[k].slot == c->cb[i].slot) pick = k;
    if (imm.ncand == 1 && far.ncand == 0) pick = 0;
    if (pick >= 0) {
        int before = c->nexp;
        m_callback(c, imm.cand[pick].slot, id);
        if (c->nexp > before) { c->exp[before].tail = ti; c->exp[before].ptr = X; c->exp[before].cand[0].q = imm.cand[pick].q; }
    } else if (far.ncand > 0) {
        if (c->uqt >= MAXMSG) { INTERNAL("model upstream queue overflow"); return; }
        struct umsg *u = &c->uq[c->uqt++];
        memset(u, 0, sizeof *u);
        u->ans = id; u->ncand = far.ncand; memcpy(u->cand, far.cand, sizeof far.cand); u->tail = ti; u->ptr = X;
    } else if (imm.ncand > 0) {
        if (c->nexp < MAXCB) c->exp[c->nexp++] = imm;
    }
    end_op(c, what);
}

#if C12_QUEUE
/* the queue sink is told to look for its upump manager again (what upipe_xfer sends to a pipe it has transferred): requests that are
 * registered through it stay registered, and the answers that come back across the queue afterwards still reach their requesters */
static void op_attach_qsink(struct ctx *c)
{
    if (c->qsink < 0) return;
    struct rnode *r = &c->rn[c->qsink];
    if (!r->held || r->dead || r->upipe == NULL) return;
    c->hash = vp_hash_mix(c->hash, 0x480);
    begin_op(c);
    int err = upipe_attach_upump_mgr(r->upipe);
    R("  attach_upump_mgr(p%d:qsink) -> %d\n", c->qsink, err);
    c->cls |= CLS(CL_QSINK_REATTACH);
    end_op(c, "attach_upump_mgr(qsink)");
}
#endif

static void op_release(struct ctx *c)
{
    uint8_t a = tp_u8(&c->t);
    int k = a % c->nn;
    struct rnode *r = &c->rn[k];
    if (!r->held) return;
    char what[64];
    snprintf(what, sizeof what, "release(p%d:%s)", k, kind_name[r->kind]);
    c->hash = vp_hash_mix(c->hash, 0x400 + k);
    begin_op(c);
    /* the requester withdraws what it registered directly on this pipe before letting go of it */
    for (int i = 0; i < NSLOT; i++)
        if (c->slot[i].reg && c->slot[i].at == k) { real_unregister(c, &c->slot[i]); m_slot_unregister(c, i); }
    if (MN(c, k)->n > 0) c->cls |= 1u << CL_RELEASE_WITH_REQ;
    R("  %s\n", what);
    r->held = false;
    upipe_release(r->upipe);
    end_op(c, what);
}

static bool has_action(int kind)
{
    return kind == NK_BIN || kind == NK_GENAUX || kind == NK_VIDEO_BLANK || kind == NK_RTP_DECAPS || kind == NK_HBIN || kind == NK_TIME_LIMIT;
}

/* an operation on one pipe that makes it (re-)issue requests: a flow definition (bin: new inner pipe; genaux, video_blank, rtp_decaps: own request),
 * attach_uclock (time_limit, hbin), dropping / building / replacing the inner pipe of hbin */
static void op_flow_def(struct ctx *c)
{
    uint8_t a = tp_u8(&c->t);
    int k = -1, n = 0;
    for (int i = 0; i < c->nn; i++) if (has_action(c->rn[i].kind) && c->rn[i].held) n++;
    if (!n) return;
    int w = a % n;
    for (int i = 0; i < c->nn; i++) if (has_action(c->rn[i].kind) && c->rn[i].held && w-- == 0) { k = i; break; }
    struct rnode *r = &c->rn[k];
    if (r->nflowdefs >= 6) return;      /* the recording probe tracks a bounded number of inner pipes */
    int sub = (a >> 5) & 7;         /* hbin: 0 drop or build, 1 drop, 2 attach_uclock, 3 build or replace, 4 demand_uref_mgr, 5.. the same again */
    if (sub >= 5) sub = (int[]){ 0, 2, 4 }[sub - 5];
    char what[64];
    snprintf(what, sizeof what, "set_flow_def(p%d:%s)", k, kind_name[r->kind]);
    c->hash = vp_hash_mix(c->hash, 0x500 + k + (r->kind == NK_HBIN ? sub * 16 : 0));
    begin_op(c);
    struct mnode *m = MN(c, k);
    switch (r->kind) {
    case NK_BIN: {
        struct uref *fd = uref_alloc_control(c->pfx.fm.uref_mgr);
        uref_flow_set_def(fd, "block.mpegts.");     /* ts_align: already aligned input -> the inner pipe is an idem */
        uref_attr_set_unsigned(fd, r->nflowdefs, UDICT_TYPE_UNSIGNED, "x.fd");
        if (m->n > 0 && m->inner >= 0) { c->cls |= 1u << CL_BIN_FLOWDEF_WITH_REQ; mark_replumbed(c, k); }
        int err = upipe_set_flow_def(r->upipe, fd);
        uref_free(fd);
        R("  %s -> %d\n", what, err);
        if (!ubase_check(err)) { FAILC("flowdef/refused", "%s refused (%d)", what, err); return; }
        r->nflowdefs++;
        m_bin_set_flow_def(c, k);
        break; }
    case NK_GENAUX: {
        /* genaux issues its own ubuf_mgr request for the flow definition "block.aux." */
        int ps = PS(k, 0);
        uint32_t gen = ++c->gen;
        struct uref *fd = mk_dict(c, 1, ps, gen);
        int err = upipe_set_flow_def(r->upipe, fd);
        uref_free(fd);
        R("  %s (own request: pseudo slot%d gen %u) -> %d\n", what, ps, gen, err);
        if (!ubase_check(err)) { FAILC("flowdef/refused", "%s refused (%d)", what, err); return; }
        r->nflowdefs++;
        /* require_ubuf_mgr: withdraw the previous request, issue the new one through register_output_request */
        r->own_ans = -1;
        own_require(c, k, 0, UREQUEST_UBUF_MGR, 1, ps, gen);
        break; }
    case NK_VIDEO_BLANK: {
        /* upipe_vblk_set_flow_def: the input definition (void.) merged with the attributes given at allocation (pic. + planes) is required as flow format;
         * the ubuf_mgr request of an earlier definition stays where it is until that flow format is answered */
        int ps = PS(k, 0);
        uint32_t gen = ++c->gen;
        struct uref *fd = mk_dict(c, 5, ps, gen);
        int err = upipe_set_flow_def(r->upipe, fd);
        uref_free(fd);
        R("  %s (own flow_format request: pseudo slot%d gen %u) -> %d\n", what, ps, gen, err);
        if (!ubase_check(err)) { FAILC("flowdef/refused", "%s refused (%d)", what, err); return; }
        r->nflowdefs++;
        own_require(c, k, 0, UREQUEST_FLOW_FORMAT, 3, ps, gen);
        break; }
    case NK_RTP_DECAPS: {
        /* upipe_rtpd_set_flow_def: demand_ubuf_mgr = require_ubuf_mgr, then "also send it via a probe if nothing has been received synchronously" */
        int ps = PS(k, 0);
        uint32_t gen = ++c->gen;
        struct uref *fd = mk_dict(c, 4, ps, gen);
        int err = upipe_set_flow_def(r->upipe, fd);
        uref_free(fd);
        R("  %s (own ubuf_mgr request, demanded: pseudo slot%d gen %u) -> %d\n", what, ps, gen, err);
        if (!ubase_check(err)) { FAILC("flowdef/refused", "%s refused (%d)", what, err); return; }
        r->nflowdefs++;
        own_require(c, k, 0, UREQUEST_UBUF_MGR, 4, ps, gen);
        if (r->own[0].obj == -1 && !c->ret) { c->cls |= CLS(CL_DEMAND_THROWS_AGAIN); m_throw(c, m->probe, m_slot_ent[ps], false); }
        break; }
    case NK_TIME_LIMIT: {
        /* UPIPE_ATTACH_UCLOCK: require_uclock whatever it holds, then (every successful command) the check function */
        snprintf(what, sizeof what, "attach_uclock(p%d:%s)", k, kind_name[r->kind]);
        int err = upipe_attach_uclock(r->upipe);
        R("  %s -> %d\n", what, err);
        own_require(c, k, 0, UREQUEST_UCLOCK, 0, PS(k, 0), 0);
        m_after_control(c, k);
        break; }
    case NK_HBIN:
        if (sub == 0) sub = m->inner >= 0 ? 1 : 3;
        if (sub == 2) {
            snprintf(what, sizeof what, "attach_uclock(p%d:%s)", k, kind_name[r->kind]);
            int err = upipe_attach_uclock(r->upipe);
            R("  %s (own uclock request through register_bin_output_request) -> %d\n", what, err);
            own_require(c, k, 0, UREQUEST_UCLOCK, 0, PS(k, 0), 0);
        } else if (sub == 4) {
            /* demand_uref_mgr = require_uref_mgr, "and also send it via a probe if nothing has been received synchronously" */
            snprintf(what, sizeof what, "demand_uref_mgr(p%d:%s)", k, kind_name[r->kind]);
            bool got = hbin_demand_uref_mgr(r->upipe);
            R("  %s (own uref_mgr request through register_bin_output_request) -> %s\n", what, got ? "has a manager" : "no manager yet");
            own_require(c, k, 1, UREQUEST_UREF_MGR, 0, PS(k, 1), 0);
            if (r->own[1].obj == -1 && !c->ret) { c->cls |= CLS(CL_DEMAND_THROWS_AGAIN); m_throw(c, m->probe, m_slot_ent[PS(k, 1)], false); }
            if (!c->ret && got != (r->own[1].obj != -1))
                FAILC("own/demand-result", "%s returns %s, but its uref_mgr request was %s", what, got ? "true" : "false", r->own[1].obj != -1 ? "answered synchronously" : "not answered");
        } else if (sub == 1) {
            snprintf(what, sizeof what, "drop_inner(p%d:%s)", k, kind_name[r->kind]);
            if (m->inner < 0) return;
            if (m->n > 0) { c->cls |= CLS(CL_HBIN_DROP_WITH_REQ); mark_replumbed(c, k); }
            R("  %s: store_bin_input(NULL), store_bin_output(NULL)\n", what);
            hbin_drop_inner(r->upipe);
            m_bin_drop_inner(c, k);
        } else {
            snprintf(what, sizeof what, "%s_inner(p%d:%s)", m->inner >= 0 ? "replace" : "build", k, kind_name[r->kind]);
            if (m->n > 0) { if (m->inner >= 0) c->cls |= CLS(CL_HBIN_REPLACE_WITH_REQ); else if (r->nflowdefs > 0) c->cls |= CLS(CL_HBIN_BUILD_WITH_REQ); mark_replumbed(c, k); }
            R("  %s: store_bin_input(new idem), store_bin_output(new idem)\n", what);
            hbin_build_inner(r->upipe);
            r->nflowdefs++;
            m_bin_set_flow_def(c, k);
        }
        break;
    }
    end_op(c, what);
}

/* uprobe_uref_mgr_set / uprobe_ubuf_mem_set / uprobe_uclock_set: the object a service probe answers with is replaced (another object, none, the first
 * one again).  Requests thrown from now on are answered with the new object, or not at all; what was provided before stays provided. */
static void op_svc_set(struct ctx *c, uint8_t v)
{
    int which = v % 3, choice = (v / 3) % 3;       /* v in 0..7 */
    if (c->svc_probe[which] == NULL) return;
    if (which == SVC_UBUF_MEM && c->has_blit && !c->noexclude) { c->rep->excluded++; return; }     /* open finding blit-forwards-unanswered-ubuf-mgr */
    static const char *pn[] = { "uprobe_uref_mgr_set", "uprobe_ubuf_mem_set", "uprobe_uclock_set" };
    static const char *cn[] = { "another object", "NULL", "the original object" };
    void *obj = NULL;
    switch (which) {
    case SVC_UREF_MGR:
        if (!c->alt_uref_mgr) c->alt_uref_mgr = uref_std_mgr_alloc(0, c->pfx.fm.udict_mgr, 0);
        obj = choice == 0 ? (void *)c->alt_uref_mgr : choice == 1 ? NULL : (void *)c->pfx.fm.uref_mgr;
        break;
    case SVC_UBUF_MEM:
        if (!c->alt_umem) c->alt_umem = umem_count_mgr_alloc();
        obj = choice == 0 ? (void *)c->alt_umem : choice == 1 ? NULL : (void *)c->pfx.fm.umem_mgr;
        break;
    default:
        if (!c->alt_uclock) c->alt_uclock = fake_uclock_alloc(c->pfx.loop, 4242);
        obj = choice == 0 ? (void *)c->alt_uclock : choice == 1 ? NULL : (void *)c->pfx.uclock;
        break;
    }
    if (choice == 0 && obj == NULL) return;
    char what[64];
    snprintf(what, sizeof what, "%s(%s)", pn[which], cn[choice]);
    c->hash = vp_hash_mix(c->hash, 0x700 + which * 4 + choice);
    begin_op(c);
    R("  %s\n", what);
    switch (which) {
    case SVC_UREF_MGR: uprobe_uref_mgr_set(c->svc_probe[which], obj); break;
    case SVC_UBUF_MEM: uprobe_ubuf_mem_set(c->svc_probe[which], obj); break;
    default: uprobe_uclock_set(c->svc_probe[which], obj); break;
    }
    if (obj != c->svc_obj[which]) c->svc_gen[which]++;
    c->svc_obj[which] = obj;
    c->svc_on[which] = obj != NULL;
    if (obj == NULL) c->svc_was_off[which] = true;
    c->cls |= CLS(CL_SVC_SET);
    end_op(c, what);
}

#if C12_QUEUE
static unsigned qlen(struct ctx *c, bool down)
{
    if (c->qsrc < 0 || c->rn[c->qsrc].dead || node_dead_now(c, c->qsrc)) return 0;
    struct upipe_queue *q = upipe_queue(c->rn[c->qsrc].upipe);
    return uqueue_length(down ? &q->downstream_oob : &q->upstream_oob);
}

/* one dispatch on loop A (queue sink side) or loop B (queue source side) */
static bool op_step(struct ctx *c, bool sideB)
{
    struct upump_mgr *loop = sideB ? c->loopB : c->pfx.loop;
    if (!fake_upump_runnable(loop)) return false;
    unsigned l0 = qlen(c, sideB);
    bool alive0 = c->qsrc >= 0 && !c->rn[c->qsrc].dead;
    begin_op(c);
    R("  step loop %c\n", sideB ? 'B' : 'A');
    fake_upump_step(loop, 0);
    bool died = alive0 && node_dead_now(c, c->qsrc);
    unsigned l1 = qlen(c, sideB);
    bool consumed = died || l1 < l0;
    char what[64];
    snprintf(what, sizeof what, "step of loop %c", sideB ? 'B' : 'A');
    if (consumed && sideB && c->dqh < c->dqt) {
        struct dmsg d = c->dq[c->dqh++];
        switch (d.kind) {
        case DM_REG: snprintf(what, sizeof what, "loop B: qsrc handles REGISTER (slot%d)", d.e.slot); m_roq(c, c->qsrc, d.e); break;
        case DM_UNREG: snprintf(what, sizeof what, "loop B: qsrc handles UNREGISTER (slot%d)", d.e.slot); m_uoq(c, c->qsrc, d.e); break;
        case DM_SRCEND: snprintf(what, sizeof what, "loop B: qsrc handles SOURCE_END"); break;
        case DM_REFEND: snprintf(what, sizeof what, "loop B: qsrc handles REF_END"); break;
        }
    } else if (consumed && !sideB && c->uqh < c->uqt) {
        struct umsg u = c->uq[c->uqh++];
        struct expcb item; memset(&item, 0, sizeof item);
        item.ans = u.ans; item.tail = u.tail; item.ptr = u.ptr;
        bool anydead = false;
        for (int i = 0; i < u.ncand; i++) {
            if (alive_cand(c, &u.cand[i])) item.cand[item.ncand++] = u.cand[i];
            else anydead = true;
        }
        snprintf(what, sizeof what, "loop A: qsink handles PROVIDE (answer %d)", u.ans);
        if (item.ncand == 0) c->cls |= 1u << CL_DROP_ACROSS_QUEUE;
        else {
            item.optional = anydead;
            c->cls |= 1u << CL_ACROSS_QUEUE;
            /* is the tail pointer still lodged?  (binding is only learnt for pointers that are) */
            bool lodged = false;
            if (u.tail >= 0) for (int j = 0; j < c->tl[u.tail].nrt; j++) if (c->tl[u.tail].rt[j].ptr == u.ptr) lodged = true;
            if (!lodged) { item.tail = -1; item.ptr = NULL; }
            if (item.ncand == 1 && !item.optional) {
                int before = c->nexp;
                if (item.cand[0].slot >= NSLOT) c->cls |= CLS(CL_OWN_ACROSS_QUEUE);
                m_callback(c, item.cand[0].slot, u.ans);
                if (c->nexp > before) { c->exp[before].tail = item.tail; c->exp[before].ptr = item.ptr; c->exp[before].cand[0].q = item.cand[0].q; }
            } else if (c->nexp < MAXCB) c->exp[c->nexp++] = item;
        }
    }
    end_op(c, what);
    return true;
}

static void op_drain(struct ctx *c)
{
    for (int i = 0; i < 2000 && !c->ret; i++) {
        bool a = op_step(c, true);
        bool b = !c->ret && op_step(c, false);
        if (!a && !b) break;
    }
    /* nothing can run any more: a message that still sits in one of the out-of-band queues will never be read -- an answer (or a
     * registration) that was pushed into the queue and never reaches the other side */
    if (!c->ret && c->qsrc >= 0 && !c->rn[c->qsrc].dead && !node_dead_now(c, c->qsrc)) {
        unsigned up = qlen(c, false), down = qlen(c, true);
        if (up > 0 && c->qsink >= 0 && !c->rn[c->qsink].dead && !node_dead_now(c, c->qsink))
            FAILC("queue/answer-stuck", "both loops are idle but %u message(s) wait in the upstream out-of-band queue: no watcher of the queue sink's loop reads them, the answers never reach their requesters", up);
        else if (down > 0)
            FAILC("queue/request-stuck", "both loops are idle but %u message(s) wait in the downstream out-of-band queue: no watcher of the queue source's loop reads them", down);
    }
}
#endif

/* ---------------------------------------------------------------- main */

static struct upipe_mgr *kind_mgr(int kind)
{
    switch (kind) {
    case NK_IDEM: return upipe_idem_mgr_alloc();
    case NK_SKIP: return upipe_skip_mgr_alloc();
    case NK_DELAY: return upipe_delay_mgr_alloc();
    case NK_SETATTR: return upipe_setattr_mgr_alloc();
    case NK_PROBE_UREF: return upipe_probe_uref_mgr_alloc();
    case NK_SETFLOWDEF: return upipe_setflowdef_mgr_alloc();
    case NK_SETRAP: return upipe_setrap_mgr_alloc();
    case NK_HTONS: return upipe_htons_mgr_alloc();
    case NK_MATCH_ATTR: return upipe_match_attr_mgr_alloc();
    case NK_DUP: return upipe_dup_mgr_alloc();
    case NK_GENAUX: return upipe_genaux_mgr_alloc();
    case NK_BIN: return upipe_ts_align_mgr_alloc();
    case NK_TIME_LIMIT: return upipe_time_limit_mgr_alloc();
    case NK_VIDEO_BLANK: return upipe_vblk_mgr_alloc();
    case NK_RTP_DECAPS: return upipe_rtpd_mgr_alloc();
    case NK_VOID_SOURCE: return upipe_voidsrc_mgr_alloc();
    case NK_HBIN: return &hbin_mgr;
    case NK_BLIT: return upipe_blit_mgr_alloc();
    }
    return NULL;
}

/* kind bytes below NK_OLD_SPAN decode as they always did; the rest select the kinds with requests of their own (void_source only as head of the chain) */
static int decode_kind(struct ctx *c, uint8_t b, int k, const int *kinds)
{
    if (b < NK_OLD_SPAN) return b % NK_NKINDS;
    if ((b - NK_OLD_SPAN) % 6 == 3 && ((b - NK_OLD_SPAN) / 6) % 3 == 2) {
        /* blit: nothing upstream of it may issue flow_format requests of its own */
        bool ok = true;
        for (int i = 0; i < k; i++) if (kinds[i] == NK_VIDEO_BLANK) ok = false;
        /* open finding blit-forwards-unanswered-ubuf-mgr: not constructed unless every ubuf_mgr request that reaches it is answered by uprobe_ubuf_mem */
        if (ok && !c->noexclude && !c->pfx.cfg.with_ubuf_mem) { c->rep->excluded++; ok = false; }
        if (ok) return NK_BLIT;
    }
    static const int nk[6] = { NK_TIME_LIMIT, NK_VIDEO_BLANK, NK_HBIN, NK_RTP_DECAPS, NK_VOID_SOURCE, NK_HBIN };
    int kind = nk[(b - NK_OLD_SPAN) % 6];
    if (k == 0 && (b - NK_OLD_SPAN) % 6 == 0) kind = NK_VOID_SOURCE;
    if (kind == NK_VOID_SOURCE && k != 0) kind = NK_TIME_LIMIT;
    return kind;
}

static struct upipe *alloc_node(struct ctx *c, int kind, struct uprobe *probe)
{
    switch (kind) {
    case NK_VIDEO_BLANK: {      /* allocated with the attributes of the pictures it makes: enough for uprobe_ubuf_mem to build a picture manager */
        struct uref *fd = uref_pic_flow_alloc_def(c->pfx.fm.uref_mgr, 1);
        if (!fd) return NULL;
        uref_pic_flow_add_plane(fd, 1, 1, 1, "y8");
        uref_pic_flow_set_hsize(fd, 16);
        uref_pic_flow_set_vsize(fd, 16);
        struct upipe *u = upipe_flow_alloc(kind_mgr(kind), probe, fd);
        uref_free(fd);
        return u; }
    case NK_VOID_SOURCE: {
        struct uref *fd = uref_alloc_control(c->pfx.fm.uref_mgr);
        if (!fd) return NULL;
        uref_flow_set_def(fd, "void.");
        uref_clock_set_duration(fd, UCLOCK_FREQ);    /* the timer is never due: the harness does not advance the clock */
        struct upipe *u = upipe_flow_alloc(kind_mgr(kind), probe, fd);
        uref_free(fd);
        return u; }
    }
    return upipe_void_alloc(kind_mgr(kind), probe);
}

static int run(const uint8_t *tape, size_t len, struct vp_report *rep, unsigned flags)
{
    struct ctx *c = &ctx;
    memset(c, 0, sizeof *c);
    memset(m_slot_reg, 0, sizeof m_slot_reg);
    memset(m_slot_ent, 0, sizeof m_slot_ent);
    tp_init(&c->t, tape, len);
    c->rep = rep; c->render = flags & VP_RENDER; c->thorough = flags & VP_THOROUGH; c->noexclude = true;   /* the finding blit-forwards-unanswered-ubuf-mgr is fixed in the repository: its pattern is generated */
    c->hash = VP_HASH_INIT;
    c->qsink = c->qsrc = -1;
    c->nans = 1;

    uint8_t cfgb = tp_u8(&c->t), polb = tp_u8(&c->t), shapeb = tp_u8(&c->t);
    struct pfx_cfg cfg = { .pool_depth = (int[]){ 0, 1, 4 }[cfgb % 3], .prepend = 0, .append = 0, .align = 0,
                           .with_uref_mgr = !((cfgb / 3) & 1), .with_ubuf_mem = !((cfgb / 3) & 2), .with_uclock = !((cfgb / 3) & 4), .with_upump_mgr = true };
    if (pfx_init(&c->pfx, &cfg) != 0) return vp_internal(rep, "pfx_init");
    {   /* the service probes, outermost first (engine/pipefix.c): uref_mgr, ubuf_mem, upump_mgr, uclock */
        struct uprobe *p = c->pfx.services;
        if (cfg.with_uref_mgr) { c->svc_probe[SVC_UREF_MGR] = p; p = p->next; }
        if (cfg.with_ubuf_mem) { c->svc_probe[SVC_UBUF_MEM] = p; p = p->next; }
        if (cfg.with_upump_mgr) p = p->next;
        if (cfg.with_uclock) c->svc_probe[SVC_UCLOCK] = p;
        c->svc_on[SVC_UREF_MGR] = cfg.with_uref_mgr; c->svc_on[SVC_UBUF_MEM] = cfg.with_ubuf_mem; c->svc_on[SVC_UCLOCK] = cfg.with_uclock;
        c->svc_obj[SVC_UREF_MGR] = c->svc_orig[SVC_UREF_MGR] = c->pfx.fm.uref_mgr;
        c->svc_obj[SVC_UBUF_MEM] = c->svc_orig[SVC_UBUF_MEM] = c->pfx.fm.umem_mgr;
        c->svc_obj[SVC_UCLOCK] = c->svc_orig[SVC_UCLOCK] = c->pfx.uclock;
    }
    c->hash = vp_hash_mix(c->hash, cfgb | (polb << 8) | (shapeb << 16));
    /* tails: byte 0 = both hold requests (deferred provider) */
    static const int pol[3] = { PFX_REQ_HOLD, PFX_REQ_THROW, PFX_REQ_UNHANDLED };
    static const char *poln[3] = { "HOLD (provides later)", "THROW (its probe answers)", "UNHANDLED" };
    for (int i = 0; i < 2; i++) {
        struct tail *t = &c->tl[i];
        t->upipe = pfx_sink_alloc(&c->pfx, &t->sink);
        t->probe = c->pfx.nprobes - 1;
        int p = i == 0 ? polb % 3 : (polb / 3) % 3;
        t->policy = pol[p];
        pfx_sink(&c->pfx, t->sink)->req_policy = t->policy;
        t->held = true;
    }
    /* callbacks that re-require another request: only where every expectation is exact */
    c->actions_enabled = !C12_QUEUE && c->tl[0].policy != PFX_REQ_UNHANDLED && c->tl[1].policy != PFX_REQ_UNHANDLED && ((polb / 9) & 3) == 3;
    R("C12 %s: pool_depth=%d probes: uref_mgr=%d ubuf_mem=%d uclock=%d; tail0 %s, tail1 %s%s\n", C12_QUEUE ? "queue" : "inthread", cfg.pool_depth,
      cfg.with_uref_mgr, cfg.with_ubuf_mem, cfg.with_uclock, poln[polb % 3], poln[(polb / 3) % 3], c->actions_enabled ? "; callbacks may re-require" : "");

    /* chain */
    int kinds[MAXN]; int nn = 0;
#if C12_QUEUE
    int na = shapeb % 3, nb = (shapeb / 3) % 3;
    for (int i = 0; i < na; i++) kinds[nn++] = -1;
    c->qsink = nn; kinds[nn++] = NK_QSINK;
    c->qsrc = nn; kinds[nn++] = NK_QSRC;
    for (int i = 0; i < nb; i++) kinds[nn++] = -1;
    c->loopB = fake_upump_mgr_alloc(cfg.pool_depth, cfg.pool_depth);
#else
    nn = 1 + shapeb % 4;
    for (int i = 0; i < nn; i++) kinds[i] = -1;
#endif
    c->nn = nn;
    if (nn >= 3) c->cls |= 1u << CL_CHAIN3;
    bool prebuilt[MAXN] = { false }, stops[MAXN] = { false };
    for (int k = 0; k < nn; k++) if (kinds[k] < 0) {
        uint8_t kb = tp_u8(&c->t);
        kinds[k] = decode_kind(c, kb, k, kinds);
        if (kinds[k] == NK_BLIT) c->has_blit = true;
        prebuilt[k] = kinds[k] == NK_HBIN && (kb - NK_OLD_SPAN) % 6 == 5;     /* a bin that starts with an inner pipe */
        stops[k] = kinds[k] == NK_HBIN && ((kb - NK_OLD_SPAN) / 6) % 3 == 2;    /* a bin with control_ubuf_mgr in front */
        c->hash = vp_hash_mix(c->hash, kinds[k] + (prebuilt[k] ? 64 : 0) + (stops[k] ? 128 : 0));
    }
    /* the queue source is allocated first: the queue sink needs it */
    for (int pass = 0; pass < 2 && !c->ret; pass++)
        for (int k = 0; k < nn && !c->ret; k++) {
            struct rnode *r = &c->rn[k];
            if ((pass == 0) != (kinds[k] == NK_QSRC)) continue;
            r->kind = kinds[k];
            r->own_ans = -1;
            for (int j = 0; j < NOWN; j++) r->own[j].obj = -1;
            r->sideB = c->qsrc >= 0 && k >= c->qsrc;
            struct uprobe *probe = pfx_probe_alloc(&c->pfx, &r->probe);
#if C12_QUEUE
            if (r->kind == NK_QSRC) r->upipe = upipe_qsrc_alloc(upipe_qsrc_mgr_alloc(), uprobe_upump_mgr_alloc(probe, c->loopB), 4);
            else if (r->kind == NK_QSINK) r->upipe = upipe_qsink_alloc(upipe_qsink_mgr_alloc(), probe, c->rn[c->qsrc].upipe);
            else
#endif
            r->upipe = alloc_node(c, r->kind, probe);
            if (!r->upipe) { INTERNAL("alloc %s", kind_name[r->kind]); break; }
            r->held = true;
            struct mnode *m = MN(c, k);
            m->exists = true; m->out = T_NONE; m->probe = r->probe; m->inner = -1;
            if (r->kind == NK_HBIN && stops[k]) { hbin_from_upipe(r->upipe)->stops_ubuf = true; m->stops = (1u << UREQUEST_UBUF_MGR) | (1u << UREQUEST_FLOW_FORMAT); }
            if (r->kind == NK_BLIT) m->stops = 1u << UREQUEST_UBUF_MGR;
            m->mk = r->kind == NK_GENAUX ? MK_GENAUX : r->kind == NK_BIN ? MK_BIN : r->kind == NK_HBIN ? MK_HBIN : r->kind == NK_QSINK ? MK_QSINK : r->kind == NK_QSRC ? MK_QSRC : MK_PASS;
        }
    for (int k = 0; k < nn; k++) R("  p%d = %s (probe %d)%s%s\n", k, kind_name[c->rn[k].kind], c->rn[k].probe, c->rn[k].sideB ? "  [loop B]" : "", MN(c, k)->stops ? "  [control_ubuf_mgr in front]" : "");
    for (int i = 0; i < NS; i++) { c->slot[i].id = i; c->slot[i].action = -1; }
    begin_op(c);
    /* initial plumbing: the chain, the last pipe to tail0 */
    for (int k = 0; k < nn && !c->ret; k++) {
        if (c->rn[k].kind == NK_QSINK) continue;
        int tgt = k + 1 < nn ? k + 1 : TT0;
        upipe_set_output(c->rn[k].upipe, tgt_upipe(c, tgt));
        m_node_set_output(c, k, tgt);
    }
    end_op(c, "initial plumbing");
    for (int k = 0; k < nn && !c->ret; k++)
        if (prebuilt[k]) {
            begin_op(c);
            R("  build_inner(p%d:%s): store_bin_input(new idem), store_bin_output(new idem)\n", k, kind_name[c->rn[k].kind]);
            hbin_build_inner(c->rn[k].upipe);
            c->rn[k].nflowdefs++;
            m_bin_set_flow_def(c, k);
            end_op(c, "build_inner (initial)");
        }

    int maxops = c->thorough ? MAXOPS_T : MAXOPS_Q;
    while (!tp_done(&c->t) && c->nops < maxops && !c->ret && pfx_log_room(&c->pfx)) {
        c->nops++;
#if C12_QUEUE
        /* the out-of-band queues of the repository hold 255 messages; a message that does not fit is lost (a warning says so): not generated */
        if (c->dqt - c->dqh > 100 || c->uqt - c->uqh > 100) { R("  (many messages in flight: both loops run until nothing is runnable)\n"); op_drain(c); if (c->ret) break; }
        if (c->dqh == c->dqt) c->dqh = c->dqt = 0;
        if (c->uqh == c->uqt) c->uqh = c->uqt = 0;
#endif
        uint8_t opb = tp_u8(&c->t);
        if (opb >= 248) { op_svc_set(c, opb - 248); continue; }
        if (opb >= 224) { op_flow_def(c); continue; }
#if C12_QUEUE
        if (opb >= 216) { op_attach_qsink(c); continue; }
#endif
        uint8_t op = opb % 16;
        switch (op) {
        case 0: case 1: case 2: case 3: op_toggle(c); break;
        case 4: case 5: case 14: op_set_output(c); break;
        case 6: case 7: case 13: op_provide(c); break;
        case 8: op_release(c); break;
        case 9: op_flow_def(c); break;
#if C12_QUEUE
        case 10: c->hash = vp_hash_mix(c->hash, 0x600); op_step(c, false); break;
        case 11: case 15: c->hash = vp_hash_mix(c->hash, 0x601); op_step(c, true); break;
        case 12: c->hash = vp_hash_mix(c->hash, 0x602); R("  run both loops until nothing is runnable\n"); op_drain(c); break;
#else
        default: op_toggle(c); break;
#endif
        }
    }

    /* tail of the history: everything settles, the requester withdraws its requests, everything is released */
    if (!c->ret) {
        R("  -- end of history: settle, unregister, release\n");
#if C12_QUEUE
        op_drain(c);
#endif
    }
    if (!c->ret) {
        begin_op(c);
        for (int i = 0; i < NSLOT; i++) if (c->slot[i].reg) { real_unregister(c, &c->slot[i]); m_slot_unregister(c, i); }
        end_op(c, "final unregister");
    }
#if C12_QUEUE
    if (!c->ret) op_drain(c);
#endif
    /* nothing may be lodged anywhere now except the pipes' own requests */
    if (c->ret) {
        /* a failed case is torn down without further checks; requests still registered are withdrawn to honour the contract */
        for (int i = 0; i < NSLOT; i++) if (c->slot[i].reg && c->rn[c->slot[i].at].held) { upipe_unregister_request(c->rn[c->slot[i].at].upipe, &c->slot[i].req); c->slot[i].reg = false; urequest_clean(&c->slot[i].req); }
    }
    for (int k = 0; k < nn; k++) {
        struct rnode *r = &c->rn[k];
        if (!r->held) continue;
        if (!c->ret) begin_op(c);
        r->held = false;
        R("  release(p%d)\n", k);
        upipe_release(r->upipe);
        if (!c->ret) end_op(c, "final release");
    }
    for (int i = 0; i < 2; i++) if (c->tl[i].held) { c->tl[i].held = false; upipe_release(c->tl[i].upipe); }
#if C12_QUEUE
    if (!c->ret) op_drain(c);
    else for (int i = 0; i < 4000; i++) { bool a = fake_upump_step(c->loopB, 0), b = fake_upump_step(c->pfx.loop, 0); if (!a && !b) break; }
#endif
    if (!c->ret) {
        begin_op(c);
        end_op(c, "teardown");
        for (int k = 0; k < nn && !c->ret; k++)
            if (!c->rn[k].dead) FAILC("life/not-dead", "p%d:%s is still alive after every reference was released and both loops are idle", k, kind_name[c->rn[k].kind]);
    }
    int loopb_left = 0; bool loopb_ref = false;
#if C12_QUEUE
    loopb_left = fake_upump_count(c->loopB);
    upump_mgr_vacuum(c->loopB);
    loopb_ref = !urefcount_single(c->loopB->refcount);
    upump_mgr_release(c->loopB);
#endif
    /* the service probes get their first objects back; the alternates must then be unreferenced */
    if (c->svc_probe[SVC_UREF_MGR]) uprobe_uref_mgr_set(c->svc_probe[SVC_UREF_MGR], c->pfx.fm.uref_mgr);
    if (c->svc_probe[SVC_UBUF_MEM]) uprobe_ubuf_mem_set(c->svc_probe[SVC_UBUF_MEM], c->pfx.fm.umem_mgr);
    if (c->svc_probe[SVC_UCLOCK]) uprobe_uclock_set(c->svc_probe[SVC_UCLOCK], c->pfx.uclock);
    const char *alt_audit = NULL;
    if (c->alt_uref_mgr) { if (!urefcount_single(c->alt_uref_mgr->refcount)) alt_audit = "the uref manager given to uprobe_uref_mgr_set is still referenced"; uref_mgr_release(c->alt_uref_mgr); }
    if (c->alt_uclock) { if (!urefcount_single(c->alt_uclock->refcount)) alt_audit = "the clock given to uprobe_uclock_set is still referenced"; uclock_release(c->alt_uclock); }
    if (c->alt_umem) {
        if (umem_count_stats(c->alt_umem)->live != 0) alt_audit = "memory of the umem manager given to uprobe_ubuf_mem_set is still allocated";
        else if (!umem_count_single(c->alt_umem)) alt_audit = "the umem manager given to uprobe_ubuf_mem_set is still referenced";
        umem_mgr_release(c->alt_umem);
    }
    const char *audit = pfx_clean(&c->pfx);
    if (!audit) audit = alt_audit;
    if (!c->ret) {
        if (audit && !strncmp(audit, "INTERNAL", 8)) c->ret = vp_internal(rep, "%s", audit);
        else if (audit) FAILC("audit", "%s", audit);
        else if (loopb_left) FAILC("audit", "%d pump(s) still allocated in loop B", loopb_left);
        else if (loopb_ref) FAILC("audit", "the upump manager of loop B is still referenced");
    }
    rep->case_hash = c->hash;
    rep->classes |= c->cls;
    rep->nontrivial = c->nt;
    return c->ret;
}

const struct vp_executor vp_executor = { "C12", C12_QUEUE ? "queue" : "inthread", 220, class_names, run, NULL };

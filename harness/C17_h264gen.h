/* C17 reference H.264 stream generator: SPS / PPS / AUD / SEI / IDR and non-IDR slices
 * (ITU-T H.264 7.3.2.1.1, 7.3.2.2, 7.3.2.4, 7.3.2.3, 7.3.3), written bit by bit with the
 * harness' own writer, and the access unit boundaries of 7.4.1.2.3 / 7.4.1.2.4 computed
 * from the generated syntax elements. The slice payload after the last element that
 * matters for access unit detection is opaque filler. */
#ifndef C17_H264GEN_H_
#define C17_H264GEN_H_

#include "C17_enc.h"
#include "tape.h"

struct sps264 {
    bool valid; int nal;        /* index of the NAL record with the latest content */
    int profile, level, chroma, log2_mfn, poc_type, log2_poc;
    bool sep_plane, always_zero, fmo;
    /* VUI (E.1.1) as far as it changes the syntax of SEI messages */
    bool vui, hrd_nal, hrd_vcl, pic_struct_present;
    int cpb_cnt_nal, cpb_cnt_vcl, icrd_len, crd_len, dod_len, to_len;
};
struct pps264 { bool valid; int nal; int sps_id; bool bf_poc; };

struct g264 {
    struct sps264 sps[32];
    struct pps264 pps[256];
    uint32_t rnd;
    int nsps;                   /* SPS written so far (ordinal for the optional syntax) */
};

static uint32_t g_rnd(uint32_t *s) { *s = *s * 1664525u + 1013904223u; return *s >> 8; }

static int sc_pick(uint8_t b, bool first) { return first ? ((b & 7) == 7 ? 3 : 4) : ((b & 1) ? 3 : 4); }
static int tz_pick(uint8_t b) { return (b & 0x30) == 0x30 ? 1 + ((b >> 6) & 1) : 0; }

/* 7.3.2.1.1.1 scaling_list(): mode 0 = first delta makes nextScale 0 (default list), 1 = some deltas then nextScale 0
 * (the rest repeats lastScale), 2 = a delta for every coefficient */
static void g264_scaling_list(struct rb *w, uint32_t *xs, int size)
{
    uint32_t r = ext_rnd(xs);
    int mode = r % 3, stop = 1 + (r >> 4) % (size - 1);
    int last = 8, next = 8;
    for (int j = 0; j < size; j++) {
        if (next != 0) {
            int want;       /* the nextScale to reach */
            if (mode == 0 || (mode == 1 && j == stop)) want = 0;
            else { uint32_t q = ext_rnd(xs); want = (q & 0x30) ? 1 + (last + (int)(q % 7) - 3 + 254) % 255 : 1 + q % 255; }
            int delta = want - last;
            if (delta > 127) delta -= 256;
            if (delta < -128) delta += 256;
            rb_se(w, delta);
            next = (last + delta + 256) % 256;
        }
        last = next == 0 ? last : next;
    }
}

/* E.1.2 hrd_parameters() */
static void g264_hrd(struct rb *w, uint32_t *xs, const struct sps264 *s, int *cnt)
{
    uint32_t r = ext_rnd(xs);
    int c = (r & 15) == 15 ? 32 : 1 + (r & 3);
    *cnt = c;
    rb_ue(w, c - 1);                        /* cpb_cnt_minus1 */
    rb_u(w, 4, (r >> 4) & 15);              /* bit_rate_scale */
    rb_u(w, 4, (r >> 8) & 15);              /* cpb_size_scale */
    for (int i = 0; i < c; i++) {
        uint32_t q = ext_rnd(xs);
        rb_ue(w, (q & 31) == 31 ? 0xfffffffeu : q % 200000);    /* bit_rate_value_minus1 */
        rb_ue(w, (q & 0x3e0) == 0x3e0 ? 0xfffffffeu : (q >> 3) % 50000);    /* cpb_size_value_minus1 */
        rb_u(w, 1, (q >> 12) & 1);          /* cbr_flag */
    }
    rb_u(w, 5, s->icrd_len - 1);
    rb_u(w, 5, s->crd_len - 1);
    rb_u(w, 5, s->dod_len - 1);
    rb_u(w, 5, s->to_len);
}

/* E.1.1 vui_parameters() */
static void g264_vui(struct es *e, struct rb *w, uint32_t *xs, struct sps264 *s)
{
    uint32_t r = ext_rnd(xs);
    bool ar = r & 1, overscan = r & 2, signal = r & 4, colour = r & 8, chroma_loc = r & 16, timing = (r & 0x60) != 0;
    bool nal = (r & 0x180) == 0x180 || (r & 0x600) == 0x200, vcl = (r & 0x600) == 0x600 || (r & 0x180) == 0x080;
    bool restr = r & 0x1000;
    s->pic_struct_present = r & 0x800;
    rb_u(w, 1, ar);
    if (ar) {
        uint32_t q = ext_rnd(xs);
        int idc = (q & 3) == 0 ? 255 : (q & 3) == 1 ? 17 + (q >> 2) % 200 : 1 + (q >> 2) % 16;
        rb_u(w, 8, idc);
        if (idc == 255) { rb_u(w, 16, 1 + (q >> 8) % 4000); rb_u(w, 16, (q >> 4) % 3000); }
    }
    rb_u(w, 1, overscan);
    if (overscan) rb_u(w, 1, (r >> 13) & 1);
    rb_u(w, 1, signal);
    if (signal) {
        rb_u(w, 3, (r >> 14) % 6); rb_u(w, 1, (r >> 17) & 1); rb_u(w, 1, colour);
        if (colour) { uint32_t q = ext_rnd(xs); rb_u(w, 8, 1 + q % 12); rb_u(w, 8, 1 + (q >> 4) % 18); rb_u(w, 8, (q >> 9) % 15); }
    }
    rb_u(w, 1, chroma_loc);
    if (chroma_loc) { rb_ue(w, (r >> 18) % 6); rb_ue(w, (r >> 21) % 6); }
    rb_u(w, 1, timing);
    if (timing) {
        uint32_t q = ext_rnd(xs);
        static const uint32_t ticks[] = { 1, 1001, 1000, 3600, 0x01000001u, 90000, 2, 125 };
        static const uint32_t scales[] = { 50, 60000, 48000, 90000, 0xfffffffeu, 27000000, 25, 30000 };
        rb_u(w, 32, ticks[q % 8]); rb_u(w, 32, scales[(q >> 3) % 8]);
        rb_u(w, 1, (q >> 6) & 1);           /* fixed_frame_rate_flag */
        e->has_timing = true;
    }
    s->icrd_len = 1 + (r >> 8) % 32; s->crd_len = 1 + (r >> 3) % 32; s->dod_len = 1 + (r >> 15) % 32; s->to_len = (r >> 19) % 32;
    s->hrd_nal = nal; s->hrd_vcl = vcl;
    rb_u(w, 1, nal);
    if (nal) g264_hrd(w, xs, s, &s->cpb_cnt_nal);
    rb_u(w, 1, vcl);
    if (vcl) g264_hrd(w, xs, s, &s->cpb_cnt_vcl);
    if (nal || vcl) { rb_u(w, 1, (r >> 22) & 1); e->has_hrd = true; }    /* low_delay_hrd_flag */
    rb_u(w, 1, s->pic_struct_present);
    rb_u(w, 1, restr);
    if (restr) {
        uint32_t q = ext_rnd(xs);
        rb_u(w, 1, 1); rb_ue(w, q % 17); rb_ue(w, (q >> 5) % 17); rb_ue(w, (q >> 9) % 17); rb_ue(w, (q >> 13) % 17);
        rb_ue(w, (q >> 17) % 4);            /* max_num_reorder_frames */
        rb_ue(w, (q >> 17) % 4 + (q >> 19) % 3);    /* max_dec_frame_buffering */
    }
    e->has_vui = true;
}

static void g264_sps(struct es *e, struct g264 *g, struct tape *t, int id)
{
    struct sps264 *s = &g->sps[id];
    uint8_t a = tp_u8(t), b = tp_u8(t), c = tp_u8(t);
    static const int profs[] = { 66, 77, 100, 66, 77, 100, 110, 244 };
    static const int levels[] = { 30, 10, 11, 12, 13, 20, 21, 22, 31, 32, 40, 41, 42, 50, 51, 52 };
    s->profile = profs[a % 8];
    s->level = levels[a / 8 % 16];
    bool high = s->profile >= 100;
    s->chroma = high ? (b % 4 == 0 ? 1 : b % 4 == 1 ? 1 : b % 4 == 2 ? 2 : ((b & 0x40) ? 3 : 0)) : 1;
    s->sep_plane = s->chroma == 3 && (b & 0x80);
    s->log2_mfn = 4 + (b / 4 % 13);
    s->poc_type = c % 3;
    s->log2_poc = 4 + (c / 3 % 13);
    s->always_zero = (c & 0x40) != 0;
    s->fmo = !(c & 0x80);
    s->vui = s->hrd_nal = s->hrd_vcl = s->pic_struct_present = false;
    uint32_t xs = ext_seed(g->nsps++);
    uint32_t xo = xs ? ext_rnd(&xs) : 0;    /* bit 0: scaling matrices with real lists, bits 1-2: VUI */
    struct rb w; rb_init(&w);
    rb_u(&w, 8, s->profile);
    rb_u(&w, 8, s->profile == 66 ? 0xc0 : 0);
    rb_u(&w, 8, s->level);
    rb_ue(&w, id);
    if (high) {
        rb_ue(&w, s->chroma);
        if (s->chroma == 3) rb_u(&w, 1, s->sep_plane);
        rb_ue(&w, a >> 7 ? 2 : 0);          /* bit_depth_luma_minus8 */
        rb_ue(&w, a >> 7 ? 2 : 0);          /* bit_depth_chroma_minus8 */
        rb_u(&w, 1, 0);                     /* qpprime_y_zero_transform_bypass_flag */
        bool scaling = (b & 0x20) != 0 || (xo & 1);
        rb_u(&w, 1, scaling);               /* seq_scaling_matrix_present_flag */
        if (scaling && (xo & 1)) {
            int lists = s->chroma != 3 ? 8 : 12;
            uint32_t pres = ext_rnd(&xs);
            for (int i = 0; i < lists; i++) {
                bool present = (pres >> i) & 1;
                rb_u(&w, 1, present);       /* seq_scaling_list_present_flag[i] */
                if (present) g264_scaling_list(&w, &xs, i < 6 ? 16 : 64);
            }
            e->has_scaling = true;
        } else if (scaling) {
            int lists = s->chroma != 3 ? 8 : 12;
            for (int i = 0; i < lists; i++) {
                bool present = i == 1;
                rb_u(&w, 1, present);       /* seq_scaling_list_present_flag[i] */
                if (present) { rb_se(&w, -8); /* delta_scale: nextScale becomes 0, default list */ }
            }
        }
    }
    rb_ue(&w, s->log2_mfn - 4);
    rb_ue(&w, s->poc_type);
    if (s->poc_type == 0) rb_ue(&w, s->log2_poc - 4);
    else if (s->poc_type == 1) {
        rb_u(&w, 1, s->always_zero);
        rb_se(&w, -3);                      /* offset_for_non_ref_pic */
        rb_se(&w, 1);                       /* offset_for_top_to_bottom_field */
        int cyc = a % 3;
        rb_ue(&w, cyc);
        for (int i = 0; i < cyc; i++) rb_se(&w, 2 + i);
    }
    rb_ue(&w, 1 + a % 4);                   /* max_num_ref_frames */
    rb_u(&w, 1, 0);                         /* gaps_in_frame_num_value_allowed_flag */
    rb_ue(&w, 1 + b % 120);                 /* pic_width_in_mbs_minus1 */
    rb_ue(&w, 1 + c % 68);                  /* pic_height_in_map_units_minus1 */
    rb_u(&w, 1, s->fmo);
    if (!s->fmo) rb_u(&w, 1, a & 1);        /* mb_adaptive_frame_field_flag */
    rb_u(&w, 1, 1);                         /* direct_8x8_inference_flag */
    bool crop = (a & 0x40) != 0;
    rb_u(&w, 1, crop);
    if (crop) { rb_ue(&w, 0); rb_ue(&w, 1); rb_ue(&w, 0); rb_ue(&w, b & 1); }
    s->vui = (xo & 6) != 0;
    rb_u(&w, 1, s->vui);                    /* vui_parameters_present_flag */
    if (s->vui) g264_vui(e, &w, &xs, s);
    rb_trailing(&w);
    uint8_t hdr = 0x67, x = tp_u8(t);
    struct nalrec *r = es_nal(e, 7, sc_pick(x, true), &hdr, 1, &w, tz_pick(x));
    if (!r) return;
    r->id = id; r->chroma = s->chroma; r->depth = high && (a >> 7) ? 2 : 0;
    s->valid = true; s->nal = e->nnal - 1;
}

static void g264_pps(struct es *e, struct g264 *g, struct tape *t, int id, int sps_id)
{
    struct pps264 *p = &g->pps[id];
    uint8_t a = tp_u8(t);
    p->sps_id = sps_id;
    p->bf_poc = (a & 1) != 0;
    struct rb w; rb_init(&w);
    rb_ue(&w, id);
    rb_ue(&w, sps_id);
    rb_u(&w, 1, (a >> 1) & 1);              /* entropy_coding_mode_flag */
    rb_u(&w, 1, p->bf_poc);                 /* bottom_field_pic_order_in_frame_present_flag */
    rb_ue(&w, 0);                           /* num_slice_groups_minus1 */
    rb_ue(&w, a >> 2 & 3);                  /* num_ref_idx_l0_default_active_minus1 */
    rb_ue(&w, 0);
    rb_u(&w, 1, 0);                         /* weighted_pred_flag */
    rb_u(&w, 2, 0);                         /* weighted_bipred_idc */
    rb_se(&w, (int)(a >> 4) - 8);           /* pic_init_qp_minus26 */
    rb_se(&w, 0);
    rb_se(&w, -2);                          /* chroma_qp_index_offset */
    rb_u(&w, 1, 1);                         /* deblocking_filter_control_present_flag */
    rb_u(&w, 1, 0);                         /* constrained_intra_pred_flag */
    rb_u(&w, 1, 0);                         /* redundant_pic_cnt_present_flag */
    rb_trailing(&w);
    uint8_t hdr = 0x68, x = tp_u8(t);
    struct nalrec *r = es_nal(e, 8, sc_pick(x, true), &hdr, 1, &w, tz_pick(x));
    if (!r) return;
    r->id = id; r->ref_id = sps_id;
    p->valid = true; p->nal = e->nnal - 1;
}

static void g264_slice(struct es *e, struct g264 *g, struct tape *t, const struct pic *pc, int first_mb, int slice_type)
{
    const struct pps264 *p = &g->pps[pc->pps_id];
    const struct sps264 *s = &g->sps[p->sps_id];
    struct rb w; rb_init(&w);
    rb_ue(&w, first_mb);
    rb_ue(&w, slice_type);
    rb_ue(&w, pc->pps_id);
    if (s->sep_plane) rb_u(&w, 2, first_mb % 3);
    rb_u(&w, s->log2_mfn, pc->frame_num);
    if (!s->fmo) {
        rb_u(&w, 1, pc->field);
        if (pc->field) rb_u(&w, 1, pc->bottom);
    }
    if (pc->idr) rb_ue(&w, pc->idr_pic_id);
    if (s->poc_type == 0) {
        rb_u(&w, s->log2_poc, pc->poc_lsb);
        if (p->bf_poc && !pc->field) rb_se(&w, pc->dpb);
    } else if (s->poc_type == 1 && !s->always_zero) {
        rb_se(&w, pc->dp0);
        if (p->bf_poc && !pc->field) rb_se(&w, pc->dp1);
    }
    /* opaque remainder of the slice */
    uint8_t x = tp_u8(t);
    int fill = (x & 0xc0) == 0xc0 ? 150 + (x & 0x3f) * 4 : (x & 0x3f);
    for (int i = 0; i < fill; i++) {
        uint32_t r = g_rnd(&g->rnd);
        rb_u(&w, 8, (r & 0x300) ? (r & 0xff) : (r & 1));      /* many 00 / 01 octets: escapes */
    }
    rb_trailing(&w);
    uint8_t hdr = (pc->ref_idc << 5) | (pc->idr ? 5 : 1), y = tp_u8(t);
    struct nalrec *r = es_nal(e, pc->idr ? 5 : 1, sc_pick(y, false), &hdr, 1, &w, tz_pick(y));
    if (!r) return;
    r->vcl = true;
    r->pic = *pc;
    r->pic.poc_type = s->poc_type;
    r->pic.slice_type = slice_type;
    /* elements absent from the bitstream are inferred to be 0 (7.4.3) */
    if (s->fmo) { r->pic.field = r->pic.bottom = false; }
    if (!r->pic.field) r->pic.bottom = false;
    if (!(s->poc_type == 0 && p->bf_poc && !r->pic.field)) r->pic.dpb = 0;
    if (s->poc_type != 0) r->pic.poc_lsb = 0;
    if (!(s->poc_type == 1 && !s->always_zero)) r->pic.dp0 = r->pic.dp1 = 0;
    else if (!(p->bf_poc && !r->pic.field)) r->pic.dp1 = 0;
    if (!pc->idr) r->pic.idr_pic_id = 0;
}

static void g264_simple(struct es *e, struct tape *t, int type, uint8_t hdr, const struct rb *w, bool first)
{
    uint8_t x = tp_u8(t);
    es_nal(e, type, sc_pick(x, first), &hdr, 1, w, tz_pick(x));
}

static void g264_sei(struct es *e, struct g264 *g, struct tape *t, int kind, int sps_id)
{
    struct rb w; rb_init(&w);
    switch (kind) {
    case 1: {   /* user_data_unregistered */
        int n = 16 + tp_u8(t) % 24;
        rb_u(&w, 8, 5); rb_u(&w, 8, n);
        for (int i = 0; i < n; i++) { uint32_t r = g_rnd(&g->rnd); rb_u(&w, 8, (r & 0x100) ? r & 0xff : 0); }
        break; }
    case 2: {   /* buffering_period (D.1.2): seq_parameter_set_id, then the initial delays of every CPB of the HRD parameters */
        struct rb p; rb_init(&p);
        const struct sps264 *s = &g->sps[sps_id];
        rb_ue(&p, sps_id);
        if (s->vui && s->hrd_nal) for (int i = 0; i < s->cpb_cnt_nal; i++) { rb_u(&p, s->icrd_len, g_rnd(&g->rnd) | 1); rb_u(&p, s->icrd_len, g_rnd(&g->rnd)); }
        if (s->vui && s->hrd_vcl) for (int i = 0; i < s->cpb_cnt_vcl; i++) { rb_u(&p, s->icrd_len, g_rnd(&g->rnd) | 1); rb_u(&p, s->icrd_len, g_rnd(&g->rnd)); }
        if (p.bits % 8) rb_trailing(&p);    /* payload bit_equal_to_one + alignment */
        else if (!s->vui) rb_trailing(&p);
        rb_u(&w, 8, 0); rb_u(&w, 8, p.bits / 8);
        for (size_t i = 0; i < p.bits / 8; i++) rb_u(&w, 8, p.b[i]);
        break; }
    default: {  /* pic_timing (D.1.3; empty without VUI) then recovery_point */
        const struct sps264 *s = &g->sps[sps_id];
        struct rb q; rb_init(&q);
        if (s->vui && (s->hrd_nal || s->hrd_vcl)) { rb_u(&q, s->crd_len, g_rnd(&g->rnd)); rb_u(&q, s->dod_len, g_rnd(&g->rnd) % 7); }
        if (s->vui && s->pic_struct_present) {
            static const int nclock[9] = { 1, 1, 1, 2, 2, 3, 3, 2, 3 };
            int ps = g_rnd(&g->rnd) % 9;
            rb_u(&q, 4, ps);
            for (int i = 0; i < nclock[ps]; i++) rb_u(&q, 1, 0);    /* clock_timestamp_flag[i] */
        }
        if (q.bits % 8) rb_trailing(&q);
        rb_u(&w, 8, 1); rb_u(&w, 8, q.bits / 8);
        for (size_t i = 0; i < q.bits / 8; i++) rb_u(&w, 8, q.b[i]);
        struct rb p; rb_init(&p);
        rb_ue(&p, tp_u8(t) % 60); rb_u(&p, 1, 1); rb_u(&p, 1, 0); rb_u(&p, 2, 0);
        rb_trailing(&p);
        rb_u(&w, 8, 6); rb_u(&w, 8, p.bits / 8);
        for (size_t i = 0; i < p.bits / 8; i++) rb_u(&w, 8, p.b[i]);
        break; }
    }
    rb_trailing(&w);
    g264_simple(e, t, 6, 0x06, &w, false);
}

/* 7.4.1.2.4: is cur the first VCL NAL unit of a new primary coded picture? */
static bool h264_new_picture(const struct pic *a, const struct pic *b)
{
    if (a->frame_num != b->frame_num) return true;
    if (a->pps_id != b->pps_id) return true;
    if (a->field != b->field) return true;
    if (a->bottom != b->bottom) return true;
    if ((a->ref_idc == 0) != (b->ref_idc == 0)) return true;
    if (a->poc_type == 0 && b->poc_type == 0 && (a->poc_lsb != b->poc_lsb || a->dpb != b->dpb)) return true;
    if (a->poc_type == 1 && b->poc_type == 1 && (a->dp0 != b->dp0 || a->dp1 != b->dp1)) return true;
    if (a->idr != b->idr) return true;
    if (a->idr && b->idr && a->idr_pic_id != b->idr_pic_id) return true;
    return false;
}

/* 7.4.1.2.3 + 7.4.1.2.4 over the NAL table */
static void h264_access_units(struct es *e)
{
    e->nau = 0;
    bool seen_vcl = false;
    const struct pic *prev = NULL;
    for (int k = 0; k < e->nnal; k++) {
        struct nalrec *r = &e->nal[k];
        bool starts = k == 0;
        if (r->vcl) {
            if (seen_vcl && h264_new_picture(prev, &r->pic)) starts = true;
        } else if (r->type == 9 || r->type == 7 || r->type == 8 || r->type == 6 || (r->type >= 14 && r->type <= 18)) {
            if (seen_vcl) starts = true;
        }
        if (starts) {
            if (e->nau >= ES_MAXAU) { e->overflow = true; return; }
            struct aurec *au = &e->au[e->nau++];
            memset(au, 0, sizeof(*au));
            au->nal0 = k; au->start = r->start;
            seen_vcl = false;
        }
        struct aurec *au = &e->au[e->nau - 1];
        au->nal1 = k + 1; au->end = r->end;
        if (r->vcl) { seen_vcl = true; prev = &r->pic; au->has_vcl = true; au->key = r->pic.slice_type % 5 == 2; }
        if (r->type == 9) au->has_aud = true;
        if (r->type == 7) au->has_ps = true;
    }
}

/* the stream: 1-6 access units */
static void g264_stream(struct es *e, struct tape *t)
{
    static struct g264 g;
    memset(&g, 0, sizeof(g));
    g.rnd = 12345 + tp_u8(t) * 77;
    uint8_t lead = tp_u8(t);
    if ((lead & 0xf) == 0xf) for (int i = 0; i < 1 + (lead >> 4) % 3; i++) e->b[e->len++] = 0;    /* leading_zero_8bits */
    int nau = 1 + tp_u8(t) % 6;
    static const int sps_ids[] = { 0, 1, 31, 7 };
    static const int pps_ids[] = { 0, 1, 255, 33 };
    int cur_sps = 0, cur_pps = 0;
    bool force_idr = false;
    struct pic pc;
    memset(&pc, 0, sizeof(pc));
    for (int a = 0; a < nau && !e->overflow; a++) {
        uint8_t fl = tp_u8(t), psel = tp_u8(t);
        bool first_in_au = true;
        bool sps_changed = false;
        if (fl & 1) {
            struct rb w; rb_init(&w);
            rb_u(&w, 3, psel % 8); rb_trailing(&w);
            g264_simple(e, t, 9, 0x09, &w, true);
            first_in_au = false;
        }
        if (a == 0 || (fl & 6) == 6) {
            uint8_t ids = tp_u8(t);
            int sid = a == 0 ? sps_ids[ids % 4] : ((ids & 0x10) ? sps_ids[ids % 4] : cur_sps);
            int pid = a == 0 ? pps_ids[ids / 4 % 4] : ((ids & 0x20) ? pps_ids[ids / 4 % 4] : cur_pps);
            if (a == 0 || (ids & 0xc0) != 0x40) {   /* new content; else re-send identical bytes */
                g264_sps(e, &g, t, sid);
                sps_changed = true;
            } else {
                struct nalrec *o = &e->nal[g.sps[cur_sps].nal];
                sid = cur_sps;
                /* identical SPS again: copy its octets as a new NAL unit */
                if (e->nnal < ES_MAXNAL && e->len + (o->pend - o->hp) + 8 < ES_MAX) {
                    struct nalrec *r = &e->nal[e->nnal++];
                    *r = *o;
                    e->b[e->len++] = 0; e->b[e->len++] = 0; e->b[e->len++] = 0; e->b[e->len++] = 1;
                    r->hp = e->len;
                    size_t n = o->pend - o->hp;
                    memmove(e->b + e->len, e->b + o->hp, n); e->len += n;
                    r->pend = e->len;
                    g.sps[sid].nal = e->nnal - 1;
                } else e->overflow = true;
            }
            g264_pps(e, &g, t, pid, sid);
            if ((ids & 0x08) && pid != pps_ids[(ids / 4 + 1) % 4])      /* a second PPS on the same SPS */
                g264_pps(e, &g, t, pps_ids[(ids / 4 + 1) % 4], sid);
            cur_sps = sid; cur_pps = pid;
            first_in_au = false;
        } else if ((fl & 6) == 2) {
            g264_pps(e, &g, t, cur_pps, cur_sps);           /* PPS content may change between pictures */
            first_in_au = false;
        }
        int sei = (fl >> 3) & 3;
        if (sei) { g264_sei(e, &g, t, sei, g.pps[cur_pps].sps_id); first_in_au = false; }

        /* the picture */
        const struct sps264 *s = &g.sps[g.pps[cur_pps].sps_id];
        uint32_t mfn = 1u << s->log2_mfn, mpoc = 1u << s->log2_poc;
        if (a == 0 || sps_changed) {
            memset(&pc, 0, sizeof(pc));
            pc.idr = a != 0 || (psel & 3) != 3;
            pc.ref_idc = 1 + psel / 4 % 3;
            pc.pps_id = cur_pps;
            pc.idr_pic_id = psel >> 4;
            pc.poc_lsb = 0;
            if (!pc.idr) pc.frame_num = (psel >> 4) % mfn;
        } else {
            pc.pps_id = cur_pps;
            switch (force_idr ? 1 : psel % 12) {
            case 0: pc.idr = false; pc.frame_num = (pc.frame_num + 1) % mfn; pc.poc_lsb = (pc.poc_lsb + 2) % mpoc; break;
            case 1: pc.idr = true; pc.ref_idc = pc.ref_idc ? pc.ref_idc : 1; pc.frame_num = 0; pc.idr_pic_id = (pc.idr_pic_id + 1) & 0xffff; pc.poc_lsb = 0; break;
            case 2: {   /* another PPS, nothing else */
                for (int k = 1; k < 4; k++) { int c = pps_ids[(psel / 12 + k) % 4]; if (c != cur_pps && g.pps[c].valid && g.pps[c].sps_id == g.pps[cur_pps].sps_id) { pc.pps_id = cur_pps = c; break; } }
                break; }
            case 3: if (!s->fmo) { if (!pc.field) { pc.field = true; pc.bottom = (psel & 0x40) != 0; } else if (psel & 0x80) pc.field = false; else pc.bottom = !pc.bottom; }
                    else pc.frame_num = (pc.frame_num + 1) % mfn;
                    break;
            case 4: if (!pc.idr) pc.ref_idc = pc.ref_idc ? 0 : 2; else pc.idr_pic_id ^= 1; break;
            case 5: if (s->poc_type == 0) pc.poc_lsb = (pc.poc_lsb + 1 + psel / 16) % mpoc;
                    else if (s->poc_type == 1 && !s->always_zero) pc.dp0 += (psel & 0x40) ? -70000 : 1;
                    else pc.frame_num = (pc.frame_num + 1) % mfn;
                    break;
            case 6: if (s->poc_type == 0) pc.dpb += (psel & 0x40) ? -3 : 40000; else pc.dp1 += (psel & 0x40) ? -1 : 5;
                    if (!(g.pps[cur_pps].bf_poc && !pc.field && (s->poc_type == 0 || (s->poc_type == 1 && !s->always_zero)))) pc.frame_num = (pc.frame_num + 1) % mfn;
                    break;
            case 7: break;                                  /* same picture: more slices of it */
            case 8: if (pc.idr) pc.idr = false; else pc.frame_num = (pc.frame_num + mfn - 1) % mfn; break;
            case 9: if (pc.idr) pc.idr_pic_id = (pc.idr_pic_id + 1 + psel / 16) & 0xffff; else pc.frame_num = (pc.frame_num + 2) % mfn; break;
            case 10: pc.frame_num = (pc.frame_num + psel) % mfn; pc.idr = false; break;
            default: pc.idr = false; pc.frame_num = (pc.frame_num + 1) % mfn; pc.ref_idc = psel / 16 % 4; pc.poc_lsb = (pc.poc_lsb + 2) % mpoc; break;
            }
        }
        force_idr = false;
        if (pc.idr && pc.ref_idc == 0) pc.ref_idc = 1;
        pc.pps_id = cur_pps;
        int nsl = 1 + (fl >> 5) % 3;
        uint8_t st = tp_u8(t);
        for (int k = 0; k < nsl; k++) {
            int slice_type;
            static const int nonidr_types[] = { 0, 1, 2, 5, 6, 7, 0, 1 };
            if (pc.idr) slice_type = ((st >> k) & 1) ? 7 : 2;
            else slice_type = nonidr_types[(st >> (2 * k)) % 8];
            g264_slice(e, &g, t, &pc, k * (3 + st % 5), slice_type);
            (void)first_in_au;
        }
        if (fl & 0x80) {
            struct rb w; rb_init(&w);
            if (psel & 0x80) {      /* filler data */
                for (int i = 0; i < 1 + psel % 9; i++) rb_u(&w, 8, 0xff);
                rb_trailing(&w);
                g264_simple(e, t, 12, 0x0c, &w, false);
            } else {
                /* end of sequence: empty NAL unit; the next picture shall be IDR */
                struct rb z; rb_init(&z);
                g264_simple(e, t, 10, 0x0a, &z, false);
                force_idr = true;
            }
        }
    }
    es_spans(e);
    h264_access_units(e);
}

#endif

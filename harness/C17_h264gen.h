/* C17 reference H.264 stream generator: SPS / PPS / AUD / SEI / IDR and non-IDR slices
 * (ITU-T H.264 7.3.2.1.1, 7.3.2.2, 7.3.2.4, 7.3.2.3, 7.3.3), written bit by bit with the
 * harness' own writer, and the access unit boundaries of 7.4.1.2.3 / 7.4.1.2.4 computed
 * from the generated syntax elements. The slice payload after the last element that
 * matters for access unit detection is opaque filler. */
#ifndef C17_H264GEN_H_
#define C17_H264GEN_H_

#include "C17_enc.h"
#include "tape.h"

struct sps264 {
    bool valid; int nal;        /* index of the NAL record with the latest content */
    int profile, level, chroma, log2_mfn, poc_type, log2_poc;
    bool sep_plane, always_zero, fmo;
};
struct pps264 { bool valid; int nal; int sps_id; bool bf_poc; };

struct g264 {
    struct sps264 sps[32];
    struct pps264 pps[256];
    uint32_t rnd;
};

static uint32_t g_rnd(uint32_t *s) { *s = *s * 1664525u + 1013904223u; return *s >> 8; }

static int sc_pick(uint8_t b, bool first) { return first ? ((b & 7) == 7 ? 3 : 4) : ((b & 1) ? 3 : 4); }
static int tz_pick(uint8_t b) { return (b & 0x30) == 0x30 ? 1 + ((b >> 6) & 1) : 0; }

static void g264_sps(struct es *e, struct g264 *g, struct tape *t, int id)
{
    struct sps264 *s = &g->sps[id];
    uint8_t a = tp_u8(t), b = tp_u8(t), c = tp_u8(t);
    static const int profs[] = { 66, 77, 100, 66, 77, 100, 110, 244 };
    static const int levels[] = { 30, 10, 11, 12, 13, 20, 21, 22, 31, 32, 40, 41, 42, 50, 51, 52 };
    s->profile = profs[a % 8];
    s->level = levels[a / 8 % 16];
    bool high = s->profile >= 100;
    s->chroma = high ? (b % 4 == 0 ? 1 : b % 4 == 1 ? 1 : b % 4 == 2 ? 2 : ((b & 0x40) ? 3 : 0)) : 1;
    s->sep_plane = s->chroma == 3 && (b & 0x80);
    s->log2_mfn = 4 + (b / 4 % 13);
    s->poc_type = c % 3;
    s->log2_poc = 4 + (c / 3 % 13);
    s->always_zero = (c & 0x40) != 0;
    s->fmo = !(c & 0x80);
    struct rb w; rb_init(&w);
    rb_u(&w, 8, s->profile);
    rb_u(&w, 8, s->profile == 66 ? 0xc0 : 0);
    rb_u(&w, 8, s->level);
    rb_ue(&w, id);
    if (high) {
        rb_ue(&w, s->chroma);
        if (s->chroma == 3) rb_u(&w, 1, s->sep_plane);
        rb_ue(&w, a >> 7 ? 2 : 0);          /* bit_depth_luma_minus8 */
        rb_ue(&w, a >> 7 ? 2 : 0);          /* bit_depth_chroma_minus8 */
        rb_u(&w, 1, 0);                     /* qpprime_y_zero_transform_bypass_flag */
        bool scaling = (b & 0x20) != 0;
        rb_u(&w, 1, scaling);               /* seq_scaling_matrix_present_flag */
        if (scaling) {
            int lists = s->chroma != 3 ? 8 : 12;
            for (int i = 0; i < lists; i++) {
                bool present = i == 1;
                rb_u(&w, 1, present);       /* seq_scaling_list_present_flag[i] */
                if (present) { rb_se(&w, -8); /* delta_scale: nextScale becomes 0, default list */ }
            }
        }
    }
    rb_ue(&w, s->log2_mfn - 4);
    rb_ue(&w, s->poc_type);
    if (s->poc_type == 0) rb_ue(&w, s->log2_poc - 4);
    else if (s->poc_type == 1) {
        rb_u(&w, 1, s->always_zero);
        rb_se(&w, -3);                      /* offset_for_non_ref_pic */
        rb_se(&w, 1);                       /* offset_for_top_to_bottom_field */
        int cyc = a % 3;
        rb_ue(&w, cyc);
        for (int i = 0; i < cyc; i++) rb_se(&w, 2 + i);
    }
    rb_ue(&w, 1 + a % 4);                   /* max_num_ref_frames */
    rb_u(&w, 1, 0);                         /* gaps_in_frame_num_value_allowed_flag */
    rb_ue(&w, 1 + b % 120);                 /* pic_width_in_mbs_minus1 */
    rb_ue(&w, 1 + c % 68);                  /* pic_height_in_map_units_minus1 */
    rb_u(&w, 1, s->fmo);
    if (!s->fmo) rb_u(&w, 1, a & 1);        /* mb_adaptive_frame_field_flag */
    rb_u(&w, 1, 1);                         /* direct_8x8_inference_flag */
    bool crop = (a & 0x40) != 0;
    rb_u(&w, 1, crop);
    if (crop) { rb_ue(&w, 0); rb_ue(&w, 1); rb_ue(&w, 0); rb_ue(&w, b & 1); }
    rb_u(&w, 1, 0);                         /* vui_parameters_present_flag */
    rb_trailing(&w);
    uint8_t hdr = 0x67, x = tp_u8(t);
    struct nalrec *r = es_nal(e, 7, sc_pick(x, true), &hdr, 1, &w, tz_pick(x));
    if (!r) return;
    r->id = id;
    s->valid = true; s->nal = e->nnal - 1;
}

static void g264_pps(struct es *e, struct g264 *g, struct tape *t, int id, int sps_id)
{
    struct pps264 *p = &g->pps[id];
    uint8_t a = tp_u8(t);
    p->sps_id = sps_id;
    p->bf_poc = (a & 1) != 0;
    struct rb w; rb_init(&w);
    rb_ue(&w, id);
    rb_ue(&w, sps_id);
    rb_u(&w, 1, (a >> 1) & 1);              /* entropy_coding_mode_flag */
    rb_u(&w, 1, p->bf_poc);                 /* bottom_field_pic_order_in_frame_present_flag */
    rb_ue(&w, 0);                           /* num_slice_groups_minus1 */
    rb_ue(&w, a >> 2 & 3);                  /* num_ref_idx_l0_default_active_minus1 */
    rb_ue(&w, 0);
    rb_u(&w, 1, 0);                         /* weighted_pred_flag */
    rb_u(&w, 2, 0);                         /* weighted_bipred_idc */
    rb_se(&w, (int)(a >> 4) - 8);           /* pic_init_qp_minus26 */
    rb_se(&w, 0);
    rb_se(&w, -2);                          /* chroma_qp_index_offset */
    rb_u(&w, 1, 1);                         /* deblocking_filter_control_present_flag */
    rb_u(&w, 1, 0);                         /* constrained_intra_pred_flag */
    rb_u(&w, 1, 0);                         /* redundant_pic_cnt_present_flag */
    rb_trailing(&w);
    uint8_t hdr = 0x68, x = tp_u8(t);
    struct nalrec *r = es_nal(e, 8, sc_pick(x, true), &hdr, 1, &w, tz_pick(x));
    if (!r) return;
    r->id = id; r->ref_id = sps_id;
    p->valid = true; p->nal = e->nnal - 1;
}

static void g264_slice(struct es *e, struct g264 *g, struct tape *t, const struct pic *pc, int first_mb, int slice_type)
{
    const struct pps264 *p = &g->pps[pc->pps_id];
    const struct sps264 *s = &g->sps[p->sps_id];
    struct rb w; rb_init(&w);
    rb_ue(&w, first_mb);
    rb_ue(&w, slice_type);
    rb_ue(&w, pc->pps_id);
    if (s->sep_plane) rb_u(&w, 2, first_mb % 3);
    rb_u(&w, s->log2_mfn, pc->frame_num);
    if (!s->fmo) {
        rb_u(&w, 1, pc->field);
        if (pc->field) rb_u(&w, 1, pc->bottom);
    }
    if (pc->idr) rb_ue(&w, pc->idr_pic_id);
    if (s->poc_type == 0) {
        rb_u(&w, s->log2_poc, pc->poc_lsb);
        if (p->bf_poc && !pc->field) rb_se(&w, pc->dpb);
    } else if (s->poc_type == 1 && !s->always_zero) {
        rb_se(&w, pc->dp0);
        if (p->bf_poc && !pc->field) rb_se(&w, pc->dp1);
    }
    /* opaque remainder of the slice */
    uint8_t x = tp_u8(t);
    int fill = (x & 0xc0) == 0xc0 ? 150 + (x & 0x3f) * 4 : (x & 0x3f);
    for (int i = 0; i < fill; i++) {
        uint32_t r = g_rnd(&g->rnd);
        rb_u(&w, 8, (r & 0x300) ? (r & 0xff) : (r & 1));      /* many 00 / 01 octets: escapes */
    }
    rb_trailing(&w);
    uint8_t hdr = (pc->ref_idc << 5) | (pc->idr ? 5 : 1), y = tp_u8(t);
    struct nalrec *r = es_nal(e, pc->idr ? 5 : 1, sc_pick(y, false), &hdr, 1, &w, tz_pick(y));
    if (!r) return;
    r->vcl = true;
    r->pic = *pc;
    r->pic.poc_type = s->poc_type;
    r->pic.slice_type = slice_type;
    /* elements absent from the bitstream are inferred to be 0 (7.4.3) */
    if (s->fmo) { r->pic.field = r->pic.bottom = false; }
    if (!r->pic.field) r->pic.bottom = false;
    if (!(s->poc_type == 0 && p->bf_poc && !r->pic.field)) r->pic.dpb = 0;
    if (s->poc_type != 0) r->pic.poc_lsb = 0;
    if (!(s->poc_type == 1 && !s->always_zero)) r->pic.dp0 = r->pic.dp1 = 0;
    else if (!(p->bf_poc && !r->pic.field)) r->pic.dp1 = 0;
    if (!pc->idr) r->pic.idr_pic_id = 0;
}

static void g264_simple(struct es *e, struct tape *t, int type, uint8_t hdr, const struct rb *w, bool first)
{
    uint8_t x = tp_u8(t);
    es_nal(e, type, sc_pick(x, first), &hdr, 1, w, tz_pick(x));
}

static void g264_sei(struct es *e, struct g264 *g, struct tape *t, int kind, int sps_id)
{
    struct rb w; rb_init(&w);
    switch (kind) {
    case 1: {   /* user_data_unregistered */
        int n = 16 + tp_u8(t) % 24;
        rb_u(&w, 8, 5); rb_u(&w, 8, n);
        for (int i = 0; i < n; i++) { uint32_t r = g_rnd(&g->rnd); rb_u(&w, 8, (r & 0x100) ? r & 0xff : 0); }
        break; }
    case 2: {   /* buffering_period without HRD parameters: seq_parameter_set_id only */
        struct rb p; rb_init(&p);
        rb_ue(&p, sps_id);
        rb_trailing(&p);                    /* payload bit_equal_to_one + alignment */
        rb_u(&w, 8, 0); rb_u(&w, 8, p.bits / 8);
        for (size_t i = 0; i < p.bits / 8; i++) rb_u(&w, 8, p.b[i]);
        break; }
    default: {  /* pic_timing (empty without VUI) then recovery_point */
        rb_u(&w, 8, 1); rb_u(&w, 8, 0);
        struct rb p; rb_init(&p);
        rb_ue(&p, tp_u8(t) % 60); rb_u(&p, 1, 1); rb_u(&p, 1, 0); rb_u(&p, 2, 0);
        rb_trailing(&p);
        rb_u(&w, 8, 6); rb_u(&w, 8, p.bits / 8);
        for (size_t i = 0; i < p.bits / 8; i++) rb_u(&w, 8, p.b[i]);
        break; }
    }
    rb_trailing(&w);
    g264_simple(e, t, 6, 0x06, &w, false);
}

/* 7.4.1.2.4: is cur the first VCL NAL unit of a new primary coded picture? */
static bool h264_new_picture(const struct pic *a, const struct pic *b)
{
    if (a->frame_num != b->frame_num) return true;
    if (a->pps_id != b->pps_id) return true;
    if (a->field != b->field) return true;
    if (a->bottom != b->bottom) return true;
    if ((a->ref_idc == 0) != (b->ref_idc == 0)) return true;
    if (a->poc_type == 0 && b->poc_type == 0 && (a->poc_lsb != b->poc_lsb || a->dpb != b->dpb)) return true;
    if (a->poc_type == 1 && b->poc_type == 1 && (a->dp0 != b->dp0 || a->dp1 != b->dp1)) return true;
    if (a->idr != b->idr) return true;
    if (a->idr && b->idr && a->idr_pic_id != b->idr_pic_id) return true;
    return false;
}

/* 7.4.1.2.3 + 7.4.1.2.4 over the NAL table */
static void h264_access_units(struct es *e)
{
    e->nau = 0;
    bool seen_vcl = false;
    const struct pic *prev = NULL;
    for (int k = 0; k < e->nnal; k++) {
        struct nalrec *r = &e->nal[k];
        bool starts = k == 0;
        if (r->vcl) {
            if (seen_vcl && h264_new_picture(prev, &r->pic)) starts = true;
        } else if (r->type == 9 || r->type == 7 || r->type == 8 || r->type == 6 || (r->type >= 14 && r->type <= 18)) {
            if (seen_vcl) starts = true;
        }
        if (starts) {
            if (e->nau >= ES_MAXAU) { e->overflow = true; return; }
            struct aurec *au = &e->au[e->nau++];
            memset(au, 0, sizeof(*au));
            au->nal0 = k; au->start = r->start;
            seen_vcl = false;
        }
        struct aurec *au = &e->au[e->nau - 1];
        au->nal1 = k + 1; au->end = r->end;
        if (r->vcl) { seen_vcl = true; prev = &r->pic; au->has_vcl = true; au->key = r->pic.slice_type % 5 == 2; }
        if (r->type == 9) au->has_aud = true;
        if (r->type == 7) au->has_ps = true;
    }
}

/* the stream: 1-6 access units */
static void g264_stream(struct es *e, struct tape *t)
{
    static struct g264 g;
    memset(&g, 0, sizeof(g));
    g.rnd = 12345 + tp_u8(t) * 77;
    uint8_t lead = tp_u8(t);
    if ((lead & 0xf) == 0xf) for (int i = 0; i < 1 + (lead >> 4) % 3; i++) e->b[e->len++] = 0;    /* leading_zero_8bits */
    int nau = 1 + tp_u8(t) % 6;
    static const int sps_ids[] = { 0, 1, 31, 7 };
    static const int pps_ids[] = { 0, 1, 255, 33 };
    int cur_sps = 0, cur_pps = 0;
    bool force_idr = false;
    struct pic pc;
    memset(&pc, 0, sizeof(pc));
    for (int a = 0; a < nau && !e->overflow; a++) {
        uint8_t fl = tp_u8(t), psel = tp_u8(t);
        bool first_in_au = true;
        bool sps_changed = false;
        if (fl & 1) {
            struct rb w; rb_init(&w);
            rb_u(&w, 3, psel % 8); rb_trailing(&w);
            g264_simple(e, t, 9, 0x09, &w, true);
            first_in_au = false;
        }
        if (a == 0 || (fl & 6) == 6) {
            uint8_t ids = tp_u8(t);
            int sid = a == 0 ? sps_ids[ids % 4] : ((ids & 0x10) ? sps_ids[ids % 4] : cur_sps);
            int pid = a == 0 ? pps_ids[ids / 4 % 4] : ((ids & 0x20) ? pps_ids[ids / 4 % 4] : cur_pps);
            if (a == 0 || (ids & 0xc0) != 0x40) {   /* new content; else re-send identical bytes */
                g264_sps(e, &g, t, sid);
                sps_changed = true;
            } else {
                struct nalrec *o = &e->nal[g.sps[cur_sps].nal];
                sid = cur_sps;
                /* identical SPS again: copy its octets as a new NAL unit */
                if (e->nnal < ES_MAXNAL && e->len + (o->pend - o->hp) + 8 < ES_MAX) {
                    struct nalrec *r = &e->nal[e->nnal++];
                    *r = *o;
                    e->b[e->len++] = 0; e->b[e->len++] = 0; e->b[e->len++] = 0; e->b[e->len++] = 1;
                    r->hp = e->len;
                    size_t n = o->pend - o->hp;
                    memmove(e->b + e->len, e->b + o->hp, n); e->len += n;
                    r->pend = e->len;
                    g.sps[sid].nal = e->nnal - 1;
                } else e->overflow = true;
            }
            g264_pps(e, &g, t, pid, sid);
            if ((ids & 0x08) && pid != pps_ids[(ids / 4 + 1) % 4])      /* a second PPS on the same SPS */
                g264_pps(e, &g, t, pps_ids[(ids / 4 + 1) % 4], sid);
            cur_sps = sid; cur_pps = pid;
            first_in_au = false;
        } else if ((fl & 6) == 2) {
            g264_pps(e, &g, t, cur_pps, cur_sps);           /* PPS content may change between pictures */
            first_in_au = false;
        }
        int sei = (fl >> 3) & 3;
        if (sei) { g264_sei(e, &g, t, sei, g.pps[cur_pps].sps_id); first_in_au = false; }

        /* the picture */
        const struct sps264 *s = &g.sps[g.pps[cur_pps].sps_id];
        uint32_t mfn = 1u << s->log2_mfn, mpoc = 1u << s->log2_poc;
        if (a == 0 || sps_changed) {
            memset(&pc, 0, sizeof(pc));
            pc.idr = a != 0 || (psel & 3) != 3;
            pc.ref_idc = 1 + psel / 4 % 3;
            pc.pps_id = cur_pps;
            pc.idr_pic_id = psel >> 4;
            pc.poc_lsb = 0;
            if (!pc.idr) pc.frame_num = (psel >> 4) % mfn;
        } else {
            pc.pps_id = cur_pps;
            switch (force_idr ? 1 : psel % 12) {
            case 0: pc.idr = false; pc.frame_num = (pc.frame_num + 1) % mfn; pc.poc_lsb = (pc.poc_lsb + 2) % mpoc; break;
            case 1: pc.idr = true; pc.ref_idc = pc.ref_idc ? pc.ref_idc : 1; pc.frame_num = 0; pc.idr_pic_id = (pc.idr_pic_id + 1) & 0xffff; pc.poc_lsb = 0; break;
            case 2: {   /* another PPS, nothing else */
                for (int k = 1; k < 4; k++) { int c = pps_ids[(psel / 12 + k) % 4]; if (c != cur_pps && g.pps[c].valid && g.pps[c].sps_id == g.pps[cur_pps].sps_id) { pc.pps_id = cur_pps = c; break; } }
                break; }
            case 3: if (!s->fmo) { if (!pc.field) { pc.field = true; pc.bottom = (psel & 0x40) != 0; } else if (psel & 0x80) pc.field = false; else pc.bottom = !pc.bottom; }
                    else pc.frame_num = (pc.frame_num + 1) % mfn;
                    break;
            case 4: if (!pc.idr) pc.ref_idc = pc.ref_idc ? 0 : 2; else pc.idr_pic_id ^= 1; break;
            case 5: if (s->poc_type == 0) pc.poc_lsb = (pc.poc_lsb + 1 + psel / 16) % mpoc;
                    else if (s->poc_type == 1 && !s->always_zero) pc.dp0 += (psel & 0x40) ? -70000 : 1;
                    else pc.frame_num = (pc.frame_num + 1) % mfn;
                    break;
            case 6: if (s->poc_type == 0) pc.dpb += (psel & 0x40) ? -3 : 40000; else pc.dp1 += (psel & 0x40) ? -1 : 5;
                    if (!(g.pps[cur_pps].bf_poc && !pc.field && (s->poc_type == 0 || (s->poc_type == 1 && !s->always_zero)))) pc.frame_num = (pc.frame_num + 1) % mfn;
                    break;
            case 7: break;                                  /* same picture: more slices of it */
            case 8: if (pc.idr) pc.idr = false; else pc.frame_num = (pc.frame_num + mfn - 1) % mfn; break;
            case 9: if (pc.idr) pc.idr_pic_id = (pc.idr_pic_id + 1 + psel / 16) & 0xffff; else pc.frame_num = (pc.frame_num + 2) % mfn; break;
            case 10: pc.frame_num = (pc.frame_num + psel) % mfn; pc.idr = false; break;
            default: pc.idr = false; pc.frame_num = (pc.frame_num + 1) % mfn; pc.ref_idc = psel / 16 % 4; pc.poc_lsb = (pc.poc_lsb + 2) % mpoc; break;
            }
        }
        force_idr = false;
        if (pc.idr && pc.ref_idc == 0) pc.ref_idc = 1;
        pc.pps_id = cur_pps;
        int nsl = 1 + (fl >> 5) % 3;
        uint8_t st = tp_u8(t);
        for (int k = 0; k < nsl; k++) {
            int slice_type;
            static const int nonidr_types[] = { 0, 1, 2, 5, 6, 7, 0, 1 };
            if (pc.idr) slice_type = ((st >> k) & 1) ? 7 : 2;
            else slice_type = nonidr_types[(st >> (2 * k)) % 8];
            g264_slice(e, &g, t, &pc, k * (3 + st % 5), slice_type);
            (void)first_in_au;
        }
        if (fl & 0x80) {
            struct rb w; rb_init(&w);
            if (psel & 0x80) {      /* filler data */
                for (int i = 0; i < 1 + psel % 9; i++) rb_u(&w, 8, 0xff);
                rb_trailing(&w);
                g264_simple(e, t, 12, 0x0c, &w, false);
            } else {
                /* end of sequence: empty NAL unit; the next picture shall be IDR */
                struct rb z; rb_init(&z);
                g264_simple(e, t, 10, 0x0a, &z, false);
                force_idr = true;
            }
        }
    }
    es_spans(e);
    h264_access_units(e);
}

#endif

/* C13 — a pump fires only while started and not blocked.
 * Shared by C13_pump_mock.c and C13_pump_ev.c: tape decoder, reference automaton
 * (live, started, status, #blockers), owner refcount, blocker bookkeeping and the
 * tape-driven callback scripts. The executor supplies the back-end (be_* functions).
 *
 * Reference automaton (derived from the property text, upump.h / upump_blocker.h /
 * upump_common.h documentation and upipe_helper_input.h):
 *   alloc          -> started=0 status=1 blockers=0
 *   start / stop   -> started := 1 / 0 (idempotent)
 *   restart        -> started := 1 (and the back-end is re-armed when not blocked)
 *   set_status(v)  -> status := v          get_status -> status
 *   blocker_alloc  -> blockers += 1        blocker_free -> blockers -= 1
 *   free           -> implies stop; every outstanding blocker's callback runs exactly once
 *                     (the callback releases its blocker, as every caller in the tree does)
 *   active(back-end) <=> live && started && blockers == 0, after every call.
 */
#ifndef C13_MODEL_H_
#define C13_MODEL_H_
#include "vp.h"
#include "tape.h"
#include "upipe/ubase.h"
#include "upipe/uatomic.h"
#include "upipe/urefcount.h"
#include "upipe/upump.h"
#include "upipe/upump_blocker.h"
#include <stdio.h>
#include <stdlib.h>
#include <string.h>

#if defined(__has_feature)
# if __has_feature(address_sanitizer)
#  include <sanitizer/lsan_interface.h>
#  define C13_LSAN_IGNORE(p) __lsan_ignore_object(p)
# endif
#endif
#ifndef C13_LSAN_IGNORE
# define C13_LSAN_IGNORE(p) ((void)(p))
#endif

#define C13_MAXB    3
#define C13_MAXLIFE 3

/* pump kinds (the ev executor splits the timer into variants through c->variant) */
enum { T_IDLER, T_TIMER, T_FD_READ, T_FD_WRITE, T_SIGNAL, T_NTYPES };
static const char *const c13_type_names[] = { "idler", "timer", "fd_read", "fd_write", "signal" };

enum { K_GET_STATUS, K_START, K_STOP, K_BALLOC, K_BFREE, K_FIRE, K_SET_STATUS, K_RESTART, K_FREE, K_RELEASE, K_ALLOC };

enum { CL_START_BLOCKED, CL_STOP_BLOCKED, CL_UNBLOCK_PENDING, CL_RESUMED, CL_STAYS_STOPPED,
       CL_RESTART_UNBLOCKED, CL_RESTART_BLOCKED, CL_SETSTATUS_ACTIVE, CL_NONBLOCKING,
       CL_FREE_BLOCKERS, CL_FREE_STARTED, CL_FIRED, CL_FIRE_INACTIVE,
       CL_CB_ACTION, CL_CB_STOP, CL_CB_BALLOC, CL_CB_BFREE, CL_CB_FREE, CL_CB_RELEASE, CL_TOP_RELEASE,
       CL_LIFE2, CL_RECYCLED, CL_THREE, CL_NONLIFO, CL_NO_OWNER,
       CL_T_IDLER, CL_T_TIMER, CL_T_FD_READ, CL_T_FD_WRITE, CL_T_SIGNAL, CL_EXPIRED, CL_SKIPPED_DOMAIN, CL_INTERLOPER, CL_BALLOC_REFUSED };
static const char *const class_names[] = {
    "start_while_blocked", "stop_while_blocked", "unblocked_after_pending_change", "resumed_on_unblock",
    "stays_stopped_on_unblock", "restart_unblocked", "restart_blocked", "set_status_while_active",
    "status_nonblocking", "free_with_blockers", "free_while_started", "callback_fired",
    "fire_attempt_while_inactive", "cb_reentrant_action", "cb_stop", "cb_blocker_alloc", "cb_blocker_free",
    "cb_free_own_pump", "cb_owner_release", "toplevel_owner_release", "second_lifetime", "pool_recycled_pump",
    "three_blockers", "blocker_free_non_lifo", "no_owner_refcount", "type_idler", "type_timer",
    "type_fd_read", "type_fd_write", "type_signal", "timer_expired_state", "restart_outside_domain_skipped",
    "action_by_another_watcher_while_event_pending", "blocker_allocation_refused", NULL };

struct c13;
struct c13_blk { struct c13 *c; struct upump_blocker *b; bool out; int notified; unsigned seq; };

struct c13 {
    struct tape t;
    struct vp_report *rep;
    bool render;
    unsigned flags;
    int ret;
    uint64_t hash;
    uint64_t cls;
    /* configuration */
    int pump_pool, blk_pool;
    int type, variant;
    bool use_owner;
    /* reference automaton */
    bool live, started, status;
    bool status0_seen;      /* set_status(0) was called on this pump: loop keep-alive is then outside C13 (see DESIGN) */
    int nb;
    /* expected numbers of back-end calls so far (used by the mock) */
    int exp_start, exp_stop, exp_restart;
    bool flex;                  /* the last call may also have cycled real_stop + real_start */
    /* NT bookkeeping */
    bool pending_chg, nontrivial;
    /* real objects */
    struct upump_mgr *mgr;
    struct upump *pump;
    struct c13_blk blk[C13_MAXB];
    unsigned blk_seq;
    struct urefcount owner;
    bool owner_held, owner_release_pending;
    int owner_dead_calls;
    /* dynamic */
    bool in_cb, in_free, in_loop, life_open;
    int fires, lifetimes, nops;
    uint8_t script[3];
    int nscript;
    char log[200];
    size_t loglen;
    char keybuf[96];
    void *be;
};

#define ACTIVE(c) ((c)->live && (c)->started && (c)->nb == 0)
#define R(...) do { if (c->render) vp_render(c->rep, __VA_ARGS__); } while (0)
#define FAIL(key, ...) do { if (!c->ret) c->ret = vp_fail(c->rep, key, __VA_ARGS__); } while (0)
#define CLS(bit) (c->cls |= 1ull << (bit))

/* ---- back-end interface (defined by the executor) ---- */
static struct upump *be_alloc_pump(struct c13 *c);
/* the model went from active=was to active=now through operation kind */
static void be_transition(struct c13 *c, int kind, bool was, bool now);
/* compare the back-end with the model after a call (what == operation name) */
static void be_check(struct c13 *c, const char *what);
/* dispatch attempt / loop iteration; the script is in c->script */
static void be_fire(struct c13 *c);
/* called when the pump's callback is entered */
static void be_cb_entry(struct c13 *c);
/* restart inside the documented domain for this back-end and state? */
static bool be_restart_in_domain(struct c13 *c);
/* state suffix for the rendering */
static void be_render_state(struct c13 *c);
/* observation after a free issued outside the loop */
static void be_post_free(struct c13 *c);

static void c13_log(struct c13 *c, const char *fmt, ...) __attribute__((format(printf, 2, 3)));
static void c13_log(struct c13 *c, const char *fmt, ...)
{
    if (!c->render || c->loglen >= sizeof(c->log) - 1) return;
    va_list ap;
    va_start(ap, fmt);
    int n = vsnprintf(c->log + c->loglen, sizeof(c->log) - c->loglen, fmt, ap);
    va_end(ap);
    if (n > 0) c->loglen += (size_t)n < sizeof(c->log) - c->loglen ? (size_t)n : sizeof(c->log) - c->loglen - 1;
}

/* failure key "C13/<oracle>/<op>" with a cb- prefix for operations issued by the pump's own callback */
static const char *c13_key(struct c13 *c, const char *oracle, const char *what)
{
    snprintf(c->keybuf, sizeof(c->keybuf), "C13/%s/%s%s", oracle, c->in_cb ? "cb-" : "", what);
    return c->keybuf;
}

static void c13_line(struct c13 *c, const char *what)
{
    if (!c->render) return;
    vp_render(c->rep, "%s%-18s", c->in_cb ? "        cb: " : "  ", what);
    vp_render(c->rep, " | started=%d blockers=%d status=%d", c->started, c->nb, c->status);
    be_render_state(c);
    if (c->loglen) vp_render(c->rep, " | %s", c->log);
    vp_render(c->rep, "\n");
    c->loglen = 0; c->log[0] = 0;
}

static void c13_after(struct c13 *c, int kind, const char *what, const char *line, bool was)
{
    c->hash = vp_hash_mix(c->hash, (unsigned)kind | (c->in_cb ? 0x40 : 0));
    be_transition(c, kind, was, ACTIVE(c));
    be_check(c, what);
    c13_line(c, line);
    c->flex = false;
}

/* ---- blocker callback: what every caller in the tree does (upipe_helper_input.h) ---- */
static void c13_blocker_cb(struct upump_blocker *blocker)
{
    struct c13_blk *s = upump_blocker_get_opaque(blocker, struct c13_blk *);
    struct c13 *c = s->c;
    int i = (int)(s - c->blk);
    c13_log(c, "blocker_cb(b%d) ", i);
    if (!c->in_free)
        FAIL("C13/blocker-cb/outside-free", "callback of blocker b%d invoked although the pump is not being freed", i);
    if (!s->out || s->b != blocker) {
        FAIL("C13/blocker-cb/twice", "callback of blocker b%d invoked for a blocker that is not outstanding (notified %d times)", i, s->notified + 1);
        return;
    }
    s->notified++;
    s->out = false;
    s->b = NULL;
    c->nb--;
    upump_blocker_free(blocker);
}

static void c13_do_free(struct c13 *c, const char *what);

static void c13_owner_dead(struct urefcount *urefcount)
{
    struct c13 *c = container_of(urefcount, struct c13, owner);
    c->owner_dead_calls++;
    c13_log(c, "owner_dead ");
    if (c->in_cb)
        FAIL("C13/refcount/dead-in-callback", "the owner's refcount dropped to zero inside the pump callback: dispatch does not hold it");
    /* a pipe's destructor frees its pumps */
    if (c->live)
        c13_do_free(c, "owner-dead-free");
}

/* ---- operations ---- */
static void c13_op_get_status(struct c13 *c)
{
    bool was = ACTIVE(c);
    bool s = !c->status;
    upump_get_status(c->pump, &s);
    if (s != c->status)
        FAIL(c13_key(c, "status", "get_status"), "get_status returns %d, last value set (default 1) is %d", s, c->status);
    c13_after(c, K_GET_STATUS, "get_status", "get_status", was);
}

static void c13_op_start(struct c13 *c)
{
    bool was = ACTIVE(c);
    if (!c->started) {
        if (c->nb > 0) { CLS(CL_START_BLOCKED); c->pending_chg = true; }
        c->started = true;
        if (c->nb == 0) c->exp_start++;
    }
    upump_start(c->pump);
    if (c->in_cb) CLS(CL_CB_ACTION);
    c13_after(c, K_START, "start", "start", was);
}

static void c13_op_stop(struct c13 *c)
{
    bool was = ACTIVE(c);
    if (c->started) {
        if (c->nb > 0) { CLS(CL_STOP_BLOCKED); c->pending_chg = true; }
        c->started = false;
        if (c->nb == 0) c->exp_stop++;
    }
    upump_stop(c->pump);
    if (c->in_cb) { CLS(CL_CB_ACTION); CLS(CL_CB_STOP); }
    c13_after(c, K_STOP, "stop", "stop", was);
}

static void c13_op_restart(struct c13 *c)
{
    if (!be_restart_in_domain(c)) {
        CLS(CL_SKIPPED_DOMAIN);
        R("%srestart skipped (documented for timers only; this pump is a stopped %s)\n", c->in_cb ? "        cb: " : "  ", c13_type_names[c->type]);
        return;
    }
    bool was = ACTIVE(c);
    if (!c->started && c->nb > 0) { CLS(CL_START_BLOCKED); c->pending_chg = true; }
    c->started = true;
    if (c->nb == 0) { c->exp_restart++; CLS(CL_RESTART_UNBLOCKED); } else CLS(CL_RESTART_BLOCKED);
    upump_restart(c->pump);
    if (c->in_cb) CLS(CL_CB_ACTION);
    c13_after(c, K_RESTART, "restart", "restart", was);
}

static void c13_op_set_status(struct c13 *c, bool v)
{
    bool was = ACTIVE(c);
    char what[24];
    snprintf(what, sizeof what, "set_status(%d)", v);
    c->status = v;
    if (!v) c->status0_seen = true;
    c->flex = was;      /* upump_common may cycle real_stop(old) + real_start(new) */
    if (was) CLS(CL_SETSTATUS_ACTIVE);
    if (!v) CLS(CL_NONBLOCKING);
    upump_set_status(c->pump, v);
    if (c->in_cb) CLS(CL_CB_ACTION);
    c->hash = vp_hash_mix(c->hash, v);
    c13_after(c, K_SET_STATUS, "set_status", what, was);
}

/* `refuse`: the allocation of the blocker structure is refused (engine/faultmalloc.h, mock executor only; a pooled structure
 * may be recycled instead, in which case nothing is refused): a blocker that could not be allocated blocks nothing, the pump
 * stays exactly as it was */
static void c13_op_balloc_ex(struct c13 *c, bool refuse)
{
    int i;
    for (i = 0; i < C13_MAXB; i++) if (!c->blk[i].out) break;
    if (i == C13_MAXB) { R("%sblocker_alloc skipped (3 outstanding)\n", c->in_cb ? "        cb: " : "  "); return; }
    bool was = ACTIVE(c);
    struct c13_blk *s = &c->blk[i];
    s->c = c; s->notified = 0; s->seq = ++c->blk_seq;
#ifdef C13_FAULTS
    if (refuse) vp_fault_arm(1);
#endif
    struct upump_blocker *b = upump_blocker_alloc(c->pump, c13_blocker_cb, s);
#ifdef C13_FAULTS
    bool refused = refuse && vp_fault_disarm() > 0;
    if (b == NULL && refused) {
        CLS(CL_BALLOC_REFUSED);
        c->hash = vp_hash_mix(c->hash, 0xfa);
        c13_after(c, K_BALLOC, "blocker_alloc_refused", "blocker_alloc -> NULL (allocation refused)", was);
        return;
    }
#endif
    if (b == NULL) { if (!c->ret) c->ret = vp_internal(c->rep, "upump_blocker_alloc returned NULL"); return; }
    if (was) c->exp_stop++;
    s->b = b; s->out = true;
    c->nb++;
    if (c->nb == C13_MAXB) CLS(CL_THREE);
    if (c->in_cb) { CLS(CL_CB_ACTION); CLS(CL_CB_BALLOC); }
    char what[24];
    snprintf(what, sizeof what, "blocker_alloc=b%d", i);
    c13_after(c, K_BALLOC, "blocker_alloc", what, was);
}

static void c13_op_balloc(struct c13 *c) { c13_op_balloc_ex(c, false); }

static void c13_op_bfree(struct c13 *c, unsigned sel)
{
    if (c->nb == 0) { R("%sblocker_free skipped (none outstanding)\n", c->in_cb ? "        cb: " : "  "); return; }
    int k = sel % c->nb, i;
    unsigned maxseq = 0;
    for (i = 0; i < C13_MAXB; i++) if (c->blk[i].out && c->blk[i].seq > maxseq) maxseq = c->blk[i].seq;
    for (i = 0; i < C13_MAXB; i++) if (c->blk[i].out && k-- == 0) break;
    struct c13_blk *s = &c->blk[i];
    if (s->seq != maxseq) CLS(CL_NONLIFO);
    bool was = ACTIVE(c);
    c->nb--;
    if (ACTIVE(c)) c->exp_start++;
    if (c->nb == 0 && c->pending_chg) {
        c->pending_chg = false;
        c->nontrivial = true;
        CLS(CL_UNBLOCK_PENDING);
        CLS(c->started ? CL_RESUMED : CL_STAYS_STOPPED);
    }
    struct upump_blocker *b = s->b;
    s->out = false; s->b = NULL;
    upump_blocker_free(b);
    if (c->in_cb) { CLS(CL_CB_ACTION); CLS(CL_CB_BFREE); }
    char what[24];
    snprintf(what, sizeof what, "blocker_free(b%d)", i);
    c->hash = vp_hash_mix(c->hash, i);
    c13_after(c, K_BFREE, "blocker_free", what, was);
}

/* the checked free: implies stop, notifies every outstanding blocker exactly once */
static void c13_do_free(struct c13 *c, const char *what)
{
    bool was = ACTIVE(c);
    bool wasout[C13_MAXB];
    if (was) c->exp_stop++;
    if (c->started) CLS(CL_FREE_STARTED);
    if (c->nb) CLS(CL_FREE_BLOCKERS);
    for (int i = 0; i < C13_MAXB; i++) { wasout[i] = c->blk[i].out; c->blk[i].notified = 0; }
    c->started = false;
    c->pending_chg = false;
    c->live = false;
    c->in_free = true;
    upump_free(c->pump);
    c->in_free = false;
    for (int i = 0; i < C13_MAXB; i++) {
        if (wasout[i] && c->blk[i].notified != 1) {
            FAIL(c13_key(c, "blocker-cb", "missed"), "upump_free returned but the callback of outstanding blocker b%d ran %d times", i, c->blk[i].notified);
            if (c->blk[i].out) { C13_LSAN_IGNORE(c->blk[i].b); c->blk[i].out = false; c->blk[i].b = NULL; c->nb--; }
        }
    }
    c->pump = NULL;
    c13_after(c, K_FREE, what, what, was);
    if (!c->in_loop && !c->ret)
        be_post_free(c);
}

static void c13_op_free(struct c13 *c)
{
    if (c->in_cb) { CLS(CL_CB_ACTION); CLS(CL_CB_FREE); }
    c13_do_free(c, "free");
}

static void c13_op_release(struct c13 *c)
{
    if (!c->use_owner || !c->owner_held) return;
    c->owner_held = false;
    c->hash = vp_hash_mix(c->hash, K_RELEASE | (c->in_cb ? 0x40 : 0));
    if (c->in_cb) {
        /* as a pipe that releases itself in its pump callback: the destructor (which frees the
         * pump) must run only after the callback has returned */
        CLS(CL_CB_ACTION); CLS(CL_CB_RELEASE);
        c->owner_release_pending = true;
        urefcount_release(&c->owner);
        c13_line(c, "owner_release");
    } else {
        CLS(CL_TOP_RELEASE);
        R("  owner_release (destructor frees the pump):\n");
        urefcount_release(&c->owner);
        if (c->owner_dead_calls != 1)
            FAIL("C13/refcount/leaked", "the harness released the only reference on the owner but its destructor ran %d times: a reference is still held", c->owner_dead_calls);
    }
}

/* after a dispatch returned: a release issued inside the callback must now have taken effect */
static void c13_after_dispatch(struct c13 *c)
{
    if (c->owner_release_pending) {
        c->owner_release_pending = false;
        if (c->owner_dead_calls != 1)
            FAIL("C13/refcount/not-released", "the owner was released inside the callback; after dispatch its destructor ran %d times", c->owner_dead_calls);
    }
}

/* one tape-chosen action on the pump: run inside the pump's own callback, or (ev back-end) by another watcher of the same
 * loop iteration while the pump's event is already pending */
static void c13_scripted_action(struct c13 *c, uint8_t a)
{
    unsigned act = a % 8;
    /* bias: a callback that has just blocked its own pump often unblocks it again (sink drained at once) */
    if (c->nb > 0 && (a / 8) % 4 == 3) act = 3;
    switch (act) {
    case 0: c13_op_stop(c); break;
    case 1: c13_op_start(c); break;
    case 2: c13_op_balloc(c); break;
    case 3: c13_op_bfree(c, a / 8); break;
    case 4: c13_op_set_status(c, (a / 8) & 1); break;
    case 5: c13_op_restart(c); break;
    case 6: c13_op_free(c); break;
    default: c13_op_release(c); break;
    }
}

/* ---- the pump's callback: checks, then tape-driven re-entrant actions ---- */
static struct c13 *c13_g;   /* the case being run (a dangling pump must not be dereferenced to find it) */
static void c13_pump_cb(struct upump *upump)
{
    struct c13 *c = c13_g;
    c->fires++;
    c13_log(c, "CALLBACK ");
    if (!c->live || upump != c->pump) {
        FAIL("C13/fire/after-free", "the pump's callback was invoked after upump_free");
        return;
    }
    if (!c->started) { FAIL("C13/fire/while-stopped", "the pump's callback was invoked although the pump is stopped (blockers=%d)", c->nb); return; }
    if (c->nb) { FAIL("C13/fire/while-blocked", "the pump's callback was invoked although %d blocker(s) are held", c->nb); return; }
    CLS(CL_FIRED);
    be_cb_entry(c);
    if (c->use_owner && uatomic_load(&c->owner.refcount) != 2)
        FAIL("C13/refcount/not-held", "inside the callback the owner's refcount is %u, expected 2 (owner + dispatch)", (unsigned)uatomic_load(&c->owner.refcount));
    if (c->render) { vp_render(c->rep, "        callback (%d action%s)\n", c->nscript, c->nscript == 1 ? "" : "s"); c->loglen = 0; c->log[0] = 0; }
    int n = c->nscript;
    c->nscript = 0;
    c->in_cb = true;
    for (int i = 0; i < n && c->live && !c->ret; i++)
        c13_scripted_action(c, c->script[i]);
    c->in_cb = false;
}

/* ---- lifetimes ---- */
static void c13_new_life(struct c13 *c, uint8_t cfg)
{
    c->lifetimes++;
    c->type = (cfg & 7) < T_NTYPES ? (cfg & 7) : (cfg & 7) - T_NTYPES;
    c->use_owner = !(cfg & 8);
    c->variant = (cfg >> 4) & 3;
    c->hash = vp_hash_mix(c->hash, 0x1000 | (cfg & 0x3f));
    c->started = false; c->status = true; c->nb = 0;   /* status0_seen is per loop (per case): a reference count upset by a status-0 pump outlives it */
    c->pending_chg = false;
    memset(c->blk, 0, sizeof c->blk);
    c->owner_dead_calls = 0; c->owner_release_pending = false;
    urefcount_init(&c->owner, c13_owner_dead);
    c->owner_held = c->use_owner;
    c->life_open = true;
    if (!c->use_owner) CLS(CL_NO_OWNER);
    CLS(CL_T_IDLER + c->type);
    if (c->lifetimes >= 2) { CLS(CL_LIFE2); if (c->pump_pool) CLS(CL_RECYCLED); }
    c->pump = be_alloc_pump(c);
    if (c->pump == NULL) { if (!c->ret) c->ret = vp_internal(c->rep, "upump_alloc returned NULL"); return; }
    c->live = true;
    bool s = false;
    upump_get_status(c->pump, &s);
    if (!s) FAIL("C13/status/alloc", "a freshly allocated pump reports blocking status 0 (every caller relies on the default 1)");
    be_check(c, "alloc");
    char what[40];
    snprintf(what, sizeof what, "alloc %s%s", c13_type_names[c->type], c->use_owner ? "" : " (no refcount)");
    c13_line(c, what);
}

static void c13_end_life(struct c13 *c)
{
    if (c->owner_held) { c->owner_held = false; urefcount_release(&c->owner); }
    urefcount_clean(&c->owner);
    c->loglen = 0; c->log[0] = 0;
    c->life_open = false;
}

static void c13_decode_fire(struct c13 *c, uint8_t b)
{
    unsigned hn = b / 16;
    int n = hn < 4 ? 0 : hn < 9 ? 1 : hn < 13 ? 2 : 3;
    for (int i = 0; i < n; i++)
        c->script[i] = tp_u8(&c->t);
    c->nscript = n;
    c->hash = vp_hash_mix(c->hash, K_FIRE);
}

/* the whole history; the executor has set up c->mgr and the back-end */
static void c13_history(struct c13 *c, int maxops)
{
    while (!tp_done(&c->t) && c->nops < maxops && !c->ret) {
        uint8_t b = tp_u8(&c->t);
        if (!c->live) {
            if (c->life_open) c13_end_life(c);
            if (c->lifetimes >= C13_MAXLIFE) break;
            c13_new_life(c, b);
            continue;
        }
        c->nops++;
        unsigned k = b % 16;
        switch (k) {
        case 0: c13_op_get_status(c); break;
        case 1: case 2: c13_op_start(c); break;
        case 3: case 4: c13_op_stop(c); break;
        case 5: case 6: c13_op_balloc_ex(c, (b / 16) % 8 == 7); break;
        case 7: case 8: c13_op_bfree(c, b / 16); break;
        case 9: case 10: case 11: c13_decode_fire(c, b); be_fire(c); c->nscript = 0; break;
        case 12: c13_op_set_status(c, (b / 16) & 1); break;
        case 13: c13_op_restart(c); break;
        case 14: c13_op_free(c); break;
        default:
            if (c->use_owner) c13_op_release(c);
            else { c13_decode_fire(c, b); be_fire(c); c->nscript = 0; }
            break;
        }
    }
    /* final observation, then release everything */
    if (c->live && !c->ret) { c->nscript = 0; be_fire(c); c->nscript = 0; }
    if (c->live && !c->ret) c13_op_free(c);
    if (c->live) {
        /* a failure was recorded: release without checking */
        c->live = false; c->in_free = true;
        upump_free(c->pump);
        c->in_free = false;
        for (int i = 0; i < C13_MAXB; i++) if (c->blk[i].out) C13_LSAN_IGNORE(c->blk[i].b);
        c->pump = NULL;
    }
    if (c->life_open) c13_end_life(c);
}

static void c13_report(struct c13 *c)
{
    c->rep->case_hash = c->hash;
    c->rep->classes = c->cls;
    c->rep->nontrivial = c->nontrivial;
}
#endif

/* C13 (mock) — a pump fires only while started and not blocked.
 * A mock event-loop manager built on upump_common exactly as lib/upump-ev/upump_ev.c is
 * (same alloc / control / free structure, pools through upump_common_mgr_init); its back-end
 * only records real_start / real_stop / real_restart. After every call the back-end is compared
 * with the reference automaton of C13_model.h:
 *   - back-end active <=> started && #blockers == 0 (never while the pump is being / has been freed);
 *   - real_start only on an inactive back-end, real_stop only on an active one and with the status
 *     it was started with (back-ends keep counters: upump_srt idlers++/--, upump_ev ev_ref/ev_unref);
 *   - the numbers of real_start/real_stop/real_restart calls are exactly those of the predicate's
 *     transitions; set_status on an active pump may cycle real_stop(old)+real_start(new);
 *   - an active back-end always carries the current status;
 *   - upump_free runs every outstanding blocker's callback exactly once, callbacks never run otherwise;
 *   - the owner's refcount is held during dispatch.
 * 'dispatch' is what a back-end does when its watcher triggers: upump_common_dispatch, and only
 * when the mock back-end is active. */
#define C13_FAULTS 1      /* built with allocation fault injection (engine/faultmalloc.h) */
#include "faultmalloc.h"
#include "C13_model.h"
#include "upipe/upump_common.h"

/* ---------------- the mock manager (structure of upump_ev.c) ---------------- */
struct mock_mgr {
    struct urefcount urefcount;
    struct upump_common_mgr common_mgr;
    uint8_t upool_extra[];
};
UBASE_FROM_TO(mock_mgr, upump_mgr, upump_mgr, common_mgr.mgr)
UBASE_FROM_TO(mock_mgr, urefcount, urefcount, urefcount)

struct mock_pump {
    int event;
    uint64_t after, repeat;
    int arg;
    struct upump_common common;
};
UBASE_FROM_TO(mock_pump, upump, upump, common.upump)

struct mock_be {
    bool active, be_status;
    int n_start, n_stop, n_restart;
    bool mgr_freed;
};
#define BE(c) ((struct mock_be *)(c)->be)

static struct upump *mock_alloc(struct upump_mgr *mgr, int event, va_list args)
{
    struct mock_mgr *mm = mock_mgr_from_upump_mgr(mgr);
    struct mock_pump *mp = upool_alloc(&mm->common_mgr.upump_pool, struct mock_pump *);
    if (unlikely(mp == NULL))
        return NULL;
    struct upump *upump = mock_pump_to_upump(mp);
    mp->after = mp->repeat = 0;
    mp->arg = -1;
    switch (event) {
        case UPUMP_TYPE_IDLER:
            break;
        case UPUMP_TYPE_TIMER:
            mp->after = va_arg(args, uint64_t);
            mp->repeat = va_arg(args, uint64_t);
            break;
        case UPUMP_TYPE_FD_READ:
        case UPUMP_TYPE_FD_WRITE:
        case UPUMP_TYPE_SIGNAL:
            mp->arg = va_arg(args, int);
            break;
        default:
            free(mp);
            return NULL;
    }
    mp->event = event;
    upump_common_init(upump);
    return upump;
}

static void mock_real_start(struct upump *upump, bool status)
{
    struct c13 *c = c13_g;
    struct mock_be *m = BE(c);
    m->n_start++;
    c13_log(c, "real_start(%d) ", status);
    if (upump != c->pump)
        FAIL("C13/after-free/real_start", "real_start on a pump that is not the live one");
    if (m->active)
        FAIL(c13_key(c, "alternation", "real_start"), "real_start on a back-end that is already active (started=%d blockers=%d)", c->started, c->nb);
    if (c->in_free)
        FAIL(c13_key(c, "active", "free"), "the back-end was started while the pump is being freed");
    m->active = true;
    m->be_status = status;
}

static void mock_real_stop(struct upump *upump, bool status)
{
    struct c13 *c = c13_g;
    struct mock_be *m = BE(c);
    m->n_stop++;
    c13_log(c, "real_stop(%d) ", status);
    if (upump != c->pump)
        FAIL("C13/after-free/real_stop", "real_stop on a pump that is not the live one");
    if (!m->active)
        FAIL(c13_key(c, "alternation", "real_stop"), "real_stop on a back-end that is not active (started=%d blockers=%d)", c->started, c->nb);
    else if (status != m->be_status)
        FAIL(c13_key(c, "status", "real_stop"), "real_stop(status=%d) on a back-end started with status=%d", status, m->be_status);
    m->active = false;
}

static void mock_real_restart(struct upump *upump, bool status)
{
    struct c13 *c = c13_g;
    struct mock_be *m = BE(c);
    m->n_restart++;
    c13_log(c, "real_restart(%d) ", status);
    if (upump != c->pump)
        FAIL("C13/after-free/real_restart", "real_restart on a pump that is not the live one");
    if (c->in_free)
        FAIL(c13_key(c, "active", "free"), "the back-end was restarted while the pump is being freed");
    if (m->active && status != m->be_status)
        FAIL(c13_key(c, "status", "real_restart"), "real_restart(status=%d) on a back-end started with status=%d", status, m->be_status);
    m->active = true;     /* the mock's restart re-arms whatever the pump type */
    m->be_status = status;
}

static void mock_free(struct upump *upump)
{
    struct mock_mgr *mm = mock_mgr_from_upump_mgr(upump->mgr);
    upump_stop(upump);
    upump_common_clean(upump);
    struct mock_pump *mp = mock_pump_from_upump(upump);
    upool_free(&mm->common_mgr.upump_pool, mp);
}

static void *mock_alloc_inner(struct upool *upool)
{
    struct upump_common_mgr *common_mgr = upump_common_mgr_from_upump_pool(upool);
    struct mock_pump *mp = malloc(sizeof(struct mock_pump));
    if (unlikely(mp == NULL))
        return NULL;
    struct upump *upump = mock_pump_to_upump(mp);
    upump->mgr = upump_common_mgr_to_upump_mgr(common_mgr);
    return mp;
}

static void mock_free_inner(struct upool *upool, void *mp)
{
    free(mp);
}

static int mock_control(struct upump *upump, int command, va_list args)
{
    switch (command) {
        case UPUMP_START:
            upump_common_start(upump);
            return UBASE_ERR_NONE;
        case UPUMP_RESTART:
            upump_common_restart(upump);
            return UBASE_ERR_NONE;
        case UPUMP_STOP:
            upump_common_stop(upump);
            return UBASE_ERR_NONE;
        case UPUMP_FREE:
            mock_free(upump);
            return UBASE_ERR_NONE;
        case UPUMP_GET_STATUS: {
            int *status_p = va_arg(args, int *);
            upump_common_get_status(upump, status_p);
            return UBASE_ERR_NONE;
        }
        case UPUMP_SET_STATUS: {
            int status = va_arg(args, int);
            upump_common_set_status(upump, status);
            return UBASE_ERR_NONE;
        }
        case UPUMP_ALLOC_BLOCKER: {
            struct upump_blocker **p = va_arg(args, struct upump_blocker **);
            *p = upump_common_blocker_alloc(upump);
            return UBASE_ERR_NONE;
        }
        case UPUMP_FREE_BLOCKER: {
            struct upump_blocker *blocker = va_arg(args, struct upump_blocker *);
            upump_common_blocker_free(blocker);
            return UBASE_ERR_NONE;
        }
        default:
            return UBASE_ERR_UNHANDLED;
    }
}

static int mock_mgr_control(struct upump_mgr *mgr, int command, va_list args)
{
    switch (command) {
        case UPUMP_MGR_VACUUM:
            upump_common_mgr_vacuum(mgr);
            return UBASE_ERR_NONE;
        default:
            return UBASE_ERR_UNHANDLED;
    }
}

static void mock_mgr_free(struct urefcount *urefcount)
{
    struct mock_mgr *mm = mock_mgr_from_urefcount(urefcount);
    upump_common_mgr_clean(mock_mgr_to_upump_mgr(mm));
    BE(c13_g)->mgr_freed = true;
    free(mm);
}

static struct upump_mgr *mock_mgr_alloc(uint16_t upump_pool_depth, uint16_t upump_blocker_pool_depth)
{
    struct mock_mgr *mm = malloc(sizeof(struct mock_mgr) +
                                 upump_common_mgr_sizeof(upump_pool_depth, upump_blocker_pool_depth));
    if (unlikely(mm == NULL))
        return NULL;
    struct upump_mgr *mgr = mock_mgr_to_upump_mgr(mm);
    mgr->signature = UBASE_FOURCC('m','o','c','k');
    urefcount_init(mock_mgr_to_urefcount(mm), mock_mgr_free);
    mm->common_mgr.mgr.refcount = mock_mgr_to_urefcount(mm);
    mm->common_mgr.mgr.upump_alloc = mock_alloc;
    mm->common_mgr.mgr.upump_control = mock_control;
    mm->common_mgr.mgr.upump_mgr_control = mock_mgr_control;
    upump_common_mgr_init(mgr, upump_pool_depth, upump_blocker_pool_depth, mm->upool_extra,
                          mock_real_start, mock_real_stop, mock_real_restart,
                          mock_alloc_inner, mock_free_inner);
    return mgr;
}

/* ---------------- back-end interface for the model ---------------- */
static struct upump *be_alloc_pump(struct c13 *c)
{
    struct urefcount *rc = c->use_owner ? &c->owner : NULL;
    static const uint64_t ticks[] = { 0, 1, 27000000, UINT64_MAX };
    switch (c->type) {
    case T_IDLER:    return upump_alloc_idler(c->mgr, c13_pump_cb, c, rc);
    case T_TIMER:    return upump_alloc_timer(c->mgr, c13_pump_cb, c, rc, ticks[c->variant], ticks[3 - c->variant]);
    case T_FD_READ:  return upump_alloc_fd_read(c->mgr, c13_pump_cb, c, rc, 0);
    case T_FD_WRITE: return upump_alloc_fd_write(c->mgr, c13_pump_cb, c, rc, 1);
    default:         return upump_alloc_signal(c->mgr, c13_pump_cb, c, rc, 10);
    }
}

static void be_transition(struct c13 *c, int kind, bool was, bool now) { (void)c; (void)kind; (void)was; (void)now; }
static void be_cb_entry(struct c13 *c) { (void)c; }
static bool be_restart_in_domain(struct c13 *c) { (void)c; return true; }
static void be_post_free(struct c13 *c) { (void)c; }

static void be_render_state(struct c13 *c)
{
    vp_render(c->rep, " backend=%s", BE(c)->active ? "ACTIVE" : "idle");
}

static void be_check(struct c13 *c, const char *what)
{
    struct mock_be *m = BE(c);
    bool expect = ACTIVE(c);
    if (c->ret) return;
    if (m->active != expect) {
        FAIL(c13_key(c, "active", what), "after %s: the back-end is %s but live=%d started=%d blockers=%d",
             what, m->active ? "active" : "not active", c->live, c->started, c->nb);
        return;
    }
    if (m->active && m->be_status != c->status) {
        FAIL(c13_key(c, "status", what), "after %s: the active back-end was started with status=%d, the pump's status is %d",
             what, m->be_status, c->status);
        return;
    }
    if (c->flex && m->n_stop == c->exp_stop + 1 && m->n_start == c->exp_start + 1) { c->exp_stop++; c->exp_start++; }
    if (m->n_start != c->exp_start || m->n_stop != c->exp_stop || m->n_restart != c->exp_restart)
        FAIL(c13_key(c, "calls", what), "after %s: real_start/real_stop/real_restart called %d/%d/%d times so far, the transitions of (started && no blocker) require %d/%d/%d",
             what, m->n_start, m->n_stop, m->n_restart, c->exp_start, c->exp_stop, c->exp_restart);
}

static void be_fire(struct c13 *c)
{
    struct mock_be *m = BE(c);
    if (!m->active) {
        CLS(CL_FIRE_INACTIVE);
        R("  dispatch: back-end idle, nothing to trigger\n");
        return;
    }
    int before = c->fires;
    R("  dispatch (%d scripted action%s)\n", c->nscript, c->nscript == 1 ? "" : "s");
    upump_common_dispatch(c->pump);
    if (c->fires != before + 1)
        FAIL("C13/nofire/dispatch", "upump_common_dispatch invoked the callback %d times", c->fires - before);
    c13_after_dispatch(c);
    be_check(c, "dispatch");
    c13_line(c, "  (after dispatch)");
}

static int run(const uint8_t *tape, size_t len, struct vp_report *rep, unsigned flags)
{
    static struct c13 ctx;
    static struct mock_be be;
    struct c13 *c = &ctx;
    memset(c, 0, sizeof *c);
    memset(&be, 0, sizeof be);
    c->be = &be;
    c13_g = c;
    tp_init(&c->t, tape, len);
    c->rep = rep;
    c->render = flags & VP_RENDER;
    c->flags = flags;
    c->hash = VP_HASH_INIT;

    uint8_t cfg = tp_u8(&c->t);
    c->pump_pool = cfg & 3;
    c->blk_pool = (cfg >> 2) & 3;
    c->hash = vp_hash_mix(c->hash, cfg & 15);
    R("C13/mock pump_pool=%d blocker_pool=%d\n", c->pump_pool, c->blk_pool);
    c->mgr = mock_mgr_alloc(c->pump_pool, c->blk_pool);
    if (c->mgr == NULL) return vp_internal(rep, "mock_mgr_alloc");

    c13_history(c, (flags & VP_THOROUGH) ? 200 : 64);

    if (!c->ret && !urefcount_single(c->mgr->refcount))
        c->ret = vp_internal(rep, "the manager is still referenced after every pump was freed");
    upump_mgr_release(c->mgr);
    if (!c->ret && !be.mgr_freed)
        c->ret = vp_internal(rep, "the manager was not freed");
    c13_report(c);
    return c->ret;
}

const struct vp_executor vp_executor = { "C13", "mock", 200, class_names, run, NULL };

/* C08 — event-driven waiting never loses a wake-up; the dealer grants exclusively.
 *
 * Same deterministic scheduler as C07 (engine/sched.c); the event descriptors are virtual (hook
 * upipe_verif_eventfd): a counter, write adds 1, read zeroes it, readable <=> counter > 0 — the
 * non-semaphore eventfd semantics that libev polls level-triggered. A logical thread that waits in
 * vs_wait() is enabled only while its descriptor is readable; ueventfd_read/write are scheduling points.
 *
 * Scenario "queue" (first tape byte even): p producers x c consumers (p, c <= 2) move N <= 4 items
 * through a uqueue of length 1-3, written as the real clients are written:
 *   consumer (upipe_queue_source.c, upipe_qsrc_worker): wait until event_pop is readable -> one
 *       uqueue_pop -> repeat;
 *   producer (upipe_queue_sink.c, upipe_qsink_input/_watcher): uqueue_push; on refusal start the
 *       watcher = wait until event_push is readable -> retry; the next item only after success.
 * The totals match (the consumers' quotas add up to N), so no legitimate permanent wait exists.
 * Oracle: deadlock (nobody enabled, somebody unfinished) = lost wake-up; a lower bound of the
 * occupancy (pushes returned true - pops returned/ in progress) never exceeds the length, at every step;
 * every item delivered exactly once; the complete uqueue_push/pop history is linearizable as a FIFO
 * bounded by the configured length (engine/lin.c).
 *
 * Scenario "dealer" (first tape byte odd): 2-3 contenders follow the protocol of tests/udeal_test.c and
 * lib/upipe-av (udeal_start -> call-back -> udeal_grab -> critical section -> udeal_yield, or
 * udeal_abort) with a fake upump whose start/stop decide whether the thread keeps polling the event.
 * Oracle: never two holders in the critical section; the finite program terminates (deadlock = a
 * waiter was not notified; every contender that does not abort gets in).
 *
 * Extra mode: --extra enum --template NAME|all --bound K. Built without ASan (semantic oracle, static
 * structures, no allocation in the code under test).
 */
#undef NDEBUG
#include "vp.h"
#include "tape.h"
#include "vsched.h"
#include "lin.h"

#include "upipe/ubase.h"
#include "upipe/uatomic.h"
#include "upipe/urefcount.h"
#include "upipe/ufifo.h"
#include "upipe/ueventfd.h"
#include "upipe/upump.h"
#include "upipe/uqueue.h"
#include "upipe/udeal.h"

#include <stdio.h>
#include <stdlib.h>
#include <string.h>

#define MAXP 2
#define MAXC 2
#define MAXN 4
#define MAXD 3
#define STEP_BOUND 5000
enum { SC_QUEUE = 0, SC_DEALER = 1 };
enum { OP_PUSH = 0, OP_POP = 1, OP_GRAB = 2, OP_YIELD = 3, OP_START = 4, OP_ABORT = 5 };
enum { DM_PLAIN = 0, DM_RESTART_ABORT = 1, DM_ABORT_ON_REFUSAL = 2 };

enum { CL_SLEPT_WOKEN, CL_QUEUE, CL_DEALER, CL_PUSH_REFUSED, CL_POP_NULL, CL_DC_POP, CL_DC_PUSH, CL_2PROD, CL_2CONS,
       CL_LEN1, CL_SWITCH_IN_OP, CL_GRAB_REFUSED, CL_GRAB_RETRY, CL_ABORT, CL_3CONT, CL_POL_TAPE, CL_POL_PCT, CL_POL_PREFIX,
       CL_PRODUCER_SLEPT, CL_CONSUMER_SLEPT, CL_PREEMPT };
static const char *const class_names[] = {
    "thread_slept_and_was_woken", "scenario_queue", "scenario_dealer", "push_refused_queue_full", "pop_found_queue_empty",
    "double_check_pop_got_an_item", "double_check_push_succeeded", "two_producers", "two_consumers", "queue_length_1",
    "context_switch_inside_operation", "grab_refused", "grab_backed_off_and_retried", "dealer_abort_used",
    "three_contenders", "policy_tape", "policy_pct", "policy_prefix", "producer_slept_on_event_push",
    "consumer_slept_on_event_pop", "preempted", NULL };

struct prog {
    int scenario;
    /* queue */
    int length, np, nc, nitems;
    uint8_t producer_of[MAXN];        /* item i is pushed by this producer (in item order) */
    int quota[MAXC];
    /* dealer */
    int nd;
    int dquota[MAXD], dmode[MAXD];
};

struct fake_pump { struct upump upump; bool started; };

struct cont { int id; struct fake_pump fp; struct upump *pump; int done, refused; bool aborted; };

static struct {
    struct prog p;
    /* queue */
    struct uqueue q;
    uint8_t extra[uqueue_sizeof(8)] __attribute__((aligned(16)));
    int vals[MAXN + 2];
    int delivered[MAXN + 2];
    int got[MAXC];
    int push_ok, pop_ok, pops_started_open;
    bool producer_slept, consumer_slept;
    bool finished[MAXP + MAXC];
    bool truncated;
    /* dealer */
    struct udeal deal;
    struct upump_mgr pmgr;
    struct cont cont[MAXD];
    int holders;
    int next_alloc;
    char fkey[96], fmsg[320];
} cx;

static void fail_inside(const char *key, const char *fmt, int a, int b)
{
    if (cx.fkey[0]) return;
    snprintf(cx.fkey, sizeof(cx.fkey), "%s", key);
    snprintf(cx.fmsg, sizeof(cx.fmsg), fmt, a, b);
}

static bool can_log(void) { if (vs_nhist >= VS_MAX_OPS - 2) { cx.truncated = true; return false; } return true; }

/* ---------------------------------------------------------------- queue scenario */

static void op_started(int i)
{
    if (vs_hist[i].kind == OP_POP && cx.p.scenario == SC_QUEUE) cx.pops_started_open++;
}

static void producer(void *arg)
{
    int me = (int)(intptr_t)arg;
    const struct prog *p = &cx.p;
    for (int i = 0; i < p->nitems; i++) {
        if (p->producer_of[i] != me) continue;
        for (;;) {
            bool log = can_log();
            if (log) vs_op_begin(OP_PUSH, i + 1, 0);
            bool ok = uqueue_push(&cx.q, &cx.vals[i + 1]);
            if (ok) cx.push_ok++;
            if (log) vs_op_end(ok);
            if (ok) break;
            /* upipe_qsink_input: upump_start(watcher on event_push), hold the buffer, block the input */
            unsigned before = vs_stats.slept_woken;
            vs_wait(&cx.q.event_push);
            if (vs_stats.slept_woken != before) cx.producer_slept = true;
        }
    }
    cx.finished[me] = true;
}

static void consumer(void *arg)
{
    int me = (int)(intptr_t)arg;
    const struct prog *p = &cx.p;
    while (cx.got[me] < p->quota[me]) {
        /* upipe_qsrc: the pump on event_pop is always started; one pop per call-back */
        unsigned before = vs_stats.slept_woken;
        vs_wait(&cx.q.event_pop);
        if (vs_stats.slept_woken != before) cx.consumer_slept = true;
        bool log = can_log();
        if (log) vs_op_begin(OP_POP, 0, 0);
        int *v = uqueue_pop(&cx.q, int *);
        int id = v == NULL ? 0 : (v >= &cx.vals[1] && v <= &cx.vals[MAXN]) ? (int)(v - cx.vals) : -1;
        if (id != 0) cx.pop_ok++;
        if (log) { vs_op_end(id); cx.pops_started_open--; }
        if (id < 0) { fail_inside("C08/queue/invented", "consumer %d popped a pointer that was never pushed%.0d", me, 0); vs_abort(); }
        if (id > 0) {
            if (++cx.delivered[id] > 1) { fail_inside("C08/queue/duplicate", "item %d was delivered %d times", id, cx.delivered[id]); vs_abort(); }
            cx.got[me]++;
        }
    }
    cx.finished[cx.p.np + me] = true;
}

/* ---------------------------------------------------------------- dealer scenario */

static struct upump *fake_alloc(struct upump_mgr *mgr, int event, va_list args)
{
    (void)event; (void)args;
    struct cont *c = &cx.cont[cx.next_alloc++];
    c->fp.upump.mgr = mgr;
    c->fp.started = false;
    return &c->fp.upump;
}

static int fake_control(struct upump *upump, int command, va_list args)
{
    (void)args;
    struct fake_pump *fp = container_of(upump, struct fake_pump, upump);
    switch (command) {
    case UPUMP_START: fp->started = true; return UBASE_ERR_NONE;
    case UPUMP_STOP: fp->started = false; return UBASE_ERR_NONE;
    case UPUMP_FREE: return UBASE_ERR_NONE;
    }
    return UBASE_ERR_UNHANDLED;
}

static void cont_cb(struct upump *upump)
{
    struct cont *c = upump_get_opaque(upump, struct cont *);
    const struct prog *p = &cx.p;
    if (c->done >= p->dquota[c->id]) {                 /* tests/udeal_test.c: nothing left to do */
        bool la = can_log();
        if (la) vs_op_begin(OP_ABORT, 0, 0);
        udeal_abort(&cx.deal, upump);
        if (la) vs_op_end(0);
        c->aborted = true;
        return;
    }
    bool log = can_log();
    if (log) vs_op_begin(OP_GRAB, 0, 0);
    bool ok = udeal_grab(&cx.deal);
    if (log) vs_op_end(ok);
    if (!ok) {
        c->refused++;
        if (p->dmode[c->id] == DM_ABORT_ON_REFUSAL) {  /* lib/upipe-av: the pipe is closed while it waits */
            bool la = can_log();
            if (la) vs_op_begin(OP_ABORT, 0, 0);
            udeal_abort(&cx.deal, upump);
            if (la) vs_op_end(0);
            c->aborted = true;
        }
        return;                                        /* back to the event loop */
    }
    /* critical section */
    if (++cx.holders > 1) { fail_inside("C08/dealer/two-holders", "contender %d was granted the resource while %d holder(s) are inside", c->id, cx.holders - 1); vs_abort(); }
    vs_yield(VS_K_USER, &cx.holders);
    if (cx.holders != 1) { fail_inside("C08/dealer/two-holders", "contender %d shares the critical section: %d holders", c->id, cx.holders); vs_abort(); }
    vs_yield(VS_K_USER, &cx.holders);
    cx.holders--;
    c->done++;
    log = can_log();
    if (log) vs_op_begin(OP_YIELD, 0, 0);
    udeal_yield(&cx.deal, upump);
    if (log) vs_op_end(0);
    if (c->done < p->dquota[c->id] || p->dmode[c->id] == DM_RESTART_ABORT) {
        if (can_log()) vs_op_log(OP_START, 0, 0, 0);
        udeal_start(&cx.deal, upump);                  /* may run the call-back at once (no other waiter) */
    }
}

static void contender(void *arg)
{
    struct cont *c = arg;
    if (can_log()) vs_op_log(OP_START, 0, 0, 0);
    udeal_start(&cx.deal, c->pump);
    /* the event loop of the thread: the watcher fires while it is started and the event is readable */
    while (c->fp.started && !cx.fkey[0]) {
        vs_wait(&cx.deal.event);
        c->pump->cb(c->pump);
    }
}

/* ---------------------------------------------------------------- oracle helpers */

static int on_step(void *opaque)
{
    (void)opaque;
    const struct prog *p = &cx.p;
    if (p->scenario == SC_QUEUE && !cx.fkey[0] && !cx.truncated) {
        /* elements certainly stored now: pushed (returned true) and not taken by a finished or running pop */
        int lower = cx.push_ok - cx.pop_ok - cx.pops_started_open;
        if (lower > p->length)
            fail_inside("C08/queue/overfull", "at least %d elements are stored in a queue of length %d", lower, p->length);
    }
    return cx.fkey[0] != 0;
}

static const char *name_addr(const volatile void *a, char *buf, size_t n)
{
    if (a == (void *)&cx.q.event_push) return "event_push";
    if (a == (void *)&cx.q.event_pop) return "event_pop";
    if (a == (void *)&cx.q.counter) return "counter";
    if (a == (void *)&cx.q.fifo.fifo_carrier) return "fifo_carrier";
    if (a == (void *)&cx.q.fifo.lifo_empty) return "lifo_empty";
    if (a == (void *)&cx.deal.event) return "deal.event";
    if (a == (void *)&cx.deal.waiters) return "deal.waiters";
    if (a == (void *)&cx.deal.access) return "deal.access";
    if (a == (void *)&cx.holders) return "(inside the critical section)";
    struct uring *ur = &cx.q.fifo.uring;
    if (cx.p.scenario == SC_QUEUE)
        for (int i = 0; i < ur->length; i++) {
            struct uring_elem *e = &ur->elems[i];
            const char *f = a == (void *)&e->tag ? "tag" : a == (void *)&e->next ? "next" : a == (void *)&e->opaque ? "opaque" : NULL;
            if (f) { snprintf(buf, n, "slot%d.%s", i + 1, f); return buf; }
        }
    return NULL;
}

static const char *thread_name(int t, char *buf, size_t n)
{
    const struct prog *p = &cx.p;
    if (p->scenario == SC_QUEUE) {
        if (t < p->np) snprintf(buf, n, "P%d", t);
        else snprintf(buf, n, "C%d", t - p->np);
    } else snprintf(buf, n, "D%d", t);
    return buf;
}

static void render_case(struct vp_report *rep, const struct vs_config *cfg, int result, bool steps)
{
    const struct prog *p = &cx.p;
    char pb[32], tb[8];
    if (p->scenario == SC_QUEUE) {
        vp_render(rep, "C08 uqueue length=%d producers=%d consumers=%d items=%d (threads: P0.. = T0.., C0.. follow)\n", p->length, p->np, p->nc, p->nitems);
        for (int k = 0; k < p->np; k++) {
            vp_render(rep, "  P%d (T%d) pushes:", k, k);
            for (int i = 0; i < p->nitems; i++) if (p->producer_of[i] == k) vp_render(rep, " %d", i + 1);
            vp_render(rep, "   [push; if refused wait for event_push readable, retry]\n");
        }
        for (int k = 0; k < p->nc; k++)
            vp_render(rep, "  C%d (T%d) must receive %d item(s)   [wait for event_pop readable, one pop, repeat]\n", k, p->np + k, p->quota[k]);
    } else {
        vp_render(rep, "C08 udeal contenders=%d\n", p->nd);
        for (int k = 0; k < p->nd; k++)
            vp_render(rep, "  D%d (T%d): %d critical section(s), %s\n", k, k, p->dquota[k],
                      p->dmode[k] == DM_PLAIN ? "stops after its last yield" :
                      p->dmode[k] == DM_RESTART_ABORT ? "starts again after its last yield and aborts in the call-back (udeal_test.c)" :
                      "aborts when a grab is refused");
    }
    vp_render(rep, "  schedule policy=%s steps=%u preemptions=%u:", vs_policy_name(cfg, pb, sizeof(pb)), vs_stats.steps, vs_stats.preemptions);
    vs_render_schedule(rep, 0, vs_stats.steps);
    vp_render(rep, "  calls (steps of first shared access .. return):\n");
    for (int i = 0; i < vs_nhist; i++) {
        const struct vs_op *o = &vs_hist[i];
        char what[64];
        switch (o->kind) {
        case OP_PUSH: snprintf(what, sizeof(what), "uqueue_push(%ld) -> %s", (long)o->arg, !o->done ? "?" : o->ret ? "true" : "false"); break;
        case OP_POP: if (!o->done) snprintf(what, sizeof(what), "uqueue_pop -> ?"); else if (o->ret) snprintf(what, sizeof(what), "uqueue_pop -> %ld", (long)o->ret); else snprintf(what, sizeof(what), "uqueue_pop -> NULL"); break;
        case OP_GRAB: snprintf(what, sizeof(what), "udeal_grab -> %s", !o->done ? "?" : o->ret ? "true" : "false"); break;
        case OP_YIELD: snprintf(what, sizeof(what), "udeal_yield"); break;
        case OP_START: snprintf(what, sizeof(what), "udeal_start"); break;
        default: snprintf(what, sizeof(what), "udeal_abort"); break;
        }
        vp_render(rep, "  #%-2d %-3s %-26s steps %u..%u\n", i, thread_name(o->thread, tb, sizeof(tb)), what, o->inv_step, o->done ? o->res_step : 0);
    }
    if (cx.truncated) vp_render(rep, "  (call log truncated)\n");
    if (p->scenario == SC_QUEUE)
        vp_render(rep, "  end state: event_push=%d event_pop=%d counter=%u result=%s\n", vs_fd_value(&cx.q.event_push), vs_fd_value(&cx.q.event_pop),
                  (unsigned)cx.q.counter, result == VS_DEADLOCK ? "DEADLOCK" : result == VS_LIVELOCK ? "STEP BOUND" : result == VS_DONE ? "finished" : "aborted");
    else
        vp_render(rep, "  end state: event=%d waiters=%u access=%u result=%s\n", vs_fd_value(&cx.deal.event), (unsigned)cx.deal.waiters, (unsigned)cx.deal.access,
                  result == VS_DEADLOCK ? "DEADLOCK" : result == VS_LIVELOCK ? "STEP BOUND" : result == VS_DONE ? "finished" : "aborted");
    if (steps) {
        vp_render(rep, "  shared accesses:\n");
        vs_render_steps(rep, 0, vs_stats.steps > 400 ? 400 : vs_stats.steps, name_addr);
    }
}

/* ---------------------------------------------------------------- one case */

static int run_case(const struct prog *prog, struct vs_config *cfg, struct vp_report *rep, unsigned flags)
{
    memset(&cx, 0, sizeof(cx));
    cx.p = *prog;
    const struct prog *p = &cx.p;
    int ret = 0, nthreads = 0;

    vs_reset();
    vs_on_op_start(op_started);
    if (p->scenario == SC_QUEUE) {
        if (!uqueue_init(&cx.q, (uint8_t)p->length, cx.extra)) { vs_end(); return vp_internal(rep, "uqueue_init"); }
        for (int k = 0; k < p->np; k++) vs_spawn(producer, (void *)(intptr_t)k);
        for (int k = 0; k < p->nc; k++) vs_spawn(consumer, (void *)(intptr_t)k);
        nthreads = p->np + p->nc;
        cfg->pct_est = 30 * (unsigned)p->nitems;
    } else {
        if (!udeal_init(&cx.deal)) { vs_end(); return vp_internal(rep, "udeal_init"); }
        /* the descriptor is virtual: give the structure the look of an initialised eventfd so that
         * udeal_upump_alloc takes its normal path to our fake manager */
        cx.deal.event.mode = UEVENTFD_MODE_EVENTFD;
        cx.deal.event.event_fd = -1;
        cx.pmgr.refcount = NULL;
        cx.pmgr.upump_alloc = fake_alloc;
        cx.pmgr.upump_control = fake_control;
        for (int k = 0; k < p->nd; k++) {
            cx.cont[k].id = k;
            cx.cont[k].pump = udeal_upump_alloc(&cx.deal, &cx.pmgr, cont_cb, &cx.cont[k], NULL);
            if (cx.cont[k].pump == NULL) { vs_end(); return vp_internal(rep, "udeal_upump_alloc"); }
            vs_spawn(contender, &cx.cont[k]);
        }
        nthreads = p->nd;
        cfg->pct_est = 40 * (unsigned)p->nd;
    }
    cfg->step_bound = STEP_BOUND;
    cfg->on_step = on_step;
    int r = vs_run(cfg);
    struct vs_stats st = vs_stats;
    vs_end();

    /* classes / hash */
    uint64_t h = VP_HASH_INIT;
    h = vp_hash_mix(h, (uint64_t)p->scenario);
    if (p->scenario == SC_QUEUE) {
        h = vp_hash_mix(h, (uint64_t)p->length | (uint64_t)p->np << 8 | (uint64_t)p->nc << 16 | (uint64_t)p->nitems << 24);
        for (int i = 0; i < p->nitems; i++) h = vp_hash_mix(h, p->producer_of[i]);
        for (int k = 0; k < p->nc; k++) h = vp_hash_mix(h, (uint64_t)p->quota[k]);
    } else
        for (int k = 0; k < p->nd; k++) h = vp_hash_mix(h, (uint64_t)p->dquota[k] << 8 | (uint64_t)p->dmode[k]);
    rep->case_hash = vs_trace_hash(h);
    if (st.slept_woken) rep->classes |= 1u << CL_SLEPT_WOKEN;
    rep->classes |= 1u << (p->scenario == SC_QUEUE ? CL_QUEUE : CL_DEALER);
    for (int i = 0; i < vs_nhist; i++) {
        const struct vs_op *o = &vs_hist[i];
        if (!o->done) continue;
        if (o->kind == OP_PUSH && !o->ret) rep->classes |= 1u << CL_PUSH_REFUSED;
        if (o->kind == OP_POP && !o->ret) rep->classes |= 1u << CL_POP_NULL;
        if (o->kind == OP_POP && o->ret && o->n_fdr) rep->classes |= 1u << CL_DC_POP;
        if (o->kind == OP_PUSH && o->ret && o->n_fdr) rep->classes |= 1u << CL_DC_PUSH;
        if (o->kind == OP_GRAB && !o->ret) rep->classes |= 1u << CL_GRAB_REFUSED;
        if (o->kind == OP_GRAB && o->n_fdw) rep->classes |= 1u << CL_GRAB_RETRY;
        if (o->kind == OP_ABORT) rep->classes |= 1u << CL_ABORT;
    }
    if (p->scenario == SC_QUEUE) {
        if (p->np == 2) rep->classes |= 1u << CL_2PROD;
        if (p->nc == 2) rep->classes |= 1u << CL_2CONS;
        if (p->length == 1) rep->classes |= 1u << CL_LEN1;
        if (cx.producer_slept) rep->classes |= 1u << CL_PRODUCER_SLEPT;
        if (cx.consumer_slept) rep->classes |= 1u << CL_CONSUMER_SLEPT;
    } else if (p->nd == 3) rep->classes |= 1u << CL_3CONT;
    if (st.switch_in_op) rep->classes |= 1u << CL_SWITCH_IN_OP;
    rep->classes |= 1u << (cfg->policy == VS_TAPE ? CL_POL_TAPE : cfg->policy == VS_PCT ? CL_POL_PCT : CL_POL_PREFIX);
    if (st.preemptions) rep->classes |= 1u << CL_PREEMPT;
    rep->nontrivial = st.slept_woken > 0;

    /* oracle */
    const char *sc = p->scenario == SC_QUEUE ? "queue" : "dealer";
    char key[64];
    bool lin_failed = false;
    if (cx.fkey[0])
        ret = vp_fail(rep, cx.fkey, "%s", cx.fmsg);
    else if (r == VS_INTERNAL || vs_errmsg[0])
        ret = vp_internal(rep, "scheduler: %s", vs_errmsg);
    else if (r == VS_DEADLOCK) {
        snprintf(key, sizeof(key), "C08/%s/lost-wakeup", sc);
        char m[600];
        size_t l = 0;
        char tb[8];
        if (p->scenario == SC_QUEUE) {
            l += (size_t)snprintf(m + l, sizeof(m) - l, "every unfinished thread sleeps on a descriptor that is not readable (event_push=%d event_pop=%d counter=%u, %d of %d items delivered):",
                                  vs_fd_value(&cx.q.event_push), vs_fd_value(&cx.q.event_pop), (unsigned)cx.q.counter, cx.pop_ok, p->nitems);
            for (int t = 0; t < nthreads && l < sizeof(m) - 60; t++) {
                if (cx.finished[t]) continue;
                l += (size_t)snprintf(m + l, sizeof(m) - l, " %s waits for %s;", thread_name(t, tb, sizeof(tb)), t < p->np ? "event_push" : "event_pop");
            }
        } else {
            l += (size_t)snprintf(m + l, sizeof(m) - l, "contenders wait for the dealer's event which is not readable (event=%d waiters=%u access=%u); sections done:",
                                  vs_fd_value(&cx.deal.event), (unsigned)cx.deal.waiters, (unsigned)cx.deal.access);
            for (int k = 0; k < p->nd && l < sizeof(m) - 40; k++)
                l += (size_t)snprintf(m + l, sizeof(m) - l, " D%d %d/%d", k, cx.cont[k].done, p->dquota[k]);
        }
        ret = vp_fail(rep, key, "%s", m);
    } else if (r == VS_LIVELOCK) {
        snprintf(key, sizeof(key), "C08/%s/livelock", sc);
        ret = vp_fail(rep, key, "the program did not finish within %d steps", STEP_BOUND);
    } else if (r != VS_DONE)
        ret = vp_internal(rep, "unexpected scheduler result %d", r);
    else if (p->scenario == SC_QUEUE) {
        for (int i = 1; i <= p->nitems && ret == 0; i++)
            if (cx.delivered[i] != 1)
                ret = vp_fail(rep, "C08/queue/lost-item", "item %d was delivered %d times", i, cx.delivered[i]);
        if (ret == 0 && !cx.truncated) {
            struct lin_op lo[LIN_MAX_OPS];
            int n = 0;
            for (int i = 0; i < vs_nhist && n < LIN_MAX_OPS; i++) {
                const struct vs_op *o = &vs_hist[i];
                if (!o->done || (o->kind != OP_PUSH && o->kind != OP_POP)) continue;
                lo[n].kind = o->kind == OP_PUSH ? LIN_PUSH : LIN_POP;
                lo[n].ok = o->ret != 0;
                lo[n].val = (uint8_t)(o->kind == OP_PUSH ? o->arg : o->ret);
                lo[n].inv = o->inv_seq;
                lo[n].res = o->res_seq;
                n++;
            }
            struct lin_result lr;
            if (vs_nhist <= LIN_MAX_OPS && lin_check(lo, n, LIN_FIFO, p->length, &lr) == 0) {
                lin_failed = true;
                ret = vp_fail(rep, "C08/queue/lin", "the uqueue_push/uqueue_pop history (%d calls) is not that of a FIFO holding at most %d elements (order, loss, refusal without being full, or NULL without being empty)", n, p->length);
            }
        }
    } else {
        for (int k = 0; k < p->nd && ret == 0; k++)
            if (cx.cont[k].done < p->dquota[k] && !(p->dmode[k] == DM_ABORT_ON_REFUSAL && cx.cont[k].aborted))
                ret = vp_fail(rep, "C08/dealer/starved", "contender %d finished with %d of its critical sections", k, cx.cont[k].done);
        if (ret == 0 && cx.holders != 0)
            ret = vp_internal(rep, "holder count %d at the end", cx.holders);
    }
    if (flags & VP_RENDER) {
        struct vs_stats keep = vs_stats;
        vs_stats = st;
        render_case(rep, cfg, r, ret == 1);
        vs_stats = keep;
        if (lin_failed) vp_render(rep, "  NOT LINEARIZABLE as a bounded FIFO\n");
    }
    return ret;
}

/* ---------------------------------------------------------------- tape <-> program */

static void decode_prog(struct tape *t, struct prog *p)
{
    memset(p, 0, sizeof(*p));
    p->scenario = tp_u8(t) % 2;
    if (p->scenario == SC_QUEUE) {
        p->length = 1 + tp_u8(t) % 3;
        p->np = 1 + tp_u8(t) % MAXP;
        p->nc = 1 + tp_u8(t) % MAXC;
        p->nitems = 1 + tp_u8(t) % MAXN;
        for (int i = 0; i < p->nitems; i++) p->producer_of[i] = (uint8_t)(tp_u8(t) % p->np);
        for (int i = 0; i < p->nitems; i++) p->quota[tp_u8(t) % p->nc]++;
    } else {
        p->nd = 2 + tp_u8(t) % 2;
        for (int k = 0; k < p->nd; k++) {
            p->dquota[k] = 1 + tp_u8(t) % 2;
            p->dmode[k] = tp_u8(t) % 3;
        }
    }
}

static size_t encode_prog(const struct prog *p, uint8_t *out)
{
    size_t n = 0;
    out[n++] = (uint8_t)p->scenario;
    if (p->scenario == SC_QUEUE) {
        out[n++] = (uint8_t)(p->length - 1);
        out[n++] = (uint8_t)(p->np - 1);
        out[n++] = (uint8_t)(p->nc - 1);
        out[n++] = (uint8_t)(p->nitems - 1);
        for (int i = 0; i < p->nitems; i++) out[n++] = p->producer_of[i];
        int q[MAXC];
        memcpy(q, p->quota, sizeof(q));
        for (int i = 0; i < p->nitems; i++) {
            int k = q[0] > 0 ? 0 : 1;
            q[k]--;
            out[n++] = (uint8_t)k;
        }
    } else {
        out[n++] = (uint8_t)(p->nd - 2);
        for (int k = 0; k < p->nd; k++) { out[n++] = (uint8_t)(p->dquota[k] - 1); out[n++] = (uint8_t)p->dmode[k]; }
    }
    return n;
}

/* Named exclusions for findings left open (dormant unless the target's cflags define them; see the
 * report of C08): the generator then does not construct the triggering pattern, VP_NO_EXCLUDE restores it.
 *   C08_EXCL_UQUEUE_COUNTER_LAG  excl_uqueue_counter_lag: no queue program with two producers or two consumers
 *   C08_EXCL_UDEAL_ABORT_NOTIFY  excl_udeal_abort_notify: no contender that aborts after a refused grab */
static unsigned apply_exclusions(struct prog *p)
{
    unsigned n = 0;
#ifdef C08_EXCL_UQUEUE_COUNTER_LAG
    if (p->scenario == SC_QUEUE && (p->np > 1 || p->nc > 1)) {
        p->np = p->nc = 1;
        memset(p->producer_of, 0, sizeof(p->producer_of));
        p->quota[0] = p->nitems;
        p->quota[1] = 0;
        n++;
    }
#endif
#ifdef C08_EXCL_UDEAL_ABORT_NOTIFY
    if (p->scenario == SC_DEALER)
        for (int k = 0; k < p->nd; k++)
            if (p->dmode[k] == DM_ABORT_ON_REFUSAL) { p->dmode[k] = DM_PLAIN; n++; }
#endif
    (void)p;
    return n;
}

static bool template_excluded(const struct prog *p)
{
    struct prog q = *p;
    return apply_exclusions(&q) != 0;
}

static int run(const uint8_t *tp_, size_t len, struct vp_report *rep, unsigned flags)
{
    struct tape t;
    tp_init(&t, tp_, len);
    struct prog p;
    decode_prog(&t, &p);
    if (!(flags & VP_NO_EXCLUDE))
        rep->excluded += apply_exclusions(&p);
    struct vs_config cfg;
    memset(&cfg, 0, sizeof(cfg));
    vs_config_from_tape(&cfg, &t);
    return run_case(&p, &cfg, rep, flags);
}

/* ---------------------------------------------------------------- templates */

struct tmpl { const char *name; const char *what; struct prog p; };
static const struct tmpl templates[] = {
    { "pop-reset", "consumer preempted between failed pop and descriptor reset: length 1, 1 producer, 1 consumer, 2 items",
      { SC_QUEUE, 1, 1, 1, 2, { 0, 0 }, { 2, 0 }, 0, { 0 }, { 0 } } },
    { "push-reset", "producer between failed push and reset: length 1, 1 producer, 1 consumer, 3 items",
      { SC_QUEUE, 1, 1, 1, 3, { 0, 0, 0 }, { 3, 0 }, 0, { 0 }, { 0 } } },
    { "two-producers", "two producers contend for the only slot: length 1, P0 pushes 2, P1 pushes 1, 1 consumer",
      { SC_QUEUE, 1, 2, 1, 3, { 0, 1, 0 }, { 3, 0 }, 0, { 0 }, { 0 } } },
    { "two-consumers", "two consumers share event_pop: length 1, 1 producer, 3 items, quotas 2+1",
      { SC_QUEUE, 1, 1, 2, 3, { 0, 0, 0 }, { 2, 1 }, 0, { 0 }, { 0 } } },
    { "len2", "length 2, two producers (2 items each), 1 consumer",
      { SC_QUEUE, 2, 2, 1, 4, { 0, 1, 0, 1 }, { 4, 0 }, 0, { 0 }, { 0 } } },
    { "deal2", "yield racing grab: two contenders, one section each",
      { SC_DEALER, 0, 0, 0, 0, { 0 }, { 0 }, 2, { 1, 1 }, { DM_PLAIN, DM_PLAIN } } },
    { "deal2x2", "udeal_test.c: two contenders, two sections each, restart and abort at the end",
      { SC_DEALER, 0, 0, 0, 0, { 0 }, { 0 }, 2, { 2, 2 }, { DM_RESTART_ABORT, DM_RESTART_ABORT } } },
    { "deal3", "three contenders, one section each",
      { SC_DEALER, 0, 0, 0, 0, { 0 }, { 0 }, 3, { 1, 1, 1 }, { DM_PLAIN, DM_PLAIN, DM_PLAIN } } },
    { "deal-abort", "three contenders, one of them gives up when refused",
      { SC_DEALER, 0, 0, 0, 0, { 0 }, { 0 }, 3, { 1, 1, 1 }, { DM_PLAIN, DM_ABORT_ON_REFUSAL, DM_PLAIN } } },
    { "deal-abort2", "one contender gives up when refused, one restarts and aborts after its section (udeal_test.c), one arrives late",
      { SC_DEALER, 0, 0, 0, 0, { 0 }, { 0 }, 3, { 1, 1, 1 }, { DM_ABORT_ON_REFUSAL, DM_RESTART_ABORT, DM_PLAIN } } },
};
#define NTEMPL (sizeof(templates) / sizeof(templates[0]))

static int enum_case(void *opaque, const uint8_t *prefix, size_t plen, struct vp_report *rep)
{
    const struct tmpl *tm = opaque;
    static const uint8_t none[1] = { 0 };
    struct vs_config cfg;
    memset(&cfg, 0, sizeof(cfg));
    cfg.policy = VS_ENUM;
    cfg.prefix = plen ? prefix : none;
    cfg.prefix_len = plen;
    return run_case(&tm->p, &cfg, rep, 0);
}

static int extra(int argc, char **argv)
{
    const char *tname = "all", *out = ".";
    int bound = 2, jobs = 0;
    for (int i = 1; i < argc; i++) {
        if (!strcmp(argv[i], "--template") && i + 1 < argc) tname = argv[++i];
        else if (!strcmp(argv[i], "--bound") && i + 1 < argc) bound = atoi(argv[++i]);
        else if (!strcmp(argv[i], "--jobs") && i + 1 < argc) jobs = atoi(argv[++i]);
        else if (!strcmp(argv[i], "--out") && i + 1 < argc) out = argv[++i];
        else if (!strcmp(argv[i], "--seed") && i + 1 < argc) i++;
        else if (!strcmp(argv[i], "list")) {
            for (size_t k = 0; k < NTEMPL; k++) printf("%s\t%s\n", templates[k].name, templates[k].what);
            return 0;
        }
    }
    if (jobs <= 0) jobs = vs_default_jobs();
    static struct vs_enum_result total, r;
    memset(&total, 0, sizeof(total));
    total.complete = 1;
    char space[3000];
    size_t sl = (size_t)snprintf(space, sizeof(space), "C08: all schedules with <= %d preemptions (scheduling points: every uatomic operation, ring-element access, descriptor read/write and every return to the event loop; sequentially consistent) of", bound);
    char failtape[512] = "";
    int matched = 0;
    for (size_t k = 0; k < NTEMPL && !total.failed; k++) {
        const struct tmpl *tm = &templates[k];
        if (strcmp(tname, "all") && strcmp(tname, tm->name)) continue;
        matched++;
        if (template_excluded(&tm->p)) {
            if (sl < sizeof(space) - 300)
                sl += (size_t)snprintf(space + sl, sizeof(space) - sl, " [%s: not enumerated, excluded by an open finding]", tm->name);
            total.complete = 0;
            continue;
        }
        vs_enumerate(enum_case, (void *)tm, bound, jobs, &r);
        if (sl < sizeof(space) - 300)
            sl += (size_t)snprintf(space + sl, sizeof(space) - sl, " [%s: %s (%llu schedules)]", tm->name, tm->what, (unsigned long long)r.evaluations);
        if (r.failed) {
            uint8_t tape[64 + VS_MAX_STEPS];
            size_t n = encode_prog(&tm->p, tape);
            tape[n++] = 1;
            memcpy(tape + n, r.fail_prefix, r.fail_len);
            n += r.fail_len;
            while (n > 0 && tape[n - 1] == 0) n--;
            snprintf(failtape, sizeof(failtape), "%s/enum-%s-K%d.tape", out, tm->name, bound);
            FILE *f = fopen(failtape, "wb");
            if (f) { fwrite(tape, 1, n, f); fclose(f); }
        }
        vs_enum_merge(&total, &r);
    }
    if (!matched) { fprintf(stderr, "unknown template %s\n", tname); return 2; }
    vs_enum_print_json(&total, bound, space, class_names, failtape);
    return total.failed == 2 ? 2 : total.failed ? 1 : 0;
}

const struct vp_executor vp_executor = { "C08", "wakeup", 224, class_names, run, extra };

/* C08 (executor "realfd") — the wake-up side of the property on REAL descriptors and a REAL event loop.
 * The scheduler executor (C08_wakeup.c) virtualises the event descriptors; what ueventfd.h does with eventfd(2) / pipe(2)
 * and what a libev loop sees are checked here, sequentially (one thread), against the level-triggered model the other
 * executor assumes:
 *     write  -> readable           read -> not readable, however many writes came before (non-semaphore)
 *     init(readable) -> as asked   read on a non-readable descriptor returns at once and changes nothing
 * on (a) a ueventfd made by ueventfd_init (eventfd(2) here), (b) a ueventfd in pipe mode (the fallback of ueventfd.h, built as
 * ueventfd_init builds it), and (c) a uqueue: after any sequence of pushes and pops
 *     the queue is not empty  =>  event_pop is readable      (a consumer returning to its loop is woken)
 *     the queue is not full   =>  event_push is readable     (a producer returning to its loop is woken)
 * "readable" is observed twice: by poll(2) on the descriptor and by a watcher allocated with ueventfd_upump_alloc /
 * uqueue_upump_alloc_pop / _push on a harness-owned libev loop (upump_ev) stepped with ev_run(EVRUN_NOWAIT): a started
 * watcher on a readable descriptor must fire in that iteration; on a non-readable ueventfd it must not (for the queue only
 * the implications above are judged: a spurious wake-up is allowed, a lost one is not). */
#include "vp.h"
#include "tape.h"
#include "upipe/ubase.h"
#include "upipe/ueventfd.h"
#include "upipe/uqueue.h"
#include "upipe/upump.h"
#include "upump-ev/upump_ev.h"
#include <ev.h>
#include <poll.h>
#include <unistd.h>
#include <fcntl.h>
#include <stdlib.h>
#include <stdio.h>

#include <sys/eventfd.h>
#include <errno.h>

/* eventfd_write / eventfd_read of the C library are replaced (symbols of the executable come first) so that a call can be
 * interrupted: the g_eintr-th call from now on fails once with EINTR, as a signal arriving during the system call makes it.
 * ueventfd.h documents nothing about it, but a notification that is silently dropped is a lost wake-up. */
static int g_eintr, g_eintr_hits;
static bool eintr_now(void) { if (g_eintr && --g_eintr == 0) { g_eintr_hits++; errno = EINTR; return true; } return false; }
int eventfd_write(int fd, eventfd_t value) { if (eintr_now()) return -1; return write(fd, &value, sizeof(value)) == sizeof(value) ? 0 : -1; }
int eventfd_read(int fd, eventfd_t *value) { if (eintr_now()) return -1; return read(fd, value, sizeof(*value)) == sizeof(*value) ? 0 : -1; }

enum { CL_EVENTFD, CL_PIPE, CL_QUEUE, CL_MANY_WRITES, CL_READ_EMPTY, CL_QUEUE_FULL, CL_QUEUE_EMPTIED, CL_LOOP, CL_INIT_READABLE, CL_EINTR };
static const char *const class_names[] = { "eventfd_mode", "pipe_mode", "uqueue", "several_writes_before_a_read", "read_on_non_readable",
    "queue_filled_to_capacity", "queue_emptied_by_pops", "watcher_iteration", "initialised_readable", "eventfd_call_interrupted", NULL };

struct ctx {
    struct tape t;
    struct vp_report *rep;
    bool render;
    int ret;
    uint64_t hash, classes;
    struct ev_loop *loop;
    struct upump_mgr *mgr;
    int fired[2];
};
#define R(...) do { if (c->render) vp_render(c->rep, __VA_ARGS__); } while (0)
#define FAIL(key, ...) do { if (!c->ret) { c->ret = vp_fail(c->rep, "C08/" key, __VA_ARGS__); R("    !! %s\n", c->rep->msg); } } while (0)
#define CLS(b) (c->classes |= 1ull << (b))

static int efd_of(struct ueventfd *e) { return e->mode == UEVENTFD_MODE_EVENTFD ? e->event_fd : e->pipe_fds[0]; }
static bool polled(struct ueventfd *e)
{
    struct pollfd p = { .fd = efd_of(e), .events = POLLIN };
    return poll(&p, 1, 0) == 1 && (p.revents & POLLIN);
}
static void cb0(struct upump *u) { struct ctx *c = upump_get_opaque(u, struct ctx *); c->fired[0]++; }
static void cb1(struct upump *u) { struct ctx *c = upump_get_opaque(u, struct ctx *); c->fired[1]++; }

/* one loop iteration; returns how often each watcher fired */
static void iterate(struct ctx *c) { c->fired[0] = c->fired[1] = 0; ev_run(c->loop, EVRUN_NOWAIT); CLS(CL_LOOP); }

static bool make_pipe_mode(struct ueventfd *e, bool readable)
{
    /* as the fallback branch of ueventfd_init does */
    e->mode = UEVENTFD_MODE_PIPE;
    if (pipe(e->pipe_fds) == -1) return false;
    for (int i = 0; i < 2; i++) {
        int fl = fcntl(e->pipe_fds[i], F_GETFD); fcntl(e->pipe_fds[i], F_SETFD, fl | FD_CLOEXEC);
        fl = fcntl(e->pipe_fds[i], F_GETFL); fcntl(e->pipe_fds[i], F_SETFL, fl | O_NONBLOCK);
    }
    if (readable) ueventfd_write(e);
    return true;
}

static void run_eventfd(struct ctx *c, bool pipe_mode)
{
    struct ueventfd e;
    bool readable = tp_u8(&c->t) & 1;
    CLS(pipe_mode ? CL_PIPE : CL_EVENTFD);
    if (readable) CLS(CL_INIT_READABLE);
    bool ok = pipe_mode ? make_pipe_mode(&e, readable) : ueventfd_init(&e, readable);
    R("C08/realfd %s, initialised %sreadable\n", pipe_mode ? "pipe(2) mode" : "ueventfd_init", readable ? "" : "non-");
    if (!ok) { c->ret = vp_internal(c->rep, "cannot create the descriptor"); return; }
    if (!pipe_mode && e.mode != UEVENTFD_MODE_EVENTFD) CLS(CL_PIPE);
    struct upump *w = ueventfd_upump_alloc(&e, c->mgr, cb0, c, NULL);
    if (w == NULL) { c->ret = vp_internal(c->rep, "ueventfd_upump_alloc"); ueventfd_clean(&e); return; }
    upump_start(w);
    bool model = readable;
    int writes_since_read = readable ? 1 : 0;
    int nops = 0;
    while (!tp_done(&c->t) && nops++ < 40 && !c->ret) {
        uint8_t b = tp_u8(&c->t);
        c->hash = vp_hash_mix(c->hash, b);
        switch (b % 4) {
        case 0: case 1: {
            int n = (b >> 2) % 8 == 7 ? 300 : 1 + (b >> 2) % 3;        /* 300: more than a pipe-mode reader takes in one read(2) */
            for (int i = 0; i < n && !c->ret; i++)
                if (!ueventfd_write(&e)) FAIL("eventfd/write", "ueventfd_write reports an unrecoverable error");
            R("  write x%d\n", n);
            writes_since_read += n; model = true;
            if (writes_since_read > 1) CLS(CL_MANY_WRITES);
            break; }
        case 2:
            if (!model) CLS(CL_READ_EMPTY);
            if (!ueventfd_read(&e)) FAIL("eventfd/read", "ueventfd_read reports an unrecoverable error (descriptor %sreadable)", model ? "" : "not ");
            R("  read\n");
            model = false; writes_since_read = 0;
            break;
        default:
            /* the next (or second next) eventfd system call is interrupted once */
            g_eintr = 1 + (b >> 2) % 2;
            R("  (EINTR armed for eventfd call %d from now)\n", g_eintr);
            break;
        }
        if (g_eintr_hits) { CLS(CL_EINTR); }
        bool p = polled(&e);
        iterate(c);
        R("    poll: %sreadable; loop iteration: watcher fired %d time(s)\n", p ? "" : "not ", c->fired[0]);
        if (p != model)
            FAIL("eventfd/level", "after the operations above the descriptor is %sreadable for poll(2), the model says %sreadable (write makes it readable, read makes it non-readable whatever was written before)", p ? "" : "not ", model ? "" : "not ");
        else if (model && c->fired[0] == 0) FAIL("eventfd/lost-wakeup", "the descriptor is readable but the watcher allocated by ueventfd_upump_alloc did not fire in a loop iteration");
        else if (!model && c->fired[0] != 0) FAIL("eventfd/spurious", "the watcher fired although the descriptor was read and nothing was written since");
    }
    g_eintr = 0;
    upump_stop(w); upump_free(w);
    ueventfd_clean(&e);
}

static void run_queue(struct ctx *c)
{
    CLS(CL_QUEUE);
    unsigned len = 1 + tp_u8(&c->t) % 4;
    void *extra = malloc(uqueue_sizeof(len));
    struct uqueue q;
    if (!uqueue_init(&q, len, extra)) { free(extra); c->ret = vp_internal(c->rep, "uqueue_init"); return; }
    R("C08/realfd uqueue of length %u\n", len);
    struct upump *wpop = uqueue_upump_alloc_pop(&q, c->mgr, cb0, c, NULL);
    struct upump *wpush = uqueue_upump_alloc_push(&q, c->mgr, cb1, c, NULL);
    if (!wpop || !wpush) { c->ret = vp_internal(c->rep, "uqueue_upump_alloc"); return; }
    upump_start(wpop); upump_start(wpush);
    static int items[64];
    unsigned n = 0, next = 0, expect = 0;
    int nops = 0;
    while (!tp_done(&c->t) && nops++ < 48 && !c->ret) {
        uint8_t b = tp_u8(&c->t);
        c->hash = vp_hash_mix(c->hash, b);
        if (b % 2 == 0) {
            bool ok = uqueue_push(&q, &items[next % 64]);
            R("  push #%u -> %s\n", next, ok ? "ok" : "full");
            if (ok != (n < len)) FAIL("queue/capacity", "uqueue_push %s with %u of %u slots taken (nothing else is running)", ok ? "succeeded" : "failed", n, len);
            if (ok) { items[next % 64] = next; next++; n++; }
            if (n == len) CLS(CL_QUEUE_FULL);
        } else {
            int *p = uqueue_pop(&q, int *);
            R("  pop -> %s\n", p ? "an element" : "nothing");
            if ((p != NULL) != (n > 0)) FAIL("queue/empty", "uqueue_pop returned %s with %u element(s) stored", p ? "an element" : "nothing", n);
            else if (p != NULL) {
                if (*p != (int)expect) FAIL("queue/order", "uqueue_pop returned element #%d, #%u is the oldest", *p, expect);
                expect++; n--;
                if (n == 0) CLS(CL_QUEUE_EMPTIED);
            }
        }
        bool rp = polled(&q.event_pop), rq = polled(&q.event_push);
        iterate(c);
        R("    %u stored; event_pop %sreadable (watcher fired %d), event_push %sreadable (watcher fired %d)\n", n, rp ? "" : "not ", c->fired[0], rq ? "" : "not ", c->fired[1]);
        if (n > 0 && !rp) FAIL("queue/lost-wakeup", "%u element(s) are stored but event_pop is not readable: a consumer returning to its event loop would sleep for ever", n);
        else if (n > 0 && c->fired[0] == 0) FAIL("queue/lost-wakeup", "%u element(s) are stored but the watcher of uqueue_upump_alloc_pop did not fire", n);
        else if (n < len && !rq) FAIL("queue/lost-wakeup", "only %u of %u slots are taken but event_push is not readable: a producer returning to its event loop would sleep for ever", n, len);
        else if (n < len && c->fired[1] == 0) FAIL("queue/lost-wakeup", "only %u of %u slots are taken but the watcher of uqueue_upump_alloc_push did not fire", n, len);
        if (uqueue_length(&q) != n && !c->ret) FAIL("queue/length", "uqueue_length reports %u, %u element(s) are stored", uqueue_length(&q), n);
    }
    while (uqueue_pop(&q, int *) != NULL) ;
    upump_stop(wpop); upump_free(wpop); upump_stop(wpush); upump_free(wpush);
    uqueue_clean(&q);
    free(extra);
}

static int run(const uint8_t *tape, size_t len, struct vp_report *rep, unsigned flags)
{
    static struct ctx ctx;
    struct ctx *c = &ctx;
    memset(c, 0, sizeof *c);
    g_eintr = 0; g_eintr_hits = 0;
    tp_init(&c->t, tape, len);
    c->rep = rep; c->render = flags & VP_RENDER; c->hash = VP_HASH_INIT;
    c->loop = ev_loop_new(EVFLAG_NOENV);
    if (!c->loop) return vp_internal(rep, "ev_loop_new");
    c->mgr = upump_ev_mgr_alloc(c->loop, 0, 0);
    if (!c->mgr) { ev_loop_destroy(c->loop); return vp_internal(rep, "upump_ev_mgr_alloc"); }
    uint8_t kind = tp_u8(&c->t) % 4;
    c->hash = vp_hash_mix(c->hash, kind);
    if (kind == 0) run_eventfd(c, false);
    else if (kind == 1) run_eventfd(c, true);
    else run_queue(c);
    upump_mgr_release(c->mgr);
    ev_loop_destroy(c->loop);
    rep->case_hash = c->hash;
    rep->classes = c->classes;
    rep->nontrivial = (c->classes & ((1ull << CL_MANY_WRITES) | (1ull << CL_QUEUE_FULL))) && (c->classes & ((1ull << CL_READ_EMPTY) | (1ull << CL_QUEUE_EMPTIED)));
    return c->ret;
}

const struct vp_executor vp_executor = { "C08", "realfd", 64, class_names, run, NULL };

/* C16 (merge) — PSI sections cut into TS payloads are reassembled without loss.
 *
 * Generator: 1..8 (12) sections, section_length biased to 0, 1, 9, around multiples of
 * 183/184, 1021, 4093; syntax bit on/off (on only with section_length >= 9, ISO 13818-1
 * 2.4.4.11); table_id != 0xff. An independent packer lays them into payloads of 1..184
 * octets according to ISO 13818-1 2.4.4.1/2.4.4.2 (pointer_field in every payload in which a
 * section starts, sections back to back, 0xff stuffing only after the end of a section and
 * then up to the end of the payload, the next payload then starting with pointer_field 0),
 * with payload ends biased to fall 1 or 2 octets into a section header or exactly on a
 * section end.  Optional lead-in (the stream is joined in the middle of a section).
 * Payloads reach the pipe as ts_decaps delivers them: block.start on unit starts,
 * flow.discontinuity after a loss; built as one block, a window into a 188-octet packet, a
 * window into a shared arena, or a chain of pieces.
 *
 * Oracle
 *  valid streams: output == the generated sections, in order, each once, octet for octet.
 *  events (flagged discontinuity, dropped payloads followed by the flag as ts_decaps does,
 *    section headers that ISO forbids): every section that lies wholly after the next unit
 *    start is output; sections hit by the event are absent (missing data) or optional
 *    (pure flag); nothing else is output (order-preserving match, DP).
 *  fuzz (unflagged losses, corrupted octets, toggled unit starts): no crash, every output
 *    is exactly one section long by its own header, no more octets out than in.
 * The reference header code below is written from the ISO syntax and shares nothing with
 * the stand-in <bitstream/mpeg/psi.h>.
 *
 * Named exclusion "unflagged-loss" (constructed only with VP_NO_EXCLUDE): payloads lost while
 * the next delivered payload carries NO discontinuity attribute.  The merger trusts that
 * attribute and, once synchronised, only strips the pointer_field: the stale section
 * swallows the sections starting at the next unit start.  ts_decaps flags every loss it can
 * detect, so this is outside what the callers produce (a loss of exactly 16 packets, or a
 * packet with transport_error_indicator, are the only ways); rule then: sections complete
 * before the loss exact, sections starting at the next unit start or later all output, at
 * most one stale block in front of them.  See pending/C16-merge-unit-start-resync.patch.
 */
#include "C16_fixture.h"
#include "upipe-ts/upipe_ts_psi_merge.h"

#define MAXSEC   14
#define MAXPAY   1200
#define PAYMAX   184
#define MAXCUTS  12

enum { K_VALID, K_BADLEN, K_SHORTSYNTAX, K_JUNK };
enum { ST_MUST, ST_MAY, ST_NEVER };
enum { TRIM_NONE, TRIM_HDR1_FIRST, TRIM_HDR2_FIRST, TRIM_HDR_SECOND, TRIM_EXACT };

enum { CL_HDRCUT, CL_TWO, CL_STUFF, CL_DISC, CL_DROP, CL_BADHDR, CL_SEG, CL_LEADIN, CL_PTR,
       CL_SPAN3, CL_MAXLEN, CL_MINLEN, CL_EXACT, CL_HOLD, CL_FUZZ, CL_WINDOW, CL_ARENA, CL_SEGHDR, CL_RESYNC, CL_MAYOUT, CL_REFLOW, CL_BADPTR_FIRST };
static const char *const class_names[] = {
    "section_cut_inside_header", "two_sections_in_one_payload", "stuffing", "discontinuity_flag",
    "dropped_payload", "forbidden_header", "segmented_input", "lead_in_unsynchronised_pointer",
    "pointer_field_gt0_while_synchronised", "section_spans_3_payloads", "section_4096",
    "section_3", "section_ends_on_payload_end", "sink_holds_outputs", "fuzz_mode",
    "window_into_packet", "window_into_arena", "segment_boundary_inside_header",
    "required_section_after_event", "optional_section_present", "flow_def_set_again_in_mid_stream", "corrupt_unit_start_with_pointer_beyond_payload_first", NULL };

struct sec {
    uint8_t *b; int len; int kind;
    int sp, spos, ep, hp;      /* payload of first octet, position there, payload of last octet, payload of 3rd header octet */
    int status; bool hdrcut;
};
struct pay {
    uint8_t b[PAYMAX]; int n; bool pusi, disc, dropped;
    int build; size_t cuts[MAXCUTS]; int ncuts;
    int starts[MAXSEC]; int nstart;   /* positions of section starts in this payload */
    int nsecs;                         /* sections having octets here (junk excluded) */
};

struct ctx {
    struct tape t; struct vp_report *rep; bool render; int ret;
    struct fix_mem fm;
    struct sec sec[MAXSEC]; int nsec;
    struct pay *pay; int npay;
    /* packer state */
    int cur, o; bool inprog;
    uint32_t classes; uint64_t hash;
    struct c16_probe probe; struct c16_sink sink; unsigned seq;
    /* excluded pattern "loss without the discontinuity attribute" (only with VP_NO_EXCLUDE) */
    bool unflagged; int ul_at, ul_m, ul_j;
    int nrec_before[MAXPAY + 1];
};

#define R(...) do { if (c->render) vp_render(c->rep, __VA_ARGS__); } while (0)
#define FAIL(key, ...) do { if (!c->ret) c->ret = vp_fail(c->rep, key, __VA_ARGS__); } while (0)
#define CLS(x) (c->classes |= 1u << (x))

/* ---- reference header (ISO 13818-1 table 2-35) ---- */
static int ref_section_length(const uint8_t *h)      /* 12 bits: low nibble of octet 1, octet 2 */
{
    int v = 0;
    for (int bit = 12; bit < 24; bit++)
        v = (v << 1) | ((h[bit / 8] >> (7 - bit % 8)) & 1);
    return v;
}
static void ref_put_header(uint8_t *h, uint8_t table_id, bool syntax, unsigned misc3, int section_length)
{
    h[0] = table_id;
    h[1] = (syntax ? 0x80 : 0) | ((misc3 & 7) << 4) | ((section_length >> 8) & 0x0f);
    h[2] = section_length & 0xff;
}

static int decode_total_len(struct tape *t, uint8_t ls)
{
    uint8_t x;
    switch (ls % 16) {
    case 0: return 3;
    case 1: return 4;
    case 2: return 12;
    case 3: x = tp_u8(t); return 181 + x % 6;
    case 4: x = tp_u8(t); return 183 * (1 + (x >> 4) % 3) + (int)(x % 5) - 2;
    case 5: x = tp_u8(t); return 184 * (1 + (x >> 4) % 3) + (int)(x % 5) - 2;
    case 6: return 1024;
    case 7: x = tp_u8(t); return 1021 + x % 7;
    case 8: return 4096;
    case 9: x = tp_u8(t); return 4096 - x % 4;
    case 10: x = tp_u8(t); return 5 + x % 30;
    case 11: x = tp_u8(t); return 3 + x % 12;
    case 12: x = tp_u8(t); return 32 + x;
    case 13: return 3 + tp_u16(t) % 4094;
    case 14: x = tp_u8(t); return 365 + x % 6;
    default: return 13;
    }
}

static void fill_body(struct sec *s, int idx, uint8_t seed)
{
    for (int j = 3; j < s->len; j++) {
        uint8_t v = (uint8_t)(idx * 131 + j * 7 + (j >> 8) * 13 + seed);
        if ((j + seed) % 11 == 0) v = 0xff;       /* stuffing look-alikes inside sections */
        s->b[j] = v;
    }
}

/* copies k octets of the current section into the payload being built */
static void emit(struct ctx *c, struct pay *p, int pi, int k)
{
    struct sec *s = &c->sec[c->cur];
    if (c->o == 0) { s->sp = pi; s->spos = p->n; }
    memcpy(p->b + p->n, s->b + c->o, k);
    if (s->kind != K_JUNK && k > 0) p->nsecs++;   /* one emit per section and payload */
    if (c->o < 3 && c->o + k >= 3) s->hp = pi;
    p->n += k; c->o += k;
    if (c->o == s->len) { s->ep = pi; c->cur++; c->o = 0; c->inprog = false; }
    else c->inprog = true;
}

static void pack(struct ctx *c)
{
    bool seen_pusi = false;
    c->cur = 0; c->o = 0; c->inprog = c->sec[0].kind == K_JUNK;
    while (c->cur < c->nsec && c->npay < MAXPAY) {
        int pi = c->npay;
        struct pay *p = &c->pay[pi];
        memset(p, 0, sizeof(*p));
        uint8_t sel = tp_u8(&c->t);
        int P = PAYMAX, trim = TRIM_NONE, trim_h = 1;
        switch (sel & 7) {
        case 0: break;
        case 1: trim = TRIM_HDR1_FIRST; break;
        case 2: trim = TRIM_HDR2_FIRST; break;
        case 3: trim = TRIM_HDR_SECOND; trim_h = 1 + ((sel >> 3) & 1); break;
        case 4: trim = TRIM_EXACT; break;
        case 5: P = 1 + (sel >> 3) % 16; break;
        case 6: P = 183 - (sel >> 3) % 4; break;
        default: P = 1 + ((sel >> 3) * 6 + 3) % PAYMAX; break;
        }
        int rem = c->inprog ? c->sec[c->cur].len - c->o : 0;
        if (trim == TRIM_EXACT && c->inprog && rem <= P) P = rem;
        if (c->inprog && rem >= P) {
            emit(c, p, pi, P);                     /* continuation only, no unit start */
            if (!c->inprog) CLS(CL_EXACT);
        } else {
            bool more = c->cur + (c->inprog ? 1 : 0) < c->nsec;
            bool start_next;
            if (!c->inprog) { start_next = true; if (P < 2) P = 2; }
            else {
                start_next = more && P >= rem + 2;
                if (start_next && tp_u8(&c->t) % 4 == 3) start_next = false;
            }
            if (start_next) {
                p->pusi = true;
                p->b[p->n++] = (uint8_t)rem;       /* pointer_field */
                if (rem) emit(c, p, pi, rem);
                bool stuff = false;
                while (p->n < P && c->cur < c->nsec && !stuff) {
                    struct sec *s = &c->sec[c->cur];
                    p->starts[p->nstart++] = p->n;
                    if ((trim == TRIM_HDR1_FIRST && p->nstart == 1 && p->n + 1 < P)) P = p->n + 1;
                    else if (trim == TRIM_HDR2_FIRST && p->nstart == 1 && p->n + 2 < P) P = p->n + 2;
                    else if (trim == TRIM_HDR_SECOND && p->nstart == 2 && p->n + trim_h < P) P = p->n + trim_h;
                    int k = s->len < P - p->n ? s->len : P - p->n;
                    emit(c, p, pi, k);
                    if (!c->inprog) {               /* section complete inside this payload */
                        if (trim == TRIM_EXACT) { P = p->n; break; }
                        if (p->n < P && c->cur < c->nsec && tp_u8(&c->t) % 4 == 3) stuff = true;
                    }
                }
            } else {
                emit(c, p, pi, rem);               /* tail of the section, then stuffing */
                if (trim == TRIM_EXACT) P = p->n;
            }
            if (p->n < P) { memset(p->b + p->n, 0xff, P - p->n); p->n = P; CLS(CL_STUFF); }
            else if (!c->inprog) CLS(CL_EXACT);
        }
        if (p->nsecs >= 2) CLS(CL_TWO);
        if (p->pusi && p->b[0] > 0 && seen_pusi) CLS(CL_PTR);
        if (p->pusi) seen_pusi = true;
        c->npay++;
    }
    for (int i = 0; i < c->nsec; i++) {
        struct sec *s = &c->sec[i];
        if (s->kind == K_JUNK) continue;
        s->hdrcut = s->hp != s->sp;
        if (s->hdrcut) CLS(CL_HDRCUT);
        if (s->ep - s->sp >= 2) CLS(CL_SPAN3);
    }
}

/* order-preserving match of the outputs against the candidate sections */
static bool match_outputs(struct ctx *c, int *cand, int ncand)
{
    int m = c->sink.nrec;
    static bool f[64][MAXSEC + 1];
    if (m >= 64) return false;
    for (int i = 0; i <= m; i++) for (int j = 0; j <= ncand; j++) f[i][j] = false;
    f[0][0] = true;
    for (int i = 0; i <= m; i++)
        for (int j = 1; j <= ncand; j++) {
            struct sec *s = &c->sec[cand[j - 1]];
            bool v = false;
            if (s->status == ST_MAY && f[i][j - 1]) v = true;
            if (!v && i > 0 && f[i - 1][j - 1]) {
                struct c16_rec *r = &c->sink.rec[i - 1];
                if (r->len == (size_t)s->len && !memcmp(r->data, s->b, s->len)) v = true;
            }
            f[i][j] = v;
        }
    return f[m][ncand];
}

/* every block in [from, to) is exactly one section long by its own header */
static void check_self_consistent(struct ctx *c, int from, int to)
{
    for (int i = from; i < to && !c->ret; i++) {
        struct c16_rec *r = &c->sink.rec[i];
        if (r->len < 3) FAIL("C16/merge/not-a-section", "output %d has %zu octets: shorter than a section header", i, r->len);
        else if (r->data[0] == 0xff) FAIL("C16/merge/not-a-section", "output %d starts with 0xff (stuffing output as a section)", i);
        else if (ref_section_length(r->data) > 4093) FAIL("C16/merge/not-a-section", "output %d announces section_length %d > 4093", i, ref_section_length(r->data));
        else if ((size_t)ref_section_length(r->data) + 3 != r->len)
            FAIL("C16/merge/not-a-section", "output %d has %zu octets but its header announces section_length %d", i, r->len, ref_section_length(r->data));
    }
}

static struct uref *build_payload(struct ctx *c, struct pay *p, struct ubuf *arena, size_t arena_off)
{
    struct ubuf *u = NULL;
    switch (p->build) {
    case C16_BUILD_TSPACKET:
        u = c16_block_window(c->fm.block_mgr, p->b, p->n, 188 - p->n >= 4 ? 188 - p->n : 4, 0);
        break;
    case C16_BUILD_ARENA:
        u = ubuf_dup(arena);
        if (u && !ubase_check(ubuf_block_resize(u, arena_off, p->n))) { ubuf_free(u); u = NULL; }
        break;
    case C16_BUILD_PIECES: {
        int np = 0;
        u = c16_block_pieces(c->fm.block_mgr, p->b, p->n, p->cuts, p->ncuts, &np);
        break; }
    default:
        u = c16_block_from(c->fm.block_mgr, p->b, p->n);
        break;
    }
    return c16_uref_with(c->fm.uref_mgr, u);
}

static int run(const uint8_t *tape, size_t len, struct vp_report *rep, unsigned flags)
{
    static struct ctx ctx;
    struct ctx *c = &ctx;
    memset(c, 0, sizeof(*c));
    tp_init(&c->t, tape, len);
    c->rep = rep; c->render = flags & VP_RENDER;
    c->hash = VP_HASH_INIT;
    static struct pay pays[MAXPAY];
    c->pay = pays;

    /* ---- configuration ---- */
    uint8_t b0 = tp_u8(&c->t);
    int mode = b0 & 3;                 /* 0,2 valid; 1 events; 3 fuzz */
    int policy = (b0 >> 2) & 3;        /* 0 fresh, 1 packet window, 2 arena window, 3 mixed with pieces */
    bool hold = (b0 >> 4) & 1;
    bool leadin = (b0 >> 5) & 1;
    int mgrcfg = (b0 >> 6) & 3;
    bool events = mode == 1, fuzz = mode == 3;
    static const int depth[4] = { 0, 0, 2, 8 }, prep[4] = { 0, 8, 0, 32 }, algn[4] = { 0, 0, 16, 0 };
    if (fix_mem_init_full(&c->fm, depth[mgrcfg], prep[mgrcfg], prep[mgrcfg] / 2, algn[mgrcfg], 0) != 0) {
        return vp_internal(rep, "fix_mem_init");
    }
    c->hash = vp_hash_mix(c->hash, b0);

    /* ---- sections ---- */
    int maxsec = (flags & VP_THOROUGH) ? 12 : 8;
    int nvalid = 1 + tp_u8(&c->t) % maxsec;
    if (leadin) {
        struct sec *s = &c->sec[c->nsec++];
        uint8_t x = tp_u8(&c->t);
        s->kind = K_JUNK; s->status = ST_NEVER;
        s->len = (x & 0x80) ? 150 + (x & 0x7f) * 3 : 1 + (x & 0x7f);   /* 1..128 or 150..531 */
        s->b = malloc(s->len);
        for (int j = 0; j < s->len; j++) s->b[j] = (uint8_t)(j * 5 + x) | ((j % 7 == 0) ? 0xff : 0);
        CLS(CL_LEADIN);
        c->hash = vp_hash_mix(c->hash, 0x10000 + s->len);
    }
    for (int i = 0; i < nvalid && c->nsec < MAXSEC; i++) {
        struct sec *s = &c->sec[c->nsec];
        uint8_t ls = tp_u8(&c->t);
        uint8_t tid = tp_u8(&c->t);
        if (tid == 0xff) tid = 0xfe;
        bool syntax = (ls >> 4) & 1;
        unsigned misc = ls >> 5;
        s->kind = K_VALID; s->status = ST_MUST;
        if (events && (tid & 7) == 3) {            /* a header ISO forbids */
            if (tid & 0x10) {
                s->kind = K_BADLEN; s->status = ST_NEVER;
                int claimed = 4094 + ((tid >> 5) & 1);
                s->len = 3 + (ls % 4 == 0 ? 0 : ls % 4 == 1 ? 1 : ls % 4 == 2 ? 40 + ls / 4 : 181 + ls / 4 * 5);
                s->b = malloc(s->len);
                ref_put_header(s->b, tid, syntax, misc, claimed);
            } else {
                s->kind = K_SHORTSYNTAX; s->status = ST_MAY;
                int sl = (ls >> 1) % 9;                 /* 0..8: too short for the long header + CRC */
                s->len = 3 + sl;
                s->b = malloc(s->len);
                ref_put_header(s->b, tid, true, misc, sl);
            }
            CLS(CL_BADHDR);
        } else {
            s->len = decode_total_len(&c->t, ls);
            if (syntax && s->len < 12) syntax = false;
            s->b = malloc(s->len);
            ref_put_header(s->b, tid, syntax, misc, s->len - 3);
            if (s->len == 4096) CLS(CL_MAXLEN);
            if (s->len == 3) CLS(CL_MINLEN);
        }
        fill_body(s, c->nsec, tid ^ ls);
        s->sp = s->ep = s->hp = -1;
        c->hash = vp_hash_mix(c->hash, ((uint64_t)s->kind << 40) | ((uint64_t)s->len << 16) | (s->b[0] << 8) | s->b[1]);
        c->nsec++;
    }

    /* ---- packing (independent reference) ---- */
    pack(c);
    if (c->cur < c->nsec) {            /* payload table full: drop what was not packed */
        for (int i = c->cur + (c->inprog ? 1 : 0); i < c->nsec; i++) free(c->sec[i].b);
        if (c->inprog) c->sec[c->cur].status = ST_NEVER, c->sec[c->cur].ep = c->npay;
        c->nsec = c->cur + (c->inprog ? 1 : 0);
    }

    /* ---- construction of the buffers ---- */
    for (int i = 0; i < c->npay; i++) {
        struct pay *p = &c->pay[i];
        if (policy != 3) { p->build = policy; continue; }
        uint8_t g = tp_u8(&c->t);
        static const int mix[4] = { C16_BUILD_FRESH, C16_BUILD_TSPACKET, C16_BUILD_PIECES, C16_BUILD_PIECES };
        p->build = mix[g & 3];
        if (p->build != C16_BUILD_PIECES) continue;
        uint8_t gs = g >> 2;
        size_t cand[MAXCUTS + 24]; int nc = 0;
        if (gs % 4 != 1)                     /* around every section start: inside the header */
            for (int k = 0; k < p->nstart && nc < 6; k++) { cand[nc++] = p->starts[k] + 1; if (gs & 16) cand[nc++] = p->starts[k] + 2; }
        switch (gs % 4) {
        case 0: cand[nc++] = 1; cand[nc++] = p->n / 2; cand[nc++] = p->n - 1; break;
        case 1: cand[nc++] = 1; break;
        case 2: cand[nc++] = 2; break;
        default: {
            int m = 1 + (gs >> 2) % 7;
            for (int k = 1; k <= 6; k++) cand[nc++] = k * m;
            break; }
        }
        /* ascending, unique, inside */
        for (int a = 0; a < nc; a++) for (int b = a + 1; b < nc; b++) if (cand[b] < cand[a]) { size_t tmp = cand[a]; cand[a] = cand[b]; cand[b] = tmp; }
        size_t last = 0;
        for (int a = 0; a < nc && p->ncuts < MAXCUTS; a++)
            if (cand[a] > last && cand[a] < (size_t)p->n) { p->cuts[p->ncuts++] = cand[a]; last = cand[a]; }
        if (p->ncuts) {
            CLS(CL_SEG);
            for (int k = 0; k < p->nstart; k++)
                for (int a = 0; a < p->ncuts; a++)
                    if (p->cuts[a] == (size_t)p->starts[k] + 1 || p->cuts[a] == (size_t)p->starts[k] + 2) CLS(CL_SEGHDR);
        }
    }

    /* ---- events ---- */
    if (events && c->npay) {
        int ne = tp_u8(&c->t) % 3;
        int nbad = 0;
        for (int i = 0; i < c->nsec; i++) if (c->sec[i].kind == K_BADLEN || c->sec[i].kind == K_SHORTSYNTAX) nbad++;
        for (int e = 0; e < ne; e++) {
            uint8_t k = tp_u8(&c->t);
            int at = tp_u8(&c->t) % c->npay;
            if (e == 0 && (k & 1) && (k & 0x80) && nbad == 0) {
                /* EXCLUSION unflagged-loss: payloads lost without flow.discontinuity on the next
                 * one (ts_decaps flags every loss it can see; see the report). Constructed only
                 * with VP_NO_EXCLUDE, then alone in the case and judged by its own rule. */
                if (!(flags & VP_NO_EXCLUDE)) rep->excluded++;
                else {
                    c->unflagged = true; c->ul_at = at; c->ul_m = 1 + (k >> 1) % 3;
                    for (int q = at; q < at + c->ul_m && q < c->npay; q++) c->pay[q].dropped = true;
                    c->ul_j = c->npay;
                    for (int q = at + c->ul_m; q < c->npay; q++) if (c->pay[q].pusi) { c->ul_j = q; break; }
                    c->hash = vp_hash_mix(c->hash, 0x280000 + at * 4 + c->ul_m);
                    CLS(CL_DROP);
                    break;
                }
            }
            if (k & 1) {
                int m = 1 + (k >> 1) % 3;
                for (int q = at; q < at + m && q < c->npay; q++) c->pay[q].dropped = true;
                CLS(CL_DROP);
                c->hash = vp_hash_mix(c->hash, 0x200000 + at * 4 + m);
            } else {
                c->pay[at].disc = true;
                c->hash = vp_hash_mix(c->hash, 0x100000 + at);
            }
        }
        /* ts_decaps flags the first payload delivered after a loss */
        for (int q = 0; q < c->npay && !c->unflagged; q++) {
            if (!c->pay[q].dropped) continue;
            c->pay[q].disc = false;
            if (q + 1 < c->npay && !c->pay[q + 1].dropped) c->pay[q + 1].disc = true;
        }
        for (int q = 0; q < c->npay; q++) if (c->pay[q].disc) CLS(CL_DISC);
        /* what each section may expect */
        for (int i = 0; i < c->nsec; i++) {
            struct sec *s = &c->sec[i];
            if (s->kind == K_JUNK || s->kind == K_BADLEN) continue;
            for (int q = s->sp; q <= s->ep && q < c->npay; q++) {
                if (c->pay[q].dropped) s->status = ST_NEVER;
                else if (q > s->sp && c->pay[q].disc && s->status == ST_MUST) s->status = ST_MAY;
            }
            /* a section starting in the payload in which a forbidden header was completed lies
             * before the next unit start: not required */
            for (int b = 0; b < i; b++)
                if ((c->sec[b].kind == K_BADLEN || c->sec[b].kind == K_SHORTSYNTAX) &&
                    c->sec[b].hp == s->sp && s->status == ST_MUST) s->status = ST_MAY;
        }
    }

    if (events) {
        int first_ev = -1;
        for (int q = 0; q < c->npay && first_ev < 0; q++) if (c->pay[q].disc || c->pay[q].dropped) first_ev = q;
        for (int i = 0; i < c->nsec; i++)
            if (c->sec[i].kind == K_BADLEN || c->sec[i].kind == K_SHORTSYNTAX)
                if (first_ev < 0 || c->sec[i].hp < first_ev) first_ev = c->sec[i].hp;
        for (int i = 0; i < c->nsec; i++)
            if (first_ev >= 0 && c->sec[i].kind == K_VALID && c->sec[i].status == ST_MUST && c->sec[i].sp >= first_ev && (c->sec[i].sp > first_ev || c->pay[first_ev].disc)) CLS(CL_RESYNC);
    }

    /* ---- fuzz mutations ---- */
    int in_octets = 0;
    if (fuzz && c->npay) {
        CLS(CL_FUZZ);
        int nm = 1 + tp_u8(&c->t) % 4;
        for (int e = 0; e < nm; e++) {
            uint8_t k = tp_u8(&c->t);
            struct pay *p = &c->pay[tp_u8(&c->t) % c->npay];
            uint8_t v = tp_u8(&c->t);
            switch (k % 8) {
            case 0: p->pusi = !p->pusi; break;
            case 1: p->b[0] = v; break;                          /* pointer field / first octet */
            case 2: p->b[v % p->n] ^= 1 << (k >> 5); break;
            case 3: p->dropped = true; break;                    /* loss without a flag */
            case 4: p->disc = true; break;
            case 5: p->n = 1 + v % p->n; break;                  /* truncated */
            case 6: if (p->nstart) { int q = p->starts[0]; if (q + 1 < p->n) p->b[q + 1] |= 0x0f; if (q + 2 < p->n) p->b[q + 2] = v; } break;
            default: memset(p->b, v, p->n); break;
            }
            c->hash = vp_hash_mix(c->hash, 0x300000 + k * 256 + v);
        }
        for (int q = 0; q < c->npay; q++) {
            struct pay *p = &c->pay[q];
            int w = 0;
            for (int a = 0; a < p->ncuts; a++) if (p->cuts[a] < (size_t)p->n) p->cuts[w++] = p->cuts[a];
            p->ncuts = w;
        }
    }

    /* ---- rendering of the case ---- */
    if (c->render) {
        R("C16/merge mode=%s build=%d hold=%d leadin=%d mgr=%d sections=%d payloads=%d\n",
          fuzz ? "fuzz" : c->unflagged ? "UNFLAGGED-LOSS (excluded pattern)" : events ? "events" : "valid", policy, hold, leadin, mgrcfg, c->nsec, c->npay);
        if (c->unflagged) R("  payloads %d..%d are lost and the next one carries no discontinuity attribute; next unit start: payload %d\n", c->ul_at, c->ul_at + c->ul_m - 1, c->ul_j);
        for (int i = 0; i < c->nsec; i++) {
            struct sec *s = &c->sec[i];
            static const char *const kn[] = { "section", "FORBIDDEN-LENGTH", "SHORT-LONG-SYNTAX", "lead-in" };
            static const char *const sn[] = { "must", "may", "never" };
            R("  S%d %s len=%d hdr=", i, kn[s->kind], s->len); if (s->kind != K_JUNK) c16_hex(rep, s->b, s->len, 3);
            R(" payloads %d..%d (3rd header octet in %d)%s expect=%s\n", s->sp, s->ep, s->hp, s->hdrcut ? " HEADER-CUT" : "", fuzz ? "-" : sn[s->status]);
        }
    }

    /* ---- the pipe ---- */
    struct ubuf *arena = NULL; size_t *arena_off = NULL;
    {
        bool need = false; size_t tot = 0;
        for (int q = 0; q < c->npay; q++) if (c->pay[q].build == C16_BUILD_ARENA) need = true;
        if (need) {
            arena_off = calloc(c->npay, sizeof(size_t));
            for (int q = 0; q < c->npay; q++) { arena_off[q] = tot; tot += c->pay[q].n; }
            uint8_t *all = malloc(tot ? tot : 1);
            for (int q = 0; q < c->npay; q++) memcpy(all + arena_off[q], c->pay[q].b, c->pay[q].n);
            arena = c16_block_from(c->fm.block_mgr, all, tot);
            free(all);
            CLS(CL_ARENA);
        }
    }
    c16_sink_init(&c->sink, 0, hold, &c->seq);
    if (hold) CLS(CL_HOLD);
    struct upipe *psim = upipe_void_alloc(upipe_ts_psim_mgr_alloc(),
                                          c16_probe_init(&c->probe, "psim", 0, rep, c->render));
    struct uref *flow_def = uref_block_flow_alloc_def(c->fm.uref_mgr, "mpegtspsi.");
    if (!psim || !flow_def) { c->ret = vp_internal(rep, "cannot allocate the pipe"); goto out; }
    if (!ubase_check(upipe_set_flow_def(psim, flow_def))) FAIL("C16/merge/flow-def", "flow definition block.mpegtspsi. refused");
    if (!ubase_check(upipe_set_output(psim, &c->sink.upipe))) FAIL("C16/merge/set-output", "set_output refused");
    uref_free(flow_def); flow_def = NULL;

    /* in a quarter of the cases the flow definition is announced again in mid-stream (another latency, as an upstream pipe does when
     * its own latency changes): a section that is being assembled stays in assembly (uses no tape octet) */
    int reflow_at = (c->npay > 1 && (c->npay * 7 + c->nsec * 3) % 4 == 0) ? 1 + (c->npay * 5 + c->nsec) % (c->npay - 1) : -1;
    /* in a quarter of the configurations the stream is preceded by a corrupt unit start -- a pointer_field that points beyond the
     * payload (1-3 octets) -- as a receiver tuning in sees them: nothing can start there, the merger is as unsynchronised afterwards as
     * it was before, and the sections of the stream proper come out as they would have (uses no tape octet) */
    if (((b0 * 167u) >> 3) % 4 == 3 && !c->ret) {
        uint8_t junk[3] = { (uint8_t)(200 + (c->npay * 11 + c->nsec) % 50), 0x47, 0x11 };
        int n = 1 + (c->npay + c->nsec) % 3;
        struct uref *uref = c16_uref_with(c->fm.uref_mgr, c16_block_from(c->fm.block_mgr, junk, n));
        if (!uref) { c->ret = vp_internal(rep, "cannot build the corrupt unit start"); goto out; }
        uref_block_set_start(uref);
        R("  (corrupt unit start first: %d octet(s), pointer_field=%u)\n", n, junk[0]);
        upipe_input(psim, uref, NULL);
        if (c->sink.nrec) FAIL("C16/merge/invented", "a unit start of %d octet(s) whose pointer_field is %u produced an output", n, junk[0]);
        CLS(CL_BADPTR_FIRST);
        c->hash = vp_hash_mix(c->hash, 0xbad0 + n);
    }
    for (int q = 0; q < c->npay && !c->ret; q++) {
        struct pay *p = &c->pay[q];
        if (q == reflow_at) {
            struct uref *fd2 = uref_block_flow_alloc_def(c->fm.uref_mgr, "mpegtspsi.");
            if (fd2) uref_clock_set_latency(fd2, 27000);
            R("  set_flow_def again (latency 27000)\n");
            if (!fd2 || !ubase_check(upipe_set_flow_def(psim, fd2))) FAIL("C16/merge/flow-def", "flow definition block.mpegtspsi. refused in mid-stream");
            uref_free(fd2);
            CLS(CL_REFLOW);
            c->hash = vp_hash_mix(c->hash, 0xf10d);
        }
        c->nrec_before[q] = c->sink.nrec;
        c->hash = vp_hash_mix(c->hash, (p->n << 8) | (p->pusi << 3) | (p->disc << 2) | (p->dropped << 1) | (p->build == C16_BUILD_PIECES ? p->ncuts << 16 : 0) | (p->build << 4));
        if (p->dropped) { R("  #%d (lost) n=%d\n", q, p->n); continue; }
        if (p->build == C16_BUILD_TSPACKET) CLS(CL_WINDOW);
        struct uref *uref = build_payload(c, p, arena, arena_off ? arena_off[q] : 0);
        if (!uref) { c->ret = vp_internal(rep, "cannot build payload %d", q); break; }
        if (p->pusi) uref_block_set_start(uref);
        if (p->disc) uref_flow_set_discontinuity(uref);
        in_octets += p->n;
        int before = c->sink.nrec;
        if (c->render) {
            R("  #%d n=%d%s%s build=%d", q, p->n, p->pusi ? " unit-start" : "", p->disc ? " DISCONTINUITY" : "", p->build);
            if (p->build == C16_BUILD_PIECES && p->ncuts) { R(" cuts="); for (int a = 0; a < p->ncuts; a++) R("%zu,", p->cuts[a]); }
            if (p->pusi) R(" pointer_field=%u", p->b[0]);
            if (p->nstart) { R(" section-starts@"); for (int a = 0; a < p->nstart; a++) R("%d,", p->starts[a]); }
            R(" ["); c16_hex(rep, p->b, p->n, 10); R("]\n");
        }
        upipe_input(psim, uref, NULL);
        if (c->render) for (int k = before; k < c->sink.nrec; k++) {
            R("      -> output %d: %zu octets [", k, c->sink.rec[k].len); c16_hex(rep, c->sink.rec[k].data, c->sink.rec[k].len, 6); R("]\n");
        }
        if (c->sink.broken) FAIL("C16/merge/output-unreadable", "after payload %d: an output block announces a size that cannot be read", q);
    }

    /* ---- oracle ---- */
    if (!c->ret && !fuzz && !events) {
        int want = 0;
        for (int i = 0; i < c->nsec && !c->ret; i++) {
            struct sec *s = &c->sec[i];
            if (s->kind != K_VALID) continue;
            if (want >= c->sink.nrec) {
                FAIL("C16/merge/missing", "section S%d (%d octets, payloads %d..%d%s) was not output; %d of %d sections came out",
                     i, s->len, s->sp, s->ep, s->hdrcut ? ", header cut" : "", c->sink.nrec, nvalid);
                break;
            }
            struct c16_rec *r = &c->sink.rec[want];
            if (r->len != (size_t)s->len)
                FAIL("C16/merge/length", "output %d has %zu octets, section S%d has %d (payloads %d..%d%s)", want, r->len, i, s->len, s->sp, s->ep, s->hdrcut ? ", header cut" : "");
            else if (memcmp(r->data, s->b, s->len)) {
                int k = 0; while (r->data[k] == s->b[k]) k++;
                FAIL("C16/merge/content", "output %d differs from section S%d at octet %d: %02x, expected %02x", want, i, k, r->data[k], s->b[k]);
            }
            want++;
        }
        if (!c->ret && c->sink.nrec > want)
            FAIL("C16/merge/extra", "%d blocks output for %d sections (output %d has %zu octets)", c->sink.nrec, want, want, c->sink.rec[want].len);
    } else if (!c->ret && c->unflagged) {
        /* before the loss: exact; from the next unit start on: every section starting there,
         * exact, preceded by at most one block (a stale section may complete by coincidence);
         * in between: anything that is one section long */
        c->nrec_before[c->npay] = c->sink.nrec;
        int k = 0, pre = c->nrec_before[c->ul_at];
        for (int i = 0; i < c->nsec && !c->ret; i++) {
            struct sec *s = &c->sec[i];
            if (s->kind != K_VALID || s->ep >= c->ul_at) continue;
            if (k >= pre || c->sink.rec[k].len != (size_t)s->len || memcmp(c->sink.rec[k].data, s->b, s->len))
                FAIL("C16/merge/missing", "section S%d, complete before the loss, is not output %d", i, k);
            k++;
        }
        if (!c->ret && k != pre) FAIL("C16/merge/extra", "%d blocks output before the loss for %d complete sections", pre, k);
        int n_after = 0;
        for (int i = 0; i < c->nsec; i++) if (c->sec[i].kind == K_VALID && c->sec[i].sp >= c->ul_j) n_after++;
        int first = c->sink.nrec - n_after;
        if (!c->ret && (first < c->nrec_before[c->ul_j] || first > c->nrec_before[c->ul_j] + 1))
            FAIL("C16/merge/unflagged-loss-resync", "payloads %d..%d lost without discontinuity attribute; next unit start in payload %d; %d sections start there or later but %d blocks were output from that payload on",
                 c->ul_at, c->ul_at + c->ul_m - 1, c->ul_j, n_after, c->sink.nrec - c->nrec_before[c->ul_j]);
        k = first;
        for (int i = 0; i < c->nsec && !c->ret; i++) {
            struct sec *s = &c->sec[i];
            if (s->kind != K_VALID || s->sp < c->ul_j) continue;
            if (c->sink.rec[k].len != (size_t)s->len || memcmp(c->sink.rec[k].data, s->b, s->len))
                FAIL("C16/merge/unflagged-loss-resync", "payloads %d..%d lost without discontinuity attribute; section S%d starts at the unit start of payload %d or later but output %d is not it",
                     c->ul_at, c->ul_at + c->ul_m - 1, i, c->ul_j, k);
            k++;
        }
        if (!c->ret) check_self_consistent(c, pre, first);
        if (n_after) CLS(CL_RESYNC);
    } else if (!c->ret && events) {
        int cand[MAXSEC], nc = 0;
        for (int i = 0; i < c->nsec; i++) if (c->sec[i].status != ST_NEVER) cand[nc++] = i;
        int nmust = 0;
        for (int i = 0; i < nc; i++) if (c->sec[cand[i]].status == ST_MUST) nmust++;
        if (c->sink.nrec > nmust) CLS(CL_MAYOUT);
        if (!match_outputs(c, cand, nc)) {
            /* diagnose: greedy walk */
            int j = 0, i;
            for (i = 0; i < c->sink.nrec; i++) {
                struct c16_rec *r = &c->sink.rec[i];
                int k = j;
                while (k < nc && !(r->len == (size_t)c->sec[cand[k]].len && !memcmp(r->data, c->sec[cand[k]].b, r->len))) {
                    if (c->sec[cand[k]].status == ST_MUST) break;
                    k++;
                }
                if (k == nc || !(r->len == (size_t)c->sec[cand[k]].len && !memcmp(r->data, c->sec[cand[k]].b, r->len))) break;
                j = k + 1;
            }
            if (i < c->sink.nrec) {
                bool anywhere = false;
                for (int k = 0; k < c->nsec; k++) if (c->sec[k].kind != K_JUNK && c->sink.rec[i].len == (size_t)c->sec[k].len && !memcmp(c->sink.rec[i].data, c->sec[k].b, c->sec[k].len)) anywhere = true;
                if (!anywhere) FAIL("C16/merge/invented", "output %d (%zu octets) is none of the sections of the stream", i, c->sink.rec[i].len);
                else if (j < nc && c->sec[cand[j]].status == ST_MUST) FAIL("C16/merge/resync", "section S%d (payloads %d..%d) lies wholly after a unit start following the event but was not output (output %d is something else)", cand[j], c->sec[cand[j]].sp, c->sec[cand[j]].ep, i);
                else FAIL("C16/merge/order", "output %d is a section that cannot be output at this point (duplicate, out of order or data was missing)", i);
            } else {
                while (j < nc && c->sec[cand[j]].status != ST_MUST) j++;
                FAIL("C16/merge/resync", "section S%d (payloads %d..%d) lies wholly after a unit start following the event but was not output (%d outputs)", j < nc ? cand[j] : -1, j < nc ? c->sec[cand[j]].sp : -1, j < nc ? c->sec[cand[j]].ep : -1, c->sink.nrec);
            }
        }
    } else if (!c->ret && fuzz) {
        size_t out = 0;
        for (int i = 0; i < c->sink.nrec; i++) out += c->sink.rec[i].len;
        check_self_consistent(c, 0, c->sink.nrec);
        if (!c->ret && out > (size_t)in_octets) FAIL("C16/merge/invented", "%zu octets output for %d octets input", out, in_octets);
    }
    if (!c->ret && hold) {
        int bad = c16_sink_verify_held(&c->sink);
        if (bad >= 0) FAIL("C16/merge/mutated-after-output", "output %d was changed after it had been handed to the sink", bad);
    }

out:
    if (psim) upipe_release(psim);
    if (flow_def) uref_free(flow_def);
    if (!c->ret && psim && c->probe.n_dead != 1)
        FAIL("C16/leak/merge", "the pipe was released but threw dead %u times", c->probe.n_dead);
    R("  released: outputs=%d sync_acquired=%u sync_lost=%u fatal=%u\n", c->sink.nrec, c->probe.n_acquired, c->probe.n_lost, c->probe.n_fatal);
    c16_sink_clean(&c->sink);
    if (arena) ubuf_free(arena);
    free(arena_off);
    for (int i = 0; i < c->nsec; i++) free(c->sec[i].b);
    const char *leak = fix_mem_clean(&c->fm);
    if (leak && !c->ret) c->ret = vp_fail(rep, "C16/leak/merge", "%s", leak);

    rep->case_hash = c->hash;
    rep->classes = c->classes;
    /* NT: a section crossing >= 2 payloads with the cut inside its header, or two sections in one payload */
    rep->nontrivial = (c->classes & ((1u << CL_HDRCUT) | (1u << CL_TWO))) != 0;
    return c->ret;
}

const struct vp_executor vp_executor = { "C16", "merge", 224, class_names, run, NULL };

/* C15 independent reference: bit-level TS packet and PES header reader/writer written from
 * ISO/IEC 13818-1 (2.4.3.2-2.4.3.7), sharing NOTHING with /verif/shim/bitstream: no shim
 * header is included here and every field goes through the MSB-first bit reader/writer
 * below. A layout error in the shim therefore shows up as a disagreement between this code
 * and the repository pipes on the unchanged tree. */
#ifndef C15_REF_H_
#define C15_REF_H_
#include <stdint.h>
#include <stdbool.h>
#include <stddef.h>
#include <string.h>

#define R_TS 188
#define R_POW33 (UINT64_C(1) << 33)

struct rbits { const uint8_t *p; size_t nbits, pos; bool over; };
static inline void rb_init(struct rbits *b, const uint8_t *p, size_t nbytes)
{ b->p = p; b->nbits = nbytes * 8; b->pos = 0; b->over = false; }
static inline uint64_t rb_get(struct rbits *b, int n)
{
    uint64_t v = 0;
    for (int i = 0; i < n; i++) {
        unsigned bit = 0;
        if (b->pos < b->nbits) bit = (b->p[b->pos >> 3] >> (7 - (b->pos & 7))) & 1;
        else b->over = true;
        b->pos++;
        v = (v << 1) | bit;
    }
    return v;
}
struct wbits { uint8_t *p; size_t nbits, pos; bool over; };
static inline void wb_init(struct wbits *b, uint8_t *p, size_t nbytes)
{ b->p = p; b->nbits = nbytes * 8; b->pos = 0; b->over = false; memset(p, 0, nbytes); }
static inline void wb_put(struct wbits *b, int n, uint64_t v)
{
    for (int i = n - 1; i >= 0; i--) {
        if (b->pos < b->nbits) { if ((v >> i) & 1) b->p[b->pos >> 3] |= 0x80 >> (b->pos & 7); }
        else b->over = true;
        b->pos++;
    }
}

/* ------------------------------------------------------------------ TS packet, parsed */
struct rts {
    const char *bad;             /* NULL: well-formed; else what is wrong */
    bool tei, pusi, prio;
    unsigned pid, tsc, afc, cc;
    bool has_af, has_payload;
    unsigned afl;
    bool di, rai, espi, pcr_f, opcr_f, sp_f, priv_f, ext_f;
    uint64_t pcr_base; unsigned pcr_ext, pcr_reserved;
    uint64_t pcr27;              /* base * 300 + ext */
    unsigned af_used;            /* octets of the adaptation field taken by flags + optional fields */
    bool stuffing_ok;            /* every remaining octet of the adaptation field is 0xff */
    unsigned pay_off, pay_len;
};

static inline void rts_parse(const uint8_t *p, struct rts *r)
{
    memset(r, 0, sizeof *r);
    struct rbits b;
    rb_init(&b, p, R_TS);
    unsigned sync = rb_get(&b, 8);
    r->tei = rb_get(&b, 1);
    r->pusi = rb_get(&b, 1);
    r->prio = rb_get(&b, 1);
    r->pid = rb_get(&b, 13);
    r->tsc = rb_get(&b, 2);
    r->afc = rb_get(&b, 2);
    r->cc = rb_get(&b, 4);
    r->has_af = r->afc & 2;
    r->has_payload = r->afc & 1;
    r->pay_off = 4;
    r->stuffing_ok = true;
    if (sync != 0x47) { r->bad = "sync byte is not 0x47"; return; }
    if (r->afc == 0) { r->bad = "adaptation_field_control 00 (reserved)"; return; }
    if (r->has_af) {
        r->afl = rb_get(&b, 8);
        if (r->has_payload ? r->afl > 182 : r->afl != 183) {
            r->bad = r->has_payload ? "adaptation_field_length > 182 with payload" : "adaptation_field_length != 183 without payload";
            return;
        }
        r->pay_off = 5 + r->afl;
        if (r->afl > 0) {
            r->di = rb_get(&b, 1); r->rai = rb_get(&b, 1); r->espi = rb_get(&b, 1);
            r->pcr_f = rb_get(&b, 1); r->opcr_f = rb_get(&b, 1); r->sp_f = rb_get(&b, 1);
            r->priv_f = rb_get(&b, 1); r->ext_f = rb_get(&b, 1);
            unsigned used = 1;
            if (r->pcr_f) {
                if (used + 6 > r->afl) { r->bad = "PCR does not fit in the adaptation field"; return; }
                r->pcr_base = rb_get(&b, 33);
                r->pcr_reserved = rb_get(&b, 6);
                r->pcr_ext = rb_get(&b, 9);
                r->pcr27 = r->pcr_base * 300 + r->pcr_ext;
                used += 6;
            }
            if (r->opcr_f) {
                if (used + 6 > r->afl) { r->bad = "OPCR does not fit"; return; }
                rb_get(&b, 48); used += 6;
            }
            if (r->sp_f) {
                if (used + 1 > r->afl) { r->bad = "splice_countdown does not fit"; return; }
                rb_get(&b, 8); used += 1;
            }
            if (r->priv_f) {
                if (used + 1 > r->afl) { r->bad = "private data length does not fit"; return; }
                unsigned l = rb_get(&b, 8); used += 1;
                if (used + l > r->afl) { r->bad = "private data does not fit"; return; }
                b.pos += 8 * l; used += l;
            }
            if (r->ext_f) {
                if (used + 1 > r->afl) { r->bad = "extension length does not fit"; return; }
                unsigned l = rb_get(&b, 8); used += 1;
                if (used + l > r->afl) { r->bad = "extension does not fit"; return; }
                b.pos += 8 * l; used += l;
            }
            r->af_used = used;
            for (unsigned i = 5 + used; i < 5 + r->afl; i++)
                if (p[i] != 0xff) r->stuffing_ok = false;
        }
    }
    r->pay_len = r->has_payload ? R_TS - r->pay_off : 0;
}

/* ------------------------------------------------------------------ TS packet, written */
struct wts {
    unsigned pid, cc, tsc;
    bool tei, pusi, prio;
    bool has_af;
    unsigned afl;                /* adaptation_field_length */
    bool di, rai, espi;
    bool pcr_f; uint64_t pcr_base; unsigned pcr_ext;
    bool opcr_f; uint64_t opcr_base; unsigned opcr_ext;
    bool sp_f; unsigned splice;
    bool priv_f; unsigned priv_len; uint8_t priv_byte;
    bool has_payload;
    const uint8_t *payload; unsigned pay_len;
};
/* octets of the adaptation field needed by the flags byte and the optional fields */
static inline unsigned wts_af_need(const struct wts *w)
{
    return 1 + (w->pcr_f ? 6 : 0) + (w->opcr_f ? 6 : 0) + (w->sp_f ? 1 : 0) + (w->priv_f ? 1 + w->priv_len : 0);
}
/* caller guarantees 4 + (has_af ? 1 + afl : 0) + pay_len == 188 and afl == 0 or afl >= wts_af_need */
static inline bool wts_build(const struct wts *w, uint8_t *out)
{
    struct wbits b;
    wb_init(&b, out, R_TS);
    wb_put(&b, 8, 0x47);
    wb_put(&b, 1, w->tei); wb_put(&b, 1, w->pusi); wb_put(&b, 1, w->prio);
    wb_put(&b, 13, w->pid);
    wb_put(&b, 2, w->tsc);
    wb_put(&b, 1, w->has_af); wb_put(&b, 1, w->has_payload);
    wb_put(&b, 4, w->cc);
    if (w->has_af) {
        wb_put(&b, 8, w->afl);
        if (w->afl > 0) {
            size_t end = b.pos + 8 * w->afl;
            wb_put(&b, 1, w->di); wb_put(&b, 1, w->rai); wb_put(&b, 1, w->espi);
            wb_put(&b, 1, w->pcr_f); wb_put(&b, 1, w->opcr_f); wb_put(&b, 1, w->sp_f);
            wb_put(&b, 1, w->priv_f); wb_put(&b, 1, 0);
            if (w->pcr_f) { wb_put(&b, 33, w->pcr_base); wb_put(&b, 6, 0x3f); wb_put(&b, 9, w->pcr_ext); }
            if (w->opcr_f) { wb_put(&b, 33, w->opcr_base); wb_put(&b, 6, 0x3f); wb_put(&b, 9, w->opcr_ext); }
            if (w->sp_f) wb_put(&b, 8, w->splice);
            if (w->priv_f) { wb_put(&b, 8, w->priv_len); for (unsigned i = 0; i < w->priv_len; i++) wb_put(&b, 8, (uint8_t)(w->priv_byte + i)); }
            if (b.pos > end) return false;
            while (b.pos < end) wb_put(&b, 8, 0xff);
        }
    }
    if (b.pos % 8 || b.pos / 8 + w->pay_len != R_TS) return false;
    if (w->pay_len) memcpy(out + b.pos / 8, w->payload, w->pay_len);
    return !b.over;
}

/* ------------------------------------------------------------------ PES header */
static inline bool rpes_has_opt_header(unsigned stream_id)
{
    /* ISO/IEC 13818-1 table 2-21: these stream ids carry no optional header */
    switch (stream_id) {
    case 0xbc: case 0xbe: case 0xbf: case 0xf0: case 0xf1: case 0xff: case 0xf2: case 0xf8: return false;
    default: return true;
    }
}

struct rpes {
    const char *bad;
    unsigned stream_id, length;
    bool opt;
    unsigned marker10, scramble; bool prio, align, copyright, original;
    unsigned ptsdts; bool escr_f, esrate_f, trick_f, addcopy_f, crc_f, ext_f;
    unsigned hdl;
    bool has_pts, has_dts;
    uint64_t pts, dts;
    bool ts_syntax_ok;           /* prefixes '0010'/'0011'/'0001' and marker bits */
    bool stuffing_ok;            /* header octets after the known fields are 0xff */
    size_t hdr_size;             /* 6 or 9 + PES_header_data_length */
};

static inline uint64_t rpes_get_ts(struct rbits *b, unsigned *prefix, bool *markers)
{
    *prefix = rb_get(b, 4);
    uint64_t v = rb_get(b, 3);
    unsigned m1 = rb_get(b, 1);
    v = (v << 15) | rb_get(b, 15);
    unsigned m2 = rb_get(b, 1);
    v = (v << 15) | rb_get(b, 15);
    unsigned m3 = rb_get(b, 1);
    *markers = m1 && m2 && m3;
    return v;
}

/* 0: parsed; 1: more octets needed; -1: malformed (r->bad) */
static inline int rpes_parse(const uint8_t *p, size_t n, struct rpes *r)
{
    memset(r, 0, sizeof *r);
    r->ts_syntax_ok = r->stuffing_ok = true;
    if (n < 6) return 1;
    struct rbits b;
    rb_init(&b, p, n);
    if (rb_get(&b, 24) != 1) { r->bad = "packet_start_code_prefix is not 00 00 01"; return -1; }
    r->stream_id = rb_get(&b, 8);
    r->length = rb_get(&b, 16);
    if (r->stream_id < 0xbc) { r->bad = "stream_id below 0xbc"; return -1; }
    r->opt = rpes_has_opt_header(r->stream_id);
    if (!r->opt) { r->hdr_size = 6; return 0; }
    if (n < 9) return 1;
    r->marker10 = rb_get(&b, 2);
    r->scramble = rb_get(&b, 2);
    r->prio = rb_get(&b, 1); r->align = rb_get(&b, 1); r->copyright = rb_get(&b, 1); r->original = rb_get(&b, 1);
    r->ptsdts = rb_get(&b, 2);
    r->escr_f = rb_get(&b, 1); r->esrate_f = rb_get(&b, 1); r->trick_f = rb_get(&b, 1);
    r->addcopy_f = rb_get(&b, 1); r->crc_f = rb_get(&b, 1); r->ext_f = rb_get(&b, 1);
    r->hdl = rb_get(&b, 8);
    r->hdr_size = 9 + r->hdl;
    if (r->marker10 != 2) { r->bad = "'10' marker missing"; return -1; }
    if (r->ptsdts == 1) { r->bad = "PTS_DTS_flags 01 (forbidden)"; return -1; }
    if (n < r->hdr_size) return 1;
    unsigned used = 0;
    if (r->ptsdts & 2) {
        if (r->hdl < 5) { r->bad = "PTS does not fit in PES_header_data_length"; return -1; }
        unsigned prefix; bool mk;
        r->pts = rpes_get_ts(&b, &prefix, &mk);
        r->has_pts = true;
        if (prefix != (r->ptsdts == 3 ? 3u : 2u) || !mk) r->ts_syntax_ok = false;
        used += 5;
    }
    if (r->ptsdts == 3) {
        if (r->hdl < 10) { r->bad = "DTS does not fit in PES_header_data_length"; return -1; }
        unsigned prefix; bool mk;
        r->dts = rpes_get_ts(&b, &prefix, &mk);
        r->has_dts = true;
        if (prefix != 1 || !mk) r->ts_syntax_ok = false;
        used += 5;
    }
    if (!r->escr_f && !r->esrate_f && !r->trick_f && !r->addcopy_f && !r->crc_f && !r->ext_f)
        for (unsigned i = 9 + used; i < 9 + r->hdl; i++)
            if (p[i] != 0xff) r->stuffing_ok = false;
    return 0;
}

/* ------------------------------------------------------------------ PSI sections in TS payloads
 * ISO/IEC 13818-1 2.4.4: a packet with payload_unit_start carries a pointer_field as the first
 * payload octet, giving the number of octets until the first section that starts in the packet
 * (those octets end the section in progress); sections follow each other back to back; stuffing
 * octets 0xff may only follow the last octet of a section and then fill the packet; without
 * payload_unit_start no section starts in the packet. section size = 3 + section_length (12 bits). */
#define RPSI_MAXSEC 64
struct rpsi {
    const char *bad;
    uint8_t *buf; size_t n, cap;           /* recovered sections, concatenated (caller's storage) */
    size_t off[RPSI_MAXSEC + 1]; unsigned nsec;   /* complete sections: [off[i], off[i+1]) */
    bool in_sec; size_t cur_start, cur_need;      /* cur_need: total size once the header is known, else 0 */
    unsigned npkt;
    /* what was seen (for the classes) */
    bool saw_multi, saw_span, saw_pad, saw_exact, saw_pointer_nz;
};
static inline void rpsi_init(struct rpsi *r, uint8_t *storage, size_t cap)
{ memset(r, 0, sizeof *r); r->buf = storage; r->cap = cap; }
static inline void rpsi_octet(struct rpsi *r, uint8_t v)
{
    if (r->bad) return;
    if (r->n >= r->cap) { r->bad = "more section octets than the reference storage holds"; return; }
    r->buf[r->n++] = v;
    size_t have = r->n - r->cur_start;
    if (have == 3) {
        struct rbits b; rb_init(&b, r->buf + r->cur_start, 3);
        rb_get(&b, 8); rb_get(&b, 4);
        r->cur_need = 3 + (size_t)rb_get(&b, 12);
    }
    if (r->cur_need && have == r->cur_need) {
        if (r->nsec >= RPSI_MAXSEC) { r->bad = "too many sections"; return; }
        r->nsec++; r->off[r->nsec] = r->n;
        r->in_sec = false; r->cur_need = 0;
    }
}
/* payload of one packet of the PID (len >= 1) */
static inline void rpsi_packet(struct rpsi *r, const uint8_t *p, unsigned len, bool pusi)
{
    if (r->bad) return;
    r->npkt++;
    unsigned pos = 0, started = 0;
    if (pusi) {
        unsigned ptr = p[0];
        pos = 1;
        if (ptr) r->saw_pointer_nz = true;
        if (1 + ptr >= len) { r->bad = "pointer_field points beyond the packet although payload_unit_start is set"; return; }
        if (ptr && !r->in_sec) { r->bad = "pointer_field skips octets although no section is in progress"; return; }
        for (unsigned i = 0; i < ptr; i++) {
            if (!r->in_sec) { r->bad = "the section in progress ends before the octet designated by pointer_field"; return; }
            rpsi_octet(r, p[pos++]);
            if (r->bad) return;
        }
        if (r->in_sec) { r->bad = "a new section starts (pointer_field) while the previous one is incomplete"; return; }
        if (p[pos] == 0xff) { r->bad = "payload_unit_start set but no section starts at the octet designated by pointer_field"; return; }
    } else if (!r->in_sec) {
        r->bad = "payload without payload_unit_start while no section is in progress"; return;
    } else r->saw_span = true;
    while (pos < len) {
        if (!r->in_sec) {
            if (p[pos] == 0xff || !pusi) {
                /* stuffing: everything up to the end of the packet is 0xff (a new section needs payload_unit_start) */
                for (unsigned i = pos; i < len; i++)
                    if (p[i] != 0xff) { r->bad = pusi ? "octet other than 0xff after stuffing began" : "octets after the end of a section in a packet without payload_unit_start are not 0xff stuffing"; return; }
                r->saw_pad = true;
                return;
            }
            r->in_sec = true; r->cur_start = r->n; r->cur_need = 0;
            if (++started > 1) r->saw_multi = true;
        }
        rpsi_octet(r, p[pos++]);
        if (r->bad) return;
    }
    if (!r->in_sec) r->saw_exact = true;       /* a section ended exactly with the packet */
}
static inline void rpsi_end(struct rpsi *r)
{ if (!r->bad && r->in_sec) r->bad = "the last section is incomplete"; }

struct wpes {
    unsigned stream_id, length;
    bool prio, align, copyright, original;
    bool has_pts, has_dts;
    uint64_t pts, dts;
    bool escr_f, esrate_f;       /* 6 / 3 opaque octets (with their marker bits set) */
    unsigned stuffing;           /* extra 0xff octets */
};
static inline size_t wpes_hdr_size(const struct wpes *w)
{
    if (!rpes_has_opt_header(w->stream_id)) return 6;
    return 9 + (w->has_pts ? 5 : 0) + (w->has_dts ? 5 : 0) + (w->escr_f ? 6 : 0) + (w->esrate_f ? 3 : 0) + w->stuffing;
}
static inline void wpes_put_ts(struct wbits *b, unsigned prefix, uint64_t v)
{
    wb_put(b, 4, prefix);
    wb_put(b, 3, (v >> 30) & 7); wb_put(b, 1, 1);
    wb_put(b, 15, (v >> 15) & 0x7fff); wb_put(b, 1, 1);
    wb_put(b, 15, v & 0x7fff); wb_put(b, 1, 1);
}
/* out must hold wpes_hdr_size(w) octets */
static inline bool wpes_build(const struct wpes *w, uint8_t *out)
{
    size_t hs = wpes_hdr_size(w);
    struct wbits b;
    wb_init(&b, out, hs);
    wb_put(&b, 24, 1);
    wb_put(&b, 8, w->stream_id);
    wb_put(&b, 16, w->length);
    if (!rpes_has_opt_header(w->stream_id)) return !b.over;
    wb_put(&b, 2, 2); wb_put(&b, 2, 0);
    wb_put(&b, 1, w->prio); wb_put(&b, 1, w->align); wb_put(&b, 1, w->copyright); wb_put(&b, 1, w->original);
    wb_put(&b, 2, w->has_pts ? (w->has_dts ? 3 : 2) : 0);
    wb_put(&b, 1, w->escr_f); wb_put(&b, 1, w->esrate_f);
    wb_put(&b, 4, 0);
    wb_put(&b, 8, hs - 9);
    if (w->has_pts) wpes_put_ts(&b, w->has_dts ? 3 : 2, w->pts);
    if (w->has_dts) wpes_put_ts(&b, 1, w->dts);
    if (w->escr_f) {   /* reserved(2) base[32..30] 1 base[29..15] 1 base[14..0] 1 ext(9) 1 */
        wb_put(&b, 2, 3); wb_put(&b, 3, 5); wb_put(&b, 1, 1); wb_put(&b, 15, 0x1234); wb_put(&b, 1, 1);
        wb_put(&b, 15, 0x4321); wb_put(&b, 1, 1); wb_put(&b, 9, 0x155); wb_put(&b, 1, 1);
    }
    if (w->esrate_f) { wb_put(&b, 1, 1); wb_put(&b, 22, 0x2abcde); wb_put(&b, 1, 1); }
    while (b.pos < hs * 8) wb_put(&b, 8, 0xff);
    return !b.over && b.pos == hs * 8;
}

#endif

/* C13 (ev) — a pump fires only while started and not blocked, on the real upump_ev manager.
 * The harness owns the libev loop (ev_loop_new) and hands it to upump_ev_mgr_alloc; one pump at
 * a time lives on it and its readiness is under the harness' control, never the wall clock's:
 *   idler                      triggers at every iteration while active
 *   fd_read / fd_write         on an eventfd that is always readable and writable (counter 1)
 *   timer, 0 ticks, no repeat  expires at the first iteration after being armed, then libev stops
 *                              it by itself ("The timer is automatically stopped", upump_common_test.c)
 *                              until restart or a new activation re-arms it
 *   timer, 1 hour              never triggers
 *   signal SIGUSR1             the harness raises the signal right before the iteration, only
 *                              while the automaton says the watcher is installed
 * Operation "iterate" = ev_run(loop, EVRUN_NOWAIT). Oracles:
 *   - the iteration invokes the callback exactly once iff the reference automaton says active
 *     (and, for the 0-tick timer, armed), never while stopped / blocked / after free;
 *   - ev_run's return value (non-zero = the loop would keep running) is non-zero iff the watcher is
 *     active and the pump's status is "blocking" (upump.h, upump_set_status: "whether the event
 *     loop will quit if the pump is the only active pump");
 *   - blocker callbacks exactly once at free, owner refcount held during dispatch (C13_model.h). */
#include "C13_model.h"
#include "upump-ev/upump_ev.h"
#include <ev.h>
#include <sys/eventfd.h>
#include <signal.h>
#include <time.h>
#include <unistd.h>

#define FAR_TICKS (UINT64_C(3600) * UINT64_C(27000000))
enum { ARM_NO, ARM_YES, ARM_MAYBE };

struct ev_be {
    struct ev_loop *loop;
    int fd;
    bool timer0, far;
    int armed;          /* 0-tick timer: will it expire at the next iteration? */
};
#define BE(c) ((struct ev_be *)(c)->be)

static struct upump *be_alloc_pump(struct c13 *c)
{
    struct ev_be *e = BE(c);
    struct urefcount *rc = c->use_owner ? &c->owner : NULL;
    e->timer0 = e->far = false;
    e->armed = ARM_NO;
    switch (c->type) {
    case T_IDLER:    return upump_alloc_idler(c->mgr, c13_pump_cb, c, rc);
    case T_TIMER:
        if (c->variant == 1 || c->variant == 2) {
            e->far = true;
            return upump_alloc_timer(c->mgr, c13_pump_cb, c, rc, FAR_TICKS, c->variant == 2 ? FAR_TICKS : 0);
        }
        e->timer0 = true;
        return upump_alloc_timer(c->mgr, c13_pump_cb, c, rc, 0, 0);
    case T_FD_READ:  return upump_alloc_fd_read(c->mgr, c13_pump_cb, c, rc, e->fd);
    case T_FD_WRITE: return upump_alloc_fd_write(c->mgr, c13_pump_cb, c, rc, e->fd);
    default:         return upump_alloc_signal(c->mgr, c13_pump_cb, c, rc, SIGUSR1);
    }
}

/* libev keeps the remaining time of a stopped timer (<= 0 here), so every activation of the
 * 0-tick timer arms it; restart re-arms it; after set_status on an expired timer both "still
 * expired" and "armed again" (the stop/start cycle of upump_common_set_status) are accepted */
static void be_transition(struct c13 *c, int kind, bool was, bool now)
{
    struct ev_be *e = BE(c);
    if (!e->timer0) return;
    if (!was && now) e->armed = ARM_YES;
    else if (was && !now) e->armed = ARM_NO;
    else if (now && kind == K_RESTART) e->armed = ARM_YES;
    else if (now && kind == K_SET_STATUS && e->armed != ARM_YES) e->armed = ARM_MAYBE;
}

static bool interloper_touched;      /* another watcher acted on the pump in this iteration, before its callback (see be_fire) */
static void be_cb_entry(struct c13 *c)
{
    /* a one-shot timer is stopped by libev before its callback runs; when another watcher re-armed it in between
     * (restart keeps the pending event and starts the timer again) both "expired" and "armed" are possible */
    if (BE(c)->timer0) BE(c)->armed = (interloper_touched && BE(c)->armed == ARM_YES) ? ARM_MAYBE : ARM_NO;
}

static bool be_restart_in_domain(struct c13 *c)
{
    return c->type == T_TIMER || c->started;
}

static void be_check(struct c13 *c, const char *what) { (void)c; (void)what; }

static void be_render_state(struct c13 *c)
{
    static const char *const arm[] = { "no", "yes", "maybe" };
    if (BE(c)->timer0) vp_render(c->rep, " armed=%s", arm[BE(c)->armed]);
}

static double mono(void)
{
    struct timespec ts;
    clock_gettime(CLOCK_MONOTONIC, &ts);
    return ts.tv_sec + ts.tv_nsec * 1e-9;
}

/* is the libev watcher expected to be active? */
static bool watcher_active(struct c13 *c)
{
    return BE(c)->timer0 ? BE(c)->armed == ARM_YES : ACTIVE(c);
}

static void check_keepalive(struct c13 *c, int r)
{
    struct ev_be *e = BE(c);
    if (c->ret) return;
    /* C13 speaks of the watcher being active in the loop; what the non-blocking status (0) does to the
     * loop's keep-alive count is not part of the property: judged only for pumps that always had status 1 */
    if (c->status0_seen) return;
    if (e->timer0 && e->armed == ARM_MAYBE) return;
    bool w = watcher_active(c);
    bool expect = w && c->status;
    if ((r != 0) == expect) return;
    const char *state = !c->live ? "freed" : !c->started ? "stopped" : c->nb ? "blocked" :
                        !w ? "expired-timer" : c->status ? "active-blocking" : "active-nonblocking";
    snprintf(c->keybuf, sizeof c->keybuf, "C13/keepalive/%s", state);
    FAIL(c->keybuf, "ev_run(EVRUN_NOWAIT) returned %d (the loop would %s) with its only pump %s (live=%d started=%d blockers=%d status=%d): upump.h says the loop quits unless an active pump with blocking status 1 remains",
         r, r ? "keep running" : "quit", state, c->live, c->started, c->nb, c->status);
}

static void be_post_free(struct c13 *c)
{
    struct ev_be *e = BE(c);
    int before = c->fires;
    c->in_loop = true;
    int r = ev_run(e->loop, EVRUN_NOWAIT);
    c->in_loop = false;
    R("  iterate after free -> fired=%d loop_alive=%d\n", c->fires - before, r);
    check_keepalive(c, r);
}

/* "Interloper": another watcher of the same loop (an ev_check owned by the harness) whose callback libev invokes in the
 * same iteration BEFORE the pump's (pending events of one priority are invoked last-queued first, and check watchers are
 * queued after io, timer and idle events): it performs one tape-chosen action on the pump while the pump's event is already
 * pending -- what a pipe does when the callback of one of its pumps stops, blocks or frees another of its pumps. */
static struct ev_check interloper_w;
static uint8_t interloper_action;
static bool interloper_ran;
static void interloper_cb(struct ev_loop *loop, struct ev_check *w, int revents)
{
    struct c13 *c = c13_g;
    ev_ref(loop);                       /* undo the ev_unref made after starting it, then stop it */
    ev_check_stop(loop, w);
    if (!c->live || c->ret) return;
    interloper_ran = true;
    interloper_touched = true;
    if (c->render) { vp_render(c->rep, "        another watcher of this iteration runs first:\n"); c->loglen = 0; c->log[0] = 0; }
    c13_scripted_action(c, interloper_action);
}

static void be_fire(struct c13 *c)
{
    struct ev_be *e = BE(c);
    /* the first scripted action, when its byte is >= 0xC0, is performed by the interloper instead of the pump's callback */
    bool with_interloper = c->nscript > 0 && c->script[0] >= 0xC0;
    if (with_interloper) {
        interloper_action = c->script[0];
        for (int i = 1; i < c->nscript; i++) c->script[i - 1] = c->script[i];
        c->nscript--;
        ev_check_init(&interloper_w, interloper_cb);
        ev_check_start(e->loop, &interloper_w);
        ev_unref(e->loop);              /* must not keep the loop alive (keep-alive oracle) */
    }
    interloper_ran = false;
    interloper_touched = false;
    bool act = ACTIVE(c);
    int lo, hi;
    if (e->timer0) { lo = e->armed == ARM_YES; hi = e->armed != ARM_NO; if (act && e->armed == ARM_NO) CLS(CL_EXPIRED); }
    else if (e->far) lo = hi = 0;
    else lo = hi = act;
    if (!act) CLS(CL_FIRE_INACTIVE);
    if (c->type == T_SIGNAL && act)
        raise(SIGUSR1);
    if (e->timer0) { double d0 = mono(); while (mono() <= d0) ; }   /* libev compares with '<' */
    int before = c->fires, armed0 = e->armed;
    R("  iterate (%d scripted action%s)%s\n", c->nscript, c->nscript == 1 ? "" : "s", c->type == T_SIGNAL && act ? " after raise(SIGUSR1)" : "");
    c->in_loop = true;
    int r = ev_run(e->loop, EVRUN_NOWAIT);
    c->in_loop = false;
    int got = c->fires - before;
    if (with_interloper) {
        if (ev_is_active(&interloper_w)) { ev_ref(e->loop); ev_check_stop(e->loop, &interloper_w); }
        /* whatever the interloper did, the pump's pending event may legitimately have been cancelled (stop, first blocker,
         * the stop/start cycle of set_status, restart, free): no lower bound; the upper bound is judged inside the callback
         * against the state the interloper left (fire/while-stopped, fire/while-blocked, fire/after-free) */
        if (interloper_ran) { lo = 0; CLS(CL_INTERLOPER); }
    }
    if (!c->ret && got < lo)
        FAIL("C13/nofire/iterate", "the loop iteration did not invoke the callback although the pump is started, not blocked%s (live=%d started=%d blockers=%d)",
             e->timer0 ? " and its 0-tick timer is armed" : "", c->live, c->started, c->nb);
    if (!c->ret && got > hi)
        FAIL(got > 1 ? "C13/fire/twice" : "C13/fire/unexpected", "the loop iteration invoked the callback %d time(s), at most %d expected (live=%d started=%d blockers=%d%s)",
             got, hi, c->live, c->started, c->nb, e->timer0 ? ", one-shot timer already expired" : e->far ? ", 1-hour timer" : "");
    c13_after_dispatch(c);
    /* an undecided timer that did not expire in this iteration was not armed (a 'maybe' set by the
     * callback itself during this iteration stays undecided until the next one) */
    if (e->timer0 && armed0 == ARM_MAYBE && got == 0 && e->armed == ARM_MAYBE && !interloper_ran) e->armed = ARM_NO;   /* (another watcher's stop/start cycle cancels a pending expiry and re-arms) */
    char what[48];
    snprintf(what, sizeof what, "  -> fired=%d loop_alive=%d", got, r);
    c13_line(c, what);
    check_keepalive(c, r);
    if (!c->live && !c->ret)
        be_post_free(c);        /* the pump was freed from inside the loop */
}

static int run(const uint8_t *tape, size_t len, struct vp_report *rep, unsigned flags)
{
    static struct c13 ctx;
    static struct ev_be be;
    struct c13 *c = &ctx;
    memset(c, 0, sizeof *c);
    memset(&be, 0, sizeof be);
    c->be = &be;
    c13_g = c;
    tp_init(&c->t, tape, len);
    c->rep = rep;
    c->render = flags & VP_RENDER;
    c->flags = flags;
    c->hash = VP_HASH_INIT;

    uint8_t cfg = tp_u8(&c->t);
    c->pump_pool = cfg & 3;
    c->blk_pool = (cfg >> 2) & 3;
    c->hash = vp_hash_mix(c->hash, cfg & 15);
    R("C13/ev pump_pool=%d blocker_pool=%d\n", c->pump_pool, c->blk_pool);

    be.loop = ev_loop_new(EVFLAG_NOENV);
    if (be.loop == NULL) return vp_internal(rep, "ev_loop_new");
    be.fd = eventfd(1, EFD_NONBLOCK | EFD_CLOEXEC);   /* counter 1: readable and writable for ever */
    if (be.fd < 0) { ev_loop_destroy(be.loop); return vp_internal(rep, "eventfd"); }
    c->mgr = upump_ev_mgr_alloc(be.loop, c->pump_pool, c->blk_pool);
    if (c->mgr == NULL) { ev_loop_destroy(be.loop); close(be.fd); return vp_internal(rep, "upump_ev_mgr_alloc"); }

    c13_history(c, (flags & VP_THOROUGH) ? 200 : 64);

    if (!c->ret && !urefcount_single(c->mgr->refcount))
        c->ret = vp_internal(rep, "the manager is still referenced after every pump was freed");
    upump_mgr_release(c->mgr);
    ev_loop_destroy(be.loop);
    close(be.fd);
    c13_report(c);
    return c->ret;
}

const struct vp_executor vp_executor = { "C13", "ev", 200, class_names, run, NULL };

/* C17 (expgolomb) — exp-Golomb and emulation-prevention decoding return the values a
 * reference encoder wrote.
 *
 * Reference side (independent of the shim and of upipe): an MSB-first bit writer, the
 * ue(v)/se(v) code construction of ITU-T H.264 9.1 / H.265 9.2, and the emulation
 * prevention of 7.4.1 (a 0x03 octet is inserted whenever two zero octets would be
 * followed by an octet <= 3). The escaped octets are cut into an arbitrary segmentation
 * of a block ubuf and read back with upipe_h26xf_stream_ue / _se and with
 * upipe_h26xf_stream_fill_bits (whose octet callback upipe_h26xf_stream_get removes the
 * emulation prevention octets).
 *
 * Domain D: code numbers 0 .. 2^32-2 (at most 31 leading zero bits, the largest code the
 * standards allow and the largest the reader's `i < 32` loops handle); se values
 * -(2^31-1) .. 2^31-1; fixed fields of 1..24 bits (the cache contract of
 * ubuf_block_stream_fill_bits). */
#include "vp.h"
#include "tape.h"
#include "fix_mem.h"

#include "upipe/ubuf_block_stream.h"
#include "upipe-framers/upipe_h26x_common.h"

#include <stdlib.h>
#include <stdio.h>

#define MAXF 24
#define MAXBYTES (MAXF * 9 + 64)

enum { CL_EPB, CL_EPB_IN_CODE, CL_GT24, CL_MAXVAL, CL_SIGNED, CL_SEG, CL_SEG_AT_EPB, CL_NOTRAIL, CL_MULTI_EPB,
       CL_ONEBYTE, CL_OCTETS };
static const char *const class_names[] = {
    "has_emulation_prevention", "emulation_prevention_inside_a_code", "value_needs_more_than_24_bits",
    "value_2pow32_minus_2", "signed_value", "segmented_block", "segment_cut_next_to_escape",
    "no_trailing_octets", "several_escapes", "one_octet_segments", "octet_reader_checked", NULL };

enum fkind { F_UE, F_SE, F_U };
struct field {
    enum fkind kind;
    uint32_t code;      /* code number for ue/se, value for u */
    int32_t sval;       /* se value */
    int width;          /* u(width) */
    size_t bit0, bit1;  /* bit span in the RBSP */
};

struct bw { uint8_t *p; size_t bits, cap; };
static void bw_put(struct bw *w, int n, uint32_t v)
{
    for (int b = n - 1; b >= 0; b--) {
        if (w->bits / 8 >= w->cap) return;
        if ((v >> b) & 1) w->p[w->bits / 8] |= 0x80 >> (w->bits % 8);
        w->bits++;
    }
}
/* ue(v): k leading zeros, then (codeNum + 1) on k + 1 bits, with 2^k <= codeNum + 1 < 2^(k+1) */
static void bw_ue(struct bw *w, uint32_t code)
{
    uint64_t x = (uint64_t)code + 1;
    int k = 0;
    while ((x >> (k + 1)) != 0) k++;
    bw_put(w, k, 0);
    bw_put(w, 1, 1);
    if (k) bw_put(w, k, (uint32_t)(x & ((1ull << k) - 1)));
}
static uint32_t se_code(int32_t v)
{   /* 9.1.1: codeNum k maps to (-1)^(k+1) Ceil(k / 2) */
    return v > 0 ? 2u * (uint32_t)v - 1 : 2u * (uint32_t)(-(int64_t)v);
}

static int run(const uint8_t *tp_, size_t len, struct vp_report *rep, unsigned flags)
{
    struct tape t;
    tp_init(&t, tp_, len);
    bool render = flags & VP_RENDER;
    int ret = 0;
    uint64_t h = VP_HASH_INIT;

    static struct field f[MAXF];
    static uint8_t rbsp[MAXBYTES], raw[MAXBYTES * 2 + 16];
    static uint8_t is_epb[MAXBYTES * 2 + 16];
    static size_t rawidx[MAXBYTES];     /* raw payload index of RBSP octet i */
    memset(rbsp, 0, sizeof(rbsp));
    memset(is_epb, 0, sizeof(is_epb));

    int n = 1 + tp_u8(&t) % MAXF;
    struct bw w = { rbsp, 0, sizeof(rbsp) - 16 };
    bool gt24 = false, maxval = false, hassigned = false;
    for (int i = 0; i < n; i++) {
        uint8_t sel = tp_u8(&t);
        struct field *q = &f[i];
        memset(q, 0, sizeof(*q));
        switch (sel % 8) {
        case 0: q->kind = F_UE; q->code = tp_u8(&t); break;
        case 1: {   /* around a power of two: codes full of zero bits */
            int k = tp_u8(&t) % 33;
            int d = (int)(sel / 8 % 3) - 1;
            uint64_t v = (k == 32 ? 0xfffffffeull : ((1ull << k) - 1)) + d;
            if (k == 0 && d < 0) v = 0;
            if (v > 0xfffffffeull) v = 0xfffffffeull;
            q->kind = F_UE; q->code = (uint32_t)v; break; }
        case 2: q->kind = F_SE; q->sval = (int8_t)tp_u8(&t); break;
        case 3: {
            int k = tp_u8(&t) % 32;
            int64_t v = (k == 31 ? 0x7fffffffll : (1ll << k)) + (int)(sel / 8 % 3) - 1;
            if (v > 0x7fffffffll) v = 0x7fffffffll;
            if (sel & 0x40) v = -v;
            q->kind = F_SE; q->sval = (int32_t)v; break; }
        case 4: {   /* zero bits: run of zero octets between codes */
            static const int ws[] = { 8, 16, 24, 7, 9, 15, 17, 23 };
            q->kind = F_U; q->width = ws[sel / 8 % 8]; q->code = 0; break; }
        case 5: {
            q->kind = F_U; q->width = 1 + sel / 8 % 24;
            uint32_t v = tp_u8(&t);
            if (sel & 0x80) v |= (uint32_t)tp_u16(&t) << 8;
            q->code = v & ((1u << q->width) - 1); break; }
        case 6: {
            uint32_t v = tp_u32(&t);
            if (v == 0xffffffffu) v = 0xfffffffeu;
            q->kind = F_UE; q->code = v; break; }
        default: {
            static const uint32_t fav[] = { 0xfffffffeu, 0xffffffu, 0xfffffeu, 0x1000000u, 0xffffu, 0x3fffffu,
                                            0x7fffffu, 0x2ffffffu, 0x3ffffffu, 0x1ffffffu, 0x7ffffffeu, 0x80000000u };
            q->kind = F_UE; q->code = fav[sel / 8 % 12]; break; }
        }
        if (q->kind == F_SE) { q->code = se_code(q->sval); hassigned = true; }
        q->bit0 = w.bits;
        if (q->kind == F_U) bw_put(&w, q->width, q->code);
        else bw_ue(&w, q->code);
        q->bit1 = w.bits;
        if (q->kind != F_U && q->code >= 0xffffffu) gt24 = true;    /* k >= 24: more than 24 info bits incl. marker */
        if (q->kind != F_U && q->code == 0xfffffffeu) maxval = true;
        h = vp_hash_mix(h, ((uint64_t)q->kind << 40) | ((uint64_t)q->width << 32) | q->code);
    }
    size_t fields_bits = w.bits;
    /* rbsp_trailing_bits, then optional further octets that the reader may look ahead into */
    bw_put(&w, 1, 1);
    while (w.bits % 8) bw_put(&w, 1, 0);
    uint8_t tsel = tp_u8(&t);
    int ntrail = (tsel % 4 == 3) ? 0 : 4 + tsel / 4 % 5;
    for (int i = 0; i < ntrail; i++) {
        uint8_t b = tp_u8(&t);
        static const uint8_t tb[] = { 0x80, 0, 0, 1, 3, 2, 0xff, 0 };
        bw_put(&w, 8, (b & 1) ? b : tb[b / 2 % 8]);
    }
    if (ntrail && rbsp[w.bits / 8 - 1] == 0) rbsp[w.bits / 8 - 1] = 0x80;  /* a NAL unit never ends with a zero octet */
    size_t nrbsp = w.bits / 8;
    h = vp_hash_mix(h, ntrail);

    /* reference escaper */
    int lead = tp_u8(&t) % 3;
    size_t nraw = 0;
    static const uint8_t leadb[2] = { 0x65, 0x01 };
    for (int i = 0; i < lead; i++) raw[nraw++] = leadb[i];
    int zeros = 0, nepb = 0;
    for (size_t i = 0; i < nrbsp; i++) {
        if (zeros >= 2 && rbsp[i] <= 3) { is_epb[nraw] = 1; raw[nraw++] = 3; zeros = 0; nepb++; }
        rawidx[i] = nraw;
        raw[nraw++] = rbsp[i];
        zeros = rbsp[i] == 0 ? zeros + 1 : 0;
    }
    bool epb_in_code = false;
    for (int i = 0; i < n; i++) {
        if (f[i].kind == F_U || f[i].bit1 == f[i].bit0) continue;
        size_t o0 = f[i].bit0 / 8, o1 = (f[i].bit1 - 1) / 8;
        if (rawidx[o1] - rawidx[o0] != o1 - o0) epb_in_code = true;
    }

    /* segmentation */
    struct fix_mem fm;
    if (fix_mem_init(&fm, 0, 0, 0) != 0) return vp_internal(rep, "fix_mem_init");
    struct ubuf *ubuf = NULL;
    size_t pos = 0; int nseg = 0; bool cut_at_epb = false, onebyte = false;
    uint8_t mode = tp_u8(&t) % 4;   /* 0 one segment, 1 one-octet segments, 2/3 tape-chosen */
    if (mode == 1) onebyte = true;
    if (render) {
        vp_render(rep, "C17/expgolomb fields=%d rbsp=%zu raw=%zu lead=%d escapes=%d trailing=%d\n  fields:", n, nrbsp, nraw, lead, nepb, ntrail);
        for (int i = 0; i < n; i++) {
            if (f[i].kind == F_UE) vp_render(rep, " ue(%u)", f[i].code);
            else if (f[i].kind == F_SE) vp_render(rep, " se(%d)", f[i].sval);
            else vp_render(rep, " u%d(0x%x)", f[i].width, f[i].code);
        }
        vp_render(rep, "\n  raw:");
        for (size_t i = 0; i < nraw && i < 200; i++) vp_render(rep, " %02x%s", raw[i], is_epb[i] ? "*" : "");
        vp_render(rep, "\n  segments:");
    }
    while (pos < nraw) {
        size_t rest = nraw - pos, seg;
        if (mode == 0) seg = rest;
        else if (mode == 1) seg = 1;
        else { uint8_t s = tp_u8(&t); seg = s == 0 ? rest : 1 + s % 6; }
        if (seg > rest) seg = rest;
        if (nseg >= 200) seg = rest;
        struct ubuf *piece = ubuf_block_alloc_from_opaque(fm.block_mgr, raw + pos, seg);
        if (!piece) { ret = vp_internal(rep, "ubuf alloc"); break; }
        if (!ubuf) ubuf = piece;
        else if (!ubase_check(ubuf_block_append(ubuf, piece))) { ubuf_free(piece); ret = vp_internal(rep, "append"); break; }
        pos += seg; nseg++;
        if (pos < nraw && (is_epb[pos] || is_epb[pos - 1] || (pos >= 2 && is_epb[pos - 2]))) cut_at_epb = true;
        if (render && nseg < 64) vp_render(rep, " %zu", seg);
        h = vp_hash_mix(h, seg);
    }
    if (render) vp_render(rep, "\n");

    /* ---- bit reader: ue / se / fill_bits ---- */
    if (ret == 0) {
        struct upipe_h26xf_stream hs;
        upipe_h26xf_stream_init(&hs);
        struct ubuf_block_stream *s = &hs.s;
        if (!ubase_check(ubuf_block_stream_init(s, ubuf, lead)))
            ret = vp_internal(rep, "ubuf_block_stream_init(%d) on %zu octets", lead, nraw);
        else {
            for (int i = 0; i < n && ret == 0; i++) {
                struct field *q = &f[i];
                if (q->kind == F_UE) {
                    uint32_t g = upipe_h26xf_stream_ue(s);
                    if (render) vp_render(rep, "  ue -> %u\n", g);
                    if (g != q->code)
                        ret = vp_fail(rep, "C17/expgolomb/ue", "field %d: upipe_h26xf_stream_ue returned %u, reference encoder wrote %u (bit %zu of the payload, %d escapes)", i, g, q->code, q->bit0, nepb);
                } else if (q->kind == F_SE) {
                    int32_t g = upipe_h26xf_stream_se(s);
                    if (render) vp_render(rep, "  se -> %d\n", g);
                    if (g != q->sval)
                        ret = vp_fail(rep, "C17/expgolomb/se", "field %d: upipe_h26xf_stream_se returned %d, reference encoder wrote %d (code number %u)", i, g, q->sval, q->code);
                } else {
                    upipe_h26xf_stream_fill_bits(s, q->width);
                    uint32_t g = ubuf_block_stream_show_bits(s, q->width);
                    ubuf_block_stream_skip_bits(s, q->width);
                    if (render) vp_render(rep, "  u%d -> 0x%x\n", q->width, g);
                    if (g != q->code)
                        ret = vp_fail(rep, "C17/expgolomb/bits", "field %d: %d bits through upipe_h26xf_stream_fill_bits gave 0x%x, written 0x%x", i, q->width, g, q->code);
                }
                if (ret) break;
                /* position: octets fetched from the block, minus the escapes among them, minus cached bits */
                if (ntrail >= 4) {
                    if (s->overflow) { ret = vp_fail(rep, "C17/expgolomb/overflow", "after field %d the reader reports the end of the block although %d octets follow", i, ntrail); break; }
                    int p = ubuf_block_stream_position(s);
                    long fetched_bits = (long)p + s->available;
                    if (fetched_bits % 8 || fetched_bits < lead * 8 || (size_t)(fetched_bits / 8) > nraw) {
                        ret = vp_fail(rep, "C17/expgolomb/position", "after field %d: position %d bits with %u cached is not an octet count inside the block", i, p, s->available); break; }
                    size_t fetched = fetched_bits / 8, esc = 0;
                    for (size_t k = lead; k < fetched; k++) esc += is_epb[k];
                    long consumed = (long)(fetched - lead - esc) * 8 - s->available;
                    if (consumed != (long)q->bit1)
                        ret = vp_fail(rep, "C17/expgolomb/position", "after field %d: %ld payload bits consumed (octets fetched %zu, escapes skipped %zu, cached %u), reference position is bit %zu", i, consumed, fetched, esc, s->available, q->bit1);
                }
            }
            /* what follows must be the rest of the reference payload: stop bit, alignment, trailing octets */
            if (ret == 0) {
                size_t bit = fields_bits;
                while (bit < nrbsp * 8 && ret == 0) {
                    int wdt = 8 - bit % 8;
                    uint32_t want = rbsp[bit / 8] & ((1u << wdt) - 1);
                    upipe_h26xf_stream_fill_bits(s, wdt);
                    uint32_t g = ubuf_block_stream_show_bits(s, wdt);
                    ubuf_block_stream_skip_bits(s, wdt);
                    if (g != want)
                        ret = vp_fail(rep, "C17/expgolomb/tail", "after the last field: payload bits %zu..%zu read as 0x%x, reference says 0x%x (stream not left at the reference position)", bit, bit + wdt - 1, g, want);
                    bit += wdt;
                }
                if (ret == 0 && !s->overflow) {
                    /* nothing may follow */
                    upipe_h26xf_stream_fill_bits(s, 8);
                    if (!s->overflow && s->available >= 8 )
                        ret = vp_fail(rep, "C17/expgolomb/tail", "an octet 0x%02x is delivered after the end of the payload", ubuf_block_stream_show_bits(s, 8));
                }
            }
            ubuf_block_stream_clean(s);
        }
    }

    /* ---- octet reader: upipe_h26xf_stream_get must deliver the unescaped payload ---- */
    bool octets = false;
    if (ret == 0) {
        struct upipe_h26xf_stream hs;
        upipe_h26xf_stream_init(&hs);
        struct ubuf_block_stream *s = &hs.s;
        if (!ubase_check(ubuf_block_stream_init(s, ubuf, lead))) ret = vp_internal(rep, "stream_init 2");
        else {
            octets = true;
            for (size_t i = 0; i < nrbsp && ret == 0; i++) {
                uint8_t o = 0xee;
                int e = upipe_h26xf_stream_get(s, &o);
                if (!ubase_check(e))
                    ret = vp_fail(rep, "C17/expgolomb/get", "upipe_h26xf_stream_get fails at payload octet %zu of %zu", i, nrbsp);
                else if (o != rbsp[i])
                    ret = vp_fail(rep, "C17/expgolomb/get", "payload octet %zu read as %02x, reference payload has %02x (escape not removed / octet dropped)", i, o, rbsp[i]);
            }
            if (ret == 0) {
                uint8_t o;
                if (ubase_check(upipe_h26xf_stream_get(s, &o)))
                    ret = vp_fail(rep, "C17/expgolomb/get", "an octet %02x is delivered after the %zu payload octets", o, nrbsp);
            }
            ubuf_block_stream_clean(s);
        }
    }

    if (ubuf) ubuf_free(ubuf);
    const char *leak = fix_mem_clean(&fm);
    if (leak && ret == 0) ret = vp_internal(rep, "fixture: %s", leak);

    rep->case_hash = vp_hash_mix(h, lead);
    if (nepb) rep->classes |= 1u << CL_EPB;
    if (epb_in_code) rep->classes |= 1u << CL_EPB_IN_CODE;
    if (gt24) rep->classes |= 1u << CL_GT24;
    if (maxval) rep->classes |= 1u << CL_MAXVAL;
    if (hassigned) rep->classes |= 1u << CL_SIGNED;
    if (nseg > 1) rep->classes |= 1u << CL_SEG;
    if (cut_at_epb) rep->classes |= 1u << CL_SEG_AT_EPB;
    if (!ntrail) rep->classes |= 1u << CL_NOTRAIL;
    if (nepb > 1) rep->classes |= 1u << CL_MULTI_EPB;
    if (onebyte && nraw > 1) rep->classes |= 1u << CL_ONEBYTE;
    if (octets) rep->classes |= 1u << CL_OCTETS;
    /* NT: an escape inside a code, or a code longer than 24 bits, read from a segmented block */
    rep->nontrivial = (epb_in_code || gt24) && nseg > 1;
    return ret;
}

const struct vp_executor vp_executor = { "C17", "expgolomb", 120, class_names, run, NULL };

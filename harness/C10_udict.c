/* C10 — attribute dictionaries behave as typed key-value maps.
 * Executor "udict": histories over <= 4 udict_inline dictionaries through the typed
 * udict_* API (udict.h). Reference model: per dictionary a map (type code, name) -> value
 * octets in a representation of the harness' own (native integers, IEEE bits), so the
 * library's big-endian / sign-magnitude coding is never trusted.
 * After every operation every watched key (every key ever used, plus its type- and
 * prefix-neighbours) is looked up in every live dictionary and each dictionary is iterated.
 *
 * Documented domains (include/upipe/udict.h, lib/upipe/udict_inline.c):
 *   named attribute:     strlen(name) + 1 + value size <= 65535 (assert in udict_inline_set)
 *   shorthand opaque/string: value size <= 65535
 *   int / rational.num:  any int64 except INT64_MIN (assert in udict_set_int64)
 *   type:                a member of enum udict_type; name NULL iff shorthand
 *   set_opaque/set_string: the source may point into the dictionary itself (comment
 *                        "copy the opaque/string in case it points to us")
 * The generator stays inside them; inside them every set/dup/copy/import must succeed
 * (the counting umem never refuses) and every answer is the model's. */
#include "vp.h"
#include "tape.h"
#include "faultmalloc.h"
#include "umem_count.h"
#include "upipe/ubase.h"
#include "upipe/udict.h"
#include "upipe/udict_inline.h"
#include <stdlib.h>
#include <stdio.h>
#include <inttypes.h>
/* the harness' own allocations (model copies) are never refused: only the library code expanded from the headers above is */
#undef malloc
#undef calloc
#undef realloc

#define MAXD 4
#define MAXOPS 64
#define NBASE 10
#define NSH 38
#define NN 19
#define NNAMED (NBASE * NN)
#define NKEYS (NNAMED + NSH)
#define MAXUSED 48

enum { CL_REPL_DIFF, CL_REPL_SAME, CL_DEL_NOTLAST, CL_DEL_ABSENT, CL_GREW, CL_ALIAS, CL_ALIAS_SELF,
       CL_ALIAS_MOVED, CL_ALIAS_REALLOC, CL_SH_VAR, CL_SH_FIXED, CL_NAMED_SHNAME, CL_PREFIX, CL_TYPECONF,
       CL_BIG, CL_MAXSZ, CL_EXACTFIT, CL_SIZE0, CL_IMPORT_OVER, CL_IMPORT_RESIZE, CL_CMP_EQ, CL_CMP_VALUE,
       CL_CMP_SUBSET, CL_CMP_OTHER, CL_DUP, CL_COPY, CL_DUP_THEN_MUT, CL_NEG_INT, CL_FLOAT_SPECIAL,
       CL_POOL, CL_MULTI, CL_SIZE_BYTE, CL_FAULT, CL_FAULT_FAILED, CL_ITER_COPY };
static const char *const class_names[] = {
    "replace_var_different_size", "replace_var_same_size", "delete_not_last", "delete_absent_refused",
    "storage_grew", "alias_source", "alias_same_key_resized", "alias_source_moved_by_delete", "alias_with_realloc",
    "shorthand_opaque_or_string", "shorthand_fixed", "named_with_shorthand_name", "prefix_names_same_type",
    "same_name_two_types", "value_ge_4k", "value_at_documented_max", "set_exactly_fills_storage", "opaque_size_0",
    "import_overwrites", "import_overwrites_different_size", "cmp_models_equal", "cmp_one_value_differs",
    "cmp_strict_subset", "cmp_other_difference", "dup", "copy", "mutation_after_dup_or_copy", "negative_int_or_rational",
    "float_special", "pool_depth_gt0", "three_or_more_dicts", "tlv_size_crosses_255",
    "allocation_refused_inside_operation", "operation_failed_after_refused_allocation", "iteration_cursor_is_a_copy_of_the_name", NULL };

/* names of the shorthand attributes as documented next to enum udict_type */
static const char *const sh_doc[NSH] = {
    "f.random", "f.error", "f.def", "f.id", "f.rawdef", "f.langs", "e.events", "k.duration", "k.rate", "k.latency",
    "k.wrap", "b.end", "p.num", "p.key", "p.hsize", "p.vsize", "p.hsizevis", "p.vsizevis", "p.format", "p.fullrange",
    "p.colorprim", "p.transfer", "p.colmatrix", "p.hposition", "p.vposition", "p.lpadding", "p.rpadding", "p.tpadding",
    "p.bpadding", "p.sar", "p.overscan", "p.progressive", "p.tf", "p.bf", "p.tff", "p.afd", "p.cea_708", "p.bar_data" };
static const char *const base_str[NBASE + 1] = { "end", "opaque", "string", "void", "bool", "small_unsigned", "small_int",
                                                 "unsigned", "int", "rational", "float" };

/* name pool: neighbours are prefixes of one another; several equal shorthand names */
static char n60[61], n300[301], n300z[302];
static const char *names[NN] = { "a", "ab", "abc", "a.b", "x.", "x.y", "x.yz", "f.de", "f.def", "f.def2", "f.id",
                                 "p.cea_708", "k.rate", "b.end", "p.overscan", "f.langs", n60, n300, n300z };
static size_t namelen[NN];

struct mval { bool present; size_t size; uint8_t *v; };
struct mdict {
    struct udict *d;
    struct mval e[NKEYS];
    int npresent;
    int order[NKEYS]; int norder;      /* iteration order seen at the last full check (classification only) */
    size_t cap;                         /* last known size of the storage area (generator bias only) */
    bool from_dup;
    int peer;                           /* slot this one was duplicated from / to, or -1 */
};

struct ctx {
    struct tape t;
    struct vp_report *rep;
    bool render;
    struct umem_mgr *umem;
    struct udict_mgr *mgr;
    int min_eff;
    struct mdict md[MAXD];
    uint8_t watched[NKEYS];
    int used[MAXUSED]; int nused;
    int sh_base[NSH];
    int sh_var[NSH]; int nsh_var;
    int sh_str[NSH]; int nsh_str;
    int sh_opq[NSH]; int nsh_opq;
    unsigned pat;
    int ret;
    uint64_t hash;
    uint64_t cls;
    bool faultmode;
    unsigned walks;
    const char *opname;
    char what[200];
    int touched;                        /* dictionary changed by the current operation, or -1 */
};

static uint8_t valbuf[65536 + 16];

#define R(...) do { if (c->render) vp_render(c->rep, __VA_ARGS__); } while (0)
/* allocation fault injection (engine/faultmalloc.h): in a share of the cases the n-th allocation inside an operation is refused.
 * The operation may then report an error -- a set leaves the dictionary as it was, an import leaves every attribute either as it was
 * or as the source has it -- but whatever reports success must have taken effect completely. */
#define FAULTED() (vp_fault_refused() > 0)
#define FAILK(oracle, ...) do { if (!c->ret) { char k_[96]; snprintf(k_, sizeof k_, "C10/%s/%s", oracle, c->opname); \
                                c->ret = vp_fail(c->rep, k_, __VA_ARGS__); } } while (0)
#define CLS(b) (c->cls |= 1ull << (b))

/* ------------------------------------------------------------------ keys */
static bool key_is_sh(int k) { return k >= NNAMED; }
static enum udict_type key_type(int k) { return key_is_sh(k) ? (enum udict_type)(UDICT_TYPE_SHORTHAND + 1 + (k - NNAMED)) : (enum udict_type)(1 + k / NN); }
static const char *key_name(int k) { return key_is_sh(k) ? NULL : names[k % NN]; }
static int key_base(struct ctx *c, int k) { return key_is_sh(k) ? c->sh_base[k - NNAMED] : 1 + k / NN; }
static bool base_var(int b) { return b == UDICT_TYPE_OPAQUE || b == UDICT_TYPE_STRING; }
static const size_t fixed_size[NBASE + 1] = { 0, 0, 0, 0, 1, 1, 1, 8, 8, 16, 8 };

static const char *key_str(struct ctx *c, int k)
{
    static char buf[4][96]; static int rot;
    char *b = buf[rot++ & 3];
    if (key_is_sh(k)) snprintf(b, 96, "(%s shorthand %s)", base_str[key_base(c, k)], sh_doc[k - NNAMED]);
    else if (namelen[k % NN] > 20) snprintf(b, 96, "(%s \"%.8s...\"[%zu chars])", base_str[1 + k / NN], names[k % NN], namelen[k % NN]);
    else snprintf(b, 96, "(%s \"%s\")", base_str[1 + k / NN], names[k % NN]);
    return b;
}
static int name_index(const char *s) { for (int i = 0; i < NN; i++) if (!strcmp(names[i], s)) return i; return -1; }
static int key_lookup(enum udict_type type, const char *name)
{
    if (type > UDICT_TYPE_SHORTHAND) {
        int s = (int)type - UDICT_TYPE_SHORTHAND - 1;
        return (s < NSH && name == NULL) ? NNAMED + s : -1;
    }
    if (type < 1 || type > NBASE || name == NULL) return -1;
    int n = name_index(name);
    return n < 0 ? -1 : ((int)type - 1) * NN + n;
}
static size_t key_maxpayload(struct ctx *c, int k)
{
    if (!base_var(key_base(c, k))) return fixed_size[key_base(c, k)];
    return key_is_sh(k) ? 65535 : 65535 - namelen[k % NN] - 1;
}
/* octets one attribute takes in the inline storage (generator bias / classification only) */
static size_t key_hdr(struct ctx *c, int k)
{
    if (!key_is_sh(k)) return 3 + namelen[k % NN] + 1;
    return base_var(key_base(c, k)) ? 3 : 1;
}
static void watch1(struct ctx *c, int k) { if (k >= 0 && k < NKEYS) c->watched[k] = 1; }
static void watch(struct ctx *c, int k)
{
    watch1(c, k);
    if (key_is_sh(k)) {
        int n = name_index(sh_doc[k - NNAMED]);
        if (n >= 0) watch1(c, (key_base(c, k) - 1) * NN + n);   /* the named attribute of the same name and type */
        watch1(c, k > NNAMED ? k - 1 : k + 1);
    } else {
        int t = k / NN, n = k % NN;
        watch1(c, ((t + 1) % NBASE) * NN + n);                   /* same name, other types */
        watch1(c, ((t + NBASE - 1) % NBASE) * NN + n);
        watch1(c, t * NN + (n + 1) % NN);                        /* same type, prefix neighbours */
        watch1(c, t * NN + (n + NN - 1) % NN);
        for (int s = 0; s < NSH; s++)
            if (!strcmp(sh_doc[s], names[n]) && c->sh_base[s] == t + 1) watch1(c, NNAMED + s);
    }
}
static void use_key(struct ctx *c, int k)
{
    watch(c, k);
    for (int i = 0; i < c->nused; i++) if (c->used[i] == k) return;
    if (c->nused < MAXUSED) c->used[c->nused++] = k;
}

/* ------------------------------------------------------------------ model */
static void m_del(struct mdict *m, int k)
{
    if (!m->e[k].present) return;
    free(m->e[k].v); m->e[k].v = NULL; m->e[k].size = 0; m->e[k].present = false; m->npresent--;
}
static void m_set(struct mdict *m, int k, const uint8_t *v, size_t n)
{
    uint8_t *nv = n ? malloc(n) : NULL;
    if (n) memcpy(nv, v, n);
    if (m->e[k].present) free(m->e[k].v); else m->npresent++;
    m->e[k].v = nv; m->e[k].size = n; m->e[k].present = true;
}
static void m_clear(struct mdict *m) { for (int k = 0; k < NKEYS; k++) m_del(m, k); m->norder = 0; }
static void m_copy(struct mdict *dst, const struct mdict *src)
{
    m_clear(dst);
    for (int k = 0; k < NKEYS; k++) if (src->e[k].present) m_set(dst, k, src->e[k].v, src->e[k].size);
}
static bool mv_eq(const struct mval *a, const struct mval *b)
{ return a->present == b->present && (!a->present || (a->size == b->size && (!a->size || !memcmp(a->v, b->v, a->size)))); }
static bool m_equal(const struct mdict *a, const struct mdict *b)
{ for (int k = 0; k < NKEYS; k++) if (!mv_eq(&a->e[k], &b->e[k])) return false; return true; }
static size_t m_used(struct ctx *c, const struct mdict *m)
{
    size_t u = 1;
    for (int k = 0; k < NKEYS; k++) if (m->e[k].present) u += key_hdr(c, k) + m->e[k].size;
    return u;
}

/* ------------------------------------------------------------------ the real thing */
static int real_set(struct ctx *c, struct udict *d, int k, const uint8_t *v, size_t n)
{
    enum udict_type type = key_type(k); const char *name = key_name(k);
    switch (key_base(c, k)) {
    case UDICT_TYPE_OPAQUE: { struct udict_opaque o; o.v = v; o.size = n; return udict_set_opaque(d, o, type, name); }
    case UDICT_TYPE_STRING: return udict_set_string(d, (const char *)v, type, name);
    case UDICT_TYPE_VOID: return udict_set_void(d, NULL, type, name);
    case UDICT_TYPE_BOOL: return udict_set_bool(d, v[0] != 0, type, name);
    case UDICT_TYPE_SMALL_UNSIGNED: return udict_set_small_unsigned(d, v[0], type, name);
    case UDICT_TYPE_SMALL_INT: return udict_set_small_int(d, (int8_t)v[0], type, name);
    case UDICT_TYPE_UNSIGNED: { uint64_t u; memcpy(&u, v, 8); return udict_set_unsigned(d, u, type, name); }
    case UDICT_TYPE_INT: { int64_t i; memcpy(&i, v, 8); return udict_set_int(d, i, type, name); }
    case UDICT_TYPE_RATIONAL: { struct urational r; memcpy(&r.num, v, 8); memcpy(&r.den, v + 8, 8); return udict_set_rational(d, r, type, name); }
    default: { double f; memcpy(&f, v, 8); return udict_set_float(d, f, type, name); }
    }
}

/* typed lookup; scalars are converted to the model representation in got[] */
static int real_get(struct ctx *c, struct udict *d, int k, uint8_t got[16], const uint8_t **gp, size_t *gn)
{
    enum udict_type type = key_type(k); const char *name = key_name(k);
    int err;
    *gp = got; *gn = 0;
    switch (key_base(c, k)) {
    case UDICT_TYPE_OPAQUE: { struct udict_opaque o; o.v = NULL; o.size = 0; err = udict_get_opaque(d, &o, type, name);
                              if (ubase_check(err)) { *gp = o.v; *gn = o.size; } break; }
    case UDICT_TYPE_STRING: { const char *s = NULL; err = udict_get_string(d, &s, type, name);
                              if (ubase_check(err) && s) { *gp = (const uint8_t *)s; *gn = strlen(s) + 1; } break; }
    case UDICT_TYPE_VOID: err = udict_get_void(d, NULL, type, name); break;
    case UDICT_TYPE_BOOL: { bool b = false; err = udict_get_bool(d, &b, type, name); got[0] = b; *gn = 1; break; }
    case UDICT_TYPE_SMALL_UNSIGNED: { uint8_t u = 0; err = udict_get_small_unsigned(d, &u, type, name); got[0] = u; *gn = 1; break; }
    case UDICT_TYPE_SMALL_INT: { int8_t i = 0; err = udict_get_small_int(d, &i, type, name); got[0] = (uint8_t)i; *gn = 1; break; }
    case UDICT_TYPE_UNSIGNED: { uint64_t u = 0; err = udict_get_unsigned(d, &u, type, name); memcpy(got, &u, 8); *gn = 8; break; }
    case UDICT_TYPE_INT: { int64_t i = 0; err = udict_get_int(d, &i, type, name); memcpy(got, &i, 8); *gn = 8; break; }
    case UDICT_TYPE_RATIONAL: { struct urational r; r.num = 0; r.den = 0; err = udict_get_rational(d, &r, type, name);
                                memcpy(got, &r.num, 8); memcpy(got + 8, &r.den, 8); *gn = 16; break; }
    default: { double f = 0; err = udict_get_float(d, &f, type, name); memcpy(got, &f, 8); *gn = 8; break; }
    }
    return err;
}

static void val_str(char *out, size_t cap, struct ctx *c, int k, const uint8_t *v, size_t n)
{
    int b = key_base(c, k);
    if (b == UDICT_TYPE_UNSIGNED) { uint64_t u; memcpy(&u, v, 8); snprintf(out, cap, "%" PRIu64, u); }
    else if (b == UDICT_TYPE_INT) { int64_t i; memcpy(&i, v, 8); snprintf(out, cap, "%" PRId64, i); }
    else if (b == UDICT_TYPE_RATIONAL) { int64_t i; uint64_t u; memcpy(&i, v, 8); memcpy(&u, v + 8, 8); snprintf(out, cap, "%" PRId64 "/%" PRIu64, i, u); }
    else if (b == UDICT_TYPE_FLOAT) { uint64_t u; double f; memcpy(&u, v, 8); memcpy(&f, v, 8); snprintf(out, cap, "%g [bits %016" PRIx64 "]", f, u); }
    else if (b == UDICT_TYPE_SMALL_INT) snprintf(out, cap, "%d", (int8_t)v[0]);
    else if (b == UDICT_TYPE_VOID) snprintf(out, cap, "(void)");
    else if (!base_var(b)) snprintf(out, cap, "%u", v[0]);
    else {
        int o = snprintf(out, cap, "%zu octets", n);
        for (size_t i = 0; i < n && i < 6 && (size_t)o + 4 < cap; i++) o += snprintf(out + o, cap - o, " %02x", v[i]);
        if (n > 6 && (size_t)o + 4 < cap) snprintf(out + o, cap - o, " ..");
    }
}

static void check_key(struct ctx *c, int di, int k)
{
    struct mdict *m = &c->md[di]; struct mval *e = &m->e[k];
    uint8_t got[16]; const uint8_t *gp; size_t gn;
    int err = real_get(c, m->d, k, got, &gp, &gn);
    if (!e->present) {
        if (ubase_check(err)) FAILK("lookup-absent", "after %s: d%d lookup of %s succeeds, but that attribute was never set or was deleted", c->what, di, key_str(c, k));
        return;
    }
    if (!ubase_check(err)) { FAILK("lookup-present", "after %s: d%d lookup of %s fails (error %d) although it was set to a value of %zu octets", c->what, di, key_str(c, k), err, e->size); return; }
    if (gn != e->size) { FAILK("lookup-size", "after %s: d%d %s has size %zu, last stored value has size %zu", c->what, di, key_str(c, k), gn, e->size); return; }
    if (gn && memcmp(gp, e->v, gn)) {
        size_t i = 0; while (gp[i] == e->v[i]) i++;
        char a[80], b[80]; val_str(a, sizeof a, c, k, gp, gn); val_str(b, sizeof b, c, k, e->v, gn);
        FAILK("lookup-value", "after %s: d%d %s reads %s, last stored %s (first difference at octet %zu: %02x vs %02x)", c->what, di, key_str(c, k), a, b, i, gp[i], e->v[i]);
    }
}

static void check_dict(struct ctx *c, int di)
{
    struct mdict *m = &c->md[di];
    if (!m->d || c->ret) return;
    for (int k = 0; k < NKEYS && !c->ret; k++) if (c->watched[k] || m->e[k].present) check_key(c, di, k);
    if (c->ret) return;
    static uint8_t seen[NKEYS];
    memset(seen, 0, sizeof seen);
    const char *name = NULL; enum udict_type type = UDICT_TYPE_END;
    int n = 0;
    for (;;) {
        int err = udict_iterate(m->d, &name, &type);
        if (!ubase_check(err)) { FAILK("iterate-error", "after %s: d%d udict_iterate returns error %d", c->what, di, err); return; }
        if (type == UDICT_TYPE_END) break;
        int k = key_lookup(type, name);
        if (k < 0) { FAILK("iterate-unknown", "after %s: d%d iteration yields type %d name %.40s which was never stored", c->what, di, (int)type, name ? name : "(null)"); return; }
        if (seen[k]) { FAILK("iterate-twice", "after %s: d%d iteration visits %s twice", c->what, di, key_str(c, k)); return; }
        seen[k] = 1;
        if (!m->e[k].present) { FAILK("iterate-absent", "after %s: d%d iteration visits %s, which is not present", c->what, di, key_str(c, k)); return; }
        m->order[n++] = k;
        /* "finds an attribute of the given name and type and returns the next one": the cursor is a name, not a pointer into the
         * dictionary -- every other walk hands back an equal string held elsewhere */
        if (name != NULL && ((c->walks + n) & 1)) {
            static char namecopy[2][512];
            char *dst = namecopy[n & 1];
            snprintf(dst, 512, "%s", name);
            name = dst;
            CLS(CL_ITER_COPY);
        }
    }
    c->walks++;
    if (n != m->npresent) {
        int miss = -1; for (int k = 0; k < NKEYS; k++) if (m->e[k].present && !seen[k]) { miss = k; break; }
        FAILK("iterate-missing", "after %s: d%d iteration visits %d attributes, %d are present (e.g. %s not visited)", c->what, di, n, m->npresent, miss >= 0 ? key_str(c, miss) : "?");
        return;
    }
    m->norder = n;
    /* refresh the storage size for the generator (any attribute's value pointer lies in the area) */
    if (n) {
        int k = m->order[0]; size_t sz; const uint8_t *p = NULL; size_t asz;
        if (ubase_check(udict_get(m->d, key_name(k), key_type(k), &sz, &p)) && p && umem_count_lookup(c->umem, p, NULL, &asz)) m->cap = asz;
    }
}
static void check_all(struct ctx *c) { for (int i = 0; i < MAXD; i++) check_dict(c, i); }

/* ------------------------------------------------------------------ slots */
static int nlive(struct ctx *c) { int n = 0; for (int i = 0; i < MAXD; i++) if (c->md[i].d) n++; return n; }
static void release(struct ctx *c, int i) { if (c->md[i].d) { udict_free(c->md[i].d); c->md[i].d = NULL; } m_clear(&c->md[i]); c->md[i].from_dup = false; c->md[i].peer = -1; }
static int do_alloc(struct ctx *c, int slot, size_t size)
{
    struct mdict *m = &c->md[slot];
    release(c, slot);
    m->d = udict_alloc(c->mgr, size);
    if (!m->d) { if (FAULTED()) return -1; FAILK("alloc", "udict_alloc(%zu) fails", size); return -1; }
    m->cap = size > (size_t)c->min_eff ? size : (size_t)c->min_eff;
    return 0;
}
static int pick_live(struct ctx *c)
{
    int live[MAXD], n = 0;
    for (int i = 0; i < MAXD; i++) if (c->md[i].d) live[n++] = i;
    if (!n) { R("  d0 = alloc(0)\n"); if (do_alloc(c, 0, 0) < 0) return -1; return 0; }
    return live[tp_pick(&c->t, n)];
}
/* a slot for a new dictionary: a free one, else the tape picks a victim different from keep */
static int pick_slot(struct ctx *c, int keep)
{
    for (int i = 0; i < MAXD; i++) if (!c->md[i].d) return i;
    int v = tp_pick(&c->t, MAXD - 1);
    if (v >= keep) v++;
    R("  free(d%d)\n", v);
    release(c, v);
    return v;
}

/* ------------------------------------------------------------------ generator pieces */
static uint8_t pat_byte(struct ctx *c, bool str)
{
    c->pat = c->pat * 1103515245u + 12345u;
    uint8_t b = c->pat >> 16;
    if (str) return b ? b : 'z';
    return (b & 0xc0) ? b : (b & 0x1f);          /* many octets that look like type codes / END */
}

static int pick_key(struct ctx *c)
{
    static const uint8_t tt[16] = { UDICT_TYPE_OPAQUE, UDICT_TYPE_STRING, UDICT_TYPE_OPAQUE, UDICT_TYPE_STRING, UDICT_TYPE_VOID,
        UDICT_TYPE_BOOL, UDICT_TYPE_SMALL_UNSIGNED, UDICT_TYPE_SMALL_INT, UDICT_TYPE_UNSIGNED, UDICT_TYPE_INT, UDICT_TYPE_RATIONAL,
        UDICT_TYPE_FLOAT, UDICT_TYPE_OPAQUE, UDICT_TYPE_STRING, UDICT_TYPE_UNSIGNED, UDICT_TYPE_VOID };
    uint8_t sel = tp_u8(&c->t);
    int t = tt[(sel >> 2) & 15];
    switch (sel & 3) {
    case 0: case 1:
        if (c->nused) return c->used[tp_pick(&c->t, c->nused)];
        /* fallthrough */
    case 2: {
        int var = sel >> 6;
        if (var && c->nused) {           /* derived from a key already used: neighbour name, or same name other type */
            int u = c->used[tp_pick(&c->t, c->nused)];
            if (key_is_sh(u)) {
                int n = name_index(sh_doc[u - NNAMED]);
                if (n >= 0) return (key_base(c, u) - 1) * NN + n;
            } else {
                int ut = u / NN, un = u % NN;
                if (var == 1) return ut * NN + (un + 1) % NN;
                if (var == 2) return ut * NN + (un + NN - 1) % NN;
                if (t - 1 != ut) return (t - 1) * NN + un;
                for (int s = 0; s < NSH; s++) if (!strcmp(sh_doc[s], names[un]) && c->sh_base[s] == ut + 1) return NNAMED + s;
            }
        }
        return (t - 1) * NN + tp_u8(&c->t) % NN; }
    default: {
        int s = (sel >> 2) % 56;
        if (s >= NSH) s = c->sh_var[(s - NSH) % c->nsh_var];
        return NNAMED + s; }
    }
}

/* fills valbuf with a value for key k of dictionary di; returns its size */
static size_t gen_value(struct ctx *c, int di, int k)
{
    struct mdict *m = &c->md[di];
    int b = key_base(c, k);
    uint8_t sel = tp_u8(&c->t);
    memset(valbuf, 0, 16);
    if (base_var(b)) {
        bool str = b == UDICT_TYPE_STRING;
        long maxp = key_maxpayload(c, k);
        long cur = m->e[k].present ? (long)m->e[k].size : 3;
        long hdr = key_hdr(c, k);
        long used = (long)m_used(c, m) - (m->e[k].present ? hdr + (long)m->e[k].size : 0);
        long fit = (long)m->cap - 1 - used - hdr;          /* largest value that needs no reallocation */
        long n;
        switch (sel & 15) {
        case 0: n = 0; break;
        case 1: n = 1; break;
        case 2: n = 2; break;
        case 3: n = cur; break;
        case 4: n = cur + 1; break;
        case 5: n = cur - 1; break;
        case 6: n = fit; break;
        case 7: n = fit + 1; break;
        case 8: n = fit - 1 + 3 * ((sel >> 4) & 1); break;
        case 9: n = 255 - (key_is_sh(k) ? 0 : hdr - 3) - 1 + (sel >> 4) % 3; break;     /* TLV size field 254..256 */
        case 10: n = (sel >> 6) ? 4095 + (sel >> 4) % 3 : 300 + (sel >> 4) % 3; break;
        case 11: n = (sel >> 6) == 3 ? maxp - ((sel >> 4) & 1) : 64 + (sel >> 4); break;
        case 12: n = tp_u8(&c->t) % 41; break;
        case 13: n = tp_u16(&c->t) % 701; break;
        case 14: n = (sel >> 6) == 3 ? tp_u16(&c->t) : tp_u8(&c->t) % 100; break;
        default: n = 8 + (sel >> 4); break;
        }
        if (n < 0) n = 0;
        if (n > maxp) n = maxp;
        if (str && n == 0) n = 1;
        c->pat = c->pat * 31 + sel + (unsigned)n;
        for (long i = 0; i < n; i++) valbuf[i] = pat_byte(c, str);
        if (str) valbuf[n - 1] = 0;
        if (n >= 4096) CLS(CL_BIG);
        if (n == maxp) CLS(CL_MAXSZ);
        if (n == fit) CLS(CL_EXACTFIT);
        if (!str && n == 0) CLS(CL_SIZE0);
        if (n + (key_is_sh(k) ? 0 : hdr - 3) > 255) CLS(CL_SIZE_BYTE);
        return n;
    }
    uint64_t u; int64_t i;
    switch (b) {
    case UDICT_TYPE_VOID: return 0;
    case UDICT_TYPE_BOOL: valbuf[0] = sel & 1; return 1;
    case UDICT_TYPE_SMALL_UNSIGNED: { static const uint8_t v[] = { 0, 1, 127, 128, 255 }; valbuf[0] = (sel % 8) < 5 ? v[sel % 8] : tp_u8(&c->t); return 1; }
    case UDICT_TYPE_SMALL_INT: { static const int8_t v[] = { 0, 1, -1, 127, -128 }; valbuf[0] = (sel % 8) < 5 ? (uint8_t)v[sel % 8] : tp_u8(&c->t); return 1; }
    case UDICT_TYPE_UNSIGNED: case UDICT_TYPE_INT: case UDICT_TYPE_RATIONAL:
        switch (sel % 10) {
        case 0: u = 0; break;
        case 1: u = 1; break;
        case 2: u = b == UDICT_TYPE_UNSIGNED ? UINT64_MAX : (uint64_t)INT64_MAX; break;
        case 3: u = b == UDICT_TYPE_UNSIGNED ? (uint64_t)1 << 63 : (uint64_t)(INT64_MIN + 1); break;
        case 4: u = (uint64_t)1 << 32; break;
        case 5: u = b == UDICT_TYPE_UNSIGNED ? 0xffffffffu : (uint64_t)(int64_t)-1; break;
        case 6: u = tp_u8(&c->t); break;
        case 7: u = b == UDICT_TYPE_UNSIGNED ? ((uint64_t)1 << 32) + tp_u8(&c->t) : (uint64_t)-(int64_t)tp_u8(&c->t); break;
        case 8: u = b == UDICT_TYPE_UNSIGNED ? 0x0102030405060708ULL : (uint64_t)-(int64_t)0x0102030405060708LL; break;
        default: u = tp_u64(&c->t); break;
        }
        if (b != UDICT_TYPE_UNSIGNED) { i = (int64_t)u; if (i == INT64_MIN) i = INT64_MIN + 1; if (i < 0) CLS(CL_NEG_INT); memcpy(valbuf, &i, 8); }
        else memcpy(valbuf, &u, 8);
        if (b == UDICT_TYPE_RATIONAL) {
            static const uint64_t dens[] = { 1, 0, 1001, UINT64_MAX, (uint64_t)1 << 63, 90000 };
            uint8_t s2 = tp_u8(&c->t);
            u = (s2 % 8) < 6 ? dens[s2 % 8] : tp_u64(&c->t);
            memcpy(valbuf + 8, &u, 8);
            return 16;
        }
        return 8;
    default: {      /* float: the model keeps the IEEE bits; signalling NaNs are not generated */
        static const uint64_t fb[] = { 0, 0x8000000000000000ULL, 0x3ff0000000000000ULL, 0xbff8000000000000ULL, 0x3fd0000000000000ULL,
            0x7ff0000000000000ULL, 0xfff0000000000000ULL, 0x7ff8000000000000ULL, 0xfff8000000000123ULL, 1, 0x7fefffffffffffffULL };
        u = (sel % 12) < 11 ? fb[sel % 12] : tp_u64(&c->t);
        if ((u & 0x7ff0000000000000ULL) == 0x7ff0000000000000ULL && (u & 0x000fffffffffffffULL)) u |= 0x0008000000000000ULL;
        if ((sel % 12) == 1 || ((sel % 12) >= 5 && (sel % 12) <= 9)) CLS(CL_FLOAT_SPECIAL);
        memcpy(valbuf, &u, 8);
        return 8; }
    }
}

static void hash_val(struct ctx *c, int k, size_t n)
{
    c->hash = vp_hash_mix(c->hash, (uint64_t)k << 20 | n);
    c->hash = vp_hash_bytes(c->hash, valbuf, n < 24 ? n : 24);
}

/* classification of the dictionary's key set after a successful set */
static void classify_keys(struct ctx *c, struct mdict *m, int k)
{
    if (key_is_sh(k)) { CLS(base_var(key_base(c, k)) ? CL_SH_VAR : CL_SH_FIXED); return; }
    int t = k / NN, n = k % NN;
    for (int s = 0; s < NSH; s++) if (!strcmp(sh_doc[s], names[n])) CLS(CL_NAMED_SHNAME);
    for (int j = 0; j < NN; j++) {
        if (j == n || !m->e[t * NN + j].present) continue;
        size_t a = namelen[j], b = namelen[n];
        if (!strncmp(names[j], names[n], a < b ? a : b)) CLS(CL_PREFIX);
    }
    for (int tt = 0; tt < NBASE; tt++) if (tt != t && m->e[tt * NN + n].present) CLS(CL_TYPECONF);
}

/* ------------------------------------------------------------------ operations */
static void after_store(struct ctx *c, struct mdict *m, int k, bool was, size_t old, size_t n, unsigned long re0)
{
    if (was && base_var(key_base(c, k))) CLS(old != n ? CL_REPL_DIFF : CL_REPL_SAME);
    if (umem_count_stats(c->umem)->reallocs != re0) CLS(CL_GREW);
    if (m->from_dup) CLS(CL_DUP_THEN_MUT);
    classify_keys(c, m, k);
}

static void op_set(struct ctx *c)
{
    c->opname = "set";
    int di = pick_live(c); if (di < 0) return;
    struct mdict *m = &c->md[di];
    c->touched = di;
    int k = pick_key(c);
    use_key(c, k);
    size_t n = gen_value(c, di, k);
    hash_val(c, k, n);
    bool was = m->e[k].present; size_t old = m->e[k].size;
    unsigned long re0 = umem_count_stats(c->umem)->reallocs;
    char vs[80]; val_str(vs, sizeof vs, c, k, valbuf, n);
    /* small opaque values sometimes go through the hexadecimal-string setter (two digits per octet, either case) */
    bool hex = key_base(c, k) == UDICT_TYPE_OPAQUE && n >= 1 && n <= 48 && ((n + valbuf[0]) & 3) == 1;
    snprintf(c->what, sizeof c->what, "d%d.set%s%s = %s", di, hex ? "_from_hex" : "", key_str(c, k), vs);
    int err;
    if (hex) {
        char hx[100];
        for (size_t i = 0; i < n; i++) snprintf(hx + 2 * i, 3, (i & 1) ? "%02X" : "%02x", valbuf[i]);
        err = udict_set_opaque_from_hex(m->d, hx, key_type(k), key_name(k));
    } else err = real_set(c, m->d, k, valbuf, n);
    R("  %s -> %d%s\n", c->what, err, was ? (old != n ? " [replaces, other size]" : " [replaces]") : "");
    if (!ubase_check(err)) { if (FAULTED()) { CLS(CL_FAULT_FAILED); return; } FAILK("set-refused", "%s returns error %d inside the documented domain", c->what, err); return; }
    m_set(m, k, valbuf, n);
    after_store(c, m, k, was, old, n, re0);
}

static void op_delete(struct ctx *c)
{
    c->opname = "delete";
    int di = pick_live(c); if (di < 0) return;
    struct mdict *m = &c->md[di];
    c->touched = di;
    uint8_t sel = tp_u8(&c->t);
    int k;
    if ((sel & 3) != 3 && m->norder > 0) {
        /* a present attribute, biased to the first / middle ones */
        int pos = (sel >> 2) % 4 == 0 ? 0 : (sel >> 2) % 4 == 1 ? m->norder - 1 : (int)tp_pick(&c->t, m->norder);
        k = m->order[pos];
        if (!m->e[k].present) k = pick_key(c);
    } else k = pick_key(c);
    watch(c, k);
    c->hash = vp_hash_mix(c->hash, k);
    bool was = m->e[k].present;
    bool notlast = was && m->norder > 0 && m->order[m->norder - 1] != k;
    snprintf(c->what, sizeof c->what, "d%d.delete%s", di, key_str(c, k));
    int err = udict_delete(m->d, key_type(k), key_name(k));
    R("  %s -> %d%s\n", c->what, err, was ? (notlast ? " [present, not last]" : " [present]") : " [absent]");
    if (was) {
        if (!ubase_check(err)) { FAILK("delete-refused", "%s returns error %d although the attribute is present", c->what, err); return; }
        m_del(m, k);
        if (notlast) CLS(CL_DEL_NOTLAST);
        if (m->from_dup) CLS(CL_DUP_THEN_MUT);
    } else {
        if (ubase_check(err)) { FAILK("delete-absent", "%s succeeds although the attribute is absent", c->what); return; }
        CLS(CL_DEL_ABSENT);
    }
}

/* set whose source points into the dictionary's own storage */
static void op_alias(struct ctx *c)
{
    c->opname = "alias";
    int di = pick_live(c); if (di < 0) return;
    struct mdict *m = &c->md[di];
    c->touched = di;
    int src[NKEYS], ns = 0;
    for (int k = 0; k < NKEYS; k++) if (m->e[k].present && base_var(key_base(c, k)) && m->e[k].size >= 1) src[ns++] = k;
    if (!ns) { op_set(c); return; }
    int a = src[tp_pick(&c->t, ns)];
    bool a_str = key_base(c, a) == UDICT_TYPE_STRING;
    uint8_t sel = tp_u8(&c->t);
    bool t_str = a_str && (sel & 3) != 3;
    int want = t_str ? UDICT_TYPE_STRING : UDICT_TYPE_OPAQUE;
    int k = -1;
    switch ((sel >> 2) & 3) {
    case 0: case 1: if (key_base(c, a) == want) { k = a; break; }
        /* fallthrough */
    case 2: { int cand[NKEYS], nc = 0;
        for (int j = 0; j < NKEYS; j++) if (j != a && m->e[j].present && key_base(c, j) == want) cand[nc++] = j;
        if (nc) { k = cand[tp_pick(&c->t, nc)]; break; } }
        /* fallthrough */
    default: {
        uint8_t s2 = tp_u8(&c->t);
        if (s2 & 1) k = (want - 1) * NN + (s2 >> 1) % NN;
        else k = NNAMED + (t_str ? c->sh_str[(s2 >> 1) % c->nsh_str] : c->sh_opq[(s2 >> 1) % c->nsh_opq]);
        break; }
    }
    use_key(c, k);
    size_t asz = m->e[a].size;
    uint8_t s3 = tp_u8(&c->t);
    size_t off, len;
    switch (s3 & 7) {
    case 0: off = 0; break;
    case 1: off = 1; break;
    case 2: off = asz - 1; break;
    case 3: off = asz / 2; break;
    default: off = tp_range(&c->t, 0, asz - 1); break;
    }
    if (off > asz - 1) off = asz - 1;
    if (t_str) len = asz - off;
    else switch ((s3 >> 3) & 7) {
    case 0: case 1: len = asz - off; break;
    case 2: len = 1; break;
    case 3: len = 0; break;
    case 4: len = (asz - off) / 2; break;
    case 5: len = asz - off - 1; break;
    default: len = tp_range(&c->t, 0, asz - off); break;
    }
    size_t maxp = key_maxpayload(c, k);
    if (len > maxp) { if (t_str) off += len - maxp; len = maxp; }
    /* the pointer a caller would hold */
    const uint8_t *p = NULL; int err;
    if (a_str) { const char *s = NULL; err = udict_get_string(m->d, &s, key_type(a), key_name(a)); p = (const uint8_t *)s; }
    else { struct udict_opaque o; o.v = NULL; o.size = 0; err = udict_get_opaque(m->d, &o, key_type(a), key_name(a)); p = o.v; }
    if (!ubase_check(err) || !p) { snprintf(c->what, sizeof c->what, "get of the source"); FAILK("lookup-present", "d%d lookup of %s fails although it is present", di, key_str(c, a)); return; }
    memcpy(valbuf, m->e[a].v + off, len);
    hash_val(c, k, len);
    c->hash = vp_hash_mix(c->hash, (uint64_t)a << 32 | off);
    bool was = m->e[k].present; size_t old = m->e[k].size;
    unsigned long re0 = umem_count_stats(c->umem)->reallocs;
    snprintf(c->what, sizeof c->what, "d%d.set%s = %s value of %s at [%zu,+%zu) (pointer into d%d itself)", di, key_str(c, k), t_str ? "string" : "opaque", key_str(c, a), off, len, di);
    if (t_str) err = udict_set_string(m->d, (const char *)p + off, key_type(k), key_name(k));
    else { struct udict_opaque o; o.v = p + off; o.size = len; err = udict_set_opaque(m->d, o, key_type(k), key_name(k)); }
    R("  %s -> %d%s\n", c->what, err, was ? (old != len ? " [replaces, other size]" : " [replaces]") : "");
    if (!ubase_check(err)) { if (FAULTED()) { CLS(CL_FAULT_FAILED); return; } FAILK("set-refused", "%s returns error %d", c->what, err); return; }
    m_set(m, k, valbuf, len);
    CLS(CL_ALIAS);
    if (k == a && old != len) CLS(CL_ALIAS_SELF);
    if (k != a && was && old != len) CLS(CL_ALIAS_MOVED);
    if (umem_count_stats(c->umem)->reallocs != re0) CLS(CL_ALIAS_REALLOC);
    after_store(c, m, k, was, old, len, re0);
}

static void cmp_check(struct ctx *c, int a, int b, bool classify)
{
    struct mdict *ma = &c->md[a], *mb = &c->md[b];
    bool eq = m_equal(ma, mb);
    int r = udict_cmp(ma->d, mb->d);
    R("    udict_cmp(d%d,d%d) -> %d (models %s)\n", a, b, r, eq ? "equal" : "differ");
    if ((r == 0) != eq) {
        int dk = -1; for (int k = 0; k < NKEYS; k++) if (!mv_eq(&ma->e[k], &mb->e[k])) { dk = k; break; }
        FAILK("cmp", "after %s: udict_cmp(d%d,d%d) = %d but the dictionaries %s%s", c->what, a, b, r,
              eq ? "hold the same attributes with the same values" : "differ, e.g. in ", eq ? "" : key_str(c, dk));
        return;
    }
    if (!classify) return;
    if (eq) { if (a != b && ma->npresent) CLS(CL_CMP_EQ); return; }
    int onlya = 0, onlyb = 0, valdiff = 0;
    for (int k = 0; k < NKEYS; k++) {
        if (ma->e[k].present && !mb->e[k].present) onlya++;
        else if (!ma->e[k].present && mb->e[k].present) onlyb++;
        else if (!mv_eq(&ma->e[k], &mb->e[k])) valdiff++;
    }
    if (!onlya && !onlyb && valdiff == 1) CLS(CL_CMP_VALUE);
    else if (!valdiff && (!onlya || !onlyb)) CLS(CL_CMP_SUBSET);
    else CLS(CL_CMP_OTHER);
}

static void op_dupcopy(struct ctx *c, bool copy)
{
    c->opname = copy ? "copy" : "dup";
    int s = pick_live(c); if (s < 0) return;
    int slot = pick_slot(c, s);
    struct mdict *m = &c->md[slot];
    snprintf(c->what, sizeof c->what, "d%d = %s(d%d)", slot, copy ? "udict_copy" : "udict_dup", s);
    m->d = copy ? udict_copy(c->mgr, c->md[s].d) : udict_dup(c->md[s].d);
    R("  %s -> %s\n", c->what, m->d ? "ok" : "NULL");
    c->hash = vp_hash_mix(c->hash, s * 8 + slot);
    if (!m->d) { if (FAULTED()) { CLS(CL_FAULT_FAILED); return; } FAILK("dup-refused", "%s fails", c->what); return; }
    m_copy(m, &c->md[s]);
    m->cap = m_used(c, m) > (size_t)c->min_eff ? m_used(c, m) : (size_t)c->min_eff;
    m->from_dup = c->md[s].from_dup = true;
    m->peer = s; c->md[s].peer = slot;
    c->touched = slot;
    CLS(copy ? CL_COPY : CL_DUP);
}

static void op_import(struct ctx *c)
{
    c->opname = "import";
    if (nlive(c) < 2) { int s = pick_slot(c, -1); R("  d%d = alloc(0)\n", s); if (do_alloc(c, s, 0) < 0) return; if (nlive(c) < 2) return; }
    int dst = pick_live(c), src = pick_live(c);
    if (dst < 0 || src < 0) return;
    if (dst == src) { for (int i = 1; i < MAXD; i++) if (c->md[(dst + i) % MAXD].d) { src = (dst + i) % MAXD; break; } }
    if (dst == src) return;
    struct mdict *md = &c->md[dst], *ms = &c->md[src];
    c->touched = dst;
    unsigned long re0 = umem_count_stats(c->umem)->reallocs;
    snprintf(c->what, sizeof c->what, "udict_import(d%d <- d%d)", dst, src);
    c->hash = vp_hash_mix(c->hash, dst * 8 + src);
    int err = udict_import(md->d, ms->d);
    R("  %s -> %d\n", c->what, err);
    if (!ubase_check(err)) {
        if (!FAULTED()) { FAILK("import-refused", "%s returns error %d", c->what, err); return; }
        /* a refused allocation stopped the import: every attribute of the source is in the destination either as the source
         * has it (imported before the failure) or as it was; check_all then compares everything with the model */
        CLS(CL_FAULT_FAILED);
        vp_fault_disarm();
        for (int k = 0; k < NKEYS; k++) if (ms->e[k].present) {
            uint8_t got[16]; const uint8_t *gp; size_t gn;
            if (ubase_check(real_get(c, md->d, k, got, &gp, &gn)) && gn == ms->e[k].size && !memcmp(gp, ms->e[k].v, gn))
                m_set(md, k, ms->e[k].v, ms->e[k].size);
        }
        return;
    }
    for (int k = 0; k < NKEYS; k++) if (ms->e[k].present) {
        if (md->e[k].present) { CLS(CL_IMPORT_OVER); if (md->e[k].size != ms->e[k].size) { CLS(CL_IMPORT_RESIZE); CLS(CL_REPL_DIFF); } }
        m_set(md, k, ms->e[k].v, ms->e[k].size);
    }
    if (umem_count_stats(c->umem)->reallocs != re0) CLS(CL_GREW);
    if (md->from_dup) CLS(CL_DUP_THEN_MUT);
}

static void op_cmp(struct ctx *c)
{
    c->opname = "cmp";
    int a = pick_live(c), b = pick_live(c);
    if (a < 0 || b < 0) return;
    if ((tp_u8(&c->t) & 1) && c->md[a].peer >= 0 && c->md[c->md[a].peer].d) b = c->md[a].peer;
    snprintf(c->what, sizeof c->what, "cmp");
    R("  cmp d%d d%d\n", a, b);
    c->hash = vp_hash_mix(c->hash, a * 8 + b);
    cmp_check(c, a, b, true);
    if (!c->ret && a != b) cmp_check(c, b, a, false);
}

static void op_alloc(struct ctx *c)
{
    c->opname = "alloc";
    static const int sizes[] = { 0, 1, 2, -1, -2, -3, 100, 1000, 70000, 17 };   /* negative: relative to the manager's min_size */
    uint8_t sel = tp_u8(&c->t);
    int s = sizes[sel % 10];
    size_t size = s >= 0 ? (size_t)s : (size_t)(c->min_eff + s + 2);
    int slot = pick_slot(c, -1);
    snprintf(c->what, sizeof c->what, "d%d = udict_alloc(%zu)", slot, size);
    R("  %s\n", c->what);
    c->hash = vp_hash_mix(c->hash, size * 8 + slot);
    if (do_alloc(c, slot, size) == 0) c->touched = slot;
}

static void op_free(struct ctx *c)
{
    c->opname = "free";
    if (nlive(c) == 0) return;
    int a = pick_live(c);
    snprintf(c->what, sizeof c->what, "udict_free(d%d)", a);
    R("  %s\n", c->what);
    c->hash = vp_hash_mix(c->hash, a);
    release(c, a);
}

static void op_probe(struct ctx *c)
{
    c->opname = "probe";
    int k = pick_key(c);
    snprintf(c->what, sizeof c->what, "lookup%s", key_str(c, k));
    R("  %s in every dictionary\n", c->what);
    c->hash = vp_hash_mix(c->hash, k);
    watch(c, k);
}

static int run(const uint8_t *tp_, size_t len, struct vp_report *rep, unsigned flags)
{
    static struct ctx ctx;
    struct ctx *c = &ctx;
    memset(c, 0, sizeof(*c));
    tp_init(&c->t, tp_, len);
    c->rep = rep; c->render = flags & VP_RENDER; c->pat = 2463534242u; c->hash = VP_HASH_INIT; c->opname = "init";
    for (int i = 0; i < MAXD; i++) c->md[i].peer = -1;
    if (!n60[0]) {
        memset(n60, 'n', 60); n60[0] = 'n'; n60[1] = '.';
        for (int i = 0; i < 300; i++) n300[i] = 'a' + i % 26;
        n300[1] = '.';
        memcpy(n300z, n300, 300); n300z[300] = 'z';
        for (int i = 0; i < NN; i++) namelen[i] = strlen(names[i]);
    }

    static const int depths[] = { 0, 1, 4 }, mins[] = { -1, 1, 2, 5, 16, 64, 300, 0 }, extras[] = { -1, 1, 3, 16, 200, 5000, 0, 2 };
    uint8_t cfg = tp_u8(&c->t), cfg2 = tp_u8(&c->t);
    int depth = depths[cfg % 3], minsz = mins[(cfg / 3) % 8], extra = extras[cfg2 % 8];
    c->min_eff = minsz > 0 ? minsz : 128;
    c->hash = vp_hash_mix(c->hash, cfg | cfg2 << 8);
    c->umem = umem_count_mgr_alloc();
    if (!c->umem) return vp_internal(rep, "umem_count_mgr_alloc");
    c->mgr = udict_inline_mgr_alloc(depth, c->umem, minsz, extra);
    if (!c->mgr) { umem_mgr_release(c->umem); return vp_internal(rep, "udict_inline_mgr_alloc"); }
    c->faultmode = cfg >= 216;          /* (216..255 alias other configurations) */
    R("C10 udict_inline manager: pool_depth=%d min_size=%d extra_size=%d%s\n", depth, minsz, extra, c->faultmode ? " [allocation faults]" : "");
    if (depth) CLS(CL_POOL);

    static const int isz[] = { 0, 1, 2, 200, 70000, 129, 7, 64 };
    size_t first = isz[(cfg2 >> 3) % 8];
    R("  d0 = udict_alloc(%zu)\n", first);
    if (do_alloc(c, 0, first) == 0) {
        /* shorthand table: names must be the documented ones; base types drive the typed accessors */
        for (int s = 0; s < NSH && !c->ret; s++) {
            const char *nm = NULL; enum udict_type bt = UDICT_TYPE_END;
            int err = udict_name(c->md[0].d, (enum udict_type)(UDICT_TYPE_SHORTHAND + 1 + s), &nm, &bt);
            if (!ubase_check(err) || !nm || strcmp(nm, sh_doc[s]) || bt < 1 || bt > NBASE) {
                snprintf(c->what, sizeof c->what, "udict_name");
                FAILK("shorthand-name", "udict_name(shorthand %d) -> %d name %s base type %d; documented name %s", s, err, nm ? nm : "(null)", (int)bt, sh_doc[s]);
                break;
            }
            c->sh_base[s] = bt;
            if (base_var(bt)) { c->sh_var[c->nsh_var++] = s; if (bt == UDICT_TYPE_STRING) c->sh_str[c->nsh_str++] = s; else c->sh_opq[c->nsh_opq++] = s; }
        }
        if (!c->ret && (!c->nsh_str || !c->nsh_opq)) { c->ret = vp_internal(rep, "no variable-size shorthand in the table"); }
    }

    int nops = 0;
    while (!tp_done(&c->t) && nops < MAXOPS && !c->ret) {
        nops++;
        uint8_t opb = tp_u8(&c->t), op = opb % 32;
        c->hash = vp_hash_mix(c->hash, op);
        unsigned nth = (c->faultmode && opb >= 128) ? 1 + (opb >> 5) % 4 : 0;
        vp_fault_arm(nth);
        c->what[0] = 0;
        c->touched = -1;
        if (op <= 13) op_set(c);
        else if (op <= 17) op_delete(c);
        else if (op <= 20) op_alias(c);
        else if (op <= 22) op_dupcopy(c, false);
        else if (op == 23) op_dupcopy(c, true);
        else if (op <= 25) op_import(c);
        else if (op <= 27) op_cmp(c);
        else if (op == 28) op_alloc(c);
        else if (op == 29) op_free(c);
        else if (op == 30) op_probe(c);
        else op_set(c);
        vp_fault_disarm();
        if (nth && FAULTED()) { CLS(CL_FAULT); c->hash = vp_hash_mix(c->hash, 0xfa00 + nth); R("    (allocation %u inside the operation was refused)\n", nth); }
        if (nlive(c) >= 3) CLS(CL_MULTI);
        if (!c->ret) check_all(c);
        /* comparison of the changed dictionary with every other one, both argument orders */
        if (c->touched >= 0 && c->md[c->touched].d)
            for (int j = 0; j < MAXD && !c->ret; j++) if (j != c->touched && c->md[j].d) {
                cmp_check(c, c->touched, j, true);
                if (!c->ret) cmp_check(c, j, c->touched, false);
            }
    }

    for (int i = 0; i < MAXD; i++) release(c, i);
    const char *leak = NULL;
    udict_mgr_vacuum(c->mgr);
    if (!urefcount_single(c->mgr->refcount)) leak = "udict manager still referenced (leaked udict)";
    udict_mgr_release(c->mgr);
    struct umem_count_stats *st = umem_count_stats(c->umem);
    static char lm[128];
    if (!leak && st->bad_free) leak = "free of an unknown memory area";
    if (!leak && st->live) { snprintf(lm, sizeof lm, "%ld memory areas (%ld octets) still allocated", st->live, st->live_bytes); leak = lm; }
    if (!leak && !umem_count_single(c->umem)) leak = "umem manager still referenced";
    umem_mgr_release(c->umem);
    if (leak && !c->ret) {
        if (c->faultmode && (c->cls & (1ull << CL_FAULT))) { c->opname = "end"; FAILK("leak-after-refused-allocation", "%s", leak); }
        else c->ret = vp_internal(rep, "fixture: %s", leak);
    }

    rep->case_hash = c->hash;
    rep->classes = c->cls;
    rep->nontrivial = (c->cls & (1u << CL_REPL_DIFF | 1u << CL_DEL_NOTLAST | 1u << CL_GREW | 1u << CL_ALIAS)) != 0;
    return c->ret;
}

const struct vp_executor vp_executor = { "C10", "udict", 360, class_names, run, NULL };

/* C06 tier (a): buffers cross threads exactly once, in order, through queue / worker pipes.
 *
 * Deterministic: two harness-owned event loops (engine/fake_upump.c) stand for the logical threads
 * "application" (A) and "remote" (B) inside ONE OS thread.  The tape interleaves application calls
 * (input, flow-definition change, flush, release, ...) with SINGLE pump callbacks of either loop, so
 * the schedule of the two threads at callback granularity is a generated value.  On top of that a
 * tape operation can preempt the next operation at its n-th shared-memory access (UPIPE_VERIF hook:
 * atomics, ring elements, event descriptors) and run whole callbacks of the OTHER loop there: the
 * suspended thread resumes afterwards, which is a schedule real threads can produce.
 *
 * Topologies: 1-2 queue sinks -> queue source -> far sink; worker pipes (linear, sink, source) built
 * on an xfer manager attached to loop B around a mock remote pipe that records every entry.
 * No clock, no OS thread, no RNG: a case is a pure function of the tape. */
#include "vp.h"
#include "tape.h"
#include "pipefix.h"
#include "upipe/uverif.h"
#include "upipe/umutex.h"
#include "upipe/uprobe_transfer.h"
#include "upipe/uref_flow.h"
#include "upipe/ulog.h"
#include "upipe-modules/upipe_queue_sink.h"
#include "upipe-modules/upipe_queue_source.h"
#include "upipe-modules/upipe_transfer.h"
#include "upipe-modules/upipe_worker_linear.h"
#include "upipe-modules/upipe_worker_sink.h"
#include "upipe-modules/upipe_worker_source.h"
#include "upipe-pthread/upipe_pthread_transfer.h"
#include "upipe-pthread/uprobe_pthread_upump_mgr.h"
#include <pthread.h>
#include <sched.h>
#include <time.h>
#include <stdlib.h>
#include <stdio.h>
#include <execinfo.h>
#include <sanitizer/common_interface_defs.h>

/* OPEN finding "last-message-handover": three senders push, as their last act, the message that makes the receiving
 * thread free the very queue they are still pushing into (uqueue_push touches the counter and the event descriptor after
 * the element is visible):   upipe_xfer_mgr_detach  -> DETACH  -> upipe_xfer_mgr_free
 *                            upipe_qsrc_no_ref      -> REF_END -> upipe_qsrc_free
 *                            upipe_xfer_probe_free  -> DEAD    -> upipe_xfer_free
 * Named exclusion: the generated schedules never preempt a thread while one of these three functions is on its stack
 * (counted in rep->excluded); --no-exclude lifts it. */
static const char *const handover_fns[] = { "upipe_xfer_mgr_detach", "upipe_qsrc_no_ref", "upipe_xfer_probe_free", NULL };

/* Compiled twice: -DQUEUE_PROP=6 (default) judges delivery, order, flow definitions, threads and stalls (C06);
 * -DQUEUE_PROP=1 runs the same histories for C01 and judges only the end-of-case audit (everything destroyed exactly
 * once, nothing left allocated); -DQUEUE_PROP=5 judges delivery only, for C05; sanitizer reports count in all. */
static _Bool ctx_overflow;
#ifndef QUEUE_PROP
#define QUEUE_PROP 6
#endif
#if QUEUE_PROP == 1
#define PID "C01"
#define KEY_ACTIVE(key) (!strncmp(key, "audit/", 6))
#elif QUEUE_PROP == 4
/* C04 (flow definition before data, again after every change -- across the queue as well) */
#define PID "C04"
#define KEY_ACTIVE(key) (!strncmp(key, "flowdef/", 8))
#elif QUEUE_PROP == 5
/* C05 (the queue sink is one of its anchors): only what C05 states -- nothing lost, duplicated, reordered or altered; held
 * buffers come out first and in arrival order; a full queue holds instead of dropping */
#define PID "C05"
#define KEY_ACTIVE(key) (!strncmp(key, "delivery/", 9) || !strncmp(key, "stall/", 6))
#else
#define PID "C06"
/* (overflow mode, C06 only: the command queue of the xfer manager and the event queue of the xfer pipes are 1-2 messages long and
 * overflow; what is lost then is not stated anywhere, so only the thread rules and the sanitizer judge those cases) */
#define KEY_ACTIVE(key) (strncmp(key, "audit/", 6) != 0 && (!ctx_overflow || !strncmp(key, "thread/", 7)))
#endif
#define MAXITEMS 64
#define MAXSP 16
#define MAXMOCK 8
#define MAXLOG 600
#define MOCK_SIG UBASE_FOURCC('v','m','c','k')
#define MOCK_EV_LOCAL (UPROBE_LOCAL + 1)    /* (signature, unsigned long) */
#define MOCK_EV_U64   (UPROBE_LOCAL + 5)    /* (uint64_t), no signature */

enum { SA = 0, SB = 1, SX = -1 };
enum { T_Q1 = 0, T_Q2, T_WLIN, T_WSINK, T_WSRC, T_NTOPO };
enum { R_REMOTE = 0, R_SOURCE, R_TAP, R_PSEUDO };

enum { CL_INFLIGHT, CL_FLUSH_STALL, CL_FLOWDEF_MID, CL_RELEASE_RACE, CL_TWO_PRODUCERS, CL_WLIN, CL_WSINK, CL_WSRC,
       CL_STALLED, CL_SRC_BLOCKED, CL_LONGQ, CL_PREEMPTED, CL_FROZEN_CTRL, CL_EVENTS_FWD, CL_PSEUDO_OUT, CL_DELIVERED8,
       CL_PROBE_FREEZE, CL_MUTEX, CL_REATTACH, CL_FLUSH, CL_CHAIN2, CL_RELEASE_SRC_FIRST, CL_MAXLEN, CL_REAL_THREAD, CL_APP_FREEZE, CL_REATTACH_OTHER, CL_QSINK_MOVED, CL_QSINK_MOVED_WATCHING, CL_OVERFLOW };
static const char *const class_names[] = {
    "inflight_gt_queue_length", "flush_during_stall", "flow_def_change_in_mid_stream", "release_with_undelivered_buffers",
    "two_producers", "topology_wlin", "topology_wsink", "topology_wsrc",
    "qsink_stalled_event", "source_pump_blocked", "queue_length_gt_4", "preempted_inside_a_call", "control_under_freeze",
    "events_forwarded", "pseudo_output_set_and_cleared", "delivered_ge_8",
    "probe_frozen_during_alloc", "xfer_mutex", "upump_mgr_reattached", "flush", "remote_chain_of_2", "source_released_before_sinks",
    "set_max_length", "real_loop_thread_pthread_transfer", "forwarded_control_inside_application_freeze", "queue_source_moved_to_another_loop",
    "queue_sink_moved_to_another_loop_and_back", "queue_sink_moved_while_it_had_watchers", "xfer_queues_of_1_or_2_messages_overflowing", NULL };

struct ctx;

struct item {
    uint64_t seq;
    int src;                /* producer: queue sink index, 0 for worker input / mock source */
    int ver;                /* flow definition version in force for that producer when it was sent */
    bool drop_ok;           /* a flush was called while it was undelivered */
    bool delivered;
    size_t size; uint64_t phash;
};

struct sprobe {             /* per-pipe probe: side rule + event log */
    struct uprobe uprobe;
    struct urefcount urefcount;
    struct ctx *c;
    int id, side;
    bool live;
    bool under_xfer;        /* sits below a transfer probe (uprobe_xfer): the events registered there never come this way */
    const char *name;
};

struct mock {
    struct upipe upipe;
    struct urefcount urefcount;
    struct ctx *c;
    int id, role;
    struct upipe *output;
    struct uref *flow_def;
    struct upump_mgr *upump_mgr;
    struct upump *pump;
    bool forwards;          /* has its own xfer pipe: its transferable events reach the application */
};

struct ctx {
    struct tape t;
    struct vp_report *rep;
    bool render;
    unsigned flags;
    struct pfx pfx;
    struct uprobe *old_services;
    struct uprobe mux;
    struct upump_mgr *loop[2];
    int forced;                     /* side on behalf of which the harness performs a call */
    int probe_frozen[2];
    struct umutex mutex;
    bool mutex_locked;
    bool with_mutex;
    bool transferred;               /* remote pipes now belong to thread B */
    bool in_worker_alloc;
    int topo, nsinks, far_side;
    struct bth *bth;                /* real loop thread (worker topologies, tape-chosen): see "real loop thread" below */
    struct uprobe *pth_probe;       /* the real uprobe_pthread_upump_mgr serving both threads in that mode */
    unsigned qlen, qlen2, xlen; bool overflow, abandon;   /* abandon: (overflow mode) an assumption of the harness about what the lost message would have done no longer holds: the history stops, the tail releases everything */
    /* pipes held by the application */
    struct upipe *sink[2], *qsrc, *worker, *tap, *farsink, *pseudo;
    bool sink_released[2];
    int farsink_id;
    struct upump *feeder;
    int pending, pending_target;
    bool feeder_started;
    /* probes, mocks */
    int nsp;
    struct sprobe sp[MAXSP];
    int sp_sink[2], sp_qsrc, sp_work;
    int nmock;
    bool mock_alive[MAXMOCK];
    int mock_frees[MAXMOCK];
    int mock_role[MAXMOCK];
    unsigned ev_thrown_local[MAXMOCK], ev_thrown_u64[MAXMOCK], ev_recv_local[MAXMOCK], ev_recv_u64[MAXMOCK];
    unsigned inner_ctrl;
    int worker_attaches;
    int moves;                  /* times the queue source was given another event loop */
    /* mock source */
    int src_total, src_sent, src_change_at;
    bool src_ended;
    unsigned src_end_recv;
    /* model */
    int nitems;
    struct item items[MAXITEMS];
    uint64_t next_seq;
    int gver;
    int ver[2];                     /* version in force per producer */
    int sent_total[2];
    bool def_changed_after_data[2];
    int last_delivered_idx[2];      /* index in items[] of the last delivered item per producer */
    int far_def_src, far_def_ver;   /* definition currently in force at the far end */
    int far_lastver[2];             /* last version delivered per producer */
    int delivered;
    unsigned source_end;
    int released_sinks;
    /* preemption */
    bool armed, in_preempt;
    int countdown, pre_steps; unsigned pre_choice;
    unsigned hooks_in_op;
    int ret;
    uint64_t hash;
    uint64_t classes;
    uint32_t excluded;
    int nops;
};

static struct ctx ctx;

/* after a reported violation pipes may be stuck for good: their memory is not a second finding */
int __lsan_is_turned_off(void) { return ctx.ret != 0; }
void __lsan_disable(void);
void __lsan_enable(void);

#define R(...) do { if (c->render) vp_render(c->rep, __VA_ARGS__); } while (0)
#define FAIL(key, ...) do { if (!c->ret && KEY_ACTIVE(key)) { c->ret = vp_fail(c->rep, PID "/" key, __VA_ARGS__); R("    !! %s\n", c->rep->msg); } } while (0)
#define INTERNAL(...) do { if (ctx_overflow) { c->abandon = true; break; } if (c->ret != 2) { c->rep->key[0] = 0; c->ret = vp_internal(c->rep, __VA_ARGS__); R("    !! internal: %s\n", c->rep->msg); } } while (0)
#define CLS(b) (c->classes |= 1ull << (b))

static const char *side_name(int s) { return s == SA ? "A" : s == SB ? "B" : "-"; }

/* ---------------------------------------------------------------- real loop thread (lib/upipe-pthread)
 * In a share of the worker cases thread B is a REAL OS thread, created by upipe_pthread_xfer_mgr_alloc() exactly as applications
 * do, and the upump managers are served by the real uprobe_pthread_upump_mgr (thread-local storage, per-thread freeze count).
 * The schedule stays owned by the harness: the two threads run in strict alternation (a turn variable under a mutex), thread B
 * executes exactly what the tape's "step B" operations and preemptions tell it to (one callback of fake loop B at a time), so
 * the case is still a pure function of the tape.  upump_mgr_run() of the fake loop is the parking place of thread B. */
struct bth {
    pthread_mutex_t m;
    pthread_cond_t cv;
    int turn;                       /* 0: thread A runs, 1: thread B runs */
    int cmd;                        /* BC_* for thread B */
    unsigned choice;
    bool did;
    bool reached_alloc, released, running, quit_sent;
    bool want_a; int a_steps; unsigned a_choice; int a_done;     /* thread B asks thread A to run callbacks of loop A (preemption of B) */
    pthread_t tid;
    struct ctx *c;
};
enum { BC_NONE, BC_GO, BC_STEP, BC_QUIT };

static bool on_thread_b(struct ctx *c) { return c->bth != NULL && c->bth->released && pthread_equal(pthread_self(), c->bth->tid); }

static int cur_side(struct ctx *c)
{
    if (c->bth != NULL) return on_thread_b(c) ? SB : SA;
    struct upump_mgr *cl = fake_upump_current();
    if (cl != NULL) return cl == c->loop[SB] ? SB : SA;
    return c->forced;
}

/* thread B: park until thread A hands over the turn */
static void bth_park_locked(struct bth *b)
{
    b->turn = 0;
    pthread_cond_broadcast(&b->cv);
    while (b->turn != 1) pthread_cond_wait(&b->cv, &b->m);
}

/* called by upipe_pthread_start() on thread B: the first thing the new thread does that matters */
static struct upump_mgr *bth_mgr_alloc(uint16_t pool_depth, uint16_t blocker_pool_depth)
{
    struct bth *b = ctx.bth;
    pthread_mutex_lock(&b->m);
    b->reached_alloc = true;
    pthread_cond_broadcast(&b->cv);
    while (b->turn != 1) pthread_cond_wait(&b->cv, &b->m);     /* wait for BC_GO */
    pthread_mutex_unlock(&b->m);
    return upump_mgr_use(b->c->loop[SB]);
}

/* upump_mgr_run() of fake loop B, on thread B: serve the harness' commands until told to leave */
static int bth_run(struct upump_mgr *mgr, struct umutex *mutex, void *opaque)
{
    struct bth *b = opaque;
    pthread_mutex_lock(&b->m);
    b->running = true;
    for (;;) {
        bth_park_locked(b);
        if (b->cmd == BC_QUIT) break;
        if (b->cmd == BC_STEP) {
            pthread_mutex_unlock(&b->m);
            bool did = fake_upump_step(mgr, b->choice);
            pthread_mutex_lock(&b->m);
            b->did = did;
        }
    }
    b->running = false;
    pthread_mutex_unlock(&b->m);
    return UBASE_ERR_NONE;      /* as upump_ev: no active pump is left */
}

/* thread A: give the turn to thread B with a command and wait until it parks again; meanwhile serve its requests for loop A */
static void bth_resume(struct ctx *c, int cmd, unsigned choice)
{
    struct bth *b = c->bth;
    pthread_mutex_lock(&b->m);
    b->cmd = cmd; b->choice = choice; b->did = false;
    b->turn = 1;
    pthread_cond_broadcast(&b->cv);
    for (;;) {
        while (b->turn != 0) pthread_cond_wait(&b->cv, &b->m);
        if (!b->want_a) break;
        pthread_mutex_unlock(&b->m);
        int done = 0;
        for (int i = 0; i < b->a_steps; i++) if (fake_upump_step(c->loop[SA], b->a_choice)) done++;
        pthread_mutex_lock(&b->m);
        b->a_done = done; b->want_a = false;
        b->turn = 1;
        pthread_cond_broadcast(&b->cv);
    }
    pthread_mutex_unlock(&b->m);
}

/* thread B, inside one of its callbacks: have thread A run callbacks of loop A now (B is preempted), then carry on */
static int bth_call_a(struct ctx *c, int steps, unsigned choice)
{
    struct bth *b = c->bth;
    pthread_mutex_lock(&b->m);
    b->want_a = true; b->a_steps = steps; b->a_choice = choice; b->a_done = 0;
    bth_park_locked(b);
    int done = b->a_done;
    pthread_mutex_unlock(&b->m);
    return done;
}

/* one callback of loop `side`, executed by the thread that owns that loop */
static bool step_loop(struct ctx *c, int side, unsigned choice)
{
    if (c->bth == NULL) return fake_upump_step(c->loop[side], choice);
    if (side == SA) return on_thread_b(c) ? bth_call_a(c, 1, choice) > 0 : fake_upump_step(c->loop[SA], choice);
    if (on_thread_b(c)) return fake_upump_step(c->loop[SB], choice);     /* (not used: B never steps itself) */
    if (!c->bth->running) return false;       /* thread B has not entered its loop yet, or has left it */
    if (fake_upump_runnable(c->loop[SB]) == 0) return false;
    bth_resume(c, BC_STEP, choice);
    return c->bth->did;
}

/* let thread B go through its start-up (thread-local upump manager, attach of the xfer manager) until it parks in its loop */
static void bth_release(struct ctx *c)
{
    struct bth *b = c->bth;
    if (b == NULL || b->released) return;
    pthread_mutex_lock(&b->m);
    while (!b->reached_alloc) pthread_cond_wait(&b->cv, &b->m);
    b->released = true;
    pthread_mutex_unlock(&b->m);
    bth_resume(c, BC_GO, 0);
}

/* end of the case: loop B has no pump left, upump_mgr_run returns, the thread signals its termination descriptor and exits;
 * the application's loop then joins it (upipe_pthread_stop) */
static void bth_quit(struct ctx *c)
{
    struct bth *b = c->bth;
    if (b == NULL || !b->running || b->quit_sent) return;
    pthread_mutex_lock(&b->m);
    b->cmd = BC_QUIT; b->turn = 1; b->quit_sent = true;
    pthread_cond_broadcast(&b->cv);
    pthread_mutex_unlock(&b->m);
    /* the last act of the thread is to write its termination descriptor, watched by a pump of loop A */
    struct timespec t0, t;
    clock_gettime(CLOCK_MONOTONIC, &t0);
    while (fake_upump_runnable(c->loop[SA]) == 0) {
        sched_yield();
        clock_gettime(CLOCK_MONOTONIC, &t);
        if (t.tv_sec - t0.tv_sec > 20) break;     /* inconclusive: reported by the audit as a pump left in loop A */
    }
}

/* ---------------------------------------------------------------- preemption at shared-memory accesses */

static void check_quiescent(struct ctx *c, const char *when);

/* The exclusion needs function names for return addresses.  symbolizer_ok(): primed once per process, OUTSIDE the
 * heap accounting of a case (the first backtrace() dlopens libgcc, the first symbolisation starts llvm-symbolizer);
 * if names cannot be had, no preemption inside calls is generated at all (weaker, never a false alarm). */
static int symbolizer_state;   /* 0 unknown, 1 works, -1 unavailable */
__attribute__((noinline)) static bool symbolizer_ok(void)
{
    if (symbolizer_state == 0) {
        void *pcs[4];
        char buf[256];
        memset(buf, 0, sizeof buf);
        int n = backtrace(pcs, 4);
        if (n >= 1) __sanitizer_symbolize_pc((char *)__builtin_return_address(0) - 1, "%f", buf, sizeof buf - 1);
        symbolizer_state = (n >= 1 && buf[0] != 0 && strcmp(buf, "??") != 0 && strstr(buf, "0x") != buf) ? 1 : -1;
        if (symbolizer_state < 0) fprintf(stderr, "C06: no symbolizer (got '%s'): preemption inside calls disabled\n", buf);
    }
    return symbolizer_state > 0;
}

static bool on_handover_stack(void)
{
    void *pcs[32];
    int n = backtrace(pcs, 32);
    for (int i = 1; i < n; i++) {
        char buf[1024];
        memset(buf, 0, sizeof buf);
        __sanitizer_symbolize_pc((char *)pcs[i] - 1, "%f", buf, sizeof buf - 1);
        /* inlined frames come as consecutive NUL-terminated strings */
        for (const char *f = buf; *f && f < buf + sizeof buf - 1; f += strlen(f) + 1)
            for (int k = 0; handover_fns[k]; k++)
                if (!strcmp(f, handover_fns[k])) {
                    /* exploration aid: with --no-exclude, C06_KEEP_EXCL=<names> keeps the named senders excluded */
                    const char *keep = getenv("C06_KEEP_EXCL");
                    if ((ctx.flags & VP_NO_EXCLUDE) && keep != NULL && strstr(keep, f) == NULL) continue;
                    return true;
                }
    }
    return false;
}

void upipe_verif_yield(int kind, const volatile void *addr)
{
    struct ctx *c = &ctx;
    if (!c->armed || c->in_preempt || symbolizer_state <= 0) return;
    c->hooks_in_op++;
    if (c->countdown <= 0 || --c->countdown > 0) return;
    if ((!(c->flags & VP_NO_EXCLUDE) || getenv("C06_KEEP_EXCL")) && on_handover_stack()) {
        c->excluded++;
        R("    (no preemption here: a hand-over sender is on the stack -- open finding last-message-handover)\n");
        return;
    }
    int me = cur_side(c), other = me == SA ? SB : SA;
    if (other == SB && c->mutex_locked) return;     /* the remote loop waits for the mutex */
    c->in_preempt = true;
    int done = 0;
    for (int i = 0; i < c->pre_steps; i++)
        if (step_loop(c, other, c->pre_choice)) done++;
    c->in_preempt = false;
    if (done) CLS(CL_PREEMPTED);
    R("    ~~ thread %s preempted at shared access #%u (kind %d): %d callback(s) of loop %s ran\n", side_name(me), c->hooks_in_op, kind, done, side_name(other));
}

#define ARM(c) do { (c)->armed = true; (c)->hooks_in_op = 0; } while (0)
#define DISARM(c) do { (c)->armed = false; (c)->countdown = 0; } while (0)

/* ---------------------------------------------------------------- probes */

static int mux_throw(struct uprobe *uprobe, struct upipe *upipe, int event, va_list args)
{
    struct ctx *c = container_of(uprobe, struct ctx, mux);
    int side = cur_side(c);
    switch (event) {
    case UPROBE_FREEZE_UPUMP_MGR: c->probe_frozen[side]++; return UBASE_ERR_NONE;
    case UPROBE_THAW_UPUMP_MGR: c->probe_frozen[side]--; return UBASE_ERR_NONE;
    case UPROBE_NEED_UPUMP_MGR: {
        if (c->probe_frozen[side]) return uprobe_throw_next(uprobe, upipe, event, args);
        struct upump_mgr **p = va_arg(args, struct upump_mgr **);
        *p = upump_mgr_use(c->loop[side]);
        return UBASE_ERR_NONE;
    }
    default:
        return uprobe_throw_next(uprobe, upipe, event, args);
    }
}

static void on_source_end(struct ctx *c, int side);

static int sprobe_throw(struct uprobe *uprobe, struct upipe *upipe, int event, va_list args)
{
    struct sprobe *sp = container_of(uprobe, struct sprobe, uprobe);
    struct ctx *c = sp->c;
    if (event == UPROBE_LOG) {
        if (c->render) {
            va_list ap; va_copy(ap, args);
            struct ulog *ulog = va_arg(ap, struct ulog *);
            va_end(ap);
            if (ulog->level >= UPROBE_LOG_WARNING) { char txt[96]; ulog_msg_print(ulog, txt, sizeof txt); R("      %s log(%d): %s\n", sp->name, ulog->level, txt); }
        }
        /* a message logged on an application-side pipe comes from the application's thread too (its probes are not thread-safe) */
        if (sp->side == SA && cur_side(c) != SA)
            FAIL("thread/event", "a message of application-side pipe '%s' was logged from thread %s", sp->name, side_name(cur_side(c)));
        return UBASE_ERR_NONE;
    }
    int side = cur_side(c);
    R("      [%s] %s %s\n", side_name(side), sp->name, pfx_event_name(event));
    /* thread rule: an application-side pipe throws in thread A; a remote-side pipe, once transferred, in thread B
     * (or in thread A while the remote loop is frozen) */
    if (sp->under_xfer && (event == UPROBE_SOURCE_END || event == MOCK_EV_U64 || event == MOCK_EV_LOCAL))
        FAIL("thread/event", "event %s, registered with the transfer probe of '%s' for the application's thread, was passed on to the next probe in thread %s", pfx_event_name(event), sp->name, side_name(side));
    bool ok = true;
    if (sp->side == SA) ok = side == SA;
    else if (sp->side == SB && c->transferred) ok = side == SB || (side == SA && c->mutex_locked);
    if (!ok)
        FAIL("thread/event", "event %s of %s-side pipe '%s' was thrown in thread %s", pfx_event_name(event), side_name(sp->side), sp->name, side_name(side));
    switch (event) {
    case UPROBE_STALLED: CLS(CL_STALLED); break;
    case UPROBE_SOURCE_END:
        if (sp->id == c->sp_qsrc) on_source_end(c, side);
        else if (sp->id == c->sp_work) { c->src_end_recv++; CLS(CL_EVENTS_FWD); }
        break;
    case MOCK_EV_LOCAL: case MOCK_EV_U64: {
        if (sp->id != c->sp_work) break;    /* (on the remote side the event is caught by uprobe_xfer before it gets here) */
        va_list ap; va_copy(ap, args);
        uint32_t sig = MOCK_SIG; uint64_t v;
        if (event == MOCK_EV_LOCAL) { sig = va_arg(ap, uint32_t); v = va_arg(ap, unsigned long); }
        else v = va_arg(ap, uint64_t);
        va_end(ap);
        unsigned *recv = event == MOCK_EV_LOCAL ? c->ev_recv_local : c->ev_recv_u64;
        unsigned *thrown = event == MOCK_EV_LOCAL ? c->ev_thrown_local : c->ev_thrown_u64;
        int who = -1; uint64_t want = 0;
        for (int m = 0; m < c->nmock; m++) {
            if (c->mock_role[m] != R_REMOTE || recv[m] >= thrown[m]) continue;
            want = (uint64_t)m << 16 | recv[m];
            if (v == want) { who = m; break; }
        }
        CLS(CL_EVENTS_FWD);
        if (sig != MOCK_SIG) FAIL("event/argument", "a forwarded local event arrived with signature %x, it was thrown with %x", sig, MOCK_SIG);
        else if (who < 0) FAIL("event/argument", "a forwarded %s event arrived with argument 0x%llx; the next such event thrown by a remote pipe and not yet received carries 0x%llx (argument changed, or event lost / duplicated / reordered)",
                               event == MOCK_EV_LOCAL ? "local (unsigned long)" : "64-bit", (unsigned long long)v, (unsigned long long)want);
        else recv[who]++;
        break; }
    default: break;
    }
    if ((event == MOCK_EV_LOCAL || event == MOCK_EV_U64 || event == UPROBE_SOURCE_END) && sp->id == c->sp_work)
        return UBASE_ERR_NONE;
    return uprobe_throw_next(uprobe, upipe, event, args);
}

static void sprobe_free(struct urefcount *urefcount)
{
    struct sprobe *sp = container_of(urefcount, struct sprobe, urefcount);
    sp->live = false;
    uprobe_clean(&sp->uprobe);
    urefcount_clean(urefcount);
}

/* returns a reference owned by the caller (handed to the pipe) */
static struct uprobe *sprobe_new(struct ctx *c, int side, const char *name, int *id_p)
{
    if (c->nsp >= MAXSP) { INTERNAL("too many probes"); return NULL; }
    struct sprobe *sp = &c->sp[c->nsp];
    sp->c = c; sp->id = c->nsp++; sp->side = side; sp->name = name; sp->live = true;
    uprobe_init(&sp->uprobe, sprobe_throw, pfx_probe_alloc(&c->pfx, NULL));
    urefcount_init(&sp->urefcount, sprobe_free);
    sp->uprobe.refcount = &sp->urefcount;
    if (id_p) *id_p = sp->id;
    return &sp->uprobe;
}

/* ---------------------------------------------------------------- fake mutex (freeze / thaw of the remote loop) */

static int fmutex_lock(struct umutex *m)
{
    struct ctx *c = container_of(m, struct ctx, mutex);
    if (c->mutex_locked) { INTERNAL("mutex locked twice"); return UBASE_ERR_BUSY; }
    c->mutex_locked = true;
    return UBASE_ERR_NONE;
}
static int fmutex_unlock(struct umutex *m)
{
    struct ctx *c = container_of(m, struct ctx, mutex);
    c->mutex_locked = false;
    return UBASE_ERR_NONE;
}

/* ---------------------------------------------------------------- model */

static struct uref *mk_def(struct ctx *c, int src, int ver)
{
    struct uref *u = pfx_flow_def_block(&c->pfx, "v.");
    if (u == NULL) return NULL;
    uref_attr_set_unsigned(u, src, UDICT_TYPE_UNSIGNED, "x.src");
    uref_attr_set_unsigned(u, ver, UDICT_TYPE_UNSIGNED, "x.ver");
    return u;
}

static int undelivered(struct ctx *c, int src)
{
    int n = 0;
    for (int i = 0; i < c->nitems; i++)
        if (!c->items[i].delivered && !c->items[i].drop_ok && (src < 0 || c->items[i].src == src)) n++;
    return n;
}

static void on_def(struct ctx *c, struct uref *flow_def, int side)
{
    uint64_t src = 99, ver = 0;
    if (flow_def == NULL || !ubase_check(uref_attr_get_unsigned(flow_def, &src, UDICT_TYPE_UNSIGNED, "x.src")) ||
        !ubase_check(uref_attr_get_unsigned(flow_def, &ver, UDICT_TYPE_UNSIGNED, "x.ver")) || src > 1 || ver == 0 || (int)ver > c->gver) {
        FAIL("flowdef/invented", "the far end received a flow definition that no producer ever set");
        return;
    }
    R("      [%s] far end: flow definition of producer %d, version %d\n", side_name(side), (int)src, (int)ver);
    if (side != c->far_side) FAIL("thread/delivery", "flow definition delivered in thread %s, the consumer runs in thread %s", side_name(side), side_name(c->far_side));
    if ((int)ver < c->far_lastver[src]) FAIL("flowdef/order", "producer %d: flow definition version %d delivered after version %d", (int)src, (int)ver, c->far_lastver[src]);
    c->far_lastver[src] = ver;
    c->far_def_src = src; c->far_def_ver = ver;
}

static void on_deliver(struct ctx *c, struct uref *uref, int side)
{
    uint64_t seq = pfx_uref_seq(uref);
    int idx = -1;
    for (int i = 0; i < c->nitems; i++) if (c->items[i].seq == seq) { idx = i; break; }
    R("      [%s] far end: buffer seq=%lld\n", side_name(side), (long long)seq);
    if (idx < 0) { FAIL("delivery/invented", "the far end received a buffer (seq %lld) that was never sent", (long long)seq); return; }
    struct item *it = &c->items[idx];
    if (it->delivered) { FAIL("delivery/duplicate", "buffer seq %lld was delivered twice", (long long)seq); return; }
    it->delivered = true;
    c->delivered++;
    if (side != c->far_side) FAIL("thread/delivery", "buffer seq %lld delivered in thread %s, the consumer runs in thread %s", (long long)seq, side_name(side), side_name(c->far_side));
    int last = c->last_delivered_idx[it->src];
    if (last > idx) { FAIL("delivery/order", "producer %d: buffer seq %lld delivered after seq %lld which was sent later", it->src, (long long)seq, (long long)c->items[last].seq); return; }
    for (int i = last + 1; i < idx; i++)
        if (c->items[i].src == it->src && !c->items[i].delivered && !c->items[i].drop_ok) {
            FAIL("delivery/lost", "producer %d: buffer seq %lld arrives but seq %lld, sent before it, never did (no flush in between)", it->src, (long long)seq, (long long)c->items[i].seq);
            return;
        }
    c->last_delivered_idx[it->src] = idx;
    /* preceded by its flow definition */
    size_t size; uint64_t ph = pfx_payload_hash(uref, &size);
    if (size != it->size || ph != it->phash) FAIL("delivery/content", "buffer seq %lld arrived with a different payload (%zu octets, %zu sent)", (long long)seq, size, it->size);
    if (c->nsinks <= 1) {
        if (c->far_def_src != it->src || c->far_def_ver != it->ver)
            FAIL("flowdef/stale", "buffer seq %lld was sent under flow definition version %d but the definition in force at the far end is version %d", (long long)seq, it->ver, c->far_def_ver);
    } else {
        /* two producers share one queue, which carries one definition at a time: the definition in force is the last one
         * dequeued before the buffer, i.e. this producer's own (then it must be the right version) or one of the other producer */
        if (c->far_def_src < 0)
            FAIL("flowdef/missing", "buffer seq %lld was delivered before any flow definition", (long long)seq);
        else if (c->far_def_src == it->src && c->far_def_ver != it->ver)
            FAIL("flowdef/stale", "producer %d: buffer seq %lld was sent under flow definition version %d but arrives under version %d of the same producer", it->src, (long long)seq, it->ver, c->far_def_ver);
    }
}

static void on_source_end(struct ctx *c, int side)
{
    c->source_end++;
    if (side != SB) FAIL("thread/source-end", "SOURCE_END of the queue source thrown in thread %s", side_name(side));
    /* only after the last buffer of a producer that was released: at the j-th SOURCE_END at least j released
     * producers must have had all their (unflushed) buffers delivered */
    int complete = 0;
    for (int k = 0; k < c->nsinks; k++)
        if (c->sink_released[k] && undelivered(c, k) == 0) complete++;
    if ((int)c->source_end > c->nsinks)
        FAIL("source-end/count", "SOURCE_END thrown %u times for %d queue sink(s)", c->source_end, c->nsinks);
    else if (complete < (int)c->source_end)
        FAIL("source-end/early", "SOURCE_END #%u thrown while only %d released queue sink(s) had all their buffers delivered (%d buffer(s) still undelivered)", c->source_end, complete, undelivered(c, -1));
}

/* ---------------------------------------------------------------- mock pipe */

static void mock_enter(struct mock *m, const char *what)
{
    struct ctx *c = m->c;
    int side = cur_side(c);
    if (m->role == R_REMOTE || m->role == R_SOURCE) {
        R("      [%s] remote pipe %d: %s\n", side_name(side), m->id, what);
        if (c->transferred && !(side == SB || (side == SA && c->mutex_locked)))
            FAIL("thread/remote-entry", "remote pipe %d entered (%s) from thread %s after it was transferred to the worker thread (remote loop not frozen)", m->id, what, side_name(side));
    }
}

static void mock_source_cb(struct upump *upump);

static void mock_input(struct upipe *upipe, struct uref *uref, struct upump **upump_p)
{
    struct mock *m = container_of(upipe, struct mock, upipe);
    struct ctx *c = m->c;
    mock_enter(m, "input");
    switch (m->role) {
    case R_TAP:
        on_deliver(c, uref, cur_side(c));
        break;
    case R_REMOTE:
        /* events for the application, as long as the event queue of the xfer pipe (which also carries DEAD) cannot overflow */
        {
            unsigned out = (c->ev_thrown_local[m->id] - c->ev_recv_local[m->id]) + (c->ev_thrown_u64[m->id] - c->ev_recv_u64[m->id]);
            if (m->forwards && (out + 4 <= c->xlen || c->overflow) && c->ev_thrown_local[m->id] < 0xfff0) {
                unsigned n = c->ev_thrown_local[m->id]++;
                upipe_throw(upipe, MOCK_EV_LOCAL, MOCK_SIG, (unsigned long)((unsigned long)m->id << 16 | n));
                n = c->ev_thrown_u64[m->id]++;
                upipe_throw(upipe, MOCK_EV_U64, (uint64_t)((uint64_t)m->id << 16 | n));
            }
        }
        break;
    default:
        INTERNAL("mock pipe %d (role %d) received a buffer", m->id, m->role);
        uref_free(uref);
        return;
    }
    if (m->output != NULL) upipe_input(m->output, uref, upump_p);
    else { if (m->role != R_TAP) INTERNAL("remote pipe %d has no output", m->id); uref_free(uref); }
}

static int mock_control(struct upipe *upipe, int command, va_list args)
{
    struct mock *m = container_of(upipe, struct mock, upipe);
    struct ctx *c = m->c;
    switch (command) {
    case UPIPE_ATTACH_UPUMP_MGR:
        mock_enter(m, "attach_upump_mgr");
        if (m->role == R_SOURCE && m->pump == NULL) {
            upipe_throw_need_upump_mgr(upipe, &m->upump_mgr);
            if (m->upump_mgr != NULL) {
                m->pump = upump_alloc_idler(m->upump_mgr, mock_source_cb, m, upipe->refcount);
                if (m->pump != NULL && c->src_sent < c->src_total) upump_start(m->pump);
            }
        }
        return UBASE_ERR_NONE;
    case UPIPE_GET_OUTPUT: {
        mock_enter(m, "get_output");
        /* like every pipe built on upipe_helper_upump_mgr, a remote pipe without upump manager asks for one whenever it is
         * entered through control ("upipe_get_output is a control command and may trigger a need_upump_mgr event",
         * upipe_worker.c); while the worker is being allocated in the application thread the answer must not be the
         * application's manager: the pipe is about to run in the other thread (the worker freezes the probe for that) */
        if (c->in_worker_alloc && (m->role == R_REMOTE || m->role == R_SOURCE) && m->upump_mgr == NULL) {
            upipe_throw_need_upump_mgr(upipe, &m->upump_mgr);
            if (m->upump_mgr != NULL && m->upump_mgr == c->loop[SA])
                FAIL("thread/upump-mgr", "remote pipe %d asked for a upump manager during the allocation of the worker and was given the APPLICATION thread's event loop: its pumps would run in the wrong thread", m->id);
        }
        struct upipe **p = va_arg(args, struct upipe **);
        *p = m->role == R_TAP ? NULL : m->output;
        return UBASE_ERR_NONE; }
    case UPIPE_SET_OUTPUT: {
        mock_enter(m, "set_output");
        struct upipe *out = va_arg(args, struct upipe *);
        upipe_release(m->output);
        m->output = upipe_use(out);
        if (out != NULL && m->flow_def != NULL) upipe_set_flow_def(out, m->flow_def);
        return UBASE_ERR_NONE; }
    case UPIPE_SET_FLOW_DEF: {
        mock_enter(m, "set_flow_def");
        struct uref *fd = va_arg(args, struct uref *);
        if (fd == NULL) return UBASE_ERR_INVALID;
        uref_free(m->flow_def);
        m->flow_def = uref_dup(fd);
        if (m->role == R_TAP) on_def(c, fd, cur_side(c));
        if (m->output != NULL) return upipe_set_flow_def(m->output, fd);
        return UBASE_ERR_NONE; }
    case UPIPE_REGISTER_REQUEST: {
        mock_enter(m, "register_request");
        struct urequest *r = va_arg(args, struct urequest *);
        if (m->output != NULL && m->role != R_TAP) return upipe_register_request(m->output, r);
        return upipe_throw_provide_request(upipe, r); }
    case UPIPE_UNREGISTER_REQUEST: {
        mock_enter(m, "unregister_request");
        struct urequest *r = va_arg(args, struct urequest *);
        if (m->output != NULL && m->role != R_TAP) return upipe_unregister_request(m->output, r);
        return UBASE_ERR_NONE; }
    case UPIPE_SET_OPTION:
        mock_enter(m, "set_option");
        c->inner_ctrl++;
        return UBASE_ERR_NONE;
    default:
        mock_enter(m, "control (other)");
        return UBASE_ERR_UNHANDLED;
    }
}

static void mock_free(struct urefcount *urefcount)
{
    struct mock *m = container_of(urefcount, struct mock, urefcount);
    struct ctx *c = m->c;
    mock_enter(m, "free");
    upipe_throw_dead(&m->upipe);
    if (m->pump != NULL) { upump_stop(m->pump); upump_free(m->pump); }
    upump_mgr_release(m->upump_mgr);
    upipe_release(m->output);
    uref_free(m->flow_def);
    c->mock_alive[m->id] = false;
    c->mock_frees[m->id]++;
    upipe_clean(&m->upipe);
    urefcount_clean(urefcount);
    free(m);
}

static struct upipe_mgr mock_mgr = { .refcount = NULL, .signature = UBASE_FOURCC('v','m','c','k'), .upipe_input = mock_input, .upipe_control = mock_control };
static struct upipe_mgr mock_src_mgr = { .refcount = NULL, .signature = UBASE_FOURCC('v','m','c','s'), .upipe_input = NULL, .upipe_control = mock_control };

static struct upipe *mock_new(struct ctx *c, int role, struct uprobe *probe)
{
    if (c->nmock >= MAXMOCK) { uprobe_release(probe); INTERNAL("too many mock pipes"); return NULL; }
    struct mock *m = calloc(1, sizeof(*m));
    m->c = c; m->id = c->nmock++; m->role = role;
    c->mock_alive[m->id] = true; c->mock_role[m->id] = role;
    upipe_init(&m->upipe, role == R_SOURCE ? &mock_src_mgr : &mock_mgr, probe);
    urefcount_init(&m->urefcount, mock_free);
    m->upipe.refcount = &m->urefcount;
    upipe_throw_ready(&m->upipe);
    return &m->upipe;
}

/* ---------------------------------------------------------------- sending */

static struct uref *mk_item(struct ctx *c, int src)
{
    if (c->nitems >= MAXITEMS) return NULL;
    uint64_t seq = c->next_seq++;
    size_t size = (seq * 7 + 3) % 23;
    struct uref *uref = pfx_uref_block(&c->pfx, seq, size, 1 + (seq & 1));
    if (uref == NULL) { INTERNAL("uref allocation"); return NULL; }
    struct item *it = &c->items[c->nitems++];
    memset(it, 0, sizeof *it);
    it->seq = seq; it->src = src; it->ver = c->ver[src];
    it->phash = pfx_payload_hash(uref, &it->size);
    c->sent_total[src]++;
    if (c->def_changed_after_data[src]) CLS(CL_FLOWDEF_MID);
    return uref;
}

static void note_inflight(struct ctx *c)
{
    int u = undelivered(c, -1);
    unsigned cap = c->qlen;
    if (c->topo == T_WLIN) cap = c->qlen < c->qlen2 ? c->qlen : c->qlen2;
    if (u > (int)cap) CLS(CL_INFLIGHT);
}

/* the mock source emits one buffer per idle callback of loop B */
static void mock_source_cb(struct upump *upump)
{
    struct mock *m = upump_get_opaque(upump, struct mock *);
    struct ctx *c = m->c;
    mock_enter(m, "idle callback");
    if (m->output == NULL || c->src_sent >= c->src_total) { upump_stop(upump); return; }
    if (m->flow_def == NULL || (c->src_change_at > 0 && c->src_sent == c->src_change_at)) {
        if (m->flow_def != NULL) c->def_changed_after_data[0] = true;
        c->ver[0] = ++c->gver;
        uref_free(m->flow_def);
        m->flow_def = mk_def(c, 0, c->ver[0]);
        upipe_set_flow_def(m->output, m->flow_def);
    }
    struct uref *uref = mk_item(c, 0);
    if (uref == NULL) { upump_stop(upump); return; }
    c->src_sent++;
    R("      [B] remote source emits seq=%lld (definition version %d)\n", (long long)(c->next_seq - 1), c->ver[0]);
    upipe_input(m->output, uref, &m->pump);
    note_inflight(c);
    if (c->overflow) {      /* (overflow mode) events for the application with every buffer: its event queue is full when the source ends */
        unsigned n = c->ev_thrown_u64[m->id]++;
        upipe_throw(&m->upipe, MOCK_EV_U64, (uint64_t)((uint64_t)m->id << 16 | n));
    }
    if (c->src_sent >= c->src_total) {
        upump_stop(upump);
        c->src_ended = true;
        upipe_throw_source_end(&m->upipe);
    }
}

static struct upipe *target_pipe(struct ctx *c, int k)
{
    if (c->topo <= T_Q2) return (k < c->nsinks && !c->sink_released[k]) ? c->sink[k] : NULL;
    if (c->topo == T_WSRC) return NULL;
    return c->worker;
}

static bool do_input(struct ctx *c, int k, struct upump **upump_p)
{
    if (c->topo > T_Q2) k = 0;
    struct upipe *pipe = target_pipe(c, k);
    if (pipe == NULL) return false;
    struct uref *uref = mk_item(c, k);
    if (uref == NULL) return false;
    upipe_input(pipe, uref, upump_p);
    note_inflight(c);
    return true;
}

static void feeder_cb(struct upump *upump)
{
    struct ctx *c = upump_get_opaque(upump, struct ctx *);
    if (c->pending > 0) {
        R("      [A] source pump sends seq=%lld to producer %d\n", (long long)c->next_seq, c->pending_target);
        if (!do_input(c, c->pending_target, &c->feeder)) c->pending = 0; else c->pending--;
    }
    if (c->pending <= 0) { upump_stop(upump); c->feeder_started = false; }
}

/* ---------------------------------------------------------------- quiescence = nothing can ever move again */

static void check_quiescent(struct ctx *c, const char *when)
{
    if (c->ret || c->mutex_locked) return;
    if (fake_upump_runnable(c->loop[SA]) || fake_upump_runnable(c->loop[SB])) return;
    int u = undelivered(c, -1);
    if (u > 0) {
        int first = -1;
        for (int i = 0; i < c->nitems; i++) if (!c->items[i].delivered && !c->items[i].drop_ok) { first = i; break; }
        FAIL("stall/held", "%s: no pump of either loop can fire any more but %d buffer(s) were neither delivered nor flushed (first: seq %lld of producer %d)",
             when, u, (long long)c->items[first].seq, c->items[first].src);
    } else if (c->pending > 0 && c->feeder_started) {
        FAIL("stall/source-blocked", "%s: everything was delivered but the source pump is still blocked by the queue sink and nothing can unblock it", when);
    }
}

/* ---------------------------------------------------------------- operations */

static void end_op(struct ctx *c, const char *what)
{
    DISARM(c);
    /* a started idler that cannot fire while nothing else is ready in its loop is blocked */
    if (c->pending > 0 && c->feeder_started && fake_upump_runnable(c->loop[SA]) == 0) CLS(CL_SRC_BLOCKED);
    check_quiescent(c, what);
}

static void op_step(struct ctx *c, int side, unsigned choice)
{
    int n = fake_upump_runnable(c->loop[side]);
    R("  step %s (choice %u of %d runnable)\n", side_name(side), n ? choice % n : 0, n);
    c->hash = vp_hash_mix(c->hash, 0x50 + side * 16 + (n ? choice % n : 0));
    if (n == 0) return;
    ARM(c);
    step_loop(c, side, choice);
    end_op(c, "after a loop step");
}

static void op_run(struct ctx *c, int side, int max)
{
    R("  run loop %s until idle (at most %d callbacks)\n", side_name(side), max);
    c->hash = vp_hash_mix(c->hash, 0x70 + side);
    for (int i = 0; i < max && !c->ret; i++) {
        ARM(c);
        bool did = step_loop(c, side, 0);
        DISARM(c);
        if (!did) break;
    }
    end_op(c, "after running a loop");
}

static void op_input(struct ctx *c, int k)
{
    if (c->topo > T_Q2) k = 0; else k %= c->nsinks;
    if (target_pipe(c, k) == NULL || c->nitems >= MAXITEMS) return;
    R("  input seq=%lld -> producer %d (direct call, definition version %d)\n", (long long)c->next_seq, k, c->ver[k]);
    c->hash = vp_hash_mix(c->hash, 0x10 + k);
    ARM(c);
    do_input(c, k, NULL);
    end_op(c, "after input");
}

static void op_feed(struct ctx *c, int k, int n)
{
    if (c->topo > T_Q2) k = 0; else k %= c->nsinks;
    if (target_pipe(c, k) == NULL || c->feeder == NULL) return;
    R("  source pump of loop A: %d more buffer(s) for producer %d\n", n, k);
    c->hash = vp_hash_mix(c->hash, 0x20 + k * 8 + n);
    c->pending += n; c->pending_target = k;
    if (!c->feeder_started) { upump_start(c->feeder); c->feeder_started = true; }
}

static void op_set_flow_def(struct ctx *c, int k)
{
    if (c->topo > T_Q2) k = 0; else k %= c->nsinks;
    struct upipe *pipe = target_pipe(c, k);
    if (pipe == NULL) return;
    int v = ++c->gver;
    struct uref *def = mk_def(c, k, v);
    ARM(c);
    int err = upipe_set_flow_def(pipe, def);
    DISARM(c);
    uref_free(def);
    R("  set_flow_def producer %d: version %d -> %d\n", k, v, err);
    c->hash = vp_hash_mix(c->hash, 0x30 + k);
    if (!ubase_check(err)) { FAIL("flowdef/refused", "set_flow_def of a block definition was refused (%d)", err); return; }
    c->ver[k] = v;
    if (c->sent_total[k] > 0) c->def_changed_after_data[k] = true;
    end_op(c, "after set_flow_def");
}

static void op_flush(struct ctx *c, int k)
{
    k %= c->nsinks;
    struct upipe *pipe = target_pipe(c, k);
    if (pipe == NULL) return;
    int u = undelivered(c, k);
    if (u > (int)c->qlen) CLS(CL_FLUSH_STALL);
    CLS(CL_FLUSH);
    /* buffers of this producer that are still on their way may be discarded from now on */
    for (int i = 0; i < c->nitems; i++) if (c->items[i].src == k && !c->items[i].delivered) c->items[i].drop_ok = true;
    ARM(c);
    int err = upipe_flush(pipe);
    R("  flush producer %d (%d undelivered) -> %d\n", k, u, err);
    c->hash = vp_hash_mix(c->hash, 0x40 + k);
    if (!ubase_check(err)) FAIL("flush/refused", "upipe_flush on a queue sink failed (%d)", err);
    end_op(c, "after flush");
}

static void op_release(struct ctx *c, int which)
{
    if (c->topo <= T_Q2) {
        which %= 3;
        if (which == 2) {
            if (c->qsrc == NULL) return;
            R("  release queue source (application reference)\n");
            c->hash = vp_hash_mix(c->hash, 0x62);
            if (c->released_sinks < c->nsinks) CLS(CL_RELEASE_SRC_FIRST);
            struct upipe *p = c->qsrc; c->qsrc = NULL;
            ARM(c); upipe_release(p); end_op(c, "after releasing the queue source");
            return;
        }
        int k = which % c->nsinks;
        if (c->sink_released[k]) return;
        R("  release producer %d (queue sink), %d of its buffers undelivered\n", k, undelivered(c, k));
        c->hash = vp_hash_mix(c->hash, 0x60 + k);
        if (undelivered(c, k) > 0) CLS(CL_RELEASE_RACE);
        c->sink_released[k] = true; c->released_sinks++;
        if (c->pending > 0 && c->pending_target == k) c->pending = 0;
        ARM(c); upipe_release(c->sink[k]); end_op(c, "after releasing a queue sink");
    } else {
        if (c->worker == NULL) return;
        R("  release worker pipe, %d buffer(s) undelivered\n", undelivered(c, -1));
        c->hash = vp_hash_mix(c->hash, 0x63);
        if (undelivered(c, -1) > 0) CLS(CL_RELEASE_RACE);
        struct upipe *p = c->worker; c->worker = NULL; c->pending = 0;
        ARM(c); upipe_release(p); end_op(c, "after releasing the worker");
    }
}

static void op_pseudo(struct ctx *c, int k)
{
    k %= c->nsinks;
    struct upipe *pipe = target_pipe(c, k);
    if (pipe == NULL) return;
    c->hash = vp_hash_mix(c->hash, 0x80 + k);
    if (c->pseudo == NULL) {
        if (c->nmock >= MAXMOCK) return;
        struct upipe *x = mock_new(c, R_PSEUDO, sprobe_new(c, SX, "pseudo-output", NULL));
        if (x == NULL) return;
        int err = upipe_set_output(pipe, x);
        R("  producer %d: set_output(pseudo-output) -> %d\n", k, err);
        upipe_release(x);           /* the queue sink holds the only reference */
        c->pseudo = pipe;
    } else if (c->pseudo == pipe) {
        struct upipe *got = (struct upipe *)1;
        int err = upipe_set_output(pipe, NULL);
        int err2 = upipe_get_output(pipe, &got);
        R("  producer %d: set_output(NULL) -> %d; get_output -> %s\n", k, err, got == NULL ? "NULL" : "a pipe");
        c->pseudo = NULL;
        CLS(CL_PSEUDO_OUT);
        (void)err2;
    }
    end_op(c, "after set_output");
}

static void op_attach(struct ctx *c, int k)
{
    struct upipe *pipe = c->topo <= T_Q2 ? target_pipe(c, k % c->nsinks) : c->worker;
    if (pipe == NULL) return;
    if (c->topo > T_Q2 && ++c->worker_attaches > 4) return;    /* each one queues up to 3 commands for the remote loop */
    ARM(c);
    int err = upipe_attach_upump_mgr(pipe);
    R("  attach_upump_mgr (%s) -> %d\n", c->topo <= T_Q2 ? "queue sink" : "worker", err);
    c->hash = vp_hash_mix(c->hash, 0x90 + (k & 1));
    CLS(CL_REATTACH);
    end_op(c, "after attach_upump_mgr");
}

/* the consumer side moves to another event loop: upipe_attach_upump_mgr on the queue source, answered with a NEW manager. Every
 * watcher of the queue source -- data and out-of-band alike -- must live in the new loop afterwards: one left behind in the old
 * loop would deliver end-of-source (and run the destruction) in a loop, that is a thread, the pipe no longer belongs to */
static void op_move_qsrc(struct ctx *c)
{
    if (c->qsrc == NULL || c->bth != NULL || c->moves >= 2) return;
    struct upump_mgr *old = c->loop[SB];
    struct upump_mgr *fresh = fake_upump_mgr_alloc(c->pfx.cfg.pool_depth, c->pfx.cfg.pool_depth);
    if (fresh == NULL) { INTERNAL("fake_upump_mgr_alloc"); return; }
    c->moves++;
    c->loop[SB] = fresh;
    c->forced = SB;
    ARM(c);
    int err = upipe_attach_upump_mgr(c->qsrc);
    c->forced = SA;
    R("  queue source: attach_upump_mgr answered with a new event loop -> %d\n", err);
    c->hash = vp_hash_mix(c->hash, 0x98);
    CLS(CL_REATTACH_OTHER);
    if (!c->ret && fake_upump_count(old) != 0)
        FAIL("thread/watcher-left-in-old-loop", "after the queue source was given another event loop, %d of its watchers are still allocated in the old one: what they deliver (end of source, requests, the destruction of the pipe) would run in the wrong loop", fake_upump_count(old));
    if (!c->ret) {
        upump_mgr_vacuum(old);
        if (!urefcount_single(old->refcount)) FAIL("audit/loop", "the event loop the queue source has left is still referenced");
        else upump_mgr_release(old);
    }
    end_op(c, "after the queue source moved to another event loop");
}

/* a queue sink is given another event loop (attach_upump_mgr answered with a new manager), then its own again: each time every
 * watcher it had must have left the loop it was in -- one left behind would let the old loop enter the pipe */
static void op_move_qsink(struct ctx *c, int k)
{
    if (c->topo > T_Q2 || c->bth != NULL) return;
    struct upipe *pipe = target_pipe(c, k % c->nsinks);
    if (pipe == NULL) return;
    struct upump_mgr *home = c->loop[SA];
    struct upump_mgr *fresh = fake_upump_mgr_alloc(c->pfx.cfg.pool_depth, c->pfx.cfg.pool_depth);
    if (fresh == NULL) { INTERNAL("fake_upump_mgr_alloc"); return; }
    int had = fake_upump_count_opaque(home, pipe);
    c->loop[SA] = fresh;
    ARM(c);
    int err = upipe_attach_upump_mgr(pipe);
    c->loop[SA] = home;
    R("  producer %d: attach_upump_mgr answered with a new event loop -> %d (it had %d watcher(s))\n", k % c->nsinks, err, had);
    c->hash = vp_hash_mix(c->hash, 0x9a + k % c->nsinks);
    CLS(CL_QSINK_MOVED); if (had) CLS(CL_QSINK_MOVED_WATCHING);
    int left = fake_upump_count_opaque(home, pipe);
    if (!c->ret && left != 0)
        FAIL("thread/watcher-left-in-old-loop", "after queue sink %d was given another event loop, %d of its watchers are still allocated in the old one: the old loop would go on entering the pipe", k % c->nsinks, left);
    ARM(c);
    err = upipe_attach_upump_mgr(pipe);
    R("  producer %d: attach_upump_mgr answered with its own event loop again -> %d\n", k % c->nsinks, err);
    left = fake_upump_count_opaque(fresh, pipe);
    if (!c->ret && left != 0)
        FAIL("thread/watcher-left-in-old-loop", "after queue sink %d was given back its event loop, %d of its watchers are still allocated in the one it has left", k % c->nsinks, left);
    if (!c->ret) {
        upump_mgr_vacuum(fresh);
        if (!urefcount_single(fresh->refcount)) FAIL("audit/loop", "the event loop queue sink %d has left is still referenced", k % c->nsinks);
        else upump_mgr_release(fresh);
    }
    end_op(c, "after a queue sink moved to another event loop and back");
}

static void op_maxlen(struct ctx *c, int k, unsigned n)
{
    struct upipe *pipe = target_pipe(c, k % c->nsinks);
    if (pipe == NULL) return;
    int err = upipe_set_max_length(pipe, n);
    R("  producer %d: set_max_length(%u) -> %d\n", k % c->nsinks, n, err);
    c->hash = vp_hash_mix(c->hash, 0xa0 + n);
    CLS(CL_MAXLEN);
    end_op(c, "after set_max_length");
}

/* a control command the worker does not know goes to the first remote pipe under freeze / thaw */
static void op_ctrl_inner(struct ctx *c, bool app_freeze)
{
    if (c->worker == NULL) return;
    unsigned before = c->inner_ctrl;
    /* the application may have frozen the remote loop itself (upipe_bin_freeze) to work on the inner pipes: a control command the
     * worker forwards meanwhile must leave that freeze in force */
    bool frozen_by_app = false;
    if (app_freeze && c->with_mutex && !c->mutex_locked && ubase_check(upipe_bin_freeze(c->worker))) {
        frozen_by_app = c->mutex_locked;
        R("  worker: frozen by the application\n");
    }
    ARM(c);
    int err = upipe_set_option(c->worker, "k", "v");
    R("  worker: set_option (forwarded to the remote pipe under freeze) -> %d\n", err);
    c->hash = vp_hash_mix(c->hash, 0xb0 + frozen_by_app);
    if (frozen_by_app) {
        if (!c->mutex_locked) FAIL("freeze/thawed-by-forwarded-command", "the application froze the remote loop; a control command forwarded by the worker to its inner pipe left it thawed: the application goes on using the inner pipes unsynchronised");
        else { upipe_bin_thaw(c->worker); CLS(CL_APP_FREEZE); }
    }
    if (c->mutex_locked) FAIL("freeze/left-frozen", "the remote loop is still frozen after the control command returned");
    if (c->with_mutex) {
        if (c->inner_ctrl == before + 1) CLS(CL_FROZEN_CTRL);
    } else if (c->inner_ctrl != before)
        FAIL("thread/remote-entry", "the remote pipe received a control command from the application thread although the xfer manager has no mutex");
    end_op(c, "after a forwarded control command");
}

/* ---------------------------------------------------------------- set-up */

static unsigned qlen_decode(uint8_t b, bool worker)
{
    if (b < 192) return 1 + (b & 3);
    if (b == 255) return 255;
    if (b == 254) return worker ? 300 : 254;
    return 5 + (b - 192) * 4;
}

static struct uprobe *remote_chain(struct ctx *c, const char *name, bool with_xfer)
{
    struct uprobe *p = sprobe_new(c, SB, name, NULL);
    if (p == NULL || !with_xfer) return p;
    struct uprobe *x = uprobe_xfer_alloc(p);
    if (x == NULL) { uprobe_release(p); return NULL; }
    container_of(p, struct sprobe, uprobe)->under_xfer = true;
    uprobe_xfer_add(x, UPROBE_XFER_VOID, UPROBE_SOURCE_END, 0);
    uprobe_xfer_add(x, UPROBE_XFER_UINT64_T, MOCK_EV_U64, 0);
    uprobe_xfer_add(x, UPROBE_XFER_UNSIGNED_LONG_LOCAL, MOCK_EV_LOCAL, MOCK_SIG);
    return x;
}

static void setup_queue(struct ctx *c, uint8_t f)
{
    c->nsinks = c->topo == T_Q2 ? 2 : 1;
    if (c->nsinks == 2) CLS(CL_TWO_PRODUCERS);
    c->far_side = SB;
    struct upipe_mgr *qsrc_mgr = upipe_qsrc_mgr_alloc(), *qsink_mgr = upipe_qsink_mgr_alloc();
    c->qsrc = upipe_qsrc_alloc(qsrc_mgr, sprobe_new(c, SB, "qsrc", &c->sp_qsrc), c->qlen);
    if (c->qsrc == NULL) { INTERNAL("qsrc alloc"); return; }
    for (int k = 0; k < c->nsinks; k++) {
        c->sink[k] = upipe_qsink_alloc(qsink_mgr, sprobe_new(c, SA, k ? "qsink1" : "qsink0", &c->sp_sink[k]), c->qsrc);
        if (c->sink[k] == NULL) { INTERNAL("qsink alloc"); return; }
    }
    /* thread B takes the queue source: it sets the output, which attaches loop B's pumps */
    c->forced = SB;
    int err = upipe_set_output(c->qsrc, c->tap);
    c->forced = SA;
    if (!ubase_check(err)) { INTERNAL("qsrc set_output %d", err); return; }
    c->transferred = true;
    for (int k = 0; k < c->nsinks; k++) {
        c->ver[k] = ++c->gver;
        struct uref *def = mk_def(c, k, c->ver[k]);
        err = upipe_set_flow_def(c->sink[k], def);
        uref_free(def);
        if (!ubase_check(err)) { INTERNAL("qsink set_flow_def %d", err); return; }
    }
    R("  %d queue sink(s) [thread A] -> queue source of length %u [thread B] -> far sink\n", c->nsinks, c->qlen);
}

static void setup_worker(struct ctx *c, uint8_t f, uint8_t b3, uint8_t pa)
{
    bool freeze = f & 1, late_attach = (f >> 2) & 1, chain2 = (f >> 3) & 1;
    c->with_mutex = (f >> 1) & 1;
    c->nsinks = 1;
    c->far_side = c->topo == T_WSINK ? SB : SA;
    unsigned msgpool = (unsigned[]){ 0, 1, 4 }[(b3 / 9) % 3];
    c->mutex.refcount = NULL; c->mutex.umutex_lock = fmutex_lock; c->mutex.umutex_unlock = fmutex_unlock;
    if (c->with_mutex) CLS(CL_MUTEX);
    bool real_thread = (f >> 4) & 1;
    struct upipe_mgr *xfer_mgr;
    if (real_thread) {
        /* thread B is a real thread made by upipe_pthread_xfer_mgr_alloc; both threads get their upump manager from the real
         * uprobe_pthread_upump_mgr (the harness keeps a reference so that the probe is destroyed in thread A, at the end) */
        CLS(CL_REAL_THREAD);
        struct bth *b = calloc(1, sizeof *b);
        pthread_mutex_init(&b->m, NULL); pthread_cond_init(&b->cv, NULL);
        b->c = c;
        c->bth = b;
        fake_upump_set_run_cb(bth_run, b);
        c->pth_probe = uprobe_pthread_upump_mgr_alloc(uprobe_use(c->old_services));
        if (c->pth_probe == NULL) { INTERNAL("uprobe_pthread_upump_mgr_alloc"); return; }
        uprobe_pthread_upump_mgr_set(c->pth_probe, c->loop[SA]);
        c->pfx.services = c->pth_probe;
        hc_pause(1);            /* the thread's stack and TLS blocks belong to the C library, which caches them */
        xfer_mgr = upipe_pthread_xfer_mgr_alloc(c->xlen, msgpool, uprobe_use(c->pth_probe), bth_mgr_alloc, c->pfx.cfg.pool_depth, c->pfx.cfg.pool_depth,
                                                c->with_mutex ? &c->mutex : NULL, &b->tid, NULL);
        hc_pause(-1);
        if (xfer_mgr == NULL) { INTERNAL("upipe_pthread_xfer_mgr_alloc"); return; }
        if (!late_attach) bth_release(c);
    } else {
        xfer_mgr = upipe_xfer_mgr_alloc(c->xlen, msgpool, c->with_mutex ? &c->mutex : NULL);
        if (xfer_mgr == NULL) { INTERNAL("xfer mgr alloc"); return; }
        if (!late_attach) { c->forced = SB; upipe_xfer_mgr_attach(xfer_mgr, c->loop[SB]); c->forced = SA; }
    }
    struct upipe_mgr *work_mgr = c->topo == T_WLIN ? upipe_wlin_mgr_alloc(xfer_mgr) : c->topo == T_WSINK ? upipe_wsink_mgr_alloc(xfer_mgr) : upipe_wsrc_mgr_alloc(xfer_mgr);
    if (late_attach && !real_thread) upipe_mgr_use(xfer_mgr);     /* reference of the remote thread, released after its attach */
    upipe_mgr_release(xfer_mgr);
    /* remote pipeline, built by the application before the transfer */
    struct upipe *remote;
    if (c->topo == T_WSRC) {
        remote = mock_new(c, R_SOURCE, remote_chain(c, "remote-source", true));
    } else {
        remote = mock_new(c, R_REMOTE, remote_chain(c, "remote0", true));
        if (remote != NULL) container_of(remote, struct mock, upipe)->forwards = true;
        if (chain2 && remote != NULL) {
            /* the worker transfers the first and the last pipe of the remote pipeline: only those forward events */
            struct upipe *second = mock_new(c, R_REMOTE, remote_chain(c, "remote1", c->topo == T_WLIN));
            if (second != NULL) container_of(second, struct mock, upipe)->forwards = c->topo == T_WLIN;
            upipe_set_output(remote, second);
            if (c->topo == T_WSINK) upipe_set_output(second, c->tap);
            upipe_release(second);
            CLS(CL_CHAIN2);
        } else if (c->topo == T_WSINK && remote != NULL)
            upipe_set_output(remote, c->tap);
    }
    if (remote == NULL) { INTERNAL("remote alloc"); upipe_mgr_release(work_mgr); return; }
    struct uprobe *pw = sprobe_new(c, SA, "worker", &c->sp_work);
    struct uprobe *pr = sprobe_new(c, SB, "worker-remote-side", NULL);
    if (freeze) { uprobe_throw(pw, NULL, UPROBE_FREEZE_UPUMP_MGR); CLS(CL_PROBE_FREEZE); }
    if (pa != 0 && !late_attach) {     /* the remote loop may already run while the application is still inside the allocation */
        c->countdown = pa; c->pre_steps = 2; c->pre_choice = 0;
        R("  (worker allocation preempted at its shared access #%d by the remote loop)\n", c->countdown);
    }
    ARM(c);
    c->in_worker_alloc = true;
    switch (c->topo) {
    case T_WLIN: c->worker = upipe_wlin_alloc(work_mgr, pw, remote, pr, c->qlen, c->qlen2); CLS(CL_WLIN); break;
    case T_WSINK: c->worker = upipe_wsink_alloc(work_mgr, pw, remote, pr, c->qlen); CLS(CL_WSINK); break;
    default: c->worker = upipe_wsrc_alloc(work_mgr, pw, remote, pr, c->qlen); CLS(CL_WSRC); break;
    }
    c->in_worker_alloc = false;
    DISARM(c);
    upipe_mgr_release(work_mgr);
    c->transferred = true;         /* from now on the remote pipes must not be accessed from thread A */
    if (c->worker == NULL) { INTERNAL("worker alloc"); return; }
    if (freeze) {
        /* still inside the application's own FREEZE .. THAW section (applications build their remote pipelines and allocate
         * the worker inside one, so that nothing destined to the other thread is given this thread's event loop): the
         * worker's internal freeze / thaw must not have ended it -- freezes nest */
        struct upump_mgr *m = NULL;
        upipe_throw_need_upump_mgr(c->worker, &m);
        if (m != NULL) {
            FAIL("thread/upump-mgr", "the upump manager probe answered inside the application's freeze section (after the worker's own nested freeze / thaw): pipes built there for the other thread would run their pumps in the application thread");
            upump_mgr_release(m);
        }
        uprobe_throw(c->worker->uprobe, NULL, UPROBE_THAW_UPUMP_MGR);
        upipe_attach_upump_mgr(c->worker);
    }
    if (late_attach && real_thread) bth_release(c);
    else if (late_attach) { c->forced = SB; upipe_xfer_mgr_attach(xfer_mgr, c->loop[SB]); upipe_mgr_release(xfer_mgr); c->forced = SA; }
    if (c->topo != T_WSINK) upipe_set_output(c->worker, c->tap);
    if (c->topo != T_WSRC) {
        c->ver[0] = ++c->gver;
        struct uref *def = mk_def(c, 0, c->ver[0]);
        int err = upipe_set_flow_def(c->worker, def);
        uref_free(def);
        if (!ubase_check(err)) INTERNAL("worker set_flow_def %d", err);
    }
    R("  worker %s: queue length(s) %u/%u, xfer queue %u, %s%s%s%s%s\n", c->topo == T_WLIN ? "linear" : c->topo == T_WSINK ? "sink" : "source",
      c->qlen, c->qlen2, c->xlen, freeze ? "upump-mgr probe frozen during alloc, " : "", real_thread ? "REAL loop thread (upipe_pthread_xfer_mgr_alloc + uprobe_pthread_upump_mgr), " : "", c->with_mutex ? "xfer mutex, " : "", late_attach ? "remote loop attached after alloc, " : "", chain2 ? "2 remote pipes" : "1 remote pipe");
}

/* ---------------------------------------------------------------- run */

static int run(const uint8_t *tape, size_t len, struct vp_report *rep, unsigned flags)
{
    struct ctx *c = &ctx;
    symbolizer_ok();
    memset(c, 0, sizeof(*c));
    ctx_overflow = false;
    tp_init(&c->t, tape, len);
    c->rep = rep; c->render = flags & VP_RENDER; c->flags = flags; c->hash = VP_HASH_INIT;
    c->sp_qsrc = c->sp_work = -1; c->last_delivered_idx[0] = c->last_delivered_idx[1] = -1;
    c->far_def_src = -1;

    uint8_t b0 = tp_u8(&c->t), b1 = tp_u8(&c->t), b2 = tp_u8(&c->t), b3 = tp_u8(&c->t);
    c->topo = b0 % T_NTOPO;
    uint8_t f = b0 / T_NTOPO;
    bool worker = c->topo > T_Q2;
    c->qlen = qlen_decode(b1, worker);
    c->qlen2 = qlen_decode(b2, worker);
    c->xlen = (unsigned[]){ 255, 64, 32 }[(b3 / 3) % 3];   /* >= the 24 commands a case can queue while loop B never runs */
#if QUEUE_PROP == 6
    if (worker && b3 >= 216) { c->overflow = ctx_overflow = true; c->xlen = 1 + b3 % 2; __lsan_disable(); }
#endif
    struct pfx_cfg cfg = { .pool_depth = (int[]){ 0, 1, 4 }[b3 % 3], .with_uref_mgr = true, .with_ubuf_mem = true, .with_upump_mgr = false, .with_uclock = true };
    if (pfx_init(&c->pfx, &cfg) != 0) return vp_internal(rep, "pfx_init");
    c->loop[SA] = c->pfx.loop;
    c->loop[SB] = fake_upump_mgr_alloc(cfg.pool_depth, cfg.pool_depth);
    c->forced = SA;
    c->old_services = c->pfx.services;
    uprobe_init(&c->mux, mux_throw, uprobe_use(c->old_services));
    c->pfx.services = &c->mux;
    if (c->qlen > 4) CLS(CL_LONGQ);
    c->hash = vp_hash_mix(c->hash, b0); c->hash = vp_hash_mix(c->hash, c->qlen); c->hash = vp_hash_mix(c->hash, c->qlen2 * (c->topo == T_WLIN)); c->hash = vp_hash_mix(c->hash, b3 % 27);
    R(PID " queue: topology %d, pool depth %d\n", c->topo, cfg.pool_depth);

    c->farsink = pfx_sink_alloc(&c->pfx, &c->farsink_id);
    c->tap = mock_new(c, R_TAP, sprobe_new(c, SX, "far-end", NULL));
    if (c->tap != NULL) upipe_set_output(c->tap, c->farsink);
    if (c->topo == T_WSRC) {
        c->src_total = tp_u8(&c->t) % 33;
        c->src_change_at = tp_u8(&c->t) % 16;
        c->hash = vp_hash_mix(c->hash, c->src_total * 16 + c->src_change_at);
    }
    if (!c->ret) {
        if (worker) { uint8_t pa = tp_u8(&c->t); c->hash = vp_hash_mix(c->hash, pa); setup_worker(c, f, b3, pa); }
        else setup_queue(c, f);
    }
    /* the pipeline owns the far end from now on */
    upipe_release(c->tap); c->tap = NULL;
    upipe_release(c->farsink); c->farsink = NULL;
    if (!c->ret) {
        c->feeder = upump_alloc_idler(c->loop[SA], feeder_cb, c, NULL);
        if (c->feeder == NULL) INTERNAL("feeder pump");
    }

    int maxops = (flags & VP_THOROUGH) ? 200 : 80;
    while (!tp_done(&c->t) && c->nops < maxops && !c->ret && !c->abandon) {
        c->nops++;
        uint8_t b = tp_u8(&c->t);
        unsigned op = b & 15, a = b >> 4;
        switch (op) {
        case 0: case 1: case 2: op_input(c, a & 1); break;
        case 3: op_feed(c, a & 1, 1 + (a >> 1) % 4); break;
        case 4: case 5: op_step(c, SA, a); break;
        case 6: case 7: op_step(c, SB, a); break;
        case 8: if (c->topo != T_WSRC) op_set_flow_def(c, a & 1); break;
        case 9: if (c->topo <= T_Q2) op_flush(c, a & 1); else op_ctrl_inner(c, (a & 1) != 0); break;
        case 10: if (c->topo <= T_Q2) op_maxlen(c, a & 1, a >> 1); else op_step(c, SB, a); break;
        case 11: op_release(c, a); break;
        case 12: if (c->topo <= T_Q2) op_pseudo(c, a & 1); else op_step(c, SA, a); break;
        case 13: if (c->topo <= T_Q2 && (a & 6) == 2) op_move_qsrc(c); else if (c->topo <= T_Q2 && (a & 6) == 6) op_move_qsink(c, a & 1); else op_attach(c, a & 1); break;
        case 14: {
            uint8_t n = tp_u8(&c->t);
            c->countdown = n < 192 ? 1 + n % 48 : 1 + (n - 192) * 9;
            c->pre_steps = 1 + (a & 3); c->pre_choice = a >> 2;
            R("  (the next operation is preempted at its shared access #%d by %d callback(s) of the other loop)\n", c->countdown, c->pre_steps);
            c->hash = vp_hash_mix(c->hash, 0xe000 + c->countdown * 16 + a);
            continue;       /* countdown survives until the next operation is armed */
        }
        default: op_run(c, a & 1, 2 + (a >> 1) * 3); break;
        }
    }

    /* ---- tail: the application lets go of everything, both loops run until nothing can fire */
    R("  -- tail: release everything, run both loops until idle\n");
    DISARM(c);
    c->pending = 0;
    if (c->feeder != NULL) { upump_stop(c->feeder); upump_free(c->feeder); c->feeder = NULL; c->feeder_started = false; }
    if (c->ret != 2) {
        for (int k = 0; k < c->nsinks && c->topo <= T_Q2; k++)
            if (c->sink[k] != NULL && !c->sink_released[k]) { c->sink_released[k] = true; c->released_sinks++; upipe_release(c->sink[k]); }
        if (c->qsrc != NULL) { upipe_release(c->qsrc); c->qsrc = NULL; }
        if (c->worker != NULL) { upipe_release(c->worker); c->worker = NULL; }
        int steps = 0;
        for (;;) {
            int n = 0;
            while (steps < 20000 && step_loop(c, SA, 0)) { n++; steps++; }
            while (steps < 20000 && step_loop(c, SB, 0)) { n++; steps++; }
            if (n == 0 && c->bth != NULL && c->bth->running && fake_upump_count(c->loop[SB]) == 0) {
                /* nothing left in loop B: its thread leaves upump_mgr_run and terminates; loop A joins it */
                bth_quit(c);
                while (steps < 20000 && step_loop(c, SA, 0)) { n++; steps++; }
            }
            if (n == 0 || steps >= 20000) break;
        }
        if (steps >= 20000) FAIL("stall/livelock", "the loops were still firing after 20000 callbacks although the application released everything");
        check_quiescent(c, "after everything was released");
        if (!c->ret) {
            if (c->topo <= T_Q2 && (int)c->source_end != c->nsinks)
                FAIL("source-end/count", "SOURCE_END thrown %u time(s) by the queue source, %d queue sink(s) were released", c->source_end, c->nsinks);
            for (int m = 0; m < c->nmock && !c->ret; m++) {
                if (c->mock_frees[m] != 1)
                    FAIL("audit/remote-pipe", "mock pipe %d (role %d) was freed %d time(s) by the end of the case", m, c->mock_role[m], c->mock_frees[m]);
                if (c->mock_role[m] == R_REMOTE && (c->ev_recv_local[m] != c->ev_thrown_local[m] || c->ev_recv_u64[m] != c->ev_thrown_u64[m]))
                    FAIL("event/lost", "remote pipe %d threw %u+%u transferable events, the application received %u+%u", m, c->ev_thrown_local[m], c->ev_thrown_u64[m], c->ev_recv_local[m], c->ev_recv_u64[m]);
            }
            if (c->topo == T_WSRC && c->src_ended && c->src_end_recv != 1)
                FAIL("event/lost", "the remote source threw SOURCE_END once, the application received it %u time(s)", c->src_end_recv);
            for (int i = 0; i < c->nsp && !c->ret; i++)
                if (c->sp[i].live) FAIL("audit/probe", "probe of '%s' is still referenced after both loops ran dry: a pipe was not destroyed", c->sp[i].name);
            for (int i = 0; i < c->pfx.nprobes && !c->ret; i++) {
                struct pfx_probe *p = c->pfx.probes[i];
                for (int k = 0; k < p->ntracks; k++)
                    if (p->tracks[k].ready && p->tracks[k].dead_count != 1)
                        FAIL("audit/dead", "a pipe (probe %d) threw READY but DEAD %d time(s)", i, p->tracks[k].dead_count);
            }
            if (!c->ret && fake_upump_count(c->loop[SB]) != 0) FAIL("audit/pumps", "%d pump(s) still allocated in the remote loop", fake_upump_count(c->loop[SB]));
        }
    }
    /* fixture teardown */
    if (c->bth != NULL) {
        fake_upump_set_run_cb(NULL, NULL);
        if (c->ret == 0 && c->bth->running) FAIL("audit/thread", "the loop thread is still inside upump_mgr_run after everything was released and both loops ran dry");
        if (c->pth_probe != NULL) { uprobe_release(c->pth_probe); c->pth_probe = NULL; }
        if (c->ret == 0 && !c->bth->running && (c->bth->quit_sent || !c->bth->released)) {
            if (!c->bth->released) { /* never started its loop: cannot happen in a finished case (the tail releases it) */ }
            pthread_mutex_destroy(&c->bth->m); pthread_cond_destroy(&c->bth->cv); free(c->bth);
        }   /* else: the case failed, the parked thread and its control block are abandoned */
        c->bth = NULL;
    }
    c->pfx.services = c->old_services;
    if (c->ret == 0) {
        upump_mgr_vacuum(c->loop[SB]);
        if (!urefcount_single(c->loop[SB]->refcount)) FAIL("audit/loop", "the remote upump manager is still referenced");
        else upump_mgr_release(c->loop[SB]);
        uprobe_clean(&c->mux);
        const char *audit = pfx_clean(&c->pfx);
        if (audit) { if (!strncmp(audit, "INTERNAL", 8)) INTERNAL("%s", audit); else FAIL("audit/leak", "%s", audit); }
    } else {
        /* the case already failed: best effort, whatever is stuck stays (see __lsan_is_turned_off) */
        uprobe_clean(&c->mux);
        (void)pfx_clean(&c->pfx);
    }
    if (c->delivered >= 8) CLS(CL_DELIVERED8);
    rep->case_hash = c->hash;
    rep->classes |= c->classes;
    rep->excluded += c->excluded;
    if (c->overflow) { CLS(CL_OVERFLOW); rep->classes |= c->classes; __lsan_enable(); }
    rep->nontrivial = (c->classes & (1u << CL_INFLIGHT)) &&
                      (c->classes & ((1u << CL_FLUSH_STALL) | (1u << CL_FLOWDEF_MID) | (1u << CL_RELEASE_RACE)));
    return c->ret;
}

const struct vp_executor vp_executor = { PID, "queue", 160, class_names, run, NULL };

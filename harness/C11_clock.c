/* C11 — timestamp algebra: the cr / dts / pts (and rap) views of a date stay consistent.
 *
 * Histories over one uref plus dups.  After every operation every accessor of every live uref
 * is read (twice) and checked against
 *   (a) the statement-level oracles, evaluated on the observed values only:
 *         dts == cr + cr_dts_delay, pts == dts + dts_pts_delay, rap == cr - rap_cr_delay (mod 2^64)
 *         whenever the getters involved succeed;
 *         rebase / getter / cmp / dup change none of the 9 dates + 3 raps readable before;
 *         a date set as T reads back equal as T;
 *         set_rap(r) is refused when r is after the clock reference, else get_rap == r;
 *         an operation on one uref changes nothing in another;
 *   (b) an independent reference model (stored stage + date per domain, three "hops" between the
 *       stages RAP-CR-DTS-PTS, modular arithmetic) written from uref.h / uref_attr.h / uref_clock.h.
 *
 * What the headers define for "unset" (and the model follows, no more):
 *   - a delay is unset iff its field is UINT64_MAX (UREF_ATTR_UNSIGNED_UREF getter); storing
 *     UINT64_MAX as a delay *is* deleting it, also when set_date / set_rap compute that value;
 *   - a date is unset iff its type is UREF_DATE_NONE; the raw date value under NONE is not
 *     compared (callers store anything there);
 *   - a getter fails iff the type is NONE or one of the delays on the path from the stored stage
 *     to the requested one is unset; nothing is promised about *date_p on failure;
 *   - add_date on a stored value UINT64_MAX with a type set: the header says "adds", the code
 *     skips; both results are accepted (don't-care) and the model re-synchronises;
 *   - no overflow is an error anywhere: all sums are mod 2^64.
 */
#include "vp.h"
#include "tape.h"
#include "fix_mem.h"

#include "upipe/uref_clock.h"
#include "upipe/uref_attr.h"

#include <stdlib.h>
#include <stdio.h>
#include <inttypes.h>

#define MAXU 4
#define MAXOPS_QUICK 40
#define MAXOPS_THOROUGH 110
#define UNSET UINT64_MAX
#define TYPE_MASK UINT64_C(0xFC00000000000000)

/* stages: 0 RAP, 1 CR, 2 DTS, 3 PTS (1..3 coincide with enum uref_date_type);
 * hop[i] is the delay between stage i and stage i+1 */
enum { ST_RAP, ST_CR, ST_DTS, ST_PTS };
static const char *const st_name[] = { "rap", "cr", "dts", "pts" };
static const char *const ty_name[] = { "--", "CR", "DTS", "PTS" };
static const char *const dom_name[] = { "sys", "prog", "orig" };
static const char *const hop_name[] = { "rap_cr_delay", "cr_dts_delay", "dts_pts_delay" };

enum { CL_REBASE_CHANGE, CL_REBASE_REFUSED_UNSET, CL_REBASE_WRAP, CL_CHAIN2, CL_SET_RECORDS, CL_SET_CR2PTS_NODP,
       CL_DELAY_ALIAS, CL_RAP_OK, CL_RAP_REFUSED, CL_RAP_EQ_CR, CL_RAP_NOCR, CL_DUP, CL_CROSS_DOMAIN,
       CL_DATE_UNSET_VALUE, CL_ADD_DONTCARE, CL_ADD_OK, CL_GET_WRAP, CL_THREE_DOMAINS, CL_NULL_GETTER, CL_CMP,
       CL_POOL, CL_DUP_DIVERGED, CL_ALL_VIEWS };
static const char *const class_names[] = {
    "rebase_changed_type", "rebase_refused_unset_delay", "rebase_over_wrapping_sum", "rebase_chain_ge2",
    "set_later_stage_recorded_delay", "set_cr_to_pts_without_dts_pts_delay", "recorded_delay_equals_unset_value",
    "set_rap_ok", "set_rap_refused_after_cr", "set_rap_equal_cr", "set_rap_without_cr", "dup",
    "set_changed_other_domain_view", "date_value_uint64max_with_type", "add_on_uint64max_dontcare", "add_shifted_date",
    "getter_sum_wrapped", "three_domains_typed", "getter_null_pointer", "cmp_called", "pool_depth_gt0",
    "dup_then_diverged", "all_four_views_readable", NULL };

/* ---- accessor tables (the real code) ---- */
typedef int  (*get_fn)(struct uref *, uint64_t *);
typedef void (*set_fn)(struct uref *, uint64_t);
typedef void (*setdate_fn)(struct uref *, uint64_t, int);
typedef void (*getdate_fn)(const struct uref *, uint64_t *, int *);
typedef void (*void_fn)(struct uref *);
typedef void (*add_fn)(struct uref *, int64_t);
typedef int  (*int_fn)(struct uref *);
typedef int  (*setrap_fn)(struct uref *, uint64_t);
typedef int  (*cmp_fn)(struct uref *, struct uref *);
typedef void (*copy_fn)(struct uref *, struct uref *);

static const get_fn GET[3][4] = {
    { uref_clock_get_rap_sys,  uref_clock_get_cr_sys,  uref_clock_get_dts_sys,  uref_clock_get_pts_sys },
    { uref_clock_get_rap_prog, uref_clock_get_cr_prog, uref_clock_get_dts_prog, uref_clock_get_pts_prog },
    { uref_clock_get_rap_orig, uref_clock_get_cr_orig, uref_clock_get_dts_orig, uref_clock_get_pts_orig } };
static const set_fn SET[3][4] = {
    { NULL, uref_clock_set_cr_sys,  uref_clock_set_dts_sys,  uref_clock_set_pts_sys },
    { NULL, uref_clock_set_cr_prog, uref_clock_set_dts_prog, uref_clock_set_pts_prog },
    { NULL, uref_clock_set_cr_orig, uref_clock_set_dts_orig, uref_clock_set_pts_orig } };
static const int_fn REBASE[3][4] = {
    { NULL, uref_clock_rebase_cr_sys,  uref_clock_rebase_dts_sys,  uref_clock_rebase_pts_sys },
    { NULL, uref_clock_rebase_cr_prog, uref_clock_rebase_dts_prog, uref_clock_rebase_pts_prog },
    { NULL, uref_clock_rebase_cr_orig, uref_clock_rebase_dts_orig, uref_clock_rebase_pts_orig } };
static const cmp_fn CMP[3][4] = {
    { NULL, uref_clock_cmp_cr_sys,  uref_clock_cmp_dts_sys,  uref_clock_cmp_pts_sys },
    { NULL, uref_clock_cmp_cr_prog, uref_clock_cmp_dts_prog, uref_clock_cmp_pts_prog },
    { NULL, uref_clock_cmp_cr_orig, uref_clock_cmp_dts_orig, uref_clock_cmp_pts_orig } };
static const setdate_fn SETDATE[3] = { uref_clock_set_date_sys, uref_clock_set_date_prog, uref_clock_set_date_orig };
static const getdate_fn GETDATE[3] = { uref_clock_get_date_sys, uref_clock_get_date_prog, uref_clock_get_date_orig };
static const void_fn DELDATE[3] = { uref_clock_delete_date_sys, uref_clock_delete_date_prog, uref_clock_delete_date_orig };
static const add_fn ADD[3] = { uref_clock_add_date_sys, uref_clock_add_date_prog, uref_clock_add_date_orig };
static const setrap_fn SETRAP[3] = { uref_clock_set_rap_sys, uref_clock_set_rap_prog, uref_clock_set_rap_orig };
static const get_fn HGET[3] = { uref_clock_get_rap_cr_delay, uref_clock_get_cr_dts_delay, uref_clock_get_dts_pts_delay };
static const set_fn HSET[3] = { uref_clock_set_rap_cr_delay, uref_clock_set_cr_dts_delay, uref_clock_set_dts_pts_delay };
static const void_fn HDEL[3] = { uref_clock_delete_rap_cr_delay, uref_clock_delete_cr_dts_delay, uref_clock_delete_dts_pts_delay };
static const copy_fn HCOPY[3] = { uref_clock_copy_rap_cr_delay, uref_clock_copy_cr_dts_delay, uref_clock_copy_dts_pts_delay };
static const cmp_fn HCMP[3] = { uref_clock_cmp_rap_cr_delay, uref_clock_cmp_cr_dts_delay, uref_clock_cmp_dts_pts_delay };

/* ---- everything observable about the clock state of one uref ---- */
struct obs {
    int type[3];
    uint64_t raw[3];
    bool ok[3][4];
    uint64_t v[3][4];
    bool hok[3];
    uint64_t h[3];
    uint64_t oflags;   /* flags outside the six type bits */
    uint64_t priv;
};

/* ---- reference model ---- */
struct mdl {
    int type[3];
    uint64_t date[3];
    uint64_t hop[3];
    uint64_t oflags, priv;
    int chain[3];      /* successful type-changing rebases in this domain (for the NT rule) */
};

struct ctx {
    struct tape t;
    struct vp_report *rep;
    bool render;
    struct fix_mem fm;
    struct uref *u[MAXU];
    struct mdl m[MAXU];
    struct obs last[MAXU];
    int ret;
    uint64_t hash;
    uint32_t cl;
    int maxchain;
    bool reb_refused, reb_wrap;
    int dup_src[MAXU];     /* slot is a dup of that slot and has not differed from it yet; -1 otherwise */
};

#define R(...) do { if (c->render) vp_render(c->rep, __VA_ARGS__); } while (0)
#define FAIL(key, ...) do { if (!c->ret) c->ret = vp_fail(c->rep, key, __VA_ARGS__); } while (0)
#define CL(b) (c->cl |= 1u << (b))

/* model getter: walk from the stored stage to the requested one over the hops */
static bool m_get(const struct mdl *m, int dom, int stage, uint64_t *out, bool *wrapped)
{
    int t = m->type[dom];
    if (t < ST_CR || t > ST_PTS) return false;
    uint64_t v = m->date[dom];
    bool w = false;
    for (int s = t; s < stage; s++) {
        if (m->hop[s] == UNSET) return false;
        uint64_t n = v + m->hop[s];
        if (n < v) w = true;
        v = n;
    }
    for (int s = t; s > stage; s--) {
        if (m->hop[s - 1] == UNSET) return false;
        if (m->hop[s - 1] > v) w = true;
        v -= m->hop[s - 1];
    }
    if (out) *out = v;
    if (wrapped) *wrapped = w;
    return true;
}

/* model set_date: when the stored stage is earlier than the new one, the hop next to the stored
 * stage is recorded so that the stored stage keeps its date — provided the hops in between are
 * known (uref_clock.h set_date: CR->DTS, DTS->PTS, CR->PTS with dts_pts_delay). */
static int m_set(struct mdl *m, int dom, uint64_t date, int type)
{
    int cur = m->type[dom];
    int recorded = 0;
    if (cur >= ST_CR && type > cur && type <= ST_PTS) {
        uint64_t between = 0;
        bool known = true;
        for (int s = cur + 1; s < type; s++) {
            if (m->hop[s] == UNSET) known = false;
            else between += m->hop[s];
        }
        if (known) { m->hop[cur] = date - between - m->date[dom]; recorded = 1; }
        else recorded = -1;
    }
    m->type[dom] = type;
    m->date[dom] = date;
    return recorded;
}

static void predict(const struct mdl *m, struct obs *o, bool *anywrap)
{
    memset(o, 0, sizeof *o);
    for (int d = 0; d < 3; d++) {
        o->type[d] = m->type[d];
        o->raw[d] = m->date[d];
        for (int s = 0; s < 4; s++) {
            bool w = false;
            o->ok[d][s] = m_get(m, d, s, &o->v[d][s], &w);
            if (o->ok[d][s] && w) *anywrap = true;
        }
    }
    for (int k = 0; k < 3; k++) { o->hok[k] = m->hop[k] != UNSET; o->h[k] = o->hok[k] ? m->hop[k] : 0; }
    o->oflags = m->oflags; o->priv = m->priv;
}

static void observe(struct uref *u, struct obs *o)
{
    memset(o, 0, sizeof *o);
    for (int d = 0; d < 3; d++) {
        GETDATE[d](u, &o->raw[d], &o->type[d]);
        for (int s = 0; s < 4; s++) {
            uint64_t v = UINT64_C(0xA5A5A5A5A5A5A5A5);
            o->ok[d][s] = ubase_check(GET[d][s](u, &v));
            o->v[d][s] = o->ok[d][s] ? v : 0;
        }
    }
    for (int k = 0; k < 3; k++) {
        uint64_t v = UINT64_C(0xA5A5A5A5A5A5A5A5);
        o->hok[k] = ubase_check(HGET[k](u, &v));
        o->h[k] = o->hok[k] ? v : 0;
    }
    o->oflags = u->flags & ~TYPE_MASK;
    o->priv = u->priv;
}

/* first difference between two observations; raw dates are only compared under a type */
static bool obs_diff(const struct obs *a, const struct obs *b, char *buf, size_t n, const char *na, const char *nb)
{
    for (int d = 0; d < 3; d++) {
        if (a->type[d] != b->type[d]) { snprintf(buf, n, "%s type: %s %s, %s %s", dom_name[d], na, ty_name[a->type[d] & 3], nb, ty_name[b->type[d] & 3]); return true; }
        if (a->type[d] && a->raw[d] != b->raw[d]) { snprintf(buf, n, "%s stored date: %s %" PRIu64 ", %s %" PRIu64, dom_name[d], na, a->raw[d], nb, b->raw[d]); return true; }
        for (int s = 0; s < 4; s++) {
            if (a->ok[d][s] != b->ok[d][s]) { snprintf(buf, n, "get_%s_%s: %s %s, %s %s", st_name[s], dom_name[d], na, a->ok[d][s] ? "succeeds" : "fails", nb, b->ok[d][s] ? "succeeds" : "fails"); return true; }
            if (a->ok[d][s] && a->v[d][s] != b->v[d][s]) { snprintf(buf, n, "get_%s_%s: %s %" PRIu64 ", %s %" PRIu64, st_name[s], dom_name[d], na, a->v[d][s], nb, b->v[d][s]); return true; }
        }
    }
    for (int k = 0; k < 3; k++) {
        if (a->hok[k] != b->hok[k]) { snprintf(buf, n, "%s: %s %s, %s %s", hop_name[k], na, a->hok[k] ? "set" : "unset", nb, b->hok[k] ? "set" : "unset"); return true; }
        if (a->hok[k] && a->h[k] != b->h[k]) { snprintf(buf, n, "%s: %s %" PRIu64 ", %s %" PRIu64, hop_name[k], na, a->h[k], nb, b->h[k]); return true; }
    }
    if (a->oflags != b->oflags) { snprintf(buf, n, "other flags: %s %#" PRIx64 ", %s %#" PRIx64, na, a->oflags, nb, b->oflags); return true; }
    if (a->priv != b->priv) { snprintf(buf, n, "priv: %s %" PRIu64 ", %s %" PRIu64, na, a->priv, nb, b->priv); return true; }
    return false;
}

/* every date / rap readable in `before` reads the same in `after` */
static bool frame_broken(const struct obs *before, const struct obs *after, char *buf, size_t n)
{
    for (int d = 0; d < 3; d++)
        for (int s = 0; s < 4; s++) {
            if (!before->ok[d][s]) continue;
            if (!after->ok[d][s]) { snprintf(buf, n, "get_%s_%s returned %" PRIu64 " before and fails after", st_name[s], dom_name[d], before->v[d][s]); return true; }
            if (after->v[d][s] != before->v[d][s]) { snprintf(buf, n, "get_%s_%s returned %" PRIu64 " before and %" PRIu64 " after", st_name[s], dom_name[d], before->v[d][s], after->v[d][s]); return true; }
        }
    return false;
}

static void render_state(struct ctx *c, int ui)
{
    if (!c->render) return;
    const struct obs *o = &c->last[ui];
    vp_render(c->rep, "      u%d:", ui);
    for (int d = 0; d < 3; d++) {
        if (o->type[d]) vp_render(c->rep, " %s=%s:%" PRIu64, dom_name[d], ty_name[o->type[d] & 3], o->raw[d]);
        else vp_render(c->rep, " %s=--", dom_name[d]);
    }
    for (int k = 2; k >= 0; k--) {
        if (o->hok[k]) vp_render(c->rep, " %s=%" PRIu64, hop_name[k], o->h[k]);
        else vp_render(c->rep, " %s=-", hop_name[k]);
    }
    vp_render(c->rep, " |");
    for (int d = 0; d < 3; d++) {
        if (!o->type[d]) continue;
        vp_render(c->rep, " %s(", dom_name[d]);
        for (int s = 0; s < 4; s++) {
            if (o->ok[d][s]) vp_render(c->rep, "%s%s=%" PRIu64, s ? " " : "", st_name[s], o->v[d][s]);
            else vp_render(c->rep, "%s%s=ERR", s ? " " : "", st_name[s]);
        }
        vp_render(c->rep, ")");
    }
    vp_render(c->rep, "\n");
}

/* statement-level invariants on the observed values only */
static void invariants(struct ctx *c, int ui, const struct obs *o, const char *opname)
{
    char key[96];
    int typed = 0;
    for (int d = 0; d < 3 && !c->ret; d++) {
        if (o->type[d]) typed++;
        if (o->ok[d][ST_CR] && o->ok[d][ST_DTS] && o->hok[1] && o->v[d][ST_DTS] != o->v[d][ST_CR] + o->h[1]) {
            snprintf(key, sizeof key, "C11/invariant-dts/%s", opname);
            FAIL(key, "u%d %s: dts %" PRIu64 " != cr %" PRIu64 " + cr_dts_delay %" PRIu64 " (stored as %s)", ui, dom_name[d],
                 o->v[d][ST_DTS], o->v[d][ST_CR], o->h[1], ty_name[o->type[d] & 3]);
        }
        if (o->ok[d][ST_DTS] && o->ok[d][ST_PTS] && o->hok[2] && o->v[d][ST_PTS] != o->v[d][ST_DTS] + o->h[2]) {
            snprintf(key, sizeof key, "C11/invariant-pts/%s", opname);
            FAIL(key, "u%d %s: pts %" PRIu64 " != dts %" PRIu64 " + dts_pts_delay %" PRIu64 " (stored as %s)", ui, dom_name[d],
                 o->v[d][ST_PTS], o->v[d][ST_DTS], o->h[2], ty_name[o->type[d] & 3]);
        }
        if (o->ok[d][ST_RAP] && o->ok[d][ST_CR] && o->hok[0] && o->v[d][ST_RAP] != o->v[d][ST_CR] - o->h[0]) {
            snprintf(key, sizeof key, "C11/invariant-rap/%s", opname);
            FAIL(key, "u%d %s: rap %" PRIu64 " != cr %" PRIu64 " - rap_cr_delay %" PRIu64 " (stored as %s)", ui, dom_name[d],
                 o->v[d][ST_RAP], o->v[d][ST_CR], o->h[0], ty_name[o->type[d] & 3]);
        }
        if (o->type[d] && o->raw[d] == UNSET) CL(CL_DATE_UNSET_VALUE);
        if (o->ok[d][0] && o->ok[d][1] && o->ok[d][2] && o->ok[d][3]) CL(CL_ALL_VIEWS);
    }
    if (typed == 3) CL(CL_THREE_DOMAINS);
}

/* after an operation: observe every live uref twice; `target` (and `target2`) may have changed,
 * the others must not; everything must match the model */
static void check_all(struct ctx *c, int target, int target2, const char *opname)
{
    char buf[256], key[96];
    for (int i = 0; i < MAXU && !c->ret; i++) {
        if (!c->u[i]) continue;
        struct obs now, again, want;
        observe(c->u[i], &now);
        observe(c->u[i], &again);
        if (obs_diff(&now, &again, buf, sizeof buf, "first reading", "second reading")) {
            snprintf(key, sizeof key, "C11/frame-getter/%s", opname);
            FAIL(key, "u%d: reading all accessors changed what they return: %s", i, buf);
            break;
        }
        if (i != target && i != target2 && obs_diff(&c->last[i], &now, buf, sizeof buf, "before", "after")) {
            snprintf(key, sizeof key, "C11/frame-other-uref/%s", opname);
            FAIL(key, "%s on u%d changed u%d: %s", opname, target, i, buf);
            break;
        }
        invariants(c, i, &now, opname);
        if (c->ret) break;
        bool anywrap = false;
        predict(&c->m[i], &want, &anywrap);
        if (anywrap) CL(CL_GET_WRAP);
        if (obs_diff(&now, &want, buf, sizeof buf, "real", "model")) {
            snprintf(key, sizeof key, "C11/model/%s", opname);
            FAIL(key, "u%d after %s: %s", i, opname, buf);
            break;
        }
        c->last[i] = now;
    }
}

static const int64_t offs[8] = { 0, 1, -1, 2700, -2700, INT64_C(0x200000000), -INT64_C(0x200000000), 27000000 };

static uint64_t gen_date(struct ctx *c, int ui, int dom)
{
    const struct obs *o = &c->last[ui];
    uint8_t s = tp_u8(&c->t);
    unsigned hi = s >> 4;
    switch (s & 15) {
    case 0: return 0;
    case 1: return 1;
    case 2: return UINT64_C(1) << 33;
    case 3: return UINT64_C(1) << 63;
    case 4: return UINT64_MAX - 1;
    case 5: return UINT64_MAX;
    case 6: return UINT64_C(27000000) * (hi + 1);
    case 7: case 8: case 9: {   /* around a view that is readable now */
        int st = (s & 15) - 6;
        uint64_t base = o->ok[dom][st] ? o->v[dom][st] : (o->type[dom] ? o->raw[dom] : 1000);
        return base + (uint64_t)offs[hi % 8]; }
    case 10: {  /* a value whose sum with a known hop lands on UINT64_MAX, 0, 1, 2 */
        int k = 1 + (hi & 1);
        uint64_t hop = o->hok[k] ? o->h[k] : 5;
        return UINT64_MAX - hop + (hi >> 1) % 4; }
    case 11: {  /* around the stored date of another domain */
        int od = (dom + 1 + (hi & 1)) % 3;
        uint64_t base = o->type[od] ? o->raw[od] : 7;
        return base + (uint64_t)offs[(hi >> 1) % 8]; }
    case 12: return tp_u64(&c->t);
    case 13: return tp_u32(&c->t);
    case 14: return (UINT64_C(1) << 33) * 300 - 1 + hi;   /* MPEG 33-bit wrap at 27 MHz */
    default: return UINT64_MAX - tp_u8(&c->t);
    }
}

static uint64_t gen_delay(struct ctx *c, int ui)
{
    const struct obs *o = &c->last[ui];
    uint8_t s = tp_u8(&c->t);
    unsigned hi = s >> 4;
    int d = hi % 3;
    uint64_t stored = o->type[d] ? o->raw[d] : 90000;
    switch (s % 12) {
    case 0: return 0;
    case 1: return 1;
    case 2: return UINT64_C(1) << 33;
    case 3: return UINT64_C(1) << 63;
    case 4: return UINT64_MAX - 1;
    case 5: return UINT64_MAX;               /* the unset value: set == delete */
    case 6: return UINT64_C(1080000) * (hi + 1);
    case 7: return (uint64_t)0 - stored + (hi / 3) % 3 - 1;   /* stored + delay = UINT64_MAX, 0, 1 */
    case 8: return tp_u64(&c->t);
    case 9: return tp_u32(&c->t);
    case 10: return stored + 1 + (hi / 3);   /* larger than the stored date: subtraction wraps */
    default: return UINT64_MAX - tp_u8(&c->t);
    }
}

static int pick_live(struct ctx *c, unsigned k)
{
    int live[MAXU], n = 0;
    for (int i = 0; i < MAXU; i++) if (c->u[i]) live[n++] = i;
    return live[k % n];
}

static int run(const uint8_t *tp_, size_t len, struct vp_report *rep, unsigned flags)
{
    static struct ctx ctx;
    struct ctx *c = &ctx;
    memset(c, 0, sizeof *c);
    tp_init(&c->t, tp_, len);
    c->rep = rep; c->render = flags & VP_RENDER; c->hash = VP_HASH_INIT;
    for (int i = 0; i < MAXU; i++) c->dup_src[i] = -1;
    const int maxops = (flags & VP_THOROUGH) ? MAXOPS_THOROUGH : MAXOPS_QUICK;

    uint8_t cfg = tp_u8(&c->t);
    int depth = (cfg & 1) ? 3 : 0;          /* pooled urefs come back with stale fields */
    if (fix_mem_init(&c->fm, depth, 0, 0) != 0) return vp_internal(rep, "fixture init");
    if (depth) CL(CL_POOL);
    c->hash = vp_hash_mix(c->hash, cfg & 1);
    R("C11 config: uref pool depth %d\n", depth);

    if (depth) {   /* dirty the pool so that a recycled structure carries stale clock fields */
        struct uref *d1 = uref_alloc(c->fm.uref_mgr), *d2 = uref_alloc(c->fm.uref_mgr);
        if (!d1 || !d2) { uref_free(d1); uref_free(d2); fix_mem_clean(&c->fm); return vp_internal(rep, "uref_alloc"); }
        memset(&d1->flags, 0x5a, sizeof(struct uref) - offsetof(struct uref, flags));
        memset(&d2->flags, 0xc3, sizeof(struct uref) - offsetof(struct uref, flags));
        uref_free(d1); uref_free(d2);
    }
    c->u[0] = uref_alloc(c->fm.uref_mgr);
    if (!c->u[0]) { fix_mem_clean(&c->fm); return vp_internal(rep, "uref_alloc"); }
    for (int d = 0; d < 3; d++) { c->m[0].type[d] = 0; c->m[0].date[d] = UNSET; c->m[0].hop[d] = UNSET; }
    c->m[0].oflags = 0; c->m[0].priv = UNSET;
    observe(c->u[0], &c->last[0]);
    check_all(c, 0, -1, "alloc");   /* a fresh uref has no date, no delay (uref_init) */
    if (!c->ret && (cfg & 0x0e)) {  /* optional realistic starting point: some delays already known */
        static const uint64_t d0[4] = { 0, 1080000, 3600000, UINT64_C(1) << 33 };
        if (cfg & 2) { uref_clock_set_cr_dts_delay(c->u[0], d0[(cfg >> 4) & 3]); c->m[0].hop[1] = d0[(cfg >> 4) & 3]; }
        if (cfg & 4) { uref_clock_set_dts_pts_delay(c->u[0], d0[(cfg >> 6) & 3]); c->m[0].hop[2] = d0[(cfg >> 6) & 3]; }
        if (cfg & 8) { uref_clock_set_rap_cr_delay(c->u[0], 27000000); c->m[0].hop[0] = 27000000; }
        R("  preset:%s%s%s\n", (cfg & 2) ? " cr_dts_delay" : "", (cfg & 4) ? " dts_pts_delay" : "", (cfg & 8) ? " rap_cr_delay" : "");
        c->hash = vp_hash_mix(c->hash, cfg);
        check_all(c, 0, -1, "preset");
        render_state(c, 0);
    }

    int nops = 0;
    while (!tp_done(&c->t) && nops < maxops && !c->ret) {
        nops++;
        uint8_t op = tp_u8(&c->t) % 16;
        uint8_t tb = tp_u8(&c->t);
        int dom = tb % 3, ty = 1 + (tb / 3) % 3;
        int ui = pick_live(c, tb / 9);
        struct uref *u = c->u[ui];
        struct mdl *m = &c->m[ui];
        struct obs pre = c->last[ui];
        int target2 = -1;
        const char *opname = "noop";
        char key[96], buf[256];
        /* operations that need a date: prefer a domain that has one (the high bit keeps the raw choice) */
        if ((op == 3 || op == 4 || op == 13 || op == 7 || op == 8 || op == 9) && !pre.type[dom] && !(tb & 0x80))
            for (int d = 1; d < 3; d++) if (pre.type[(dom + d) % 3]) { dom = (dom + d) % 3; break; }
        /* rebase: mostly towards another stage than the stored one */
        if ((op == 3 || op == 4 || op == 13) && pre.type[dom]) {
            int k = (tb / 3) % 3;   /* 0: next stage (cyclic), 1: previous, 2: the stored one */
            ty = k == 2 ? pre.type[dom] : 1 + (pre.type[dom] - 1 + (k == 0 ? 1 : 2)) % 3;
        }
        c->hash = vp_hash_mix(c->hash, (uint64_t)op << 16 | (uint64_t)dom << 12 | (uint64_t)ty << 8 | tb);

        switch (op) {
        case 1: case 2: case 15: {    /* set as cr / dts / pts */
            opname = "set";
            uint64_t date = gen_date(c, ui, dom);
            c->hash = vp_hash_mix(c->hash, date);
            struct mdl before = *m;
            SET[dom][ty](u, date);
            int rec = m_set(m, dom, date, ty);
            R("  u%d set_%s_%s(%" PRIu64 ")%s\n", ui, st_name[ty], dom_name[dom], date,
              rec > 0 ? "  [records a delay]" : rec < 0 ? "  [later stage, delay in between unknown: nothing recorded]" : "");
            if (rec > 0) { CL(CL_SET_RECORDS); if (m->hop[before.type[dom]] == UNSET) CL(CL_DELAY_ALIAS); }
            if (rec < 0) CL(CL_SET_CR2PTS_NODP);
            /* read back as the same type */
            uint64_t back = 0;
            if (!ubase_check(GET[dom][ty](u, &back)) || back != date) {
                FAIL("C11/readback/set", "u%d set_%s_%s(%" PRIu64 ") then get_%s_%s %s %" PRIu64, ui, st_name[ty], dom_name[dom], date,
                     st_name[ty], dom_name[dom], ubase_check(GET[dom][ty](u, &back)) ? "returns" : "fails, value left", back);
                break;
            }
            /* did it move a view of another domain (shared delays)? */
            for (int d = 0; d < 3; d++) if (d != dom) for (int s = 0; s < 4; s++) {
                uint64_t a, b;
                bool oka = m_get(&before, d, s, &a, NULL), okb = m_get(m, d, s, &b, NULL);
                if (oka != okb || (oka && a != b)) CL(CL_CROSS_DOMAIN);
            }
            break; }
        case 12: {   /* generic set_date with a type, NONE included (what copying callers do) */
            opname = "set_date";
            int type = (tb / 3) % 4;
            uint64_t date = gen_date(c, ui, dom);
            c->hash = vp_hash_mix(c->hash, date);
            SETDATE[dom](u, date, type);
            int rec = m_set(m, dom, date, type);
            R("  u%d set_date_%s(%" PRIu64 ", %s)%s\n", ui, dom_name[dom], date, ty_name[type], rec > 0 ? "  [records a delay]" : "");
            if (rec > 0) CL(CL_SET_RECORDS);
            if (rec < 0) CL(CL_SET_CR2PTS_NODP);
            uint64_t rd = 0; int rt = -1;
            GETDATE[dom](u, &rd, &rt);
            if (rt != type || rd != date)
                FAIL("C11/readback/set_date", "u%d set_date_%s(%" PRIu64 ", %s) then get_date returns (%" PRIu64 ", %s)", ui, dom_name[dom], date, ty_name[type], rd, ty_name[rt & 3]);
            break; }
        case 3: case 4: case 13: {   /* rebase */
            opname = "rebase";
            uint64_t v = 0; bool wrapped = false;
            bool can = m_get(m, dom, ty, &v, &wrapped);
            int err = REBASE[dom][ty](u);
            R("  u%d rebase_%s_%s() -> %s\n", ui, st_name[ty], dom_name[dom], ubase_check(err) ? "ok" : "refused");
            if (can) {
                /* spec-level model: the stored stage changes, no readable date does, no delay does */
                if (m->type[dom] != ty) {
                    CL(CL_REBASE_CHANGE);
                    if (++m->chain[dom] >= 2) CL(CL_CHAIN2);
                    if (m->chain[dom] > c->maxchain) c->maxchain = m->chain[dom];
                    if (wrapped) { CL(CL_REBASE_WRAP); c->reb_wrap = true; }
                }
                m->type[dom] = ty; m->date[dom] = v;
            } else if (m->type[dom]) { CL(CL_REBASE_REFUSED_UNSET); c->reb_refused = true; }
            if (ubase_check(err) != can) {
                FAIL("C11/domain/rebase", "u%d rebase_%s_%s %s although get_%s_%s %s before", ui, st_name[ty], dom_name[dom],
                     ubase_check(err) ? "succeeds" : "fails", st_name[ty], dom_name[dom], can ? "succeeded" : "failed");
                break;
            }
            struct obs now; observe(u, &now);
            if (frame_broken(&pre, &now, buf, sizeof buf))
                FAIL("C11/frame/rebase", "u%d rebase_%s_%s (%s): %s", ui, st_name[ty], dom_name[dom], ubase_check(err) ? "ok" : "refused", buf);
            else if (ubase_check(err) && now.type[dom] != ty)
                FAIL("C11/readback/rebase", "u%d rebase_%s_%s succeeded but the date is stored as %s", ui, st_name[ty], dom_name[dom], ty_name[now.type[dom] & 3]);
            break; }
        case 5: case 6: {   /* set a shared delay */
            opname = "set_delay";
            int k = (tb / 3) % 3;
            uint64_t v = gen_delay(c, ui);
            c->hash = vp_hash_mix(c->hash, v);
            struct mdl before = *m;
            HSET[k](u, v);
            m->hop[k] = v;
            R("  u%d set_%s(%" PRIu64 ")%s\n", ui, hop_name[k], v, v == UNSET ? "  [the unset value]" : "");
            uint64_t back = 0;
            bool ok = ubase_check(HGET[k](u, &back));
            if (ok != (v != UNSET) || (ok && back != v))
                FAIL("C11/readback/set_delay", "u%d set_%s(%" PRIu64 ") then the getter %s %" PRIu64, ui, hop_name[k], v, ok ? "returns" : "fails,", back);
            (void)before;
            break; }
        case 10: {   /* delete a shared delay */
            opname = "delete_delay";
            int k = (tb / 3) % 3;
            HDEL[k](u);
            m->hop[k] = UNSET;
            R("  u%d delete_%s()\n", ui, hop_name[k]);
            uint64_t back;
            if (ubase_check(HGET[k](u, &back)))
                FAIL("C11/readback/delete_delay", "u%d delete_%s then the getter succeeds (%" PRIu64 ")", ui, hop_name[k], back);
            break; }
        case 7: {   /* set_rap */
            opname = "set_rap";
            uint8_t s = tp_u8(&c->t);
            uint64_t cr = pre.ok[dom][ST_CR] ? pre.v[dom][ST_CR] : 1000;
            uint64_t r;
            switch (s % 10) {
            case 0: r = cr; break;
            case 1: r = cr + 1; break;
            case 2: r = cr - 1; break;
            case 3: r = 0; break;
            case 4: r = UINT64_MAX; break;
            case 5: r = cr - UINT64_C(27000000) * (s >> 4); break;
            case 6: r = tp_u64(&c->t); break;
            case 7: r = UINT64_C(1) << 63; break;
            case 8: r = cr + (UINT64_C(1) << 33); break;
            default: r = 1; break;
            }
            c->hash = vp_hash_mix(c->hash, r);
            int err = SETRAP[dom](u, r);
            R("  u%d set_rap_%s(%" PRIu64 ") -> %s   (cr %s%" PRIu64 ")\n", ui, dom_name[dom], r, ubase_check(err) ? "ok" : "refused",
              pre.ok[dom][ST_CR] ? "" : "unreadable ", pre.ok[dom][ST_CR] ? pre.v[dom][ST_CR] : 0);
            /* statement: a rap can only be recorded at or before the clock reference (observed cr) */
            if (!pre.ok[dom][ST_CR]) {
                CL(CL_RAP_NOCR);
                if (ubase_check(err)) { FAIL("C11/rap/set_rap", "u%d set_rap_%s(%" PRIu64 ") succeeds although no clock reference is readable in %s", ui, dom_name[dom], r, dom_name[dom]); break; }
            } else if (r > pre.v[dom][ST_CR]) {
                CL(CL_RAP_REFUSED);
                if (ubase_check(err)) { FAIL("C11/rap/set_rap", "u%d set_rap_%s(%" PRIu64 ") accepted although it is after the clock reference %" PRIu64, ui, dom_name[dom], r, pre.v[dom][ST_CR]); break; }
            } else {
                CL(CL_RAP_OK);
                if (r == pre.v[dom][ST_CR]) CL(CL_RAP_EQ_CR);
                if (!ubase_check(err)) { FAIL("C11/rap/set_rap", "u%d set_rap_%s(%" PRIu64 ") refused although it is not after the clock reference %" PRIu64, ui, dom_name[dom], r, pre.v[dom][ST_CR]); break; }
                m->hop[0] = pre.v[dom][ST_CR] - r;      /* "duration between RAP and CR"; UINT64_MAX = unset */
                if (m->hop[0] == UNSET) CL(CL_DELAY_ALIAS);
                else {
                    uint64_t back = 0;
                    if (!ubase_check(GET[dom][ST_RAP](u, &back)) || back != r) {
                        FAIL("C11/rap/set_rap", "u%d set_rap_%s(%" PRIu64 ") accepted, then get_rap_%s %s %" PRIu64, ui, dom_name[dom], r, dom_name[dom],
                             ubase_check(GET[dom][ST_RAP](u, &back)) ? "returns" : "fails, value left", back);
                        break;
                    }
                }
            }
            if (!ubase_check(err)) {   /* refused: nothing may have changed */
                struct obs now; observe(u, &now);
                if (obs_diff(&pre, &now, buf, sizeof buf, "before", "after"))
                    FAIL("C11/rap-refused-changed/set_rap", "u%d set_rap_%s(%" PRIu64 ") was refused but changed: %s", ui, dom_name[dom], r, buf);
            }
            break; }
        case 8: {   /* add a (signed) delay to the date */
            opname = "add";
            uint8_t s = tp_u8(&c->t);
            uint64_t stored = pre.type[dom] ? pre.raw[dom] : 500;
            int64_t delta;
            switch (s % 10) {
            case 0: delta = 0; break;
            case 1: delta = 1; break;
            case 2: delta = -1; break;
            case 3: delta = INT64_MIN; break;
            case 4: delta = INT64_MAX; break;
            case 5: delta = (int64_t)((uint64_t)0 - stored); break;                /* lands on 0 */
            case 6: delta = (int64_t)(UINT64_MAX - stored); break;                 /* lands on UINT64_MAX */
            case 7: delta = (int64_t)tp_u64(&c->t); break;
            case 8: delta = INT64_C(1080000) * (1 + (s >> 4)); break;
            default: delta = (int64_t)((uint64_t)0 - stored - 2); break;           /* lands on UINT64_MAX - 1 */
            }
            c->hash = vp_hash_mix(c->hash, (uint64_t)delta);
            ADD[dom](u, delta);
            uint64_t rd = 0; int rt = -1;
            GETDATE[dom](u, &rd, &rt);
            R("  u%d add_date_%s(%" PRId64 ")\n", ui, dom_name[dom], delta);
            if (m->type[dom] == 0) {
                /* no date: the raw value under NONE is not observable through the typed getters */
                m->date[dom] = rd;
            } else if (m->date[dom] == UNSET) {
                /* don't-care: "adds the delay" (comment) vs "skips an unset value" (code) */
                CL(CL_ADD_DONTCARE);
                if (rd != UNSET && rd != UNSET + (uint64_t)delta)
                    FAIL("C11/add/add", "u%d add_date_%s(%" PRId64 ") on a stored value UINT64_MAX left %" PRIu64, ui, dom_name[dom], delta, rd);
                m->date[dom] = rd;
            } else {
                m->date[dom] += (uint64_t)delta;
                if (delta) CL(CL_ADD_OK);
                /* all readable views of this domain move by delta, the other domains do not move */
                struct obs now; observe(u, &now);
                for (int st = 0; st < 4 && !c->ret; st++)
                    if (pre.ok[dom][st] && (!now.ok[dom][st] || now.v[dom][st] != pre.v[dom][st] + (uint64_t)delta))
                        FAIL("C11/add/add", "u%d add_date_%s(%" PRId64 "): get_%s was %" PRIu64 ", now %s %" PRIu64, ui, dom_name[dom], delta,
                             st_name[st], pre.v[dom][st], now.ok[dom][st] ? "returns" : "fails", now.v[dom][st]);
            }
            break; }
        case 9: {   /* delete the date of a domain */
            opname = "delete";
            DELDATE[dom](u);
            m->type[dom] = 0; m->date[dom] = UNSET;
            R("  u%d delete_date_%s()\n", ui, dom_name[dom]);
            for (int st = 0; st < 4 && !c->ret; st++) {
                uint64_t v;
                if (ubase_check(GET[dom][st](u, &v)))
                    FAIL("C11/readback/delete", "u%d delete_date_%s then get_%s_%s succeeds (%" PRIu64 ")", ui, dom_name[dom], st_name[st], dom_name[dom], v);
            }
            break; }
        case 11: {   /* dup */
            opname = "dup";
            int slot = -1;
            for (int i = 0; i < MAXU; i++) if (!c->u[i]) { slot = i; break; }
            if (slot < 0) {   /* all slots taken: recycle one that is not the source */
                slot = (ui + 1 + (tb >> 6)) % MAXU;
                if (slot == ui) slot = (slot + 1) % MAXU;
                R("  free(u%d)\n", slot);
                uref_free(c->u[slot]); c->u[slot] = NULL;
                for (int i = 0; i < MAXU; i++) if (c->dup_src[i] == slot) c->dup_src[i] = -1;
            }
            struct uref *n = uref_dup(u);
            if (!n) { c->ret = vp_internal(rep, "uref_dup"); break; }
            c->u[slot] = n; c->m[slot] = *m;
            R("  u%d = dup(u%d)\n", slot, ui);
            CL(CL_DUP);
            c->dup_src[slot] = ui;
            target2 = slot;
            struct obs now, cp; observe(u, &now); observe(n, &cp);
            if (frame_broken(&pre, &now, buf, sizeof buf))
                FAIL("C11/frame/dup", "uref_dup(u%d) changed the source: %s", ui, buf);
            else if (obs_diff(&pre, &cp, buf, sizeof buf, "source", "copy"))
                FAIL("C11/dup-differs/dup", "u%d = uref_dup(u%d): %s", slot, ui, buf);
            c->last[slot] = cp;
            break; }
        case 14: {   /* misc: copy a delay from another uref / free a uref / other flags and priv */
            uint8_t s = tp_u8(&c->t);
            int k = (tb / 3) % 3;
            int other = pick_live(c, s >> 3);
            switch (s % 4) {
            case 0:
                opname = "clock_ref";
                if (s & 4) { uref_clock_set_ref(u); m->oflags |= UREF_FLAG_CLOCK_REF; }
                else { uref_clock_delete_ref(u); m->oflags &= ~(uint64_t)UREF_FLAG_CLOCK_REF; }
                R("  u%d %s_ref()\n", ui, (s & 4) ? "set" : "delete");
                break;
            case 1:
                opname = "priv";
                uref_attr_set_priv(u, (uint64_t)s * UINT64_C(0x0101010101010101));
                m->priv = (uint64_t)s * UINT64_C(0x0101010101010101);
                R("  u%d set_priv(%#" PRIx64 ")\n", ui, m->priv);
                break;
            case 2:
                opname = "copy_delay";
                if (other == ui) { opname = "noop"; break; }
                HCOPY[k](u, c->u[other]);
                m->hop[k] = c->m[other].hop[k];
                R("  u%d copy_%s(from u%d)\n", ui, hop_name[k], other);
                break;
            default: {
                opname = "free";
                int n = 0; for (int i = 0; i < MAXU; i++) if (c->u[i]) n++;
                if (n < 2) { opname = "noop"; break; }
                R("  free(u%d)\n", ui);
                uref_free(u); c->u[ui] = NULL;
                c->dup_src[ui] = -1;
                for (int i = 0; i < MAXU; i++) if (c->dup_src[i] == ui) c->dup_src[i] = -1;
                break; }
            }
            break; }
        default: {   /* 0: one read access — getter with a NULL pointer ("may be NULL"), or a cmp */
            uint8_t s = tp_u8(&c->t);
            int st = (tb / 3) % 4;
            int other = pick_live(c, s >> 3);
            if ((s & 3) == 1 && st >= ST_CR) {
                opname = "cmp";
                CL(CL_CMP);
                int r = CMP[dom][st](u, c->u[other]);
                uint64_t a = 0, b = 0;
                bool oka = m_get(m, dom, st, &a, NULL), okb = m_get(&c->m[other], dom, st, &b, NULL);
                bool same = (!oka && !okb) || (oka && okb && a == b);
                R("  cmp_%s_%s(u%d,u%d) -> %d\n", st_name[st], dom_name[dom], ui, other, r);
                if ((r == 0) != same)
                    FAIL("C11/cmp/cmp", "cmp_%s_%s(u%d,u%d) returns %d but the dates are %s (u%d: %s%" PRIu64 ", u%d: %s%" PRIu64 ")", st_name[st], dom_name[dom],
                         ui, other, r, same ? "both absent or identical" : "different", ui, oka ? "" : "absent ", a, other, okb ? "" : "absent ", b);
                target2 = other;
            } else if ((s & 3) == 2) {
                opname = "cmp_delay";
                int k = (tb / 3) % 3;
                CL(CL_CMP);
                int r = HCMP[k](u, c->u[other]);
                uint64_t a = m->hop[k], b = c->m[other].hop[k];
                R("  cmp_%s(u%d,u%d) -> %d\n", hop_name[k], ui, other, r);
                /* only the documented direction ("0 if both absent or identical"): the converse is an
                 * attribute-layer matter (uref_attr.h returns (int)(v1 - v2)), not part of the timestamp algebra */
                if (a == b && r != 0)
                    FAIL("C11/cmp/cmp_delay", "cmp_%s(u%d,u%d) returns %d but both delays are %" PRIu64 " (UINT64_MAX = absent)", hop_name[k], ui, other, r, a);
                target2 = other;
            } else {
                opname = "get";
                CL(CL_NULL_GETTER);
                int err = GET[dom][st](u, NULL);
                bool can = m_get(m, dom, st, NULL, NULL);
                R("  u%d get_%s_%s(NULL) -> %s\n", ui, st_name[st], dom_name[dom], ubase_check(err) ? "ok" : "error");
                if (ubase_check(err) != pre.ok[dom][st])
                    FAIL("C11/frame-getter/get", "u%d get_%s_%s(NULL) %s but the same getter with a pointer %s just before", ui, st_name[st], dom_name[dom],
                         ubase_check(err) ? "succeeds" : "fails", pre.ok[dom][st] ? "succeeded" : "failed");
                (void)can;
            }
            /* a read access changes nothing */
            if (!c->ret) {
                struct obs now; observe(u, &now);
                if (frame_broken(&pre, &now, buf, sizeof buf)) {
                    snprintf(key, sizeof key, "C11/frame/%s", opname);
                    FAIL(key, "u%d %s: %s", ui, opname, buf);
                }
            }
            break; }
        }
        if (c->ret) break;
        check_all(c, c->u[ui] ? ui : -1, target2, opname);
        if (!c->ret) {
            render_state(c, c->u[ui] ? ui : pick_live(c, 0));
            if (target2 >= 0 && c->u[target2] && target2 != ui && !strcmp(opname, "dup")) render_state(c, target2);
            /* dup that has since diverged from some other live uref */
            for (int i = 0; i < MAXU; i++) {
                int j = c->dup_src[i];
                char b2[8];
                if (j < 0) continue;
                if (!c->u[i] || !c->u[j]) { c->dup_src[i] = -1; continue; }
                if (obs_diff(&c->last[i], &c->last[j], b2, sizeof b2, "", "")) { CL(CL_DUP_DIVERGED); c->dup_src[i] = -1; }
            }
        }
    }

    for (int i = 0; i < MAXU; i++) if (c->u[i]) { uref_free(c->u[i]); c->u[i] = NULL; }
    const char *leak = fix_mem_clean(&c->fm);
    if (leak && !c->ret) c->ret = vp_internal(rep, "fixture: %s", leak);

    rep->case_hash = c->hash;
    rep->classes = c->cl;
    /* NT: a rebase chain of length >= 2 (same uref history, same domain) in a case where a rebase
     * was refused over an unset delay or went over a wrapping sum */
    rep->nontrivial = c->maxchain >= 2 && (c->reb_refused || c->reb_wrap);
    return c->ret;
}

const struct vp_executor vp_executor = { "C11", "clock", 260, class_names, run, NULL };

/* C16 (split) — each section reaches exactly the outputs whose filter/mask match its
 * leading octets, unmodified; outputs are added and removed between sections.
 *
 * Reference matcher (independent of ubuf_block_match): an output with (filter, mask, size),
 * filter a subset of mask as every caller in lib/upipe-ts builds them, selects a section iff
 * for every i < size the section has an octet i and ((octet ^ filter[i]) & mask[i]) == 0.
 * A section shorter than the filter cannot be selected when a masked octet is missing; when
 * all the missing octets are unmasked the answer is left open (not specified anywhere).
 * Sections are valid (header length consistent, long syntax only with >= 12 octets).
 */
#include "C16_fixture.h"
#include "upipe-ts/upipe_ts_psi_split.h"
#include "upipe-ts/uref_ts_flow.h"

#define MAXLIVE 4
#define MAXOUT  28
#define MAXOPS  24
#define MAXF    12
#define MAXLEN  4096

enum { CL_ADD_BETWEEN, CL_REMOVE_BETWEEN, CL_MATCH, CL_NOMATCH, CL_NEARMISS, CL_SHORT, CL_SEGFILTER,
       CL_MULTI, CL_ZERO_OUT, CL_BIG, CL_DUPFILTER, CL_PARENT_FIRST, CL_HOLD, CL_PARTIALMASK, CL_REMOVED_WOULD_MATCH, CL_REJECTING_SINK, CL_LAZY_OUTPUT, CL_FAULT, CL_FAULT_MISSED };
static const char *const class_names[] = {
    "output_added_between_sections", "output_removed_between_sections", "some_output_matched",
    "some_output_did_not_match", "one_masked_bit_off", "section_shorter_than_filter",
    "segment_boundary_inside_filtered_octets", "section_to_several_outputs", "section_with_no_output",
    "section_ge_1024", "two_outputs_same_filter", "split_released_before_outputs", "sink_holds_outputs",
    "mask_with_partial_octet", "removed_output_would_have_matched", "sink_refusing_flow_definitions", "output_connected_from_need_output_event",
    "allocation_refused_inside_the_pipe", "matching_output_missed_the_section_because_of_a_refused_allocation", NULL };

struct out {
    bool live, used;
    struct upipe *sub;
    struct c16_probe probe;
    struct c16_sink sink;
    uint8_t filter[MAXF], mask[MAXF];
    int fsize;
};

struct ctx {
    struct tape t; struct vp_report *rep; bool render; int ret;
    struct fix_mem fm;
    struct out out[MAXOUT]; int nout, nlive;
    struct c16_probe probe;
    struct upipe *split;
    uint32_t classes; uint64_t hash;
    unsigned seq;
    int nsections; bool any_match, any_nomatch;
    bool hold, faultmode;
};

#define R(...) do { if (c->render) vp_render(c->rep, __VA_ARGS__); } while (0)
/* Compiled three times: for C16 (routing of sections), with -DC16_AS=4 for C04 (announcements and flow definition of the
 * pipe and its sub-pipes: only keys "C04/...") and with -DC16_AS=1 for C01 (destroyed exactly once, nothing left: "C01/..."). */
#ifndef C16_AS
#define C16_AS 16
#endif
#if C16_AS == 4
#define EXEC_PID "C04"
#define KEY_ON(key) (!strncmp(key, "C04/", 4))
#elif C16_AS == 1
#define EXEC_PID "C01"
#define KEY_ON(key) (!strncmp(key, "C01/", 4))
#else
#define EXEC_PID "C16"
#define KEY_ON(key) (!strncmp(key, "C16/", 4))
#endif
#define FAIL(key, ...) do { if (!c->ret && KEY_ON(key)) c->ret = vp_fail(c->rep, key, __VA_ARGS__); } while (0)
/* protocol facts recorded by a probe of the fixture */
#define PROTO(pr, what, idx) do { \
    if ((pr).first_nonlog_not_ready) FAIL("C04/ready/first", "%s %d threw another event before READY", what, idx); \
    if ((pr).n_dead > 1) FAIL("C04/dead/count", "%s %d threw DEAD %u times", what, idx, (pr).n_dead); \
    if ((pr).n_after_dead) FAIL("C04/dead/last", "%s %d threw %u event(s) after DEAD (first: event %d)", what, idx, (pr).n_after_dead, (pr).first_after_dead); \
} while (0)
#define CLS(x) (c->classes |= 1u << (x))

/* 1 selected, 0 not selected, -1 unspecified */
static int ref_match(const uint8_t *sec, int len, const struct out *o)
{
    for (int i = 0; i < o->fsize && i < len; i++)
        if ((sec[i] ^ o->filter[i]) & o->mask[i]) return 0;
    if (len >= o->fsize) return 1;
    for (int i = len; i < o->fsize; i++) if (o->mask[i]) return 0;
    return -1;
}

static void add_output(struct ctx *c)
{
    if (c->nout >= MAXOUT || c->nlive >= MAXLIVE) return;
    struct out *o = &c->out[c->nout];
    memset(o, 0, sizeof(*o));
    uint8_t a = tp_u8(&c->t), tid = tp_u8(&c->t), seed = tp_u8(&c->t);
    static const int sizes[8] = { 8, 3, 1, 2, 4, 5, 12, 6 };
    o->fsize = sizes[a & 7];
    int mk = (a >> 3) & 7;
    if (mk == 6 && c->nout > 0) {                 /* same filter as an earlier output */
        struct out *p = &c->out[seed % c->nout];
        o->fsize = p->fsize; memcpy(o->filter, p->filter, MAXF); memcpy(o->mask, p->mask, MAXF);
        CLS(CL_DUPFILTER);
    } else {
        for (int i = 0; i < o->fsize; i++) {
            uint8_t m = 0;
            switch (mk) {
            case 0: m = i == 0 ? 0xff : 0; break;                               /* table_id */
            case 1: m = i == 0 ? 0xff : i == 1 ? 0x80 : 0; break;               /* + syntax bit (demux) */
            case 2: m = i == 0 || i == 3 || i == 4 ? 0xff : i == 1 ? 0x80 : 0; break;   /* + table_id_extension */
            case 3: m = i == 0 ? 0xff : i == 1 ? 0x80 : i == 5 ? 0x01 : 0; break;       /* + current_next */
            case 4: m = 0; break;                                               /* everything of that size */
            case 5: m = (uint8_t)(seed * (i + 3) * 37 + (seed >> (i % 5))); break;      /* arbitrary */
            case 6: m = i == o->fsize - 1 ? 0xff : 0; break;
            default: m = i == 1 ? 0xf0 : i == 2 ? 0 : 0xff; break;              /* all but the length */
            }
            o->mask[i] = m;
            uint8_t f = i == 0 ? tid : (uint8_t)(seed + i * 37 + tid);
            o->filter[i] = f & m;                                               /* filter subset of mask */
            if (m != 0 && m != 0xff) CLS(CL_PARTIALMASK);
        }
    }
    struct uref *flow_def = uref_block_flow_alloc_def(c->fm.uref_mgr, "mpegtspsi.");
    if (!flow_def || !ubase_check(uref_ts_flow_set_psi_filter(flow_def, o->filter, o->mask, o->fsize))) {
        if (flow_def) uref_free(flow_def);
        c->ret = vp_internal(c->rep, "cannot build the flow definition of an output");
        return;
    }
    c16_sink_init(&o->sink, c->nout, c->hold, &c->seq);
#if C16_AS == 4
    /* C04 only (the routing oracle is off): some sinks refuse every flow definition -- they must never receive a buffer */
    o->sink.reject_flow_def = (seed & 7) == 7;
    if (o->sink.reject_flow_def) CLS(CL_REJECTING_SINK);
#endif
    o->used = true;
    o->sub = upipe_flow_alloc_sub(c->split, c16_probe_init(&o->probe, "out", c->nout, c->rep, c->render), flow_def);
    uref_free(flow_def);
    if (!o->sub) { FAIL("C16/split/alloc-output", "allocation of output %d refused", c->nout); c->nout++; return; }
    if (((seed >> 3) & 3) == 3) {
        /* lazily plumbed: no output yet; the first section that matches makes the sub-pipe throw need_output, the probe connects the sink */
        o->probe.lazy_output = &o->sink.upipe;
        CLS(CL_LAZY_OUTPUT);
    } else if (!ubase_check(upipe_set_output(o->sub, &o->sink.upipe))) FAIL("C16/split/set-output", "set_output on output %d refused", c->nout);
    o->live = true;
    c->hash = vp_hash_mix(c->hash, 0x1000000 | (a << 16) | (tid << 8) | seed);
    if (c->render) {
        R("  add output %d: size=%d filter=", c->nout, o->fsize); c16_hex(c->rep, o->filter, o->fsize, MAXF);
        R(" mask="); c16_hex(c->rep, o->mask, o->fsize, MAXF); R("\n");
    }
    if (c->nsections) CLS(CL_ADD_BETWEEN);
    c->nout++; c->nlive++;
}

static void remove_output(struct ctx *c)
{
    if (!c->nlive) return;
    int k = tp_u8(&c->t) % c->nlive, idx = -1;
    for (int i = 0; i < c->nout; i++) if (c->out[i].live && k-- == 0) { idx = i; break; }
    if (idx < 0) return;
    R("  remove output %d\n", idx);
    upipe_release(c->out[idx].sub);
    c->out[idx].sub = NULL; c->out[idx].live = false; c->nlive--;
    c->hash = vp_hash_mix(c->hash, 0x2000000 | idx);
    if (c->nsections) CLS(CL_REMOVE_BETWEEN);
}

static void send_section(struct ctx *c)
{
    static uint8_t sec[MAXLEN + 16];
    uint8_t a = tp_u8(&c->t), b = tp_u8(&c->t), n = tp_u8(&c->t);
    int len;
    static const int lens[16] = { 12, 3, 8, 7, 9, 4, 5, 13, 64, 183, 185, 1024, 4096, 11, 6, 300 };
    len = lens[a & 15];
    bool syntax = b & 1;
    /* leading octets: arbitrary, then shaped after an existing output */
    for (int i = 0; i < len; i++) sec[i] = (uint8_t)(n * 17 + i * 29 + (i >> 8) + c->nsections * 3);
    sec[0] = n;
    sec[1] = (uint8_t)((syntax ? 0x80 : 0) | (b & 0x70));
    bool dictated = false;
    int base = -1;
    if (c->nout && ((a >> 4) & 3) != 0) {
        base = (a >> 6 | (b >> 4) << 2) % c->nout;
        struct out *o = &c->out[base];
        for (int i = 0; i < o->fsize && i < len; i++) sec[i] = (sec[i] & ~o->mask[i]) | o->filter[i];
        if (((a >> 4) & 3) == 3) {                 /* near miss: one masked bit wrong */
            int tries = 0, i = (b >> 1) % o->fsize;
            while (tries++ < MAXF && (i >= len || !o->mask[i])) i = (i + 1) % o->fsize;
            if (i < len && o->mask[i]) { uint8_t bit = o->mask[i] & -o->mask[i]; sec[i] ^= bit; CLS(CL_NEARMISS); }
        }
        if ((o->mask[1] & 0x0f) || (o->fsize > 2 && o->mask[2])) dictated = true;
    }
    /* make it a valid section */
    if (dictated && len >= 3) {
        int field = ((sec[1] & 0x0f) << 8) | sec[2];
        if (field <= 4093) {
            int nl = field + 3;
            for (int i = len; i < nl; i++) sec[i] = (uint8_t)(n * 17 + i * 29 + (i >> 8));
            len = nl;
        } else dictated = false;
    }
    if ((sec[1] & 0x80) && len < 12) {
        if (dictated) sec[1] &= 0x7f;
        else { for (int i = len; i < 12; i++) sec[i] = (uint8_t)(i * 29 + n); len = 12; }
    }
    sec[1] = (sec[1] & 0xf0) | (((len - 3) >> 8) & 0x0f);
    sec[2] = (len - 3) & 0xff;
    if (len >= 1024) CLS(CL_BIG);

    /* the buffer */
    int build = (b >> 1) & 3;    /* reuse of bits is harmless: 0,1 fresh; 2 pieces; 3 window */
    size_t cuts[4]; int ncuts = 0;
    struct ubuf *u;
    if (build == 2 && len > 1) {
        int k1 = 1 + (n % 11);
        if (k1 < len) cuts[ncuts++] = k1;
        if ((n & 0x80) && k1 + 1 < len) cuts[ncuts++] = k1 + 1;
        if ((n & 0x40) && 9 < len && 9 > k1 + 1) cuts[ncuts++] = 9;
        u = c16_block_pieces(c->fm.block_mgr, sec, len, cuts, ncuts, NULL);
    } else if (build == 3) u = c16_block_window(c->fm.block_mgr, sec, len, 1 + n % 7, n % 3);
    else u = c16_block_from(c->fm.block_mgr, sec, len);
    struct uref *uref = c16_uref_with(c->fm.uref_mgr, u);
    if (!uref) { c->ret = vp_internal(c->rep, "cannot build a section"); return; }

    c->hash = vp_hash_mix(c->hash, vp_hash_bytes(0x3000000 | len, sec, len < 16 ? len : 16) + ncuts);
    if (c->render) {
        R("  section %d: %d octets [", c->nsections, len); c16_hex(c->rep, sec, len, 12); R("]");
        if (base >= 0) R(" (shaped after output %d)", base);
        if (ncuts) { R(" cuts="); for (int i = 0; i < ncuts; i++) R("%zu,", cuts[i]); }
        R("\n");
    }
    int before[MAXOUT];
    for (int i = 0; i < c->nout; i++) before[i] = c->out[i].sink.nrec;
    if (!c->nlive) CLS(CL_ZERO_OUT);

    /* allocation faults (engine/faultmalloc.h): in a share of the cases one allocation inside the pipe is refused while it handles
     * the section.  An output may then miss the section (the pipe reports the error); what an output does receive is still the
     * whole section, once */
    bool refused = false;
#ifdef VP_FAULTMALLOC_H
    unsigned nth = (c->faultmode && (c->hash & 1)) ? 1 + (unsigned)(c->hash >> 1) % 6 : 0;
    vp_fault_arm(nth);
#endif
    upipe_input(c->split, uref, NULL);
#ifdef VP_FAULTMALLOC_H
    refused = vp_fault_disarm() > 0 && nth;
    if (refused) { CLS(CL_FAULT); R("      (allocation %u inside the pipe was refused)\n", nth); }
#endif

    int got = 0;
    for (int i = 0; i < c->nout && !c->ret; i++) {
        struct out *o = &c->out[i];
        if (!o->used) continue;
        int d = o->sink.nrec - before[i];
        int want = ref_match(sec, len, o);
        if (o->sink.broken) { FAIL("C16/split/output-unreadable", "output %d received a block whose size cannot be read", i); break; }
        if (!o->live) {
            if (want == 1) CLS(CL_REMOVED_WOULD_MATCH);
            if (d) FAIL("C16/split/after-removal", "section %d reached the sink of output %d after that output had been released", c->nsections, i);
            continue;
        }
        if (len < o->fsize) CLS(CL_SHORT);
        for (int k = 0; k < ncuts; k++) if (cuts[k] < (size_t)o->fsize) CLS(CL_SEGFILTER);
        R("      output %d: reference %s, received %d\n", i, want == 1 ? "selects" : want == 0 ? "rejects" : "open", d);
        if (d > 1) FAIL("C16/split/duplicate", "section %d was delivered %d times to output %d", c->nsections, d, i);
        else if (want == 1 && d == 0 && refused) CLS(CL_FAULT_MISSED);
        else if (want == 1 && d == 0) FAIL("C16/split/missed", "section %d matches filter/mask of output %d (size %d) but was not delivered", c->nsections, i, o->fsize);
        else if (want == 0 && d == 1) FAIL("C16/split/unwanted", "section %d does not match filter/mask of output %d (size %d, section %d octets) but was delivered", c->nsections, i, o->fsize, len);
        if (d == 1 && !c->ret) {
            struct c16_rec *r = &o->sink.rec[o->sink.nrec - 1];
            if (r->len != (size_t)len || memcmp(r->data, sec, len))
                FAIL("C16/split/content", "output %d received %zu octets for section %d of %d octets, or different octets", i, r->len, c->nsections, len);
            got++;
        }
        if (want == 1) { c->any_match = true; CLS(CL_MATCH); }
        if (want == 0) { c->any_nomatch = true; CLS(CL_NOMATCH); }
    }
    if (got >= 2) CLS(CL_MULTI);
    c->nsections++;
}

static int run(const uint8_t *tape, size_t len, struct vp_report *rep, unsigned flags)
{
    static struct ctx ctx;
    struct ctx *c = &ctx;
    memset(c, 0, sizeof(*c));
    tp_init(&c->t, tape, len);
    c->rep = rep; c->render = flags & VP_RENDER; c->hash = VP_HASH_INIT;

    uint8_t b0 = tp_u8(&c->t);
    int ninit = b0 % 5;
    c->hold = (b0 >> 4) & 1;
    bool parent_first = (b0 >> 5) & 1;
    int mgrcfg = (b0 >> 6) & 3;
    c->faultmode = ((b0 * 167u) >> 3) % 4 == 1;      /* (a quarter of the configurations; every bit of b0 is taken) */
    static const int depth[4] = { 0, 0, 2, 8 }, prep[4] = { 0, 8, 0, 32 };
    if (fix_mem_init_full(&c->fm, depth[mgrcfg], prep[mgrcfg], 0, 0, 0) != 0) return vp_internal(rep, "fix_mem_init");
    c->hash = vp_hash_mix(c->hash, b0);
    if (c->hold) CLS(CL_HOLD);
    R("C16/split initial outputs=%d hold=%d split-released-first=%d mgr=%d\n", ninit, c->hold, parent_first, mgrcfg);

    c->split = upipe_void_alloc(upipe_ts_psi_split_mgr_alloc(), c16_probe_init(&c->probe, "split", 0, rep, c->render));
    struct uref *flow_def = uref_block_flow_alloc_def(c->fm.uref_mgr, "mpegtspsi.");
    if (!c->split || !flow_def) { c->ret = vp_internal(rep, "cannot allocate the pipe"); goto out; }
    if (!ubase_check(upipe_set_flow_def(c->split, flow_def))) FAIL("C16/split/flow-def", "flow definition block.mpegtspsi. refused");
    uref_free(flow_def); flow_def = NULL;

    for (int i = 0; i < ninit && !c->ret; i++) add_output(c);
    int maxops = (flags & VP_THOROUGH) ? MAXOPS : 16;
    int nops = 1 + tp_u8(&c->t) % maxops;
    for (int k = 0; k < nops && !c->ret; k++) {
        uint8_t op = tp_u8(&c->t);
        switch (op % 8) {
        case 4: case 5: if (c->nlive < MAXLIVE && c->nout < MAXOUT) { add_output(c); break; } send_section(c); break;
        case 6: if (c->nlive) { remove_output(c); break; } add_output(c); break;
        default: send_section(c); break;
        }
    }
    if (!c->ret && c->hold)
        for (int i = 0; i < c->nout && !c->ret; i++) {
            int bad = c->out[i].used ? c16_sink_verify_held(&c->out[i].sink) : -1;
            if (bad >= 0) FAIL("C16/split/mutated-after-output", "block %d handed to output %d was changed afterwards", bad, i);
        }
out:
    if (flow_def) uref_free(flow_def);
    if (parent_first && c->split) { R("  release split\n"); upipe_release(c->split); c->split = NULL; CLS(CL_PARENT_FIRST); }
    for (int i = 0; i < c->nout; i++) if (c->out[i].live) { upipe_release(c->out[i].sub); c->out[i].live = false; }
    if (c->split) upipe_release(c->split);
    for (int i = 0; i < c->nout; i++) {
        if (!c->out[i].used) continue;
        if (!c->ret && c->out[i].probe.n_ready && c->out[i].probe.n_dead != 1)
            FAIL("C01/audit/split", "output %d was released but threw dead %u times", i, c->out[i].probe.n_dead);
        PROTO(c->out[i].probe, "output sub-pipe", i);
        if (c->out[i].sink.data_before_flow_def) FAIL("C04/flowdef/missing", "the sink of output %d received a buffer before any flow definition", i);
        if (c->out[i].sink.data_while_rejected) FAIL("C04/flowdef/rejected", "the sink of output %d received a buffer although it refused the flow definition", i);
        c16_sink_clean(&c->out[i].sink);
    }
    if (!c->ret && c->probe.n_ready && c->probe.n_dead != 1)
        FAIL("C01/audit/split", "every reference was released but the splitter threw dead %u times", c->probe.n_dead);
    PROTO(c->probe, "the splitter", 0);
    const char *leak = fix_mem_clean(&c->fm);
    if (leak) FAIL("C01/audit/split", "%s", leak);

    rep->case_hash = c->hash;
    rep->classes = c->classes;
    rep->nontrivial = c->nsections >= 2 && c->any_match && c->any_nomatch;
    return c->ret;
}

const struct vp_executor vp_executor = { EXEC_PID, "split", 160, class_names, run, NULL };

/* C02 / cow_sound — copy-on-write isolation over sound handles sharing one memory area
 * (dup, shrink, plane write mapping, copy) and over blocks re-exported from their planes with
 * ubuf_block_mem_alloc_from_sound (which then take part in all block operations).
 * See C02_model.h for the model and the oracle. */
#define C2_MAXSZ 1280
#include "C02_model.h"
#include "upipe/ubuf_sound.h"
#include "upipe/ubuf_sound_mem.h"

#define MAXOPS 40
#define MAXOPS_THOROUGH 64
#define S_MAXPL 4
#define S_MAXSAMPLES 64
#define S_MAXB (S_MAXSAMPLES * 8)

static const char *const class_names[] = { C2_COMMON_CLASS_NAMES, C2_PLANAR_CLASS_NAMES, C2_FAULT_CLASS_NAMES, NULL };

struct snd { int size; uint8_t m[S_MAXPL][S_MAXB], wild[S_MAXPL][S_MAXB]; };
static struct snd snds[C2_MAXH];
static int ss, np;                         /* sample size in octets, number of planes */
static const char *const chan1[] = { "lr" }, *const chanN[] = { "l", "r", "c", "L" };
static const char *const *chans;

static void snd_check(struct c2_ctx *c, int hi, const char *after)
{
    struct c2_hnd *h = &c->h[hi];
    struct snd *p = &snds[hi];
    size_t size = 0; uint8_t sample_size = 0;
    if (!ubase_check(ubuf_sound_size(h->u, &size, &sample_size)) || (int)size != p->size || sample_size != ss) {
        FAIL("C02/isolation/sound-size", "after %s: sound handle h%d has %zu samples of %d octets, its model copy says %d of %d", after, hi, size, sample_size, p->size, ss);
        return;
    }
    for (int pl = 0; pl < np && !c->ret; pl++) {
        const uint8_t *r;
        if (!ubase_check(ubuf_sound_plane_read_uint8_t(h->u, chans[pl], 0, -1, &r))) {
            FAIL("C02/isolation/sound-read", "after %s: plane %s of sound handle h%d cannot be mapped for reading", after, chans[pl], hi);
            return;
        }
        for (int x = 0; x < p->size * ss; x++) {
            if (p->wild[pl][x]) { p->m[pl][x] = r[x]; p->wild[pl][x] = 0; }
            else if (p->m[pl][x] != r[x]) {
                FAIL("C02/isolation/sound-content", "after %s: plane %s octet %d of sound handle h%d (area a%d) reads %02x, its model copy says %02x",
                     after, chans[pl], x, hi, h->parea, r[x], p->m[pl][x]);
                break;
            }
        }
        ubuf_sound_plane_unmap(h->u, chans[pl], 0, -1);
    }
}

/* write mapping of `size` samples (or -1) at `offset` of one plane; arguments in the documented domain */
static bool snd_write(struct c2_ctx *c, int hi, int pl, int offset, int size, const char *what, bool count)
{
    struct c2_hnd *h = &c->h[hi];
    struct snd *p = &snds[hi];
    int who, dec = c2_planar_decide(c, hi, &who);
    uint8_t *w = NULL;
    int err = ubuf_sound_plane_write_uint8_t(h->u, chans[pl], offset, size, &w);
    if (!c2_planar_answer(c, hi, dec, who, err, what, "C02/write-refused/sound")) return false;
    int no = offset < 0 ? offset + p->size : offset;
    int ns = size < 0 ? p->size - no : size;
    for (int x = 0; x < ns * ss; x++) {
        int i = no * ss + x;
        uint8_t old = p->wild[pl][i] ? w[x] : p->m[pl][i];
        w[x] = c2_fresh(c, old);
        p->m[pl][i] = w[x]; p->wild[pl][i] = 0;
    }
    ubuf_sound_plane_unmap(h->u, chans[pl], offset, size);
    c2_planar_written(c, hi, dec, who, what, "C02/write-granted/sound", count);
    return true;
}

static int op_snd_alloc(struct c2_ctx *c, char *what, size_t wn)
{
    int slot = c2_pick_free(c);
    int size = 1 + tp_u8(&c->t) % S_MAXSAMPLES;
    c->hash = vp_hash_mix(c->hash, size);
    if (slot < 0 || c->nareas >= C2_MAXAREA) return -1;
    int X = c2_new_area(c);
    struct ubuf *u = ubuf_sound_alloc(c->planar_mgr, size);
    snprintf(what, wn, "h%d=sound_alloc(%d)+fill [area a%d]", slot, size, X);
    if (!u) { R("  %s -> NULL\n", what); DOMFAIL("C02/domain/sound-alloc", "ubuf_sound_alloc(%d) failed", size); return -1; }
    c2_planar_init(&c->h[slot], u, X);
    struct snd *p = &snds[slot];
    p->size = size;
    memset(p->wild, 1, sizeof p->wild);
    for (int pl = 0; pl < np && !c->ret; pl++) {
        char w2[160]; snprintf(w2, sizeof w2, "%s: plane_write(h%d,%s,0,-1)", what, slot, chans[pl]);
        if (!snd_write(c, slot, pl, 0, -1, w2, false) && !c->ret)
            FAIL("C02/write-refused/fresh", "%s: write mapping refused on a freshly allocated sound buffer", w2);
    }
    return slot;
}

static int op_snd_dup(struct c2_ctx *c, bool copy, char *what, size_t wn)
{
    int s = c2_pick_kind(c, C2_PLANAR), slot = c2_pick_free(c);
    if (s < 0 || slot < 0) return -1;
    int X = c->h[s].parea;
    struct ubuf *u;
    if (copy) {
        if (c->nareas >= C2_MAXAREA) return -1;
        X = c2_new_area(c);
        snprintf(what, wn, "h%d=sound_copy(h%d,0,-1) [area a%d]", slot, s, X);
        u = ubuf_sound_copy(c->planar_mgr, c->h[s].u, 0, -1);
        CL(CL_COPY);
    } else {
        snprintf(what, wn, "h%d=dup(h%d)", slot, s);
        u = ubuf_dup(c->h[s].u);
    }
    R("  %s -> %s\n", what, u ? "ok" : "NULL");
    if (!u) { DOMFAIL(copy ? "C02/domain/sound-copy" : "C02/domain/dup", "%s fails", what); return -1; }
    c2_planar_init(&c->h[slot], u, X);
    snds[slot] = snds[s];
    return slot;
}

static int op_snd_resize(struct c2_ctx *c, char *what, size_t wn)
{
    int ai = c2_pick_kind(c, C2_PLANAR);
    if (ai < 0) return -1;
    struct c2_hnd *h = &c->h[ai];
    struct snd *p = &snds[ai];
    uint8_t b = tp_u8(&c->t), b2 = tp_u8(&c->t);
    int off = (b % 4 == 0) ? 0 : b2 % p->size;            /* 0 <= off < size */
    int rest = p->size - off;
    int ns = (b / 4) % 4 == 0 ? -1 : (b / 4) % 4 == 1 ? rest : 1 + (b2 / 8) % rest;   /* -1 or 1..rest */
    int aoff = (b / 16) % 4 == 3 && off > 0 ? off - p->size : off;
    c->hash = vp_hash_mix(c->hash, aoff * 256 + ns);
    snprintf(what, wn, "sound_resize(h%d,%d,%d)", ai, aoff, ns);
    int err = ubuf_sound_resize(h->u, aoff, ns);
    R("  %s -> %d\n", what, err);
    if (!ubase_check(err)) { DOMFAIL("C02/domain/sound-resize", "%s on %d samples fails (shrinking is always possible)", what, p->size); return -1; }
    if (aoff < 0) CL(CL_NEGOFF);
    int n2 = ns == -1 ? rest : ns;
    if (off > 0 || n2 < p->size) CL(CL_CROPPED);
    for (int pl = 0; pl < np; pl++) {
        memmove(p->m[pl], p->m[pl] + off * ss, (size_t)n2 * ss);
        memmove(p->wild[pl], p->wild[pl] + off * ss, (size_t)n2 * ss);
    }
    p->size = n2;
    return ai;
}

static int op_snd_write(struct c2_ctx *c, char *what, size_t wn)
{
    uint8_t strat = tp_u8(&c->t) % 4;
    int ai = -1;
    if (!(strat == 1 && c2_find_planar_target(c, C2_MUST_GRANT, &ai))) ai = c2_pick_kind(c, C2_PLANAR);
    if (ai < 0) return -1;
    struct snd *p = &snds[ai];
    int pl = tp_u8(&c->t) % np;
    uint8_t b = tp_u8(&c->t);
    int off = 0, size = -1;
    if (b % 4) {
        uint8_t b2 = tp_u8(&c->t);
        off = b2 % p->size;
        size = (b / 4) % 2 ? -1 : 1 + (b / 8) % (p->size - off);
        if (b % 4 == 3 && off > 0) { off -= p->size; CL(CL_NEGOFF); }
        c->hash = vp_hash_mix(c->hash, b2);
    }
    c->hash = vp_hash_mix(c->hash, (pl * 256 + b) * 8 + ai);
    snprintf(what, wn, "plane_write(h%d,%s,%d,%d)", ai, chans[pl], off, size);
    snd_write(c, ai, pl, off, size, what, true);
    return ai;
}

static int op_reexport(struct c2_ctx *c, char *what, size_t wn)
{
    int s = c2_pick_kind(c, C2_PLANAR), slot = c2_pick_free(c);
    int pl = tp_u8(&c->t) % np;
    c->hash = vp_hash_mix(c->hash, pl);
    if (s < 0 || slot < 0) return -1;
    struct c2_hnd *a = &c->h[s], *h = &c->h[slot];
    struct snd *p = &snds[s];
    snprintf(what, wn, "h%d=block_mem_alloc_from_sound(h%d,%s)", slot, s, chans[pl]);
    struct ubuf *u = ubuf_block_mem_alloc_from_sound(c->block_mgr, a->u, chans[pl]);
    if (!u) { R("  %s -> NULL\n", what); CL(CL_REEXPORT_FAILED); return -1; }   /* callers fall back to a copy */
    size_t n = 0;
    ubuf_block_size(u, &n);
    R("  %s -> ok, %zu octets\n", what, n);
    if (n > C2_MAXSZ) { ubuf_free(u); return -1; }
    c2_block_init(h, u);
    h->n = n; h->may = ABIT(a->parea); h->head_area = a->parea;
    memset(h->area, a->parea, n);
    /* the block shows the plane's samples from the first visible one on (what the copy fallback of
     * upipe_convert_to_block produces); anything beyond them is unknown */
    for (size_t i = 0; i < n; i++) {
        if ((int)i < p->size * ss && !p->wild[pl][i]) { h->m[i] = p->m[pl][i]; h->wild[i] = 0; }
        else h->wild[i] = 1;
    }
    CL(CL_REEXPORT);
    return slot;
}

/* weights (of 32): sound alloc 1, dup 3, resize 2, plane write 5, re-export 3, copy 1, free 2, free_sharers 3;
 * block: alloc 1, dup 1, splice 2, write 2, split 1, append 1, insert 1, delete 1, truncate 1, prepend 1 */
enum { P_ALLOC = 32, P_DUP, P_RESIZE, P_WRITE, P_REEXPORT, P_COPY };
static const uint8_t optab[32] = { P_ALLOC, 9, P_DUP, P_DUP, P_DUP, P_RESIZE, P_RESIZE, P_WRITE, P_WRITE, P_WRITE, P_WRITE, P_WRITE,
    P_REEXPORT, P_REEXPORT, P_REEXPORT, P_COPY, 4, 4, 14, 14, 14, 0, 1, 2, 2, 3, 3, 11, 5, 7, 6, 8 };

static int run(const uint8_t *tp_, size_t len, struct vp_report *rep, unsigned flags)
{
    static struct c2_ctx ctx;
    struct c2_ctx *c = &ctx;
    memset(c, 0, sizeof(*c));
    tp_init(&c->t, tp_, len);
    c->rep = rep; c->render = flags & VP_RENDER; c->flags = flags; c->pat = 2463534242u; c->hash = VP_HASH_INIT;
    c->max_alloc = 64;
    c->planar_check = snd_check;
    int maxops = (flags & VP_THOROUGH) ? MAXOPS_THOROUGH : MAXOPS;

    static const int depths[] = { 0, 1, 4 }, sss[] = { 1, 2, 4, 8 }, aligns[] = { 0, 16, 32 };
    uint8_t cfg = tp_u8(&c->t);
    int depth = depths[cfg % 3];
    ss = sss[(cfg / 3) % 4];
    np = 1 + (cfg / 12) % 4;
    int align = aligns[(cfg / 48) % 3];
    chans = np == 1 ? chan1 : chanN;
    if (c2_fix_init(c, depth, 8, 0, 0, 0) != 0) return vp_internal(rep, "fixture init");
    c->planar_mgr = ubuf_sound_mem_mgr_alloc(depth, depth, c->umem, ss, align);
    if (!c->planar_mgr) return vp_internal(rep, "sound manager");
    for (int pl = 0; pl < np; pl++)
        if (!ubase_check(ubuf_sound_mem_mgr_add_plane(c->planar_mgr, chans[pl]))) return vp_internal(rep, "add_plane");
    R("C02/cow_sound config: pool_depth=%d sample_size=%d planes=%d align=%d\n", depth, ss, np, align);
    c->faultmode = cfg >= 216;          /* (144..255 alias other configurations) */
    if (c->faultmode) R("  [allocation faults]\n");
    c->hash = vp_hash_mix(c->hash, cfg);
    if (depth) CL(CL_POOL);
    if (align) CL(CL_ALIGN);

    int nops = 0;
    while (!tp_done(&c->t) && nops < maxops && !c->ret) {
        nops++;
        uint8_t opbyte = tp_u8(&c->t);
        unsigned code = optab[opbyte % 32];
        bool anysnd = false, anyblock = false;
        for (int i = 0; i < C2_MAXH; i++) { if (c->h[i].kind == C2_PLANAR) anysnd = true; if (c->h[i].kind == C2_BLOCK) anyblock = true; }
        if (c2_nlive(c) == 0) code = P_ALLOC;
        else if (code < 32 && code != 0 && code != 4 && code != 14 && !anyblock) code = anysnd ? P_REEXPORT : P_ALLOC;
        else if (code > 32 && !anysnd) code = P_ALLOC;
        c->hash = vp_hash_mix(c->hash, code);
        char what[200] = "";
        int hi;
        c2_fault_begin(c, opbyte);
        switch (code) {
        case P_ALLOC: hi = op_snd_alloc(c, what, sizeof what); break;
        case P_DUP: hi = op_snd_dup(c, false, what, sizeof what); break;
        case P_COPY: hi = op_snd_dup(c, true, what, sizeof what); break;
        case P_RESIZE: hi = op_snd_resize(c, what, sizeof what); break;
        case P_WRITE: hi = op_snd_write(c, what, sizeof what); break;
        case P_REEXPORT: hi = op_reexport(c, what, sizeof what); break;
        default: hi = c2_block_op(c, code, what, sizeof what); break;
        }
        hi = c2_fault_end(c, hi);
        if (hi >= 0 && !c->ret) c2_check_all(c, what);
    }
    for (int i = 0; i < C2_MAXH; i++) c2_release(c, i);
    const char *leak = c2_fix_clean(c);
    if (leak && !c->ret) c->ret = vp_fail(rep, "C02/owners/leak", "%s", leak);

    rep->case_hash = c->hash;
    rep->classes = c->cl;
    C2_FAULT_CLASSES(rep, c, 22);
    rep->nontrivial = (c->cl & (1u << CL_REEXPORT)) && (c->cl & ((1u << CL_REFUSED_SHARED) | (1u << CL_PLANAR_REFUSED))) &&
                      (c->cl & (1u << CL_GRANTED_AFTER_FREE));
    return c->ret;
}

#ifndef C02_EXEC_NAME
#define C02_EXEC_NAME "cow_sound"
#endif
const struct vp_executor vp_executor = { "C02", C02_EXEC_NAME, 200, class_names, run, NULL };

/* Stand-in for biTStream <bitstream/mpeg/psi.h> (absent from the sandbox).
 *
 * Written from ISO/IEC 13818-1 section 2.4.4 (Program specific information), syntax
 * of the generic section header (2.4.4.10 private_section, Table 2-35):
 *
 *   table_id                  8 bits   octet 0
 *   section_syntax_indicator  1 bit    octet 1, 0x80
 *   private_indicator         1 bit    octet 1, 0x40
 *   reserved                  2 bits   octet 1, 0x30
 *   section_length           12 bits   octet 1 low nibble (MSBs), octet 2
 *   -- when section_syntax_indicator == 1 --
 *   table_id_extension       16 bits   octets 3-4
 *   reserved                  2 bits   octet 5, 0xc0
 *   version_number            5 bits   octet 5, 0x3e
 *   current_next_indicator    1 bit    octet 5, 0x01
 *   section_number            8 bits   octet 6
 *   last_section_number       8 bits   octet 7
 *   ... private data ...
 *   CRC_32                   32 bits   last 4 octets
 *
 * section_length counts the octets following the section_length field up to the end
 * of the section (CRC included). It shall not exceed 1021 for PAT/CAT/PMT sections
 * (2.4.4.5, 2.4.4.7, 2.4.4.9) and 4093 for private sections (2.4.4.11).
 *
 * Only what lib/upipe-ts/upipe_ts_psi_merge.c needs is provided (PSI_HEADER_SIZE,
 * PSI_PRIVATE_MAX_SIZE, psi_get_length, psi_validate) plus the constants and the two
 * trivial getters those are expressed with.  This file is part of the trusted base of
 * C16; the harness-side reference packer/parser does NOT include it.
 */
#ifndef VERIF_SHIM_BITSTREAM_MPEG_PSI_H
#define VERIF_SHIM_BITSTREAM_MPEG_PSI_H

#include <stdint.h>
#include <stdbool.h>

#ifdef __cplusplus
extern "C" {
#endif

/** octets up to and including section_length */
#define PSI_HEADER_SIZE         3
/** octets up to and including last_section_number (long header) */
#define PSI_HEADER_SIZE_SYNTAX1 8
/** CRC_32 */
#define PSI_CRC_SIZE            4
/** largest section_length of a PAT/CAT/PMT section */
#define PSI_MAX_SIZE            1021
/** largest section_length of a private section */
#define PSI_PRIVATE_MAX_SIZE    4093

static inline uint8_t psi_get_tableid(const uint8_t *p_section)
{
    return p_section[0];
}

static inline bool psi_get_syntax(const uint8_t *p_section)
{
    return !!(p_section[1] & 0x80);
}

static inline uint16_t psi_get_length(const uint8_t *p_section)
{
    return ((uint16_t)(p_section[1] & 0x0f) << 8) | p_section[2];
}

/** A header is plausible unless it announces the long syntax with a section_length
 * too small to hold the rest of the long header and the CRC_32 (5 + 4 octets).
 * (The upper bound on section_length is checked by the caller.) */
static inline bool psi_validate(const uint8_t *p_section)
{
    if (psi_get_syntax(p_section) &&
        psi_get_length(p_section) <
            PSI_HEADER_SIZE_SYNTAX1 - PSI_HEADER_SIZE + PSI_CRC_SIZE)
        return false;
    return true;
}

#ifdef __cplusplus
}
#endif
#endif

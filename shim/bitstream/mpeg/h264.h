/* Stand-in for biTStream <bitstream/mpeg/h264.h> (absent from the sandbox).
 * Provides exactly the symbols lib/upipe-framers/upipe_h264_framer.c and its test use,
 * written from ITU-T H.264 (03/2010): 7.3.1 / Table 7-1 (NAL unit header and types),
 * 7.4.2.1.1 (chroma_format_idc), Table 7-6 (slice_type), Annex D Table D-1 (pic_struct),
 * D.1 (SEI payload types), Table E-1 (Extended_SAR), and ISO/IEC 14496-15 5.2.4.1.1
 * (AVCDecoderConfigurationRecord). Calling conventions follow the call sites:
 * h264nalst_*() take the NAL header octet by value; h264nal_*() take a pointer to a
 * 3-octet start code followed by the NAL header; h264avcc_*() take a pointer to the record.
 * Part of the trusted base of C17 (see DESIGN.md section 5); the harness-side reference
 * writers do not use this file. */
#ifndef VERIF_SHIM_BITSTREAM_MPEG_H264_H_
#define VERIF_SHIM_BITSTREAM_MPEG_H264_H_

#include <stdint.h>
#include <stdbool.h>
#include <stddef.h>

#ifdef __cplusplus
extern "C" {
#endif

/* ---- NAL unit header: forbidden_zero_bit(1) nal_ref_idc(2) nal_unit_type(5) ---- */
#define H264NAL_HEADER_SIZE     4   /* 00 00 01 + header octet */

#define H264NAL_TYPE_NONIDR     1
#define H264NAL_TYPE_PARTA      2
#define H264NAL_TYPE_PARTB      3
#define H264NAL_TYPE_PARTC      4
#define H264NAL_TYPE_IDR        5
#define H264NAL_TYPE_SEI        6
#define H264NAL_TYPE_SPS        7
#define H264NAL_TYPE_PPS        8
#define H264NAL_TYPE_AUD        9
#define H264NAL_TYPE_ENDSEQ     10
#define H264NAL_TYPE_ENDSTR     11
#define H264NAL_TYPE_FILLER     12
#define H264NAL_TYPE_SPSX       13
#define H264NAL_TYPE_PFX        14
#define H264NAL_TYPE_SSPS       15
#define H264NAL_TYPE_AUX        19
#define H264NAL_TYPE_EXT        20

static inline uint8_t h264nalst_get_ref(uint8_t start)
{
    return (start & 0x60) >> 5;
}

static inline uint8_t h264nalst_get_type(uint8_t start)
{
    return start & 0x1f;
}

/* VCL NAL units are nal_unit_type 1..5 (Table 7-1) */
static inline bool h264naltype_is_vcl(uint8_t type)
{
    return type >= H264NAL_TYPE_NONIDR && type <= H264NAL_TYPE_IDR;
}

static inline void h264nal_init(uint8_t *p_h264nal)
{
    p_h264nal[0] = 0x0;
    p_h264nal[1] = 0x0;
    p_h264nal[2] = 0x1;
    p_h264nal[3] = 0;
}

static inline void h264nal_set_ref(uint8_t *p_h264nal, uint8_t ref)
{
    p_h264nal[3] &= 0x1f;
    p_h264nal[3] |= (ref & 0x3) << 5;
}

static inline uint8_t h264nal_get_ref(const uint8_t *p_h264nal)
{
    return h264nalst_get_ref(p_h264nal[3]);
}

static inline void h264nal_set_type(uint8_t *p_h264nal, uint8_t type)
{
    p_h264nal[3] &= 0xe0;
    p_h264nal[3] |= type & 0x1f;
}

static inline uint8_t h264nal_get_type(const uint8_t *p_h264nal)
{
    return h264nalst_get_type(p_h264nal[3]);
}

/* ---- SEI ---- */
#define H264SEI_HEADER_SIZE         4
#define H264SEI_BUFFERING_PERIOD    0
#define H264SEI_PIC_TIMING          1
#define H264SEI_PAN_SCAN_RECT       2
#define H264SEI_FILLER_PAYLOAD      3
#define H264SEI_USER_T_T35          4
#define H264SEI_USER_UNREGISTERED   5
#define H264SEI_RECOVERY_POINT      6

/* pic_struct, Table D-1 */
#define H264SEI_STRUCT_FRAME        0
#define H264SEI_STRUCT_TOP          1
#define H264SEI_STRUCT_BOT          2
#define H264SEI_STRUCT_TOP_BOT      3
#define H264SEI_STRUCT_BOT_TOP      4
#define H264SEI_STRUCT_TOP_BOT_TOP  5
#define H264SEI_STRUCT_BOT_TOP_BOT  6
#define H264SEI_STRUCT_DOUBLE       7
#define H264SEI_STRUCT_TRIPLE       8

/* ---- sequence parameter set ---- */
/* start code (3) + NAL header + profile_idc + constraint flags + level_idc */
#define H264SPS_HEADER_SIZE         7
#define H264SPS_ID_MAX              32

#define H264SPS_CHROMA_MONO         0
#define H264SPS_CHROMA_420          1
#define H264SPS_CHROMA_422          2
#define H264SPS_CHROMA_444          3

/* aspect_ratio_idc Extended_SAR, Table E-1 */
#define H264VUI_AR_EXTENDED         255

/* ---- picture parameter set ---- */
#define H264PPS_HEADER_SIZE         4
#define H264PPS_ID_MAX              256

/* ---- slice_type, Table 7-6 (values 5..9 are the same modulo 5) ---- */
#define H264SLI_TYPE_P              0
#define H264SLI_TYPE_B              1
#define H264SLI_TYPE_I              2
#define H264SLI_TYPE_SP             3
#define H264SLI_TYPE_SI             4

/* ---- AVCDecoderConfigurationRecord (avcC), ISO/IEC 14496-15 5.2.4.1.1 ----
 *  [0] configurationVersion = 1
 *  [1] AVCProfileIndication  [2] profile_compatibility  [3] AVCLevelIndication
 *  [4] '111111' lengthSizeMinusOne(2)
 *  [5] '111' numOfSequenceParameterSets(5)
 *      { sequenceParameterSetLength(16) sequenceParameterSetNALUnit } *
 *  [.] numOfPictureParameterSets(8)
 *      { pictureParameterSetLength(16) pictureParameterSetNALUnit } *
 */
#define H264AVCC_HEADER             6
#define H264AVCC_HEADER2            1
#define H264AVCC_SPS_HEADER         2
#define H264AVCC_PPS_HEADER         2

static inline void h264avcc_init(uint8_t *p)
{
    p[0] = 1;       /* version */
    p[4] = 0xfc;
    p[5] = 0xe0;
}

static inline void h264avcc_set_profile(uint8_t *p, uint8_t val)
{
    p[1] = val;
}

static inline uint8_t h264avcc_get_profile(const uint8_t *p)
{
    return p[1];
}

static inline void h264avcc_set_profile_compatibility(uint8_t *p, uint8_t val)
{
    p[2] = val;
}

static inline uint8_t h264avcc_get_profile_compatibility(const uint8_t *p)
{
    return p[2];
}

static inline void h264avcc_set_level(uint8_t *p, uint8_t val)
{
    p[3] = val;
}

static inline uint8_t h264avcc_get_level(const uint8_t *p)
{
    return p[3];
}

static inline void h264avcc_set_length_size_1(uint8_t *p, uint8_t val)
{
    p[4] = 0xfc | (val & 0x3);
}

static inline uint8_t h264avcc_get_length_size_1(const uint8_t *p)
{
    return p[4] & 0x3;
}

static inline void h264avcc_set_nb_sps(uint8_t *p, uint8_t val)
{
    p[5] = 0xe0 | (val & 0x1f);
}

static inline uint8_t h264avcc_get_nb_sps(const uint8_t *p)
{
    return p[5] & 0x1f;
}

static inline void h264avcc_spsh_set_length(uint8_t *p, uint16_t val)
{
    p[0] = val >> 8;
    p[1] = val & 0xff;
}

static inline uint16_t h264avcc_spsh_get_length(const uint8_t *p)
{
    return ((uint16_t)p[0] << 8) | p[1];
}

static inline uint8_t *h264avcc_spsh_get_sps(const uint8_t *p)
{
    return (uint8_t *)p + H264AVCC_SPS_HEADER;
}

/* pointer to the n-th SPS entry (n == nb_sps: the octet holding numOfPictureParameterSets) */
static inline uint8_t *h264avcc_get_spsh(const uint8_t *p, uint8_t n)
{
    const uint8_t *q = p + H264AVCC_HEADER;
    while (n) {
        q += H264AVCC_SPS_HEADER + h264avcc_spsh_get_length(q);
        n--;
    }
    return (uint8_t *)q;
}

static inline void h264avcc_set_nb_pps(uint8_t *p, uint8_t val)
{
    uint8_t *q = h264avcc_get_spsh(p, h264avcc_get_nb_sps(p));
    q[0] = val;
}

static inline uint8_t h264avcc_get_nb_pps(const uint8_t *p)
{
    const uint8_t *q = h264avcc_get_spsh(p, h264avcc_get_nb_sps(p));
    return q[0];
}

static inline void h264avcc_ppsh_set_length(uint8_t *p, uint16_t val)
{
    p[0] = val >> 8;
    p[1] = val & 0xff;
}

static inline uint16_t h264avcc_ppsh_get_length(const uint8_t *p)
{
    return ((uint16_t)p[0] << 8) | p[1];
}

static inline uint8_t *h264avcc_ppsh_get_pps(const uint8_t *p)
{
    return (uint8_t *)p + H264AVCC_PPS_HEADER;
}

/* pointer to the n-th PPS entry (n == nb_pps: end of the record) */
static inline uint8_t *h264avcc_get_ppsh(const uint8_t *p, uint8_t n)
{
    const uint8_t *q = h264avcc_get_spsh(p, h264avcc_get_nb_sps(p)) +
                       H264AVCC_HEADER2;
    while (n) {
        q += H264AVCC_PPS_HEADER + h264avcc_ppsh_get_length(q);
        n--;
    }
    return (uint8_t *)q;
}

/* the record is complete within size octets */
static inline bool h264avcc_validate(const uint8_t *p, size_t size)
{
    if (size < H264AVCC_HEADER + H264AVCC_HEADER2)
        return false;
    if (p[0] != 1)
        return false;
    size_t off = H264AVCC_HEADER;
    uint8_t nb = h264avcc_get_nb_sps(p);
    while (nb) {
        if (off + H264AVCC_SPS_HEADER > size)
            return false;
        off += H264AVCC_SPS_HEADER + h264avcc_spsh_get_length(p + off);
        if (off > size)
            return false;
        nb--;
    }
    if (off + H264AVCC_HEADER2 > size)
        return false;
    nb = p[off];
    off += H264AVCC_HEADER2;
    while (nb) {
        if (off + H264AVCC_PPS_HEADER > size)
            return false;
        off += H264AVCC_PPS_HEADER + h264avcc_ppsh_get_length(p + off);
        if (off > size)
            return false;
        nb--;
    }
    return true;
}

#ifdef __cplusplus
}
#endif
#endif

/*
 * Stand-in for biTStream's <bitstream/mpeg/ts.h> (absent from this sandbox).
 *
 * Written from ISO/IEC 13818-1 section 2.4.3 (transport packet layer and
 * adaptation field); names and argument conventions follow what the callers in
 * lib/upipe-ts expect: every accessor, including the tsaf_* ones, takes a
 * pointer to the FIRST byte of the transport packet (the sync byte).
 *
 * transport_packet() {
 *   sync_byte                      8  = 0x47            byte 0
 *   transport_error_indicator      1                    byte 1 bit 7
 *   payload_unit_start_indicator   1                    byte 1 bit 6
 *   transport_priority             1                    byte 1 bit 5
 *   PID                           13                    byte 1 bits 4..0, byte 2
 *   transport_scrambling_control   2                    byte 3 bits 7..6
 *   adaptation_field_control       2                    byte 3 bit 5 (AF), bit 4 (payload)
 *   continuity_counter             4                    byte 3 bits 3..0
 * }
 * adaptation_field() {
 *   adaptation_field_length        8                    byte 4
 *   if (length > 0) {
 *     discontinuity_indicator              1            byte 5 bit 7
 *     random_access_indicator              1            byte 5 bit 6
 *     elementary_stream_priority_indicator 1            byte 5 bit 5
 *     PCR_flag                             1            byte 5 bit 4
 *     OPCR_flag                            1            byte 5 bit 3
 *     splicing_point_flag                  1            byte 5 bit 2
 *     transport_private_data_flag          1            byte 5 bit 1
 *     adaptation_field_extension_flag      1            byte 5 bit 0
 *     if (PCR_flag) {
 *       program_clock_reference_base      33            bytes 6..9, byte 10 bit 7
 *       reserved                           6            byte 10 bits 6..1
 *       program_clock_reference_extension  9            byte 10 bit 0, byte 11
 *     }
 *     ...
 *   }
 * }
 */

#ifndef __BITSTREAM_MPEG_TS_H__
#define __BITSTREAM_MPEG_TS_H__

#include <stdint.h>
#include <stdbool.h>
#include <string.h>

#ifdef __cplusplus
extern "C"
{
#endif

/*****************************************************************************
 * TS header
 *****************************************************************************/
#define TS_SIZE             188
#define TS_HEADER_SIZE      4
#define TS_HEADER_SIZE_AF   6
#define TS_HEADER_SIZE_PCR  12

#define TS_SYNC             0x47

#define TS_DECLARE(p_ts)    uint8_t p_ts[TS_SIZE]

static inline void ts_init(uint8_t *p_ts)
{
    p_ts[0] = TS_SYNC;
    p_ts[1] = 0x0;
    p_ts[2] = 0x0;
    p_ts[3] = 0x0;
}

static inline void ts_set_transporterror(uint8_t *p_ts)
{
    p_ts[1] |= 0x80;
}

static inline bool ts_get_transporterror(const uint8_t *p_ts)
{
    return !!(p_ts[1] & 0x80);
}

static inline void ts_set_unitstart(uint8_t *p_ts)
{
    p_ts[1] |= 0x40;
}

static inline bool ts_get_unitstart(const uint8_t *p_ts)
{
    return !!(p_ts[1] & 0x40);
}

static inline void ts_set_transportpriority(uint8_t *p_ts)
{
    p_ts[1] |= 0x20;
}

static inline bool ts_get_transportpriority(const uint8_t *p_ts)
{
    return !!(p_ts[1] & 0x20);
}

static inline void ts_set_pid(uint8_t *p_ts, uint16_t i_pid)
{
    p_ts[1] &= ~0x1f;
    p_ts[1] |= (i_pid >> 8) & 0x1f;
    p_ts[2] = i_pid & 0xff;
}

static inline uint16_t ts_get_pid(const uint8_t *p_ts)
{
    return ((p_ts[1] & 0x1f) << 8) | p_ts[2];
}

static inline void ts_set_cc(uint8_t *p_ts, uint8_t i_cc)
{
    p_ts[3] &= ~0xf;
    p_ts[3] |= (i_cc & 0xf);
}

static inline uint8_t ts_get_cc(const uint8_t *p_ts)
{
    return p_ts[3] & 0xf;
}

static inline void ts_set_payload(uint8_t *p_ts)
{
    p_ts[3] |= 0x10;
}

static inline bool ts_has_payload(const uint8_t *p_ts)
{
    return !!(p_ts[3] & 0x10);
}

/* Sets the adaptation_field flag, writes adaptation_field_length, clears the
 * flags byte (when there is one) and fills the rest with stuffing bytes. */
static inline void ts_set_adaptation(uint8_t *p_ts, uint8_t i_length)
{
    p_ts[3] |= 0x20;
    p_ts[4] = i_length;
    if (i_length)
        p_ts[5] = 0x0;
    if (i_length > 1)
        memset(&p_ts[6], 0xff, i_length - 1); /* stuffing */
}

static inline bool ts_has_adaptation(const uint8_t *p_ts)
{
    return !!(p_ts[3] & 0x20);
}

static inline uint8_t ts_get_adaptation(const uint8_t *p_ts)
{
    return p_ts[4];
}

static inline void ts_set_scrambling(uint8_t *p_ts, uint8_t i_scrambling)
{
    p_ts[3] &= ~0xc0;
    p_ts[3] |= (i_scrambling & 0x3) << 6;
}

static inline uint8_t ts_get_scrambling(const uint8_t *p_ts)
{
    return (p_ts[3] & 0xc0) >> 6;
}

static inline bool ts_validate(const uint8_t *p_ts)
{
    return p_ts[0] == TS_SYNC;
}

/*****************************************************************************
 * TS payload
 *****************************************************************************/
/* null packet: PID 0x1fff, payload only, continuity counter 0 */
static inline void ts_pad(uint8_t *p_ts)
{
    ts_init(p_ts);
    ts_set_pid(p_ts, 0x1fff);
    ts_set_cc(p_ts, 0);
    ts_set_payload(p_ts);
    memset(p_ts + TS_HEADER_SIZE, 0xff, TS_SIZE - TS_HEADER_SIZE);
}

/* pointer to the first payload byte; p_ts + TS_SIZE when there is none */
static inline uint8_t *ts_payload(uint8_t *p_ts)
{
    if (!ts_has_payload(p_ts))
        return p_ts + TS_SIZE;
    if (!ts_has_adaptation(p_ts))
        return p_ts + TS_HEADER_SIZE;
    return p_ts + TS_HEADER_SIZE + 1 + ts_get_adaptation(p_ts);
}

/*****************************************************************************
 * TS adaptation field (all take the pointer to the start of the TS packet and
 * require adaptation_field_length >= 1, resp. >= 7 for the PCR accessors)
 *****************************************************************************/
static inline void tsaf_set_discontinuity(uint8_t *p_ts)
{
    p_ts[5] |= 0x80;
}

static inline void tsaf_clear_discontinuity(uint8_t *p_ts)
{
    p_ts[5] &= ~0x80;
}

static inline bool tsaf_has_discontinuity(const uint8_t *p_ts)
{
    return !!(p_ts[5] & 0x80);
}

static inline void tsaf_set_randomaccess(uint8_t *p_ts)
{
    p_ts[5] |= 0x40;
}

static inline bool tsaf_has_randomaccess(const uint8_t *p_ts)
{
    return !!(p_ts[5] & 0x40);
}

static inline void tsaf_set_streampriority(uint8_t *p_ts)
{
    p_ts[5] |= 0x20;
}

static inline bool tsaf_has_streampriority(const uint8_t *p_ts)
{
    return !!(p_ts[5] & 0x20);
}

/* program_clock_reference_base (33 bits, 90 kHz); sets PCR_flag, the six
 * reserved bits to 1 and clears the extension: call tsaf_set_pcrext after. */
static inline void tsaf_set_pcr(uint8_t *p_ts, uint64_t i_pcr)
{
    p_ts[5] |= 0x10;
    p_ts[6] = (i_pcr >> 25) & 0xff;
    p_ts[7] = (i_pcr >> 17) & 0xff;
    p_ts[8] = (i_pcr >> 9) & 0xff;
    p_ts[9] = (i_pcr >> 1) & 0xff;
    p_ts[10] = 0x7e | ((i_pcr << 7) & 0x80);
    p_ts[11] = 0;
}

/* program_clock_reference_extension (9 bits, 27 MHz, 0..299) */
static inline void tsaf_set_pcrext(uint8_t *p_ts, uint16_t i_pcr_ext)
{
    p_ts[10] &= ~0x1;
    p_ts[10] |= (i_pcr_ext >> 8) & 0x1;
    p_ts[11] = i_pcr_ext & 0xff;
}

static inline bool tsaf_has_pcr(const uint8_t *p_ts)
{
    return !!(p_ts[5] & 0x10);
}

static inline uint64_t tsaf_get_pcr(const uint8_t *p_ts)
{
    return ((uint64_t)p_ts[6] << 25) | ((uint64_t)p_ts[7] << 17) |
           ((uint64_t)p_ts[8] << 9) | ((uint64_t)p_ts[9] << 1) |
           ((uint64_t)p_ts[10] >> 7);
}

static inline uint16_t tsaf_get_pcrext(const uint8_t *p_ts)
{
    return ((p_ts[10] & 1) << 8) | p_ts[11];
}

/*****************************************************************************
 * TS payload gathering
 *****************************************************************************/
static inline bool ts_check_duplicate(uint8_t i_cc, uint8_t i_last_cc)
{
    return i_last_cc == i_cc;
}

static inline bool ts_check_discontinuity(uint8_t i_cc, uint8_t i_last_cc)
{
    return (i_last_cc + 17 - i_cc) % 16;
}

#ifdef __cplusplus
}
#endif

#endif

/* Stand-in for biTStream <bitstream/ietf/rtp.h> (absent from this machine): the fixed RTP header of
 * RFC 3550 section 5.1 and the header extension of 5.3.1, written from the RFC. Only what upipe uses. */
#ifndef SHIM_BITSTREAM_IETF_RTP_H
#define SHIM_BITSTREAM_IETF_RTP_H
#include <stdint.h>
#include <stdbool.h>

#define RTP_HEADER_SIZE     12
#define RTP_EXTENSION_SIZE  4

/* payload types of RFC 3551 table 4/5 */
#define RTP_TYPE_PCMU       0
#define RTP_TYPE_GSM        3
#define RTP_TYPE_PCMA       8
#define RTP_TYPE_L16        10
#define RTP_TYPE_L16MONO    11
#define RTP_TYPE_QCELP      12
#define RTP_TYPE_MPA        14
#define RTP_TYPE_MPV        32
#define RTP_TYPE_MP2T       33

static inline void rtp_set_hdr(uint8_t *p_rtp) { p_rtp[0] = 0x80; }
static inline bool rtp_check_hdr(const uint8_t *p_rtp) { return (p_rtp[0] & 0xc0) == 0x80; }
static inline void rtp_set_padding(uint8_t *p_rtp) { p_rtp[0] |= 0x20; }
static inline bool rtp_check_padding(const uint8_t *p_rtp) { return !!(p_rtp[0] & 0x20); }
static inline void rtp_set_extension(uint8_t *p_rtp) { p_rtp[0] |= 0x10; }
static inline bool rtp_check_extension(const uint8_t *p_rtp) { return !!(p_rtp[0] & 0x10); }
static inline void rtp_set_cc(uint8_t *p_rtp, uint8_t i_cc) { p_rtp[0] &= 0xf0; p_rtp[0] |= i_cc & 0xf; }
static inline uint8_t rtp_get_cc(const uint8_t *p_rtp) { return p_rtp[0] & 0xf; }
static inline void rtp_set_marker(uint8_t *p_rtp) { p_rtp[1] |= 0x80; }
static inline bool rtp_check_marker(const uint8_t *p_rtp) { return !!(p_rtp[1] & 0x80); }
static inline void rtp_set_type(uint8_t *p_rtp, uint8_t i_type) { p_rtp[1] &= 0x80; p_rtp[1] |= i_type & 0x7f; }
static inline uint8_t rtp_get_type(const uint8_t *p_rtp) { return p_rtp[1] & 0x7f; }
static inline void rtp_set_seqnum(uint8_t *p_rtp, uint16_t i) { p_rtp[2] = i >> 8; p_rtp[3] = i & 0xff; }
static inline uint16_t rtp_get_seqnum(const uint8_t *p_rtp) { return (p_rtp[2] << 8) | p_rtp[3]; }
static inline void rtp_set_timestamp(uint8_t *p_rtp, uint32_t i)
{ p_rtp[4] = i >> 24; p_rtp[5] = (i >> 16) & 0xff; p_rtp[6] = (i >> 8) & 0xff; p_rtp[7] = i & 0xff; }
static inline uint32_t rtp_get_timestamp(const uint8_t *p_rtp)
{ return ((uint32_t)p_rtp[4] << 24) | (p_rtp[5] << 16) | (p_rtp[6] << 8) | p_rtp[7]; }
static inline void rtp_set_ssrc(uint8_t *p_rtp, const uint8_t pi_ssrc[4])
{ p_rtp[8] = pi_ssrc[0]; p_rtp[9] = pi_ssrc[1]; p_rtp[10] = pi_ssrc[2]; p_rtp[11] = pi_ssrc[3]; }
static inline void rtp_get_ssrc(const uint8_t *p_rtp, uint8_t pi_ssrc[4])
{ pi_ssrc[0] = p_rtp[8]; pi_ssrc[1] = p_rtp[9]; pi_ssrc[2] = p_rtp[10]; pi_ssrc[3] = p_rtp[11]; }
/* position of the header extension (after the CSRC list); only address arithmetic, nothing is read beyond octet 0 */
static inline uint8_t *rtp_extension(uint8_t *p_rtp) { return p_rtp + RTP_HEADER_SIZE + 4 * rtp_get_cc(p_rtp); }
static inline uint16_t rtpx_get_header(const uint8_t *p_rtpx) { return (p_rtpx[0] << 8) | p_rtpx[1]; }
static inline uint16_t rtpx_get_length(const uint8_t *p_rtpx) { return (p_rtpx[2] << 8) | p_rtpx[3]; }
static inline uint8_t *rtp_payload(uint8_t *p_rtp)
{
    unsigned int i_size = RTP_HEADER_SIZE + 4 * rtp_get_cc(p_rtp);
    if (rtp_check_extension(p_rtp)) i_size += 4 * (1 + rtpx_get_length(rtp_extension(p_rtp)));
    return p_rtp + i_size;
}
#endif

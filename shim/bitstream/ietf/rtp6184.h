/* Stand-in for <bitstream/ietf/rtp6184.h>: RTP payload format for H.264 (RFC 6184 sections 5.2-5.8). */
#ifndef SHIM_BITSTREAM_IETF_RTP6184_H
#define SHIM_BITSTREAM_IETF_RTP6184_H
#include <stdint.h>
#include <stdbool.h>
#define RTP_6184_CLOCKRATE  90000
#define RTP_6184_STAP_A     24
#define RTP_6184_STAP_B     25
#define RTP_6184_MTAP16     26
#define RTP_6184_MTAP24     27
#define RTP_6184_FU_A       28
#define RTP_6184_FU_B       29
static inline bool rtp_6184_fu_check_start(uint8_t i_fu_header) { return !!(i_fu_header & 0x80); }
static inline bool rtp_6184_fu_check_end(uint8_t i_fu_header) { return !!(i_fu_header & 0x40); }
static inline uint16_t rtp_6184_stap_get_size(const uint8_t *p) { return (p[0] << 8) | p[1]; }
/* the NAL header accessor upipe_rtp_decaps needs and the H.264 stand-in does not provide */
#ifndef h264nalst_set_type
static inline void shim_h264nalst_set_type(uint8_t *p_start, uint8_t i_type) { *p_start = (*p_start & 0xe0) | (i_type & 0x1f); }
#define h264nalst_set_type shim_h264nalst_set_type
#endif
#endif

/* Stand-in for <bitstream/ietf/rtcp_sdes.h>: source description with one chunk and one item (RFC 3550 section 6.5):
 * header (4) + SSRC (4) + item type (1) + item length (1), the text follows. */
#ifndef SHIM_BITSTREAM_IETF_RTCP_SDES_H
#define SHIM_BITSTREAM_IETF_RTCP_SDES_H
#include <bitstream/ietf/rtcp.h>
#define RTCP_SDES_SIZE  10
#define RTCP_PT_SDES    202
static inline void rtcp_sdes_set_pt(uint8_t *p) { rtcp_set_pt(p, RTCP_PT_SDES); }
static inline void rtcp_sdes_set_cname(uint8_t *p, uint8_t cname) { p[8] = cname; }
static inline void rtcp_sdes_set_name_length(uint8_t *p, uint8_t len) { p[9] = len; }
#endif

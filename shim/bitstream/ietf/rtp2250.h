/* Stand-in for <bitstream/ietf/rtp2250.h>: MPEG audio/video payload headers (RFC 2250 sections 3.4, 3.5). */
#ifndef SHIM_BITSTREAM_IETF_RTP2250_H
#define SHIM_BITSTREAM_IETF_RTP2250_H
#include <stdint.h>
#include <stdbool.h>
#define RTP2250A_HEADER_SIZE    4
#define RTP2250V_HEADER_SIZE    4
#define RTP2250VX_HEADER_SIZE   4
/* T bit: an MPEG-2 specific header extension follows */
static inline bool rtp2250v_check_mpeg2(const uint8_t *p) { return !!(p[0] & 0x04); }
#endif

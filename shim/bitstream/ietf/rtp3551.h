/* Stand-in for <bitstream/ietf/rtp3551.h>: clock rates of the static payload types (RFC 3551 tables 4 and 5). */
#ifndef SHIM_BITSTREAM_IETF_RTP3551_H
#define SHIM_BITSTREAM_IETF_RTP3551_H
#include <bitstream/ietf/rtp.h>
static inline uint32_t rtp_3551_get_clock_rate(uint8_t i_type)
{
    switch (i_type) {
    case RTP_TYPE_PCMU: case RTP_TYPE_GSM: case RTP_TYPE_PCMA: case RTP_TYPE_QCELP: return 8000;
    case RTP_TYPE_L16: case RTP_TYPE_L16MONO: return 44100;
    case RTP_TYPE_MPA: case RTP_TYPE_MPV: case RTP_TYPE_MP2T: return 90000;
    default: return 0;
    }
}
#endif

/* Stand-in for <bitstream/ietf/rtp3640.h>: MPEG-4 elementary streams, AAC-hbr mode (RFC 3640 sections 3.2.1, 3.3.6). */
#ifndef SHIM_BITSTREAM_IETF_RTP3640_H
#define SHIM_BITSTREAM_IETF_RTP3640_H
#include <stdint.h>
#define RTP3640_AU_HEADERS_LENGTH_SIZE  2
#define RTP3640_AU_HEADER_AAC_HBR_SIZE  2
static inline uint16_t rtp3640_get_au_headers_length(const uint8_t *p) { return (p[0] << 8) | p[1]; }   /* in bits */
static inline uint16_t rtp3640_get_aac_hbr_au_size(const uint8_t *p) { return (p[0] << 5) | (p[1] >> 3); }   /* 13 bits */
static inline uint8_t rtp3640_get_aac_hbr_au_index(const uint8_t *p) { return p[1] & 0x7; }
#endif

/* Stand-in for <bitstream/ietf/rtcp.h>: common RTCP header (RFC 3550 section 6.4.1). */
#ifndef SHIM_BITSTREAM_IETF_RTCP_H
#define SHIM_BITSTREAM_IETF_RTCP_H
#include <stdint.h>
static inline void rtcp_set_rtp_version(uint8_t *p) { p[0] = (p[0] & 0x3f) | 0x80; }
static inline void rtcp_set_rc(uint8_t *p, uint8_t rc) { p[0] = (p[0] & 0xe0) | (rc & 0x1f); }
static inline void rtcp_set_pt(uint8_t *p, uint8_t pt) { p[1] = pt; }
static inline uint8_t rtcp_get_pt(const uint8_t *p) { return p[1]; }
static inline void rtcp_set_length(uint8_t *p, uint16_t len) { p[2] = len >> 8; p[3] = len & 0xff; }
static inline uint16_t rtcp_get_length(const uint8_t *p) { return (p[2] << 8) | p[3]; }
#endif

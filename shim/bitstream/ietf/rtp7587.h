/* Stand-in for <bitstream/ietf/rtp7587.h>: RTP payload format for Opus (RFC 7587 section 4.1). */
#ifndef SHIM_BITSTREAM_IETF_RTP7587_H
#define SHIM_BITSTREAM_IETF_RTP7587_H
#define RTP_7587_CLOCKRATE 48000
#endif

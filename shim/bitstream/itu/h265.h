/* Stand-in for biTStream <bitstream/itu/h265.h> (absent from the sandbox).
 * Provides exactly the symbols lib/upipe-framers/upipe_h265_framer.c uses, written from
 * ITU-T H.265 (04/2013 and later): 7.3.1.2 / Table 7-1 (2-octet NAL unit header and
 * types), 7.3.3 (profile_tier_level: 88 bits of profile information + level_idc),
 * A.4.1 (general_level_idc = 30 * level), Table 7-7 (slice_type), Table D.2 (pic_struct),
 * D.2.1 (SEI payload types), Table E.1 (EXTENDED_SAR), and ISO/IEC 14496-15 8.3.3.1.2
 * (HEVCDecoderConfigurationRecord). Calling conventions follow the call sites:
 * h265nalst_get_type() takes the first NAL header octet by value; h265nal_*() take a
 * pointer to a 3-octet start code followed by the 2-octet NAL header; h265hvcc_*() take
 * pointers into the record. Part of the trusted base of C17 (DESIGN.md section 5); the
 * harness-side reference writers do not use this file. */
#ifndef VERIF_SHIM_BITSTREAM_ITU_H265_H_
#define VERIF_SHIM_BITSTREAM_ITU_H265_H_

#include <stdint.h>
#include <stdbool.h>
#include <stddef.h>

#ifdef __cplusplus
extern "C" {
#endif

/* ---- NAL unit header:
 * forbidden_zero_bit(1) nal_unit_type(6) nuh_layer_id(6) nuh_temporal_id_plus1(3) ---- */
#define H265NAL_HEADER_SIZE         5   /* 00 00 01 + 2 header octets */

#define H265NAL_TYPE_TRAIL_N        0
#define H265NAL_TYPE_TRAIL_R        1
#define H265NAL_TYPE_TSA_N          2
#define H265NAL_TYPE_TSA_R          3
#define H265NAL_TYPE_STSA_N         4
#define H265NAL_TYPE_STSA_R         5
#define H265NAL_TYPE_RADL_N         6
#define H265NAL_TYPE_RADL_R         7
#define H265NAL_TYPE_RASL_N         8
#define H265NAL_TYPE_RASL_R         9
#define H265NAL_TYPE_BLA_W_LP       16
#define H265NAL_TYPE_BLA_W_RADL     17
#define H265NAL_TYPE_BLA_N_LP       18
#define H265NAL_TYPE_IDR_W_RADL     19
#define H265NAL_TYPE_IDR_N_LP       20
#define H265NAL_TYPE_CRA            21
#define H265NAL_TYPE_IRAP_VCL22     22
#define H265NAL_TYPE_IRAP_VCL23     23
#define H265NAL_TYPE_VPS            32
#define H265NAL_TYPE_SPS            33
#define H265NAL_TYPE_PPS            34
#define H265NAL_TYPE_AUD            35
#define H265NAL_TYPE_EOS            36
#define H265NAL_TYPE_EOB            37
#define H265NAL_TYPE_FD             38
#define H265NAL_TYPE_PREF_SEI       39
#define H265NAL_TYPE_SUFF_SEI       40

static inline uint8_t h265nalst_get_type(uint8_t start)
{
    return (start & 0x7e) >> 1;
}

static inline void h265nal_init(uint8_t *p_h265nal)
{
    p_h265nal[0] = 0x0;
    p_h265nal[1] = 0x0;
    p_h265nal[2] = 0x1;
    p_h265nal[3] = 0;
    p_h265nal[4] = 1;   /* nuh_layer_id 0, nuh_temporal_id_plus1 1 */
}

static inline void h265nal_set_type(uint8_t *p_h265nal, uint8_t type)
{
    p_h265nal[3] &= 0x81;
    p_h265nal[3] |= (type & 0x3f) << 1;
}

static inline uint8_t h265nal_get_type(const uint8_t *p_h265nal)
{
    return h265nalst_get_type(p_h265nal[3]);
}

/* ---- profile_tier_level: profile part is 2+1+5+32+4+43+1 = 88 bits ---- */
#define H265PTL_PROFILE_SIZE        11
#define H265PTL_LEVEL_SIZE          1

/* ---- parameter set identifiers ---- */
#define H265VPS_ID_MAX              16
#define H265SPS_ID_MAX              16
#define H265PPS_ID_MAX              64

/* general_level_idc = 30 * level number (A.4.1) */
#define H265VPS_LEVEL_1_0           30
#define H265VPS_LEVEL_2_0           60
#define H265VPS_LEVEL_2_1           63
#define H265VPS_LEVEL_3_0           90
#define H265VPS_LEVEL_3_1           93
#define H265VPS_LEVEL_4_0           120
#define H265VPS_LEVEL_4_1           123
#define H265VPS_LEVEL_5_0           150
#define H265VPS_LEVEL_5_1           153
#define H265VPS_LEVEL_5_2           156
#define H265VPS_LEVEL_6_0           180
#define H265VPS_LEVEL_6_1           183
#define H265VPS_LEVEL_6_2           186

#define H265SPS_CHROMA_MONO         0
#define H265SPS_CHROMA_420          1
#define H265SPS_CHROMA_422          2
#define H265SPS_CHROMA_444          3

/* aspect_ratio_idc EXTENDED_SAR, Table E.1 */
#define H265VUI_AR_EXTENDED         255

/* ---- slice_type, Table 7-7 ---- */
#define H265SLI_TYPE_B              0
#define H265SLI_TYPE_P              1
#define H265SLI_TYPE_I              2

/* ---- SEI ---- */
#define H265SEI_BUFFERING_PERIOD    0
#define H265SEI_PIC_TIMING          1

/* pic_struct, Table D.2 */
#define H265SEI_STRUCT_FRAME            0
#define H265SEI_STRUCT_TOP              1
#define H265SEI_STRUCT_BOT              2
#define H265SEI_STRUCT_TOP_BOT          3
#define H265SEI_STRUCT_BOT_TOP          4
#define H265SEI_STRUCT_TOP_BOT_TOP      5
#define H265SEI_STRUCT_BOT_TOP_BOT      6
#define H265SEI_STRUCT_DOUBLE           7
#define H265SEI_STRUCT_TRIPLE           8
#define H265SEI_STRUCT_TOP_PREV_BOT     9
#define H265SEI_STRUCT_BOT_PREV_TOP     10
#define H265SEI_STRUCT_TOP_NEXT_BOT     11
#define H265SEI_STRUCT_BOT_NEXT_TOP     12

/* ---- HEVCDecoderConfigurationRecord (hvcC), ISO/IEC 14496-15 8.3.3.1.2 ----
 *  [0]  configurationVersion
 *  [1]  general_profile_space(2) general_tier_flag(1) general_profile_idc(5)
 *  [2]  general_profile_compatibility_flags(32)
 *  [6]  general_constraint_indicator_flags(48)
 *  [12] general_level_idc
 *  [13] '1111' min_spatial_segmentation_idc(12)
 *  [15] '111111' parallelismType(2)
 *  [16] '111111' chromaFormat(2)
 *  [17] '11111' bitDepthLumaMinus8(3)
 *  [18] '11111' bitDepthChromaMinus8(3)
 *  [19] avgFrameRate(16)
 *  [21] constantFrameRate(2) numTemporalLayers(3) temporalIdNested(1) lengthSizeMinusOne(2)
 *  [22] numOfArrays
 *       { array_completeness(1) '0' NAL_unit_type(6); numNalus(16);
 *         { nalUnitLength(16) nalUnit } * } *
 */
#define H265HVCC_HEADER             23
#define H265HVCC_ARRAY_HEADER       3
#define H265HVCC_NALU_HEADER        2

static inline void h265hvcc_init(uint8_t *p)
{
    p[0] = 1;       /* version */
    p[1] = 0;
    p[2] = p[3] = p[4] = p[5] = 0;
    p[6] = p[7] = p[8] = p[9] = p[10] = p[11] = 0;
    p[12] = 0;
    p[13] = 0xf0;
    p[14] = 0;
    p[15] = 0xfc;
    p[16] = 0xfc;
    p[17] = 0xf8;
    p[18] = 0xf8;
    p[19] = p[20] = 0;
    p[21] = 0;
    p[22] = 0;
}

static inline void h265hvcc_set_profile_space(uint8_t *p, uint8_t val)
{
    p[1] &= ~0xc0;
    p[1] |= (val & 0x3) << 6;
}

static inline uint8_t h265hvcc_get_profile_space(const uint8_t *p)
{
    return p[1] >> 6;
}

static inline void h265hvcc_set_tier(uint8_t *p)
{
    p[1] |= 0x20;
}

static inline bool h265hvcc_get_tier(const uint8_t *p)
{
    return !!(p[1] & 0x20);
}

static inline void h265hvcc_set_profile_idc(uint8_t *p, uint8_t val)
{
    p[1] &= ~0x1f;
    p[1] |= val & 0x1f;
}

static inline uint8_t h265hvcc_get_profile_idc(const uint8_t *p)
{
    return p[1] & 0x1f;
}

static inline void h265hvcc_set_profile_compatibility(uint8_t *p, uint32_t val)
{
    p[2] = val >> 24;
    p[3] = (val >> 16) & 0xff;
    p[4] = (val >> 8) & 0xff;
    p[5] = val & 0xff;
}

static inline uint32_t h265hvcc_get_profile_compatibility(const uint8_t *p)
{
    return ((uint32_t)p[2] << 24) | ((uint32_t)p[3] << 16) |
           ((uint32_t)p[4] << 8) | p[5];
}

static inline void h265hvcc_set_constraint_indicator(uint8_t *p, uint64_t val)
{
    p[6] = (val >> 40) & 0xff;
    p[7] = (val >> 32) & 0xff;
    p[8] = (val >> 24) & 0xff;
    p[9] = (val >> 16) & 0xff;
    p[10] = (val >> 8) & 0xff;
    p[11] = val & 0xff;
}

static inline uint64_t h265hvcc_get_constraint_indicator(const uint8_t *p)
{
    return ((uint64_t)p[6] << 40) | ((uint64_t)p[7] << 32) |
           ((uint64_t)p[8] << 24) | ((uint64_t)p[9] << 16) |
           ((uint64_t)p[10] << 8) | p[11];
}

static inline void h265hvcc_set_level_idc(uint8_t *p, uint8_t val)
{
    p[12] = val;
}

static inline uint8_t h265hvcc_get_level_idc(const uint8_t *p)
{
    return p[12];
}

static inline void h265hvcc_set_chroma_format(uint8_t *p, uint8_t val)
{
    p[16] = 0xfc | (val & 0x3);
}

static inline uint8_t h265hvcc_get_chroma_format(const uint8_t *p)
{
    return p[16] & 0x3;
}

static inline void h265hvcc_set_length_size_1(uint8_t *p, uint8_t val)
{
    p[21] &= ~0x3;
    p[21] |= val & 0x3;
}

static inline uint8_t h265hvcc_get_length_size_1(const uint8_t *p)
{
    return p[21] & 0x3;
}

static inline void h265hvcc_set_num_of_arrays(uint8_t *p, uint8_t val)
{
    p[22] = val;
}

static inline uint8_t h265hvcc_get_num_of_arrays(const uint8_t *p)
{
    return p[22];
}

/* ---- one NAL unit entry: nalUnitLength(16) + NAL unit ---- */
static inline void h265hvcc_nalu_set_length(uint8_t *p, uint16_t val)
{
    p[0] = val >> 8;
    p[1] = val & 0xff;
}

static inline uint16_t h265hvcc_nalu_get_length(const uint8_t *p)
{
    return ((uint16_t)p[0] << 8) | p[1];
}

static inline uint8_t *h265hvcc_nalu_get_nalu(const uint8_t *p)
{
    return (uint8_t *)p + H265HVCC_NALU_HEADER;
}

/* ---- one array: completeness/type octet, numNalus(16), entries ---- */
static inline void h265hvcc_array_set_nal_unit_type(uint8_t *p, uint8_t val)
{
    /* the whole octet (array_completeness and the reserved bit are 0): the framer writes into memory it has not
     * initialised, a read-modify-write would leave two bits of every array header to chance */
    p[0] = val & 0x3f;
}

static inline uint8_t h265hvcc_array_get_nal_unit_type(const uint8_t *p)
{
    return p[0] & 0x3f;
}

static inline void h265hvcc_array_set_num_nalus(uint8_t *p, uint16_t val)
{
    p[1] = val >> 8;
    p[2] = val & 0xff;
}

static inline uint16_t h265hvcc_array_get_num_nalus(const uint8_t *p)
{
    return ((uint16_t)p[1] << 8) | p[2];
}

/* pointer to the n-th NAL unit entry of an array (n == num_nalus: end of the array) */
static inline uint8_t *h265hvcc_array_get_nalu(const uint8_t *p, uint16_t n)
{
    const uint8_t *q = p + H265HVCC_ARRAY_HEADER;
    while (n) {
        q += H265HVCC_NALU_HEADER + h265hvcc_nalu_get_length(q);
        n--;
    }
    return (uint8_t *)q;
}

/* pointer to the n-th array (n == num_of_arrays: end of the record) */
static inline uint8_t *h265hvcc_get_array(const uint8_t *p, uint8_t n)
{
    const uint8_t *q = p + H265HVCC_HEADER;
    while (n) {
        q = h265hvcc_array_get_nalu(q, h265hvcc_array_get_num_nalus(q));
        n--;
    }
    return (uint8_t *)q;
}

/* the record is complete within size octets */
static inline bool h265hvcc_validate(const uint8_t *p, size_t size)
{
    if (size < H265HVCC_HEADER)
        return false;
    size_t off = H265HVCC_HEADER;
    uint8_t arrays = h265hvcc_get_num_of_arrays(p);
    while (arrays) {
        if (off + H265HVCC_ARRAY_HEADER > size)
            return false;
        uint16_t nalus = h265hvcc_array_get_num_nalus(p + off);
        off += H265HVCC_ARRAY_HEADER;
        while (nalus) {
            if (off + H265HVCC_NALU_HEADER > size)
                return false;
            off += H265HVCC_NALU_HEADER + h265hvcc_nalu_get_length(p + off);
            if (off > size)
                return false;
            nalus--;
        }
        arrays--;
    }
    return true;
}

#ifdef __cplusplus
}
#endif
#endif

/* Stand-in for biTStream <bitstream/smpte/337.h>: burst preamble of SMPTE ST 337 (Pa, Pb sync words in
 * 16-bit mode, data_type / data_mode fields of Pc). Only the constants upipe_s337_encaps uses. */
#ifndef SHIM_BITSTREAM_SMPTE_337_H
#define SHIM_BITSTREAM_SMPTE_337_H
#define S337_PREAMBLE_SIZE      8
#define S337_PREAMBLE_A1        0xf8    /* Pa = F872h */
#define S337_PREAMBLE_A2        0x72
#define S337_PREAMBLE_B1        0x4e    /* Pb = 4E1Fh */
#define S337_PREAMBLE_B2        0x1f
#define S337_TYPE_A52           1       /* data_type: AC-3 */
#define S337_TYPE_A52E          16      /* data_type: Enhanced AC-3 */
#define S337_MODE_16            0       /* data_mode: 16-bit */
#define S337_MODE_20            1
#define S337_MODE_24            2
#define S337_TYPE_A52_REP_RATE_FLAG 0
#endif

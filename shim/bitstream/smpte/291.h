/* Stand-in for biTStream <bitstream/smpte/291.h> (absent from this machine): ancillary data packets of
 * SMPTE ST 291-1 as 10-bit words stored in uint16_t: ADF (000h 3FFh 3FFh), DID, SDID, DC, DC user data
 * words, checksum. Bit 8 of DID/SDID/DC is even parity of bits 0-7, bit 9 its inverse; the checksum is the
 * 9-bit sum of the 9 LSBs of DID..last UDW, bit 9 the inverse of bit 8. Only what upipe uses. */
#ifndef SHIM_BITSTREAM_SMPTE_291_H
#define SHIM_BITSTREAM_SMPTE_291_H
#include <stdint.h>
#include <stdbool.h>

#define S291_ADF1           0x000
#define S291_ADF2           0x3ff
#define S291_ADF3           0x3ff
#define S291_HEADER_SIZE    6       /* ADF x3, DID, SDID, DC */
#define S291_FOOTER_SIZE    1       /* checksum */

static inline uint8_t s291_get_did(const uint16_t *data) { return data[3] & 0xff; }
static inline uint8_t s291_get_sdid(const uint16_t *data) { return data[4] & 0xff; }
static inline uint8_t s291_get_dc(const uint16_t *data) { return data[5] & 0xff; }

static inline uint16_t s291_compute_cs(const uint16_t *data)
{
    uint16_t cs = 0;
    unsigned dc = s291_get_dc(data);
    for (unsigned i = 3; i < S291_HEADER_SIZE + dc; i++)
        cs += data[i] & 0x1ff;
    cs &= 0x1ff;
    cs |= (~cs & 0x100) << 1;
    return cs;
}
static inline bool s291_check_cs(const uint16_t *data)
{
    return (data[S291_HEADER_SIZE + s291_get_dc(data)] & 0x3ff) == s291_compute_cs(data);
}
#endif

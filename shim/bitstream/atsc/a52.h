/* Stand-in for biTStream <bitstream/atsc/a52.h>: the constant upipe_s337_encaps uses (ATSC A/52: an AC-3
 * synchronisation frame carries 6 blocks of 256 samples). */
#ifndef SHIM_BITSTREAM_ATSC_A52_H
#define SHIM_BITSTREAM_ATSC_A52_H
#define A52_FRAME_SAMPLES   1536
#endif

/* Stand-in for biTStream <bitstream/id3/id3v2.h> (absent from this machine), written from the ID3v2.4 structure
 * document (sections 3.1 header, 3.4 footer, 6.1 unsynchronisation, 6.2 synchsafe integers). Only what
 * upipe_id3v2_decaps / upipe_id3v2_encaps use. The unsynchronisation scheme is applied to the whole body.
 *
 *   id3v2_unsynchronise(tag, out, &size) / id3v2_undo_unsynchronise(tag, out, &size):
 *     tag  complete tag (id3v2_get_total_size(tag) octets are readable)
 *     out  NULL: *size receives the size of the result;  else: *size is the capacity on entry and the
 *          number of octets written on return (0 if the capacity is too small)
 */
#ifndef SHIM_BITSTREAM_ID3_ID3V2_H
#define SHIM_BITSTREAM_ID3_ID3V2_H
#include <stdint.h>
#include <stdbool.h>
#include <string.h>

#define ID3V2_HEADER_SIZE   10
#define ID3V2_FOOTER_SIZE   10

static inline bool id3v2_check_tag(const uint8_t *p) { return p[0] == 'I' && p[1] == 'D' && p[2] == '3'; }
static inline uint8_t id3v2_get_version_major(const uint8_t *p) { return p[3]; }
static inline uint8_t id3v2_get_version_rev(const uint8_t *p) { return p[4]; }
static inline bool id3v2_check_unsynchronisation(const uint8_t *p) { return !!(p[5] & 0x80); }
static inline bool id3v2_check_footer(const uint8_t *p) { return !!(p[5] & 0x10); }
static inline uint32_t id3v2_get_size(const uint8_t *p)
{ return ((uint32_t)(p[6] & 0x7f) << 21) | ((p[7] & 0x7f) << 14) | ((p[8] & 0x7f) << 7) | (p[9] & 0x7f); }
static inline void id3v2_set_size(uint8_t *p, uint32_t size)
{ p[6] = (size >> 21) & 0x7f; p[7] = (size >> 14) & 0x7f; p[8] = (size >> 7) & 0x7f; p[9] = size & 0x7f; }
static inline uint32_t id3v2_get_total_size(const uint8_t *p)
{ return ID3V2_HEADER_SIZE + id3v2_get_size(p) + (id3v2_check_footer(p) ? ID3V2_FOOTER_SIZE : 0); }

static inline bool id3v2_validate(const uint8_t *p, uint32_t size)
{
    if (size < ID3V2_HEADER_SIZE || !id3v2_check_tag(p)) return false;
    if (p[3] == 0xff || p[4] == 0xff) return false;
    if ((p[6] | p[7] | p[8] | p[9]) & 0x80) return false;
    return id3v2_get_total_size(p) == size;
}

/* ---- frames (ID3v2.4 structure document, section 4: 4-character identifier, synchsafe size, 2 flag octets) ---- */
#define ID3V2_FRAME_HEADER_SIZE 10
#define ID3V2_FRAME_ID(a, b, c, d) (((uint32_t)(a) << 24) | ((uint32_t)(b) << 16) | ((uint32_t)(c) << 8) | (uint32_t)(d))
static inline uint32_t id3v2_frame_get_id(const uint8_t *frame) { return ID3V2_FRAME_ID(frame[0], frame[1], frame[2], frame[3]); }
static inline uint32_t id3v2_frame_get_size(const uint8_t *frame)
{ return ((uint32_t)(frame[4] & 0x7f) << 21) | ((frame[5] & 0x7f) << 14) | ((frame[6] & 0x7f) << 7) | (frame[7] & 0x7f); }
static inline const uint8_t *id3v2_frame_get_data(const uint8_t *frame) { return frame + ID3V2_FRAME_HEADER_SIZE; }
/* next frame of a complete tag (NULL after the last one); never returns a frame that is not entirely inside the tag body.
 * An extended header (flag 40h) is skipped. Padding (identifier starting with 00h) ends the iteration. */
static inline const uint8_t *id3v2_next_frame(const uint8_t *tag, const uint8_t *frame)
{
    const uint8_t *end = tag + ID3V2_HEADER_SIZE + id3v2_get_size(tag);
    const uint8_t *next;
    if (frame == NULL) {
        next = tag + ID3V2_HEADER_SIZE;
        if (tag[5] & 0x40) {
            if (end - next < 4) return NULL;
            uint32_t x = ((uint32_t)(next[0] & 0x7f) << 21) | ((next[1] & 0x7f) << 14) | ((next[2] & 0x7f) << 7) | (next[3] & 0x7f);
            if (x < 4 || x > (uint32_t)(end - next)) return NULL;
            next += x;
        }
    } else
        next = frame + ID3V2_FRAME_HEADER_SIZE + id3v2_frame_get_size(frame);
    if (next > end || end - next < ID3V2_FRAME_HEADER_SIZE || next[0] == 0) return NULL;
    if (id3v2_frame_get_size(next) > (uint32_t)(end - next) - ID3V2_FRAME_HEADER_SIZE) return NULL;
    return next;
}
#define id3v2_each_frame(TAG, FRAME) \
    for (const uint8_t *FRAME = id3v2_next_frame(TAG, NULL); FRAME != NULL; FRAME = id3v2_next_frame(TAG, FRAME))

static inline bool id3v2_unsynchronise(const uint8_t *tag, uint8_t *out, uint32_t *size_p)
{
    uint32_t body = id3v2_get_size(tag), total = id3v2_get_total_size(tag), extra = 0;
    const uint8_t *b = tag + ID3V2_HEADER_SIZE;
    bool already = id3v2_check_unsynchronisation(tag);
    if (!already)
        for (uint32_t i = 0; i < body; i++)
            if (b[i] == 0xff && (i + 1 == body || b[i + 1] == 0x00 || (b[i + 1] & 0xe0) == 0xe0)) extra++;
    uint32_t need = total + extra;
    if (out == NULL) { *size_p = need; return true; }
    if (*size_p < need) { *size_p = 0; return false; }
    if (!extra) { memcpy(out, tag, total); *size_p = total; return true; }
    memcpy(out, tag, ID3V2_HEADER_SIZE);
    out[5] |= 0x80;
    id3v2_set_size(out, body + extra);
    uint32_t o = ID3V2_HEADER_SIZE;
    for (uint32_t i = 0; i < body; i++) {
        out[o++] = b[i];
        if (b[i] == 0xff && (i + 1 == body || b[i + 1] == 0x00 || (b[i + 1] & 0xe0) == 0xe0)) out[o++] = 0x00;
    }
    if (id3v2_check_footer(tag)) { memcpy(out + o, tag + ID3V2_HEADER_SIZE + body, ID3V2_FOOTER_SIZE); o += ID3V2_FOOTER_SIZE; }
    *size_p = o;
    return true;
}

static inline bool id3v2_undo_unsynchronise(const uint8_t *tag, uint8_t *out, uint32_t *size_p)
{
    uint32_t body = id3v2_get_size(tag), total = id3v2_get_total_size(tag), removed = 0;
    const uint8_t *b = tag + ID3V2_HEADER_SIZE;
    bool flagged = id3v2_check_unsynchronisation(tag);
    if (flagged)
        for (uint32_t i = 0; i + 1 < body; i++)
            if (b[i] == 0xff && b[i + 1] == 0x00) { removed++; i++; }
    uint32_t need = total - removed;
    if (out == NULL) { *size_p = need; return true; }
    if (*size_p < need) { *size_p = 0; return false; }
    if (!removed) { memcpy(out, tag, total); *size_p = total; return true; }
    memcpy(out, tag, ID3V2_HEADER_SIZE);
    out[5] &= 0x7f;
    id3v2_set_size(out, body - removed);
    uint32_t o = ID3V2_HEADER_SIZE;
    for (uint32_t i = 0; i < body; i++) {
        out[o++] = b[i];
        if (b[i] == 0xff && i + 1 < body && b[i + 1] == 0x00) i++;
    }
    if (id3v2_check_footer(tag)) { memcpy(out + o, tag + ID3V2_HEADER_SIZE + body, ID3V2_FOOTER_SIZE); o += ID3V2_FOOTER_SIZE; }
    *size_p = o;
    return true;
}
#endif

/* Stand-in for biTStream <bitstream/id3/frame_priv.h>: the PRIV frame of ID3v2.4 (frames document, 4.27):
 * owner identifier (text terminated by 00h) followed by the private data. */
#ifndef SHIM_BITSTREAM_ID3_FRAME_PRIV_H
#define SHIM_BITSTREAM_ID3_FRAME_PRIV_H
#include <bitstream/id3/id3v2.h>

#define ID3V2_FRAME_ID_PRIV     ID3V2_FRAME_ID('P','R','I','V')
#define ID3V2_FRAME_PRIV_APPLE_TS_TIMESTAMP "com.apple.streaming.transportStreamTimestamp"

/* the owner identifier must be terminated inside the frame */
static inline bool id3v2_frame_validate_priv(const uint8_t *frame)
{
    uint32_t size = id3v2_frame_get_size(frame);
    const uint8_t *data = id3v2_frame_get_data(frame);
    for (uint32_t i = 0; i < size; i++)
        if (data[i] == 0)
            return true;
    return false;
}
static inline const char *id3v2_frame_priv_get_owner(const uint8_t *frame)
{
    return (const char *)id3v2_frame_get_data(frame);
}
static inline const uint8_t *id3v2_frame_priv_get_data(const uint8_t *frame)
{
    const uint8_t *data = id3v2_frame_get_data(frame);
    while (*data) data++;
    return data + 1;
}
static inline uint32_t id3v2_frame_priv_get_data_size(const uint8_t *frame)
{
    return id3v2_frame_get_size(frame) - (id3v2_frame_priv_get_data(frame) - id3v2_frame_get_data(frame));
}
#endif

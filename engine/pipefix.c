#include "vp.h"
#include "pipefix.h"
#include "upipe/uprobe_uref_mgr.h"
#include "upipe/uprobe_ubuf_mem.h"
#include "upipe/uprobe_upump_mgr.h"
#include "upipe/uprobe_uclock.h"
#include "upipe/uref_block_flow.h"
#include "upipe/ulog.h"
#include "upipe-modules/upipe_probe_uref.h"
#include <stdlib.h>
#include <stdio.h>

/* ------------------------------------------------------------------ probes */

const char *pfx_event_name(int event)
{
    const char *s = uprobe_event_str(event);
    if (s) return s + 7; /* skip "UPROBE_" */
    return event >= UPROBE_LOCAL ? "LOCAL" : "?";
}

static struct pfx_event *pfx_log_event(struct pfx *pfx, int probe, int track, int event)
{
    if (pfx->nevents >= PFX_MAX_EVENTS) { pfx->overflow = true; return &pfx->events[PFX_MAX_EVENTS - 1]; }
    struct pfx_event *e = &pfx->events[pfx->nevents++];
    memset(e, 0, sizeof(*e));
    e->seq = pfx->seq++;
    e->probe = probe; e->track = track; e->event = event;
    return e;
}

static int pfx_probe_throw(struct uprobe *uprobe, struct upipe *upipe, int event, va_list args)
{
    struct pfx_probe *p = container_of(uprobe, struct pfx_probe, uprobe);
    struct pfx *pfx = p->pfx;
    /* find the incarnation: same pointer and not dead, or a new one */
    int ti = -1;
    for (int i = p->ntracks - 1; i >= 0; i--)
        if (p->tracks[i].upipe == upipe) { ti = i; break; }
    if (ti >= 0 && p->tracks[ti].dead && event == UPROBE_READY) ti = -1;      /* address reused by a new pipe */
    if (ti >= 0 && p->tracks[ti].dead && event == UPROBE_LOG && !p->tracks[ti].upipe) ti = -1;
    if (ti < 0) {
        if (p->ntracks < PFX_TRACK_PER_PROBE) {
            ti = p->ntracks++;
            memset(&p->tracks[ti], 0, sizeof(p->tracks[ti]));
            p->tracks[ti].upipe = upipe;
        } else { pfx->overflow = true; ti = PFX_TRACK_PER_PROBE - 1; }
    }
    struct pfx_track *t = &p->tracks[ti];
    struct pfx_event *e = pfx_log_event(pfx, p->id, ti, event);
    if (event == UPROBE_LOG) {
        va_list ap; va_copy(ap, args);
        struct ulog *ulog = va_arg(ap, struct ulog *);
        va_end(ap);
        e->level = ulog->level;
        ulog_msg_print(ulog, e->text, sizeof(e->text));
    }
    if (t->dead) { t->events_after_dead++; e->after_dead = true; }
    if (event != UPROBE_LOG) {
        if (!t->saw_nonlog) { t->saw_nonlog = true; t->first_nonlog_is_ready = (event == UPROBE_READY); }
        if (event == UPROBE_READY) { t->ready = true; t->ready_seq = e->seq; }
        if (event == UPROBE_DEAD) { t->dead_count++; if (!t->dead) { t->dead = true; t->dead_seq = e->seq; } }
    }
    if (event == UPROBE_PROBE_UREF && pfx->probe_uref_hook != NULL && upipe != NULL && !t->dead) {
        va_list ap; va_copy(ap, args);
        if (va_arg(ap, unsigned int) == UPIPE_PROBE_UREF_SIGNATURE) {
            struct uref *uref = va_arg(ap, struct uref *);
            (void)va_arg(ap, struct upump **);
            bool *drop = va_arg(ap, bool *);
            va_end(ap);
            if (pfx->probe_uref_hook(pfx, p->id, upipe, uref, pfx->probe_uref_opaque)) *drop = true;
            return UBASE_ERR_NONE;
        }
        va_end(ap);
    }
    if (event == UPROBE_NEED_OUTPUT && pfx->need_output_hook != NULL && upipe != NULL && !t->dead) {
        int r = pfx->need_output_hook(pfx, p->id, upipe, pfx->need_output_opaque);
        if (r != UBASE_ERR_UNHANDLED) return r;
    }
    if (event != UPROBE_LOG && event != UPROBE_DEAD && pfx->event_hook != NULL && upipe != NULL && !t->dead) {
        /* the probe (and so this structure's chain) must outlive what the application does in there */
        uprobe_use(uprobe);
        pfx->event_hook(pfx, p->id, upipe, event, pfx->event_opaque);
        int r = uprobe_throw_next(uprobe, upipe, event, args);
        uprobe_release(uprobe);
        return r;
    }
    return uprobe_throw_next(uprobe, upipe, event, args);
}

static void pfx_probe_free(struct urefcount *urefcount)
{
    struct pfx_probe *p = container_of(urefcount, struct pfx_probe, urefcount);
    p->live = false;
    uprobe_clean(&p->uprobe);
    urefcount_clean(urefcount);
    /* the structure itself stays until pfx_clean (attribution of late events) */
}

struct uprobe *pfx_probe_alloc(struct pfx *pfx, int *id_p)
{
    if (pfx->nprobes >= PFX_MAX_PROBES) { pfx->overflow = true; return NULL; }
    hc_pause(1);
    struct pfx_probe *p = calloc(1, sizeof(*p));
    hc_pause(-1);
    p->pfx = pfx; p->id = pfx->nprobes; p->live = true;
    uprobe_init(&p->uprobe, pfx_probe_throw, uprobe_use(pfx->services));
    urefcount_init(&p->urefcount, pfx_probe_free);
    p->uprobe.refcount = &p->urefcount;
    pfx->probes[pfx->nprobes++] = p;
    if (id_p) *id_p = p->id;
    /* two references: one for the pipe (returned), one for the harness */
    uprobe_use(&p->uprobe);
    return &p->uprobe;
}

struct pfx_probe *pfx_probe(struct pfx *pfx, int id) { return id >= 0 && id < pfx->nprobes ? pfx->probes[id] : NULL; }

bool pfx_probe_released(struct pfx *pfx, int id)
{
    struct pfx_probe *p = pfx_probe(pfx, id);
    return p && p->live && urefcount_single(&p->urefcount);
}

static int pfx_root_throw(struct uprobe *uprobe, struct upipe *upipe, int event, va_list args)
{
    struct pfx *pfx = container_of(uprobe, struct pfx, root);
    if (event != UPROBE_LOG && event != UPROBE_READY && event != UPROBE_DEAD)
        pfx->root_unhandled++;
    if (event == UPROBE_PROVIDE_REQUEST)
        pfx->root_provide_requests++;
    return UBASE_ERR_UNHANDLED;
}

/* ------------------------------------------------------------------ sinks */

static struct pfx_rec *pfx_log_rec(struct pfx *pfx, int sink, int kind)
{
    if (pfx->nrecs >= PFX_MAX_RECS) { pfx->overflow = true; return &pfx->recs[PFX_MAX_RECS - 1]; }
    struct pfx_rec *r = &pfx->recs[pfx->nrecs++];
    memset(r, 0, sizeof(*r));
    r->seq = pfx->seq++;
    r->sink = sink; r->kind = kind; r->useq = UINT64_MAX;
    r->loop = fake_upump_current();
    return r;
}

static void pfx_sink_input(struct upipe *upipe, struct uref *uref, struct upump **upump_p)
{
    struct pfx_sink *s = container_of(upipe, struct pfx_sink, upipe);
    struct pfx_rec *r = pfx_log_rec(s->pfx, s->id, PFX_INPUT);
    s->inputs++;
    r->useq = pfx_uref_seq(uref);
    r->phash = pfx_payload_hash(uref, &r->size);
    r->sig = pfx_uref_sig(uref);
    /* the sink owns the uref: prove it by writing to its attributes */
    uref->priv = 0x5eed;
    if (s->uref_policy == PFX_SINK_KEEP && !s->pfx->overflow) r->uref = uref;
    else uref_free(uref);
}

static int pfx_sink_control(struct upipe *upipe, int command, va_list args)
{
    struct pfx_sink *s = container_of(upipe, struct pfx_sink, upipe);
    struct pfx *pfx = s->pfx;
    switch (command) {
    case UPIPE_SET_FLOW_DEF: {
        struct uref *flow_def = va_arg(args, struct uref *);
        bool reject = s->reject_all || s->reject_first > 0;
        if (s->reject_first > 0) s->reject_first--;
        struct pfx_rec *r = pfx_log_rec(pfx, s->id, reject ? PFX_FLOWDEF_REJECTED : PFX_FLOWDEF_ACCEPTED);
        s->flowdefs++;
        if (!pfx->overflow) r->uref = flow_def ? uref_dup(flow_def) : NULL;
        r->sig = pfx_uref_sig(flow_def);
        s->last_rejected = reject;
        if (reject) return UBASE_ERR_INVALID;
        uref_free(s->flow_def);
        s->flow_def = flow_def ? uref_dup(flow_def) : NULL;
        return UBASE_ERR_NONE;
    }
    case UPIPE_REGISTER_REQUEST: {
        struct urequest *request = va_arg(args, struct urequest *);
        struct pfx_rec *r = pfx_log_rec(pfx, s->id, PFX_REGISTER);
        r->request = request; r->reqtype = request->type;
        switch (s->req_policy) {
        case PFX_REQ_HOLD:
            /* keep a pointer, never link the request's own uchain: it sits in the upstream pipe's request list */
            if (s->nrequests < PFX_MAX_LODGED) s->lodged[s->nrequests++] = request;
            else pfx->overflow = true;
            return UBASE_ERR_NONE;
        case PFX_REQ_UNHANDLED:
            return UBASE_ERR_UNHANDLED;
        default:
            return upipe_throw_provide_request(upipe, request);
        }
    }
    case UPIPE_UNREGISTER_REQUEST: {
        struct urequest *request = va_arg(args, struct urequest *);
        struct pfx_rec *r = pfx_log_rec(pfx, s->id, PFX_UNREGISTER);
        r->request = request; r->reqtype = request->type;
        if (s->req_policy == PFX_REQ_HOLD)
            for (int i = 0; i < s->nrequests; i++)
                if (s->lodged[i] == request) {
                    for (; i + 1 < s->nrequests; i++) s->lodged[i] = s->lodged[i + 1];
                    s->nrequests--;
                    break;
                }
        return UBASE_ERR_NONE;
    }
    default:
        return UBASE_ERR_UNHANDLED;
    }
}

static void pfx_sink_free(struct urefcount *urefcount)
{
    struct pfx_sink *s = container_of(urefcount, struct pfx_sink, urefcount);
    pfx_log_rec(s->pfx, s->id, PFX_RELEASED);
    upipe_throw_dead(&s->upipe);
    uref_free(s->flow_def);
    s->flow_def = NULL;
    s->live = false;
    upipe_clean(&s->upipe);
    urefcount_clean(urefcount);
}

static struct upipe_mgr pfx_sink_mgr = {
    .refcount = NULL,
    .signature = UBASE_FOURCC('v','s','n','k'),
    .upipe_input = pfx_sink_input,
    .upipe_control = pfx_sink_control,
};

struct upipe *pfx_sink_alloc(struct pfx *pfx, int *id_p)
{
    if (pfx->nsinks >= PFX_MAX_SINKS) { pfx->overflow = true; return NULL; }
    hc_pause(1);
    struct pfx_sink *s = calloc(1, sizeof(*s));
    hc_pause(-1);
    s->pfx = pfx; s->id = pfx->nsinks; s->live = true;
    ulist_init(&s->requests);
    pfx->sinks[pfx->nsinks++] = s;
    if (id_p) *id_p = s->id;
    int pid;
    struct uprobe *probe = pfx_probe_alloc(pfx, &pid);
    upipe_init(&s->upipe, &pfx_sink_mgr, probe);
    urefcount_init(&s->urefcount, pfx_sink_free);
    s->upipe.refcount = &s->urefcount;
    upipe_throw_ready(&s->upipe);
    return &s->upipe;
}

struct pfx_sink *pfx_sink(struct pfx *pfx, int id) { return id >= 0 && id < pfx->nsinks ? pfx->sinks[id] : NULL; }

void pfx_sink_drop_kept(struct pfx *pfx, int id)
{
    for (int i = 0; i < pfx->nrecs; i++) {
        struct pfx_rec *r = &pfx->recs[i];
        if (r->kind == PFX_INPUT && r->uref && (id < 0 || r->sink == id)) { uref_free(r->uref); r->uref = NULL; }
    }
}

/* ------------------------------------------------------------------ buffers */

uint8_t pfx_pattern(uint64_t useq, size_t i) { return (uint8_t)(useq * 37 + i * 11 + (i >> 8) * 5 + 1); }

struct uref *pfx_uref_block(struct pfx *pfx, uint64_t useq, size_t size, int nseg)
{
    if (nseg < 1) nseg = 1;
    if ((size_t)nseg > size) nseg = size ? size : 1;
    size_t first = size / nseg + size % nseg;
    struct uref *uref = uref_block_alloc(pfx->fm.uref_mgr, pfx->fm.block_mgr, first);
    if (!uref) return NULL;
    size_t pos = 0;
    for (int k = 0; k < nseg; k++) {
        size_t seg = k == 0 ? first : size / nseg;
        struct ubuf *ubuf = k == 0 ? uref->ubuf : ubuf_block_alloc(pfx->fm.block_mgr, seg);
        if (!ubuf) { uref_free(uref); return NULL; }
        if (seg) {
            int s = -1; uint8_t *p;
            if (!ubase_check(ubuf_block_write(ubuf, 0, &s, &p))) { if (k) ubuf_free(ubuf); uref_free(uref); return NULL; }
            for (size_t i = 0; i < seg; i++) p[i] = pfx_pattern(useq, pos + i);
            ubuf_block_unmap(ubuf, 0);
        }
        if (k) ubuf_block_append(uref->ubuf, ubuf);
        pos += seg;
    }
    uref_attr_set_unsigned(uref, useq, UDICT_TYPE_UNSIGNED, "x.seq");
    return uref;
}

uint64_t pfx_uref_seq(struct uref *uref)
{
    uint64_t v = UINT64_MAX;
    if (uref == NULL || uref->udict == NULL) return v;
    if (!ubase_check(udict_get_unsigned(uref->udict, &v, UDICT_TYPE_UNSIGNED, "x.seq"))) return UINT64_MAX;
    return v;
}

uint64_t pfx_payload_hash(struct uref *uref, size_t *size_p)
{
    uint64_t h = VP_HASH_INIT;
    size_t size = 0;
    if (uref && uref->ubuf && ubase_check(ubuf_block_size(uref->ubuf, &size))) {
        size_t off = 0;
        while (off < size) {
            int s = -1; const uint8_t *p;
            if (!ubase_check(ubuf_block_read(uref->ubuf, off, &s, &p)) || s <= 0) break;
            h = vp_hash_bytes(h, p, s);
            ubuf_block_unmap(uref->ubuf, off);
            off += s;
        }
    }
    if (size_p) *size_p = size;
    return h;
}

uint64_t pfx_uref_sig(struct uref *uref)
{
    if (uref == NULL) return 0;
    size_t size;
    uint64_t h = pfx_payload_hash(uref, &size);
    h = vp_hash_mix(h, size);
    h = vp_hash_mix(h, uref->flags); h = vp_hash_mix(h, uref->date_sys); h = vp_hash_mix(h, uref->date_prog);
    h = vp_hash_mix(h, uref->date_orig); h = vp_hash_mix(h, uref->dts_pts_delay); h = vp_hash_mix(h, uref->cr_dts_delay);
    h = vp_hash_mix(h, uref->rap_cr_delay);
    if (uref->udict != NULL) {
        uint64_t sum = 0;
        const char *name = NULL; enum udict_type type = UDICT_TYPE_END;
        while (ubase_check(udict_iterate(uref->udict, &name, &type)) && type != UDICT_TYPE_END) {
            size_t vs = 0; const uint8_t *v = NULL;
            uint64_t a = vp_hash_mix(VP_HASH_INIT, type);
            if (name) a = vp_hash_bytes(a, name, strlen(name));
            if (ubase_check(udict_get(uref->udict, name, type, &vs, &v)) && v) a = vp_hash_bytes(a, v, vs);
            sum += a;
        }
        h = vp_hash_mix(h, sum);
    }
    return h;
}

struct uref *pfx_flow_def_block(struct pfx *pfx, const char *def)
{
    return uref_block_flow_alloc_def(pfx->fm.uref_mgr, def);
}

/* ------------------------------------------------------------------ lifecycle */

int pfx_init(struct pfx *pfx, const struct pfx_cfg *cfg)
{
    memset(pfx, 0, sizeof(*pfx));
    pfx->cfg = *cfg;
    fake_eventfd_reset();
    hc_begin();
    if (fix_mem_init_full(&pfx->fm, cfg->pool_depth, cfg->prepend, cfg->append, cfg->align, 0) != 0) return -1;
    pfx->loop = fake_upump_mgr_alloc(cfg->pool_depth, cfg->pool_depth);
    pfx->uclock = fake_uclock_alloc(pfx->loop, 0);
    uprobe_init(&pfx->root, pfx_root_throw, NULL);
    struct uprobe *chain = &pfx->root;      /* not refcounted (refcount NULL) */
    if (cfg->with_uclock) chain = uprobe_uclock_alloc(chain, pfx->uclock);
    if (cfg->with_upump_mgr) chain = uprobe_upump_mgr_alloc(chain, pfx->loop);
    if (cfg->with_ubuf_mem) chain = uprobe_ubuf_mem_alloc(chain, pfx->fm.umem_mgr, cfg->pool_depth, cfg->pool_depth);
    if (cfg->with_uref_mgr) chain = uprobe_uref_mgr_alloc(chain, pfx->fm.uref_mgr);
    if (chain == NULL) return -1;
    pfx->services = chain;
    return 0;
}

int pfx_run_loop(struct pfx *pfx, int max_steps)
{
    int n = 0;
    while (n < max_steps && fake_upump_step(pfx->loop, 0)) n++;
    return n;
}

const char *pfx_clean(struct pfx *pfx)
{
    const char *r = NULL;
    pfx_sink_drop_kept(pfx, -1);
    for (int i = 0; i < pfx->nrecs; i++)
        if ((pfx->recs[i].kind == PFX_FLOWDEF_ACCEPTED || pfx->recs[i].kind == PFX_FLOWDEF_REJECTED) && pfx->recs[i].uref) {
            uref_free(pfx->recs[i].uref); pfx->recs[i].uref = NULL;
        }
    for (int i = 0; i < pfx->nsinks; i++)
        if (pfx->sinks[i]->live && !r) {
            snprintf(pfx->msg, sizeof(pfx->msg), "recording sink %d is still referenced after everything was released", i);
            r = pfx->msg;
        }
    for (int i = 0; i < pfx->nprobes; i++) {
        struct pfx_probe *p = pfx->probes[i];
        if (p->live && !urefcount_single(&p->urefcount) && !r) {
            snprintf(pfx->msg, sizeof(pfx->msg), "probe %d is still referenced after everything was released (a pipe was not destroyed)", i);
            r = pfx->msg;
        }
        if (p->live && urefcount_single(&p->urefcount)) uprobe_release(&p->uprobe);
    }
    if (pfx->services != &pfx->root) {
        if (!r && !uprobe_single(pfx->services)) { r = "service probe chain still referenced"; }
        uprobe_release(pfx->services);
    }
    if (!r && fake_upump_count(pfx->loop) != 0) {
        snprintf(pfx->msg, sizeof(pfx->msg), "%d pump(s) still allocated in the event loop", fake_upump_count(pfx->loop));
        r = pfx->msg;
    }
    uclock_release(pfx->uclock);
    upump_mgr_vacuum(pfx->loop);
    if (!r && !urefcount_single(pfx->loop->refcount)) r = "upump manager still referenced";
    upump_mgr_release(pfx->loop);
    const char *m = fix_mem_clean(&pfx->fm);
    if (!r && m) { snprintf(pfx->msg, sizeof(pfx->msg), "%s", m); r = pfx->msg; }
    if (!r && fake_eventfd_live()) r = "event descriptor not cleaned";
    /* direct mallocs of pipes: everything allocated since pfx_init must be gone
     * (probe and sink structures were allocated while paused) */
    const void *first = NULL; size_t fsz = 0;
    long live = hc_end(&first, &fsz);
    if (live > 0 && first != NULL && getenv("VP_LEAK_DESCRIBE")) {
        extern void __asan_describe_address(void *);   /* debugging aid: prints the allocation stack */
        __asan_describe_address((void *)first);
    }
    if (!r && live > 0) {
        snprintf(pfx->msg, sizeof(pfx->msg), "%ld heap allocation(s) made during the case are still live (first: %zu bytes)", live, fsz);
        r = pfx->msg;
    }
    for (int i = 0; i < pfx->nprobes; i++) free(pfx->probes[i]);
    for (int i = 0; i < pfx->nsinks; i++) free(pfx->sinks[i]);
    if (pfx->overflow && !r) r = "INTERNAL: fixture log overflow";
    return r;
}

/* ------------------------------------------------------------------ rendering */

void pfx_render_since(struct pfx *pfx, struct vp_report *rep, int ev_from, int rec_from)
{
    int e = ev_from, r = rec_from;
    while (e < pfx->nevents || r < pfx->nrecs) {
        bool take_e = r >= pfx->nrecs || (e < pfx->nevents && pfx->events[e].seq < pfx->recs[r].seq);
        if (take_e) {
            struct pfx_event *ev = &pfx->events[e++];
            if (ev->event == UPROBE_LOG) { if (ev->level >= UPROBE_LOG_WARNING || ev->after_dead) vp_render(rep, "      [%u] probe%d.%d log(%d) %s%s\n", ev->seq, ev->probe, ev->track, ev->level, ev->text, ev->after_dead ? "  <-- after DEAD" : ""); }
            else vp_render(rep, "      [%u] probe%d.%d %s%s\n", ev->seq, ev->probe, ev->track, pfx_event_name(ev->event), ev->after_dead ? "  <-- after DEAD" : "");
        } else {
            struct pfx_rec *rc = &pfx->recs[r++];
            static const char *kn[] = { "?", "set_flow_def:accepted", "set_flow_def:REJECTED", "input", "register_request", "unregister_request", "released" };
            if (rc->kind == PFX_INPUT) vp_render(rep, "      [%u] sink%d input seq=%lld size=%zu\n", rc->seq, rc->sink, (long long)rc->useq, rc->size);
            else if (rc->kind == PFX_REGISTER || rc->kind == PFX_UNREGISTER) vp_render(rep, "      [%u] sink%d %s type=%d\n", rc->seq, rc->sink, kn[rc->kind], rc->reqtype);
            else vp_render(rep, "      [%u] sink%d %s\n", rc->seq, rc->sink, kn[rc->kind]);
        }
    }
}

/* Default (no-op) definitions of the UPIPE_VERIF hooks, linked into every harness.
 * They are weak: the scheduler (engine/sched.c) and the C01 pool tracker override them. */
#include <stddef.h>
__attribute__((weak)) void upipe_verif_yield(int kind, const volatile void *addr) { (void)kind; (void)addr; }
__attribute__((weak)) void upipe_verif_pool(int op, void *pool, void *obj) { (void)op; (void)pool; (void)obj; }
__attribute__((weak)) int upipe_verif_eventfd(int op, void *ueventfd, int arg) { (void)op; (void)ueventfd; (void)arg; return -1; }

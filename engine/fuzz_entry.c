/* libFuzzer entry: the same vp_executor that the rapidcheck driver runs, under coverage guidance.
 * A violation writes the tape + key/message, flushes the counters and traps (libFuzzer then also
 * saves its crash-* artifact). Counters are written at exit to $VP_FUZZ_OUT/fuzz-<pid>.json. */
#include "vp.h"
#include <stdio.h>
#include <stdlib.h>
#include <string.h>
#include <unistd.h>

#define HSLOTS (1u << 20)
static uint64_t hset[HSLOTS];
static unsigned long long cases, nontrivial, distinct, excluded;
static unsigned long long class_counts[64];
static int inited;
static unsigned runflags;

static void dump_stats(void)
{
    const char *out = getenv("VP_FUZZ_OUT");
    if (!out) return;
    char path[1024];
    snprintf(path, sizeof path, "%s/fuzz-%d.json", out, (int)getpid());
    FILE *f = fopen(path, "w");
    if (!f) return;
    fprintf(f, "{\"cases\": %llu, \"nontrivial\": %llu, \"distinct_nontrivial\": %llu, \"excluded\": %llu, \"class_counts\": {",
            cases, nontrivial, distinct, excluded);
    int first = 1;
    if (vp_executor.class_names)
        for (int b = 0; b < 64 && vp_executor.class_names[b]; b++) {
            fprintf(f, "%s\"%s\": %llu", first ? "" : ", ", vp_executor.class_names[b], class_counts[b]);
            first = 0;
        }
    fprintf(f, "}}\n");
    fclose(f);
    /* hashes for the union across jobs */
    snprintf(path, sizeof path, "%s/fuzz-%d.hashes", out, (int)getpid());
    f = fopen(path, "wb");
    if (f) { for (unsigned i = 0; i < HSLOTS; i++) if (hset[i]) fwrite(&hset[i], 8, 1, f); fclose(f); }
}

static void note_hash(uint64_t h)
{
    if (h == 0) h = 1;
    unsigned s = (unsigned)(h * 0x9e3779b97f4a7c15ULL >> 44) & (HSLOTS - 1);
    for (unsigned i = 0; i < 64; i++, s = (s + 1) & (HSLOTS - 1)) {
        if (hset[s] == h) return;
        if (hset[s] == 0) { hset[s] = h; distinct++; return; }
    }
}

int LLVMFuzzerTestOneInput(const uint8_t *data, size_t size)
{
    if (!inited) {
        inited = 1;
        atexit(dump_stats);
        if (getenv("VP_FUZZ_THOROUGH")) runflags |= VP_THOROUGH;
    }
    struct vp_report rep;
    memset(&rep, 0, sizeof rep);
    int r = vp_executor.run(data, size, &rep, runflags);
    cases++;
    excluded += rep.excluded;
    for (int b = 0; b < 64; b++) if (rep.classes & (1ull << b)) class_counts[b]++;
    if (rep.nontrivial && r == 0) { nontrivial++; note_hash(rep.case_hash); }
    free(rep.render);
    if (r != 0) {
        const char *out = getenv("VP_FUZZ_OUT");
        if (out) {
            char path[1024];
            snprintf(path, sizeof path, "%s/%s-%d.tape", out, r == 2 ? "internal" : "fail", (int)getpid());
            FILE *f = fopen(path, "wb");
            if (f) { if (size) fwrite(data, 1, size, f); fclose(f); }
            snprintf(path, sizeof path, "%s/%s-%d.txt", out, r == 2 ? "internal" : "fail", (int)getpid());
            f = fopen(path, "w");
            if (f) { fprintf(f, "KEY: %s\nMSG: %s\n", rep.key, rep.msg); fclose(f); }
        }
        dump_stats();
        fprintf(stderr, "VP-%s: %s: %s\n", r == 2 ? "INTERNAL" : "VIOLATION", rep.key, rep.msg);
        __builtin_trap();
    }
    return 0;
}

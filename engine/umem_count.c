#include "umem_count.h"
#include <stdlib.h>
#include <string.h>

struct area { uint8_t *base; size_t size; };

struct umem_count_mgr {
    struct urefcount urefcount;
    struct umem_mgr mgr;
    struct umem_count_stats st;
    struct area *areas;
    size_t nareas, cap;
    unsigned fail_in;           /* fault injection: the fail_in-th allocation / reallocation from now fails (0: disarmed) */
    unsigned long failures;
};

UBASE_FROM_TO(umem_count_mgr, umem_mgr, umem_mgr, mgr)
UBASE_FROM_TO(umem_count_mgr, urefcount, urefcount, urefcount)

static void area_add(struct umem_count_mgr *m, uint8_t *base, size_t size)
{
    if (m->nareas == m->cap) {
        m->cap = m->cap ? m->cap * 2 : 64;
        m->areas = realloc(m->areas, m->cap * sizeof(struct area));
    }
    m->areas[m->nareas].base = base;
    m->areas[m->nareas].size = size;
    m->nareas++;
    m->st.live++;
    m->st.live_bytes += size;
}

static bool area_del(struct umem_count_mgr *m, uint8_t *base)
{
    for (size_t i = 0; i < m->nareas; i++)
        if (m->areas[i].base == base) {
            m->st.live--;
            m->st.live_bytes -= m->areas[i].size;
            m->areas[i] = m->areas[--m->nareas];
            return true;
        }
    m->st.bad_free++;
    return false;
}

/* engine/faultmalloc.c, when the executor is built with allocation fault injection: the memory areas handed out here count as
 * allocations of the code under test like its own malloc calls */
extern int vp_fault_tick(void) __attribute__((weak));

static bool umem_count_alloc(struct umem_mgr *mgr, struct umem *umem, size_t size)
{
    struct umem_count_mgr *m = umem_count_mgr_from_umem_mgr(mgr);
    if (m->fail_in && --m->fail_in == 0) { m->failures++; return false; }
    if (vp_fault_tick && vp_fault_tick()) { m->failures++; return false; }
    uint8_t *buffer = malloc(size ? size : 1);
    if (buffer == NULL) return false;
    memset(buffer, 0xCD, size);
    m->st.allocs++;
    area_add(m, buffer, size);
    umem->buffer = buffer;
    umem->size = size;
    umem->real_size = size;
    umem->mgr = mgr;
    return true;
}

static bool umem_count_realloc(struct umem *umem, size_t new_size)
{
    struct umem_count_mgr *m = umem_count_mgr_from_umem_mgr(umem->mgr);
    if (m->fail_in && --m->fail_in == 0) { m->failures++; return false; }
    if (vp_fault_tick && vp_fault_tick()) { m->failures++; return false; }
    /* always move, so that stale pointers into the old area fault under ASan */
    uint8_t *buffer = malloc(new_size ? new_size : 1);
    if (buffer == NULL) return false;
    memset(buffer, 0xCD, new_size);
    memcpy(buffer, umem->buffer, new_size < umem->size ? new_size : umem->size);
    area_del(m, umem->buffer);
    free(umem->buffer);
    area_add(m, buffer, new_size);
    m->st.reallocs++;
    umem->buffer = buffer;
    umem->size = new_size;
    umem->real_size = new_size;
    return true;
}

static void umem_count_free(struct umem *umem)
{
    struct umem_count_mgr *m = umem_count_mgr_from_umem_mgr(umem->mgr);
    m->st.frees++;
    if (area_del(m, umem->buffer))
        free(umem->buffer);
    umem->buffer = NULL;
    umem->mgr = NULL;
}

static void umem_count_mgr_free(struct urefcount *urefcount)
{
    struct umem_count_mgr *m = umem_count_mgr_from_urefcount(urefcount);
    urefcount_clean(urefcount);
    free(m->areas);
    free(m);
}

struct umem_mgr *umem_count_mgr_alloc(void)
{
    struct umem_count_mgr *m = calloc(1, sizeof(*m));
    if (m == NULL) return NULL;
    urefcount_init(umem_count_mgr_to_urefcount(m), umem_count_mgr_free);
    m->mgr.refcount = umem_count_mgr_to_urefcount(m);
    m->mgr.umem_alloc = umem_count_alloc;
    m->mgr.umem_realloc = umem_count_realloc;
    m->mgr.umem_free = umem_count_free;
    m->mgr.umem_mgr_vacuum = NULL;
    return umem_count_mgr_to_umem_mgr(m);
}

struct umem_count_stats *umem_count_stats(struct umem_mgr *mgr)
{
    return &umem_count_mgr_from_umem_mgr(mgr)->st;
}

bool umem_count_lookup(struct umem_mgr *mgr, const void *p, uint8_t **base_p, size_t *size_p)
{
    struct umem_count_mgr *m = umem_count_mgr_from_umem_mgr(mgr);
    const uint8_t *q = p;
    for (size_t i = 0; i < m->nareas; i++)
        if (q >= m->areas[i].base && q < m->areas[i].base + (m->areas[i].size ? m->areas[i].size : 1)) {
            if (base_p) *base_p = m->areas[i].base;
            if (size_p) *size_p = m->areas[i].size;
            return true;
        }
    return false;
}

bool umem_count_single(struct umem_mgr *mgr)
{
    return urefcount_single(mgr->refcount);
}

void umem_count_fail_nth(struct umem_mgr *mgr, unsigned n)
{
    umem_count_mgr_from_umem_mgr(mgr)->fail_in = n;
}

unsigned long umem_count_failures(struct umem_mgr *mgr)
{
    return umem_count_mgr_from_umem_mgr(mgr)->failures;
}

/* Allocation fault injection (force-included with -include faultmalloc.h into every translation unit of an executor that
 * asks for it): malloc / calloc / realloc of the repository sources and of the inline functions of its headers go through
 * counters of the harness, which can make the n-th allocation from now on fail. Nothing fails unless the harness arms it. */
#ifndef VP_FAULTMALLOC_H
#define VP_FAULTMALLOC_H
#include <stdlib.h>
#include <string.h>
#include <stddef.h>
void *vp_fmalloc(size_t size);
void *vp_fcalloc(size_t n, size_t size);
void *vp_frealloc(void *p, size_t size);
/* the n-th allocation (1 = next) fails, once; 0 disarms. Returns nothing. */
void vp_fault_arm(unsigned nth);
/* disarms; returns how many allocations were refused since the last arm */
unsigned vp_fault_disarm(void);
/* allocations refused since the last arm (without disarming) */
unsigned vp_fault_refused(void);
/* allocations seen since the last arm (refused one included) */
unsigned vp_fault_seen(void);
#ifndef VP_FAULTMALLOC_IMPL
#define malloc(s) vp_fmalloc(s)
#define calloc(n, s) vp_fcalloc(n, s)
#define realloc(p, s) vp_frealloc(p, s)
#endif
#endif

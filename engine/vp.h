/* Executor interface shared by every harness and every driver (DESIGN.md A.1). */
#ifndef VP_H_
#define VP_H_
#include <stdint.h>
#include <stddef.h>
#include <stdarg.h>
#ifdef __cplusplus
extern "C" {
#endif

struct vp_report {
    int      nontrivial;   /* by the property's NT rule */
    uint64_t case_hash;    /* hash of the decoded case */
    uint64_t classes;      /* bit set of classes hit (bit i <-> class_names[i]) */
    uint32_t excluded;     /* patterns skipped because of an open finding */
    char     key[96];      /* failure key */
    char     msg[768];     /* oracle message */
    char    *render;       /* decoded case (malloc'ed) when VP_RENDER */
    size_t   render_len, render_cap;
};

#define VP_RENDER      1u
#define VP_NO_EXCLUDE  2u
#define VP_THOROUGH    4u   /* executor may use larger bounds */

struct vp_executor {
    const char *id;
    const char *variant;
    size_t      tape_max;
    const char *const *class_names;  /* NULL-terminated, <= 64 */
    int (*run)(const uint8_t *tape, size_t len, struct vp_report *rep, unsigned flags);
    /* optional extra mode (schedule enumeration...): returns exit status */
    int (*extra)(int argc, char **argv);
};
extern const struct vp_executor vp_executor;

/* helpers (engine/vp_util.c) */
extern int vp_render_live;
void vp_render(struct vp_report *rep, const char *fmt, ...) __attribute__((format(printf,2,3)));
int  vp_fail(struct vp_report *rep, const char *key, const char *fmt, ...) __attribute__((format(printf,3,4)));
int  vp_internal(struct vp_report *rep, const char *fmt, ...) __attribute__((format(printf,2,3)));
uint64_t vp_hash_mix(uint64_t h, uint64_t v);
uint64_t vp_hash_bytes(uint64_t h, const void *p, size_t n);
#define VP_HASH_INIT 0xcbf29ce484222325ULL

#ifdef __cplusplus
}
#endif
#endif

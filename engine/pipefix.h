/* Shared fixture for the pipe-level properties (C01 C04 C05 C12 C14 C20 C06):
 * memory managers over a counting umem, a harness-owned event loop and clock, the service
 * probes real applications use, a recording probe per pipe, recording sinks, test buffers
 * that identify their origin, and an end-of-case audit. */
#ifndef PIPEFIX_H_
#define PIPEFIX_H_
#include "vp.h"
#include "fix_mem.h"
#include "fake_upump.h"
#include "heapcount.h"
#include "upipe/uprobe.h"
#include "upipe/upipe.h"
#include "upipe/urequest.h"
#include "upipe/uref_block.h"
#include "upipe/uref_flow.h"

#define PFX_MAX_EVENTS 8192
#define PFX_MAX_RECS   8192
#define PFX_MAX_PROBES 48
#define PFX_MAX_SINKS  12
#define PFX_TRACK_PER_PROBE 8
#define PFX_MAX_LODGED 48

/* ---- event log (recording probes) ---- */
struct pfx_event {
    uint32_t seq;
    int16_t probe;          /* recording probe id */
    int16_t track;          /* index of the (probe, upipe pointer) incarnation */
    int event;              /* enum uprobe_event or local */
    int level;              /* for UPROBE_LOG */
    bool after_dead;        /* arrived after that pipe's DEAD */
    char text[56];          /* log text / short description */
};

struct pfx_track {          /* one pipe incarnation seen by one probe */
    const void *upipe;
    bool ready, dead;
    bool first_nonlog_is_ready;
    bool saw_nonlog;
    int dead_count;
    int events_after_dead;
    uint32_t ready_seq, dead_seq;
};

struct pfx_probe {
    struct uprobe uprobe;
    struct urefcount urefcount;
    struct pfx *pfx;
    int id;
    bool live;              /* urefcount not yet dead */
    int ntracks;
    struct pfx_track tracks[PFX_TRACK_PER_PROBE];
};

/* ---- sink records ---- */
enum pfx_rec_kind { PFX_FLOWDEF_ACCEPTED = 1, PFX_FLOWDEF_REJECTED, PFX_INPUT, PFX_REGISTER, PFX_UNREGISTER, PFX_RELEASED };
struct pfx_rec {
    uint32_t seq;
    int16_t sink;
    uint8_t kind;
    uint64_t useq;          /* x.seq attribute of the uref (UINT64_MAX if absent) */
    size_t size;            /* payload size (block) */
    uint64_t phash;         /* hash of payload */
    uint64_t sig;           /* hash of payload + dates + flags + attributes */
    struct uref *uref;      /* INPUT: the uref if kept; FLOWDEF: a dup of the definition */
    struct urequest *request;
    int reqtype;
    struct upump_mgr *loop; /* loop that was dispatching when the sink was entered (NULL: called directly) */
};

enum pfx_sink_uref_policy { PFX_SINK_FREE = 0, PFX_SINK_KEEP };       /* KEEP: stored in the record until the case ends or the harness frees it */
enum pfx_sink_req_policy { PFX_REQ_THROW = 0, PFX_REQ_HOLD, PFX_REQ_UNHANDLED };

struct pfx_sink {
    struct upipe upipe;
    struct urefcount urefcount;
    struct pfx *pfx;
    int id;
    bool live;
    int reject_first;       /* reject this many flow definitions, then accept */
    bool reject_all;
    uint8_t uref_policy;
    uint8_t req_policy;
    struct uref *flow_def;  /* last accepted definition (dup) */
    bool last_rejected;     /* the last set_flow_def answer was a rejection */
    struct uchain requests; /* unused (kept for layout): a request's uchain belongs to the upstream pipe (urequest.h), a sink must not link it */
    int nrequests;          /* number of lodged requests when HOLD */
    struct urequest *lodged[PFX_MAX_LODGED];   /* the lodged requests when HOLD, in registration order */
    unsigned inputs, flowdefs;
};

struct pfx_cfg {
    int pool_depth;         /* udict/uref/ubuf/upump pools */
    int prepend, append, align;
    bool with_uref_mgr, with_ubuf_mem, with_upump_mgr, with_uclock;   /* service probes present */
};

struct pfx {
    struct pfx_cfg cfg;
    struct fix_mem fm;
    struct upump_mgr *loop;
    struct uclock *uclock;
    struct uprobe *services;           /* chain of service probes ending in the root probe */
    struct uprobe root;                /* terminal recording probe (unhandled events) */
    uint32_t seq;
    int nevents, nrecs;
    bool overflow;
    struct pfx_event events[PFX_MAX_EVENTS];
    struct pfx_rec recs[PFX_MAX_RECS];
    int nprobes, nsinks;
    struct pfx_probe *probes[PFX_MAX_PROBES];
    struct pfx_sink *sinks[PFX_MAX_SINKS];
    unsigned root_unhandled;
    unsigned root_provide_requests;    /* provide_request events that no probe of the chain answered (they reached the root probe) */
    char msg[512];
    /* optional: called when a pipe watched by recording probe `probe_id` throws need_output (an application that plumbs
     * lazily answers by calling upipe_set_output); return UBASE_ERR_UNHANDLED to let the event go on */
    int (*need_output_hook)(struct pfx *pfx, int probe_id, struct upipe *upipe, void *opaque);
    void *need_output_opaque;
    /* optional: called for every event other than a log that a live pipe throws on a recording probe, after it was recorded and
     * before it travels on (applications act inside events: e.g. release their handle on source_end) */
    void (*event_hook)(struct pfx *pfx, int probe_id, struct upipe *upipe, int event, void *opaque);
    void *event_opaque;
    /* optional: the application's answer to the probe_uref event of upipe_probe_uref (true: "drop this buffer") */
    bool (*probe_uref_hook)(struct pfx *pfx, int probe_id, struct upipe *upipe, struct uref *uref, void *opaque);
    void *probe_uref_opaque;
};

int  pfx_init(struct pfx *pfx, const struct pfx_cfg *cfg);
/* returns NULL if everything was returned; else a message (leak / dangling reference) */
const char *pfx_clean(struct pfx *pfx);

/* a new recording probe (one per pipe the harness allocates); the returned reference belongs to the pipe */
struct uprobe *pfx_probe_alloc(struct pfx *pfx, int *id_p);
struct pfx_probe *pfx_probe(struct pfx *pfx, int id);
/* the pipe has let go of its probe (only the harness' reference is left) */
bool pfx_probe_released(struct pfx *pfx, int id);

/* a new recording sink; the caller owns one reference (upipe_release when done) */
struct upipe *pfx_sink_alloc(struct pfx *pfx, int *id_p);
struct pfx_sink *pfx_sink(struct pfx *pfx, int id);
/* free urefs kept by sink records (id < 0: all sinks) */
void pfx_sink_drop_kept(struct pfx *pfx, int id);

/* test buffers */
uint8_t pfx_pattern(uint64_t useq, size_t i);
struct uref *pfx_uref_block(struct pfx *pfx, uint64_t useq, size_t size, int nseg);
uint64_t pfx_uref_seq(struct uref *uref);
uint64_t pfx_payload_hash(struct uref *uref, size_t *size_p);
uint64_t pfx_uref_sig(struct uref *uref);
struct uref *pfx_flow_def_block(struct pfx *pfx, const char *def);

/* false once the event / record logs are half full: a history should stop generating operations then (the tail of a case
 * still needs room; an overflow makes the case an internal error, never a verdict) */
static inline bool pfx_log_room(const struct pfx *pfx) { return pfx->nevents < PFX_MAX_EVENTS / 2 && pfx->nrecs < PFX_MAX_RECS / 2; }

/* event-loop helpers */
int pfx_run_loop(struct pfx *pfx, int max_steps);   /* dispatch runnable pumps (choice 0) until quiescent; returns steps */

/* rendering of the logs */
void pfx_render_since(struct pfx *pfx, struct vp_report *rep, int ev_from, int rec_from);
const char *pfx_event_name(int event);
#endif

PIPEFIX = ["engine/umem_count.c", "engine/pipefix.c", "engine/fake_upump.c", "engine/heapcount.c"]
MODS = lib("upipe-modules", only=["upipe_aggregate.c", "upipe_chunk_stream.c", "upipe_idem.c"])
TS = lib("upipe-ts", only=["upipe_ts_sync.c", "upipe_ts_check.c", "upipe_ts_align.c"])
TARGET = dict(
    rule=("tape-decoded byte stream (TS: whole packets of the configured size, packets with false sync bytes in the payload, garbage with and without sync bytes one packet apart, truncated packets, packets with a wrong sync byte; "
          "other pipes: units of 0..MTU+1 octets), cut into buffers in 1-3 different ways (one buffer, one-byte buffers, small incl. empty, around the unit size, large; 1-3 segments each), "
          "configuration MTU / alignment / packet size 188,192,204,16 / sync count 2-5 (and 1 tried: refused, or judged by the reference when accepted), the output size set to another value and back after the flow definition, release at the end or in mid-stream; pipe chosen by the tape among aggregate, chunk_stream, ts_sync, ts_check, ts_align (sync and check mode); "
          "oracle: reference chunker / reference TS lock rule / aggregate conservation (accepted units in order, unsplit, <= MTU, all emitted at release) / ts_check units are whole sync-led packets taken in order from the input; "
          "metamorphic equality of the output units under all cuttings for the stream parsers; every delivered unit is a whole block (a marker appended to a duplicate reads back right behind its last octet); delivery budget (termination); fixture audit; "
          "non-trivial (parsers) = cuttings differ and a buffer boundary falls inside an output unit, (others) = >= 2 output units; distinct by hash of configuration, stream elements and cuttings"),
    assumptions=["reference implementations of the chunking and TS locking rules in the harness (written from the pipes' documentation and code comments)",
                 "upipe_ts_*.c compiled against the stand-in <bitstream/mpeg/ts.h> (only TS_SIZE / TS_SYNC are used)"],
    execs=[dict(name="rechunk", harness="harness/C14_rechunk.c", repo=LIBUPIPE + MODS + TS, engine=PIPEFIX, hang_is_violation=True)],
    quick=dict(cases=40000, budget=40), thorough=dict(cases=150000, budget=600),
)
META = dict(
    technique="property-based testing (rapidcheck tapes -> C executor over real pipes): reference model + metamorphic relation (same stream, different cuttings)",
    text="Generated streams, cuttings and configurations for aggregate, chunk_stream, ts_sync, ts_check and ts_align; outputs compared with reference implementations of the documented unit rules, with each other across cuttings, and checked for byte conservation and unit sizes; release is bounded by a delivery budget and a CPU-time guard (termination). Sampling.",
    design_ref="DESIGN.md section 6, C14",
    note="trusts the harness' reference chunker and TS lock rule (40 lines each); ts_align is exercised with its default packet size and sync count (it exposes no setters); discontinuity-triggered flushes of ts_sync are not generated.",
)

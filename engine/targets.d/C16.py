_TS = ["upipe_ts_psi_merge.c", "upipe_ts_psi_split.c", "upipe_ts_psi_join.c"]
TARGET = dict(
    rule=("merge: 1..8 generated sections (section_length biased to 0, 1, 9, multiples of 183/184 +-2, 1021, 4093; syntax bit on/off) packed by an independent ISO 13818-1 packer "
          "into payloads of 1..184 octets (pointer fields, several sections per payload, 0xff stuffing, payload ends biased to 1-2 octets into a header or exactly on a section end, optional lead-in), "
          "delivered as single blocks / windows / chains of pieces, optionally with flagged discontinuities, dropped payloads, forbidden headers or unflagged corruption, optionally preceded by a corrupt unit start whose pointer_field points beyond its payload; "
          "non-trivial = a section crossing >= 2 payloads with the cut inside its 3-octet header, or two sections in one payload. "
          "split: <= 24 operations add output (filter subset of mask, 1..12 octets) / remove output / section (leading octets derived from existing filters, possibly shorter than a filter, possibly segmented; in a quarter of the configurations one allocation inside the pipe is refused while it handles a section: an output then gets the whole section once or nothing); "
          "non-trivial = some output matched and some output did not, over >= 2 sections. "
          "join: <= 24 operations add input / remove input / section on input i / change of output (in a quarter of the configurations the second output refuses the flow definition: sections sent meanwhile are dropped, none reaches it, and every section after it was replaced is forwarded); non-trivial = >= 2 inputs delivered interleaved. distinct by hash of the decoded case"),
    assumptions=["stand-in shim/bitstream/mpeg/psi.h (PSI_HEADER_SIZE, PSI_PRIVATE_MAX_SIZE, psi_get_length, psi_validate) written from ISO/IEC 13818-1 2.4.4; the harness reference packer/parser/matcher does not use it",
                 "valid streams follow ISO 13818-1 2.4.4.1-2 (a section starts only in a payload with a pointer_field; stuffing only after a section end up to the payload end, next payload starts with pointer_field 0)",
                 "losses are signalled as ts_decaps does (flow.discontinuity on the next delivered payload); unflagged corruption only requires self-consistent outputs",
                 "filters are subsets of their masks, as every caller in lib/upipe-ts builds them",
                 "ASan + exact-size umem areas + manager refcount audit"],
    execs=[dict(name="merge", harness="harness/C16_psi_merge.c", repo=LIBUPIPE + lib("upipe-ts", only=_TS), engine=MEMFIX, share=1.0, fuzz=dict(quick=(8, 10), thorough=(16, 120))),
           dict(name="split", harness="harness/C16_psi_split.c", repo=LIBUPIPE + lib("upipe-ts", only=_TS), engine=MEMFIX, fault_malloc=True, share=1.0, case_scale=1.0),
           dict(name="join", harness="harness/C16_psi_join.c", repo=LIBUPIPE + lib("upipe-ts", only=_TS), engine=MEMFIX, fault_malloc=True, share=1.0, case_scale=0.7)],
    quick=dict(cases=9000, budget=20), thorough=dict(cases=150000, budget=150),
)
META = dict(
    technique="property-based testing (rapidcheck tapes -> C executors) of the three PSI pipes compiled from the repository against an independent section packer / parser / filter matcher, with a recording sink and probe, under ASan",
    text="Merger: generated sections are laid into TS payloads by a reference packer written from ISO 13818-1 (pointer fields, back-to-back sections, stuffing, cuts inside the 3-octet header, lead-in) and fed as ts_decaps would (unit start / discontinuity attributes; single, windowed or segmented blocks); the recorded output must be the generated sections, in order, once, octet for octet; with flagged discontinuities, dropped payloads or forbidden headers every section lying wholly after the next unit start must come out and nothing that is not a section of the stream; with unflagged corruption only self-consistency of the outputs. Splitter: outputs with filter/mask pairs are added and removed between sections; each section must reach exactly the outputs a reference matcher selects, unmodified. Joiner: inputs added and removed; multiset of outputs == union of inputs, per-input order kept. Sampling.",
    design_ref="DESIGN.md section 6, C16",
    note="Named exclusion unflagged-loss in the merge executor: a loss NOT followed by the discontinuity attribute is constructed only with --no-exclude (tape replays/C16/open/merge-unflagged-loss.tape, candidate repair pending/C16-merge-unit-start-resync.patch). Decided for the repository sources compiled against the stand-in psi.h. Section totals range over 3..4096 (section_length <= 4093, ISO 2.4.4.11); 4094/4095 are generated only as forbidden headers. Behaviour after unflagged loss is not required to resynchronise (the merger trusts the discontinuity attribute by design).",
)

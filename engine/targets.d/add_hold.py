# Executor "hold" (harness/pipes_hold.c): the pipes of lib/upipe-modules that hold input buffers (upipe_helper_input.h or own
# lists) and/or depend on timers, the clock or late answers to requests.  One source, four oracle sets (-DPIPES_PROP=1|4|5|20).
PIPEFIX = ["engine/umem_count.c", "engine/pipefix.c", "engine/fake_upump.c", "engine/heapcount.c"]
HOLDMODS = lib("upipe-modules", only=["upipe_time_limit.c", "upipe_rate_limit.c", "upipe_buffer.c", "upipe_discard_blocking.c", "upipe_burst.c",
                                        "upipe_convert_to_block.c", "upipe_genaux.c", "upipe_trickplay.c", "upipe_even.c", "upipe_audio_copy.c"])
def _ex(n):
    return dict(name="hold", harness="harness/pipes_hold.c", repo=LIBUPIPE + HOLDMODS, engine=PIPEFIX, cflags=["-DPIPES_PROP=%d" % n], share=1.0, case_scale=0.5)
ADD = {"C01": [_ex(1)], "C04": [_ex(4)], "C05": [_ex(5)], "C20": [_ex(20)], "C13": [_ex(13)]}

_GEN = ("[hold] tape-decoded legal history (<=48 ops) over ONE holding pipe (time_limit, rate_limit, buffer, discard_blocking, burst, convert_to_block, genaux, "
        "audio_copy; trickplay and even with up to 3 input sub-pipes) whose outputs are blocking sinks of the harness ('gates': take every buffer, keep it and block "
        "the pump it came from while closed, re-open for 1 / 2 / all buffers; answer requests at once or keep them until a tape operation answers them; accept or reject "
        "flow definitions): input of sequence-numbered block (sound for audio_copy) buffers with non-decreasing dates through two harness-owned SOURCE PUMPS of the fake "
        "loop (fired by hand; a blocked pump cannot fire) or directly, set_flow_def (3 valid variants tagged x.fdv, 1 invalid), sink open/close, one loop callback at a time, "
        "fake-clock advance (to the next timer / +50 / +27000 / +1 s), set_output (sink / other sink / NULL), flush, release, request policy / late answer, source pump "
        "free / re-alloc, sub-pipe alloc / release, end_preroll, option set/get; start configuration from the tape (sink closed / open for one, requests kept, limits preset); "
        "the tail frees the source pumps before or after releasing everything, then the sinks answer and open and the clock runs until no timer is left. Every uref handed "
        "to the pipe is tracked by pointer (the uref manager's free entry is wrapped): at any moment it is exactly one of delivered / held / freed. "
        "Named exclusion flowdef-change-out-of-band (open finding): the definition of a pipe that stores it at once is not changed while the pipe holds buffers. ")
RULE = {
 "C13": _GEN + "oracle C13 (upipe_helper_input.h is an anchor: the blockers a pipe takes on its source pumps): a source pump is not left suspended by blockers of a pipe that holds "
        "nothing any more (drained, flushed, output replaced) or is dead, judged when no timer is pending and the loop ran; a pump without blockers is active again; "
        "non-trivial = a blocked source pump and a partial drain / flush / release while holding / source pump freed while blocked",
 "C01": _GEN + "oracle C01: ASan + pool poisoning second pass (depth 0 and 4), liveness model (dead exactly when the application's handle and the documented self-reference "
        "while holding are gone; super-pipe after its sub-pipes), DEAD exactly once, blockers on the source pumps that are not the sinks' must be gone once the pipe holds "
        "nothing (judged when no timer is pending and the loop ran) or is dead and the pump restarted, after the final drain every pipe is dead and every tracked uref delivered "
        "or freed, pfx_clean audit; non-trivial = blocked source pump / released, flushed or re-plumbed while holding / sub-pipe churn / source pump freed while blocked",
 "C04": _GEN + "oracle C04: READY first, DEAD exactly once and last of any kind; at the moment a buffer enters a sink: the sink's last answer since it was connected is an "
        "acceptance, the accepted definition carries the x.fdv that was current when the buffer was input (in-band pipes: old-flow buffers under the old definition), the "
        "sending pipe is not dead, the sink is still its output; valid definitions accepted, foreign ones refused by the strict types; non-trivial = definition changed while "
        "held / request answered late with buffers held / rejection / output replaced or pipe released while holding",
 "C05": _GEN + "oracle C05: exact accounting by pointer: delivered at most once, to the sink of the input it entered, never while an earlier buffer of that input is still "
        "held, in arrival order, unchanged (signature over payload, dates, flags, attributes; genaux: payload = network-endian date; trickplay: payload; audio_copy: frames of "
        "the configured size made of consecutive input samples, no sample twice or skipped inside a flow); a free before delivery is legitimate only during flush / release, "
        "without output, after the sink's rejection, or where the pipe documents a drop (discard_blocking, even, non-dated buffers in trickplay / genaux); nothing held after "
        "flush or death; non-trivial = >=4 deliveries and buffers held across operations",
 "C20": _GEN + "oracle C20: option pairs time_limit limit, rate_limit limit + duration, buffer max_size / low / high, discard_blocking + even + trickplay inputs max_length, "
        "trickplay rate, genaux getattr (NULL rejected), output, flow definition; model = last accepted value, each getter called twice; metamorphic second pass with every "
        "getter replaced by a neutral handled command: the sinks must see the same definitions and buffers at the same operations; non-trivial = getter after set and data",
}

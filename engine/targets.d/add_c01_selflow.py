# C01 around the flow-selection probe (lib/upipe/uprobe_select_flows.c): a refcounted fake split pipe with fake flow-allocated output
# subpipes (as in tests/uprobe_select_flows_test.c), kept in static tables with tombstone refcounts so that a second release or a use of
# a dead pipe is seen instead of crashing; generated histories of flow list changes, split_update, source_end from the outputs,
# selection changes and releases of the probe and of the split pipe in any order.
ADD = {
    "C01": [dict(name="selflow", harness="harness/C01_selflow.c", repo=LIBUPIPE, engine=MEMFIX + ["engine/heapcount.c"], share=0.5, case_scale=1.0)],
}
RULE = {
    "C01": "executor 'selflow': tape-decoded histories (<=40 operations) over a uprobe_selflow probe (type void / pic / sound / subpic, allocated with alloc or alloc_va and a generated selection) "
           "set on a fake refcounted split pipe that lists <=6 flows (ids 0..5, definitions pic. / sound. / void. / pic.sub. and block. variants, optional language and program name) and allocates "
           "fake flow-allocated output subpipes: add / remove / change a flow of the list, split_update, source_end thrown by an output subpipe the probe allocated, uprobe_selflow_set / set_va "
           "(all, auto, empty string, lists of ids, lang= / name= / unknown attribute items, with or without the final comma), uprobe_selflow_get, release of the application's reference on the "
           "probe and on the split pipe in mid-history or in the tail, in a tape-chosen order (a split pipe without external reference does what the real ones do: source_end on its outputs or "
           "not, then an empty list and a last split_update); uref manager with pool depth 0 or 2; oracle: ASan, every output subpipe the probe allocated destroyed exactly once (dead pipes keep "
           "a tombstone refcount: a release, a reference, a control command or a buffer on a dead pipe is a violation), a subpipe is let go of when it throws source_end, at the end no subpipe, "
           "no split pipe, the application's two recording probes back to one reference, uref / udict / umem managers back to one reference with nothing allocated, no heap allocation of the case "
           "still live, ready / dead / source_end of every subpipe seen once by the application's probe; model of the documented selection for all and list selections, checked after each "
           "split_update and each set: a flow announced by the split pipe, of the probe's type and selected has exactly one live output subpipe (again after a source_end once the flow is "
           "announced again), any other flow none (flows whose definition changed behind the probe's back are left out; auto and empty selections: memory oracles only); non-trivial = at least "
           "one source_end or removal of a flow with a live subpipe, and >= 2 split_updates; distinct by hash of the operation list",
}

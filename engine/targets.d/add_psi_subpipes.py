# ts_psi_split (sub-pipe outputs) and ts_psi_join (sub-pipe inputs) are anchors of C04; their C16 executors are compiled again with only the
# protocol oracles (-DC16_AS=4: READY first, DEAD once and last of any kind, flow definition accepted before data on every output, nothing
# delivered to a sink that refuses the definition) and with only the destruction / leak audit (-DC16_AS=1, C01).
_TS = ["upipe_ts_psi_merge.c", "upipe_ts_psi_split.c", "upipe_ts_psi_join.c"]
def _ex(name, harness, n):
    return dict(name=name, harness=harness, repo=LIBUPIPE + lib("upipe-ts", only=_TS), engine=MEMFIX, cflags=["-DC16_AS=%d" % n], share=1.0, case_scale=0.5, fuzz={})
ADD = {
    "C04": [_ex("split", "harness/C16_psi_split.c", 4), _ex("join", "harness/C16_psi_join.c", 4)],
    "C01": [_ex("split", "harness/C16_psi_split.c", 1), _ex("join", "harness/C16_psi_join.c", 1)],
}
RULE = {
    "C04": "executors 'split' / 'join': the generated histories of C16 over upipe_ts_psi_split (0-4 sub-pipe outputs with filters added and removed between sections, some sinks refusing every flow definition, "
           "parent released before or after its sub-pipes) and upipe_ts_psi_join (1-4 sub-pipe inputs, output replaced in mid-stream) with the announcement and flow-definition oracles only",
    "C01": "executors 'split' / 'join': the same histories with the destruction audit only (every pipe and sub-pipe DEAD exactly once, counting umem empty, managers back to one reference)",
}

TARGET = dict(
    rule=("tape-decoded history (<=50 ops) over <=6 block handles: alloc/alloc_from_opaque/dup/splice/split/append/insert/delete/truncate/resize/prepend/copy/merge/write/free "
          "with boundary-biased offsets and sizes (negative, -1, segment boundary +-1, out of range) under a generated manager configuration; in 15% of the cases (allocation-fault mode) half of the operations run with the 1st..4th allocation inside them refused (malloc of the repository sources "
          "and of its inline headers goes through engine/faultmalloc.c): the operation may report an error, and then every handle must be exactly as before; after each op a tape-chosen "
          "first access (read/extract/peek/size_linear/scan/find/compare/equal/match) then every handle compared with its byte-vector model through size, extract, read loop, iovec and peek; "
          "non-trivial = a multi-segment handle whose accessor crossed a segment boundary, or an error path taken, or an access right after a cache-moving op; distinct by hash of ops+arguments"),
    assumptions=["byte-vector reference model in the harness", "documented argument domains derived from include/upipe/ubuf_block.h comments", "ASan + exact-size umem areas", "allocation faults are injected at malloc/calloc/realloc of the repository code only (engine/faultmalloc.h force-included); the harness and engine allocate normally"],
    execs=[dict(name="blockstr", harness="harness/C03_blockstr.c", repo=LIBUPIPE, engine=MEMFIX, fault_malloc=True, fuzz=dict(quick=(4, 10), thorough=(16, 120)))],
    quick=dict(cases=60000, budget=45), thorough=dict(cases=1500000, budget=600),
)
META = dict(
    technique="model-based property testing (rapidcheck tapes -> stateful C executor) against a byte-vector reference model under ASan",
    text="Generated histories of block operations with boundary-biased arguments over up to 6 handles and generated manager configurations; after every operation a first access chosen by the tape and then every handle compared with its byte-string model through size/extract/read loop/iovec/peek; value accessors scan/find/compare/equal/match checked against reference implementations; errors must leave size and content unchanged, successes outside the documented domain must leave a self-consistent block. Sampling.",
    design_ref="DESIGN.md section 6, C03",
    note="argument domains are taken from the header comments; behaviour outside them is only required to be 'error and unchanged' or 'self-consistent'. uref_block_* wrappers are not exercised separately (thin inline forwards).",
)

PIPEFIX = ["engine/umem_count.c", "engine/pipefix.c", "engine/fake_upump.c", "engine/heapcount.c"]
ZOO = lib("upipe-modules", only=["upipe_idem.c","upipe_null.c","upipe_skip.c","upipe_htons.c","upipe_delay.c","upipe_setattr.c","upipe_setflowdef.c","upipe_probe_uref.c","upipe_match_attr.c","upipe_setrap.c","upipe_dup.c","upipe_aggregate.c","upipe_chunk_stream.c","upipe_genaux.c"])
TARGET = dict(
    rule=("TODO"),
    assumptions=["fixture: recording probe per pipe, recording sinks, harness-owned event loop and clock (engine/pipefix.c, fake_upump.c)"],
    execs=[dict(name="pipes", harness="harness/pipes_core.c", repo=LIBUPIPE + ZOO, engine=PIPEFIX, cflags=["-DPIPES_PROP=1"])],
    quick=dict(cases=4000, budget=45), thorough=dict(cases=100000, budget=600),
)
META = dict(technique="TODO", text="TODO", design_ref="DESIGN.md section 6, C01", note="TODO")

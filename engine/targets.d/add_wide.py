# "wide" executor: the generic oracles of C01 / C04 / C05 over the pipe types of lib/upipe-modules that pipes_core.c does not cover
# (harness/pipes_wide.c, table-driven; the RTP family is compiled against the stand-in headers shim/bitstream/ietf/*.h, the ID3v2 pipes against shim/bitstream/id3/*.h, vanc_decoder and s337_encaps against shim/bitstream/smpte/*.h and atsc/a52.h).
PIPEFIX = ["engine/umem_count.c", "engine/pipefix.c", "engine/fake_upump.c", "engine/heapcount.c"]
WIDE = lib("upipe-modules", only=["upipe_noclock.c", "upipe_nodemux.c", "upipe_multicat_probe.c", "upipe_dejitter.c", "upipe_dump.c", "upipe_rtp_h264.c",
    "upipe_rtp_mpeg4.c", "upipe_burst.c", "upipe_play.c", "upipe_block_to_sound.c", "upipe_ntsc_prepend.c", "upipe_crop.c", "upipe_separate_fields.c",
    "upipe_row_split.c", "upipe_row_join.c", "upipe_video_blank.c", "upipe_audio_blank.c", "upipe_videocont.c", "upipe_audiocont.c",
    "upipe_subpic_schedule.c", "upipe_blit.c", "upipe_sync.c", "upipe_audio_split.c", "upipe_audio_merge.c", "upipe_void_source.c",
    "upipe_blank_source.c", "upipe_sine_wave_source.c", "upipe_grid.c",
    "upipe_rtp_prepend.c", "upipe_rtcp.c", "upipe_rtp_decaps.c", "upipe_rtp_reorder.c", "upipe_id3v2_decaps.c", "upipe_id3v2_encaps.c",
    "upipe_id3v2.c", "upipe_probe_uref.c", "upipe_idem.c", "upipe_rtp_pcm_pack.c", "upipe_rtp_pcm_unpack.c", "upipe_stream_switcher.c", "upipe_auto_inner.c",
    "upipe_rtp_demux.c", "upipe_vanc_decoder.c", "upipe_dtsdi.c", "upipe_s337_encaps.c", "upipe_graph.c",
    "upipe_auto_source.c", "upipe_sequential_source.c", "upipe_segment_source.c"])
TYPES = ("noclock, nodemux, multicat_probe, dejitter(+subs), dump, rtp_h264, rtp_mpeg4, burst, play(+subs), block_to_sound, ntsc_prepend, crop, "
         "separate_fields, row_split, row_join, video_blank, audio_blank, videocont(+subs), audiocont(+subs), subpic_schedule(+subs), blit(+subs), "
         "sync(+subs), audio_split(+subs), audio_merge(+subs), void_source, blank_source, sine_wave_source, rtp_prepend, rtcp, rtp_decaps, rtp_reorder(+subs), id3v2_decaps, id3v2_encaps(+subs); second bank (a quarter of the cases): grid(+input and output subs), "
         "rtp_pcm_pack, rtp_pcm_unpack, stream_switcher(+subs), auto_inner, rtp_demux(+subs), id3v2, vanc_decoder, dtsdi, s337_encaps, graph(+subs), and over a stand-in source pipe of the harness "
         "auto_source, sequential_source(+peers on the same manager), segment_source")
GEN = ("wide: tape-decoded legal history (<=40 ops) over [head ->] PIPE (+ up to 3 sub-pipes) [-> tail], PIPE drawn from a table of 47 further types (" + TYPES + "), "
       "head/tail drawn from the four pass-through types; every output ends in a tap (checks at the moment a definition or buffer passes) in front of a recording sink; "
       "ops: input of sequence-numbered block / picture / sound / void buffers of the type's kind (sizes, segments, dates present or absent, attributes, RTP / Annex-B / row-chunk structure where the type needs it), "
       "set_flow_def (three valid variants of the type's kind, one of another kind), set_output (tap A / tap B / NULL / next pipe), sub-pipe alloc (valid and invalid arguments) and release, "
       "allocation of the pipe itself with valid and invalid arguments, release of any handle, sink policy (accept / reject next k / reject all), event-loop steps, timer advance and sleeps on the fake clock, "
       "flush, the type's own control commands with valid and invalid arguments; pool depth 0/1/4, prepend, align generated; the tail releases everything")
def _ex(prop, scale):
    return dict(name="wide", harness="harness/pipes_wide.c", repo=LIBUPIPE + WIDE, engine=PIPEFIX, cflags=["-DPIPES_PROP=%d" % prop], share=1.0, case_scale=scale)
ADD = {"C01": [_ex(1, 1.0)], "C04": [_ex(4, 1.0)], "C05": [_ex(5, 1.0)]}
RULE = {
    "C01": GEN + "; every history is executed twice (pool depth 0; pools with ASan-poisoned recycled structures); oracle: ASan, liveness model (a pipe is alive while the application, "
           "the pipe before it or one of its sub-pipes holds it, and dead as soon as nobody does), every READY pipe (inner pipes of bins included) DEAD exactly once, a tracking uref manager "
           "(no free of a uref that is not allocated), end-of-case audit (managers incl. picture/sound managers back to one reference, counting umem empty, no heap allocation of the case left, "
           "probes and taps released, no pump left); non-trivial = data flowed and (output replaced after data, release in mid-history or sub-pipe churn)",
    "C04": GEN + "; oracle: per pipe incarnation the first non-log event is READY, DEAD exactly once and last (sub-pipes and inner pipes included); in the tap, at the moment of delivery: "
           "no buffer or definition from a pipe that has thrown DEAD, every buffer preceded since the tap was connected by a definition the sink accepted, none while the last answer was a rejection, "
           "and the accepted definition equal (udict_cmp) to the pipe's current upipe_get_flow_def; a whole picture leaving crop, separate_fields, videocont, subpic_schedule, blit, sync, graph or ntsc_prepend has the size the accepted definition announces (a picture of another size belongs to a flow whose definition never arrived); "
           "the inputs of the date-matching pipes (videocont, audiocont) are dated like the coming buffers of the reference flow, and in half of their cases the first input is defined and selected up front; the fake clock starts one hour after its epoch; "
           "named exclusion flowdef-change-out-of-band (open finding): the picture size of a sync or blit pipe is not changed while it holds pictures; set_output must succeed; non-trivial = data delivered and (output or definition changed after data, or a rejection)",
    "C05": GEN + "; oracle: every uref of the case comes from a tracking manager, so after every operation each sequence-numbered buffer is observed as delivered (sink record), still allocated "
           "(held by a pipe) or freed; no buffer reaches the same output twice and none is both delivered and still held unless a pipe of the case is documented to duplicate / import attributes; "
           "pipes documented one-to-one and synchronous (noclock, nodemux, multicat_probe, dejitter, dump, rtp_mpeg4, rtp_prepend, ntsc_prepend, block_to_sound, play/dejitter sub-pipes) must have delivered "
           "the very buffer when the input call returns if their output accepted the definition; order-preserving pipes deliver in input order per feeding pipe; after a successful flush nothing given to that pipe "
           "is still allocated; after the final release no sequence-numbered buffer is allocated; classes = per type 'delivered data to a sink'; non-trivial = >=4 deliveries through the pipe under test",
}

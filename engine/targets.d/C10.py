TARGET = dict(
    rule=("tape-decoded history (<=64 ops) over <=4 dictionaries of one udict_inline manager whose pool depth, min_size, extra_size and initial "
          "sizes come from the tape: typed set for all 10 base types, named (19 names: prefixes of one another, names equal to shorthand names, "
          "60- and 300-character names) or shorthand (all 38 table entries), value sizes 0..documented maximum biased to {0,1,2, current size +-1, "
          "exact fit of the storage +-1, TLV size 254..256, 4 K, 64 K}, delete (present first/last/middle, absent), set from a pointer into the "
          "dictionary's own storage, dup, copy, import, cmp, alloc, free; executor 'urefattr' does the same through the accessor functions generated "
          "by uref_attr.h (real uref_flow/pic/pic_flow/clock/event/block_flow headers plus harness-declared ones), uref_dup, uref_attr_import and "
          "per-attribute copy/cmp; after every op every watched key is looked up in every live dictionary and every dictionary is iterated; "
          "non-trivial = replaced a variable-size value by another size, or deleted an attribute that was not the last one, or the storage grew, "
          "or a value was set from a pointer into the same dictionary; distinct by hash of the decoded ops and arguments"),
    assumptions=["reference map (type code, name) -> value octets kept by the harness in its own value representation",
                 "argument domains from include/upipe/udict.h and the asserts of lib/upipe/udict_inline.c (name + value <= 65535 octets, int != INT64_MIN, quiet NaNs only)",
                 "counting umem: exact-size areas, every reallocation moves, under ASan",
                 "executor udict, allocation-fault mode (15% of the cases; engine/faultmalloc.h): half of the operations run with their 1st..4th allocation refused; a set / dup / copy / alloc may then fail and leaves everything as it was, an import that fails leaves each attribute as it was or as the source has it, and whatever reports success has taken effect completely; otherwise every in-domain set/dup/copy/import must succeed"],
    execs=[dict(name="udict", harness="harness/C10_udict.c", repo=LIBUPIPE, engine=MEMFIX, fault_malloc=True, share=1.0),
           dict(name="urefattr", harness="harness/C10_urefattr.c", repo=LIBUPIPE, engine=MEMFIX, fault_malloc=True, share=1.0)],
    quick=dict(cases=12000, budget=22), thorough=dict(cases=400000, budget=240),
)
META = dict(
    technique="model-based property testing (rapidcheck tapes -> stateful C executors) against an ordered-map reference model under ASan with exact-size, always-moving storage",
    text="Generated histories of typed set/delete/dup/copy/import/cmp/iterate over up to 4 inline dictionaries (and over urefs through the generated attribute accessors) with generated manager parameters; names that are prefixes of one another or equal shorthand names, all 38 shorthands, value sizes up to the documented 64 KiB limit biased to slot-reuse, exact-fit and size-field boundaries, and values whose source pointer lies in the dictionary itself. Oracle: reference map keyed by (type, name) holding values in the harness' own representation; after every operation every watched key is looked up in every dictionary (typed, bit-exact incl. sign and IEEE bits), every dictionary is iterated (each present attribute exactly once), udict_cmp == 0 iff models equal (both argument orders), import = right-biased union, copy == dup, per-attribute cmp == 0 iff both absent or identical; the uref_attr layer also through match (bounds of every width), list, from_hex, _va, priv and fork accessors. Executor udict in allocation-fault mode: a refused allocation inside an operation may make it fail, and then a set leaves the value last stored, an import leaves each attribute old or new, and whatever reports success has taken effect completely. Sampling.",
    design_ref="DESIGN.md section 6, C10",
    note="allocation failures in the uref accessor layer, other udict managers than udict_inline, type codes outside enum udict_type (udict_inline_shorthand accepts the first code past its table: out-of-bounds read of the table, noted, not checked) and self-import are outside; signalling NaNs and INT64_MIN are outside the documented/portable domain and not generated",
)

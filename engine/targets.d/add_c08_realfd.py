# C08 on real descriptors and a real libev loop (sequential): the level-triggered semantics the scheduler executor assumes for its
# virtual descriptors, the pipe(2) fallback of ueventfd.h, and the wake-up implications of a uqueue (not empty => event_pop readable,
# not full => event_push readable) observed through poll(2) and through watchers made by ueventfd_upump_alloc / uqueue_upump_alloc_*.
ADD = {
    "C08": [dict(name="realfd", harness="harness/C08_realfd.c", repo=LIBUPIPE + ["lib/upump-ev/upump_ev.c"], engine=[], libs=["-lev"], share=1.0, case_scale=0.1)],
}
RULE = {
    "C08": "executor 'realfd': sequential history (<= 48 operations) of write / read on a real ueventfd (eventfd(2) mode and the pipe(2) fallback mode; bursts of 300 writes) or of "
           "push / pop on a real uqueue of length 1-4, each followed by poll(2) and one iteration of a harness-owned libev loop carrying the watchers; non-trivial = several writes "
           "before a read (or a queue filled to capacity) and a read on a non-readable descriptor (or a queue emptied by pops)",
}

# C01 at buffer level: the block-string histories of C03 (append / insert / delete / truncate / resize / prepend / splice / split / merge / copy /
# dup over <= 6 handles, all manager configurations and pool depths) and the udict histories of C10 are run for C01 with only the memory oracles
# reported: ASan (use after free, double free) and the end-of-case audit (counting umem empty, every manager back to one reference).
ADD = {
    "C01": [dict(name="blocks", harness="harness/C03_blockstr.c", repo=LIBUPIPE, engine=MEMFIX, cflags=["-DBLOCKSTR_AS_C01"], fault_malloc=True, share=1.0, case_scale=4.0)],
}
RULE = {
    "C01": "executor 'blocks': the generated block histories of C03 (<= 50 operations over <= 6 block handles incl. dup / splice / split / merge chains, pool depths 0/1/4) with the memory oracles only (ASan, leak audit, manager reference counts); non-trivial as in C03",
}

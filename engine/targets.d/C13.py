TARGET = dict(
    rule=("tape-decoded history (<=64 calls, <=3 pump lifetimes) of start/stop/restart/set_status/get_status/blocker_alloc/blocker_free/dispatch-or-loop-iteration/free/owner-release "
          "over one pump with <=3 blockers (any release order), pump type, pool depths and owner refcount from the tape; a triggered callback runs 0-3 tape-chosen re-entrant actions "
          "on its own pump (stop/start/restart/set_status/blocker alloc/free/free the pump/release the owner); "
          "[mock] manager built on upump_common as upump_ev is, back-end state compared with the reference automaton after every call; "
          "[ev] real upump_ev on a harness-owned libev loop, readiness controlled by the harness (always-ready eventfd, idler, 0-tick and far timers, self-raised SIGUSR1), "
          "each ev_run(EVRUN_NOWAIT) must invoke the callback iff the automaton says active; "
          "non-trivial = a start or stop that changes 'started' issued while blocked, and the last blocker released later in the same lifetime; distinct by hash of the executed calls"),
    assumptions=["reference automaton (live, started, status, #blockers) in harness/C13_model.h",
                 "blocker callbacks release their blocker, as upipe_helper_input.h and every caller in the tree do",
                 "upump_restart is exercised on stopped pumps only for timers (documented domain); the mock's real_restart re-arms any pump type",
                 "ev: one pump at a time on a fresh loop; the 0-tick timer is made deterministic by spinning until CLOCK_MONOTONIC has advanced before the iteration"],
    execs=[dict(name="mock", harness="harness/C13_pump_mock.c", repo=LIBUPIPE, fault_malloc=True, share=1.0),
           dict(name="ev", harness="harness/C13_pump_ev.c", repo=LIBUPIPE + ["lib/upump-ev/upump_ev.c"], libs=["-lev"], share=1.0)],
    quick=dict(cases=60000, budget=22), thorough=dict(cases=600000, budget=240),
)
META = dict(
    technique="model-based property testing (rapidcheck tapes -> stateful C executors) against a 4-variable reference automaton: a recording mock back-end on upump_common, and the real upump_ev manager on a harness-owned libev loop, under ASan",
    text="Generated histories of pump calls with up to 3 blockers, re-entrant callback actions and up to 3 pump lifetimes per case (pool recycling). Mock: after every call back-end active <=> started && no blocker, strict alternation and exact counts of real_start/real_stop/real_restart, status carried by the active back-end, blocker callbacks exactly once at free and never otherwise, owner refcount held during dispatch. Real upump_ev: every non-blocking loop iteration invokes the callback iff the automaton says active, never after stop/free, and ev_run's return value (loop keeps running) equals active && blocking status; an interloper ev_check watcher starts / stops / frees pumps inside the loop iteration. Sampling.",
    design_ref="DESIGN.md section 6, C13",
    note="blocker callbacks that do not release their blocker, restart of a stopped non-timer pump, several pumps on one loop and allocation failures other than that of a blocker (mock executor: a refused blocker allocation leaves the pump as it was) are outside the generated domain; timers are exercised with 0-tick (fires at the next iteration) and far (never fires) timeouts only",
)

# C02 for the release configuration of the library: the picture and sound executors once more with -DNDEBUG (asserts and the
# debug-only accounting of the buffer managers compiled out), since what a manager refuses must not depend on debug code.
ADD = {
    "C02": [dict(name="cow_pic_ndebug", harness="harness/C02_cow_pic.c", repo=LIBUPIPE, engine=MEMFIX, fault_malloc=True, cflags=["-DNDEBUG", "-DC02_EXEC_NAME=\"cow_pic_ndebug\""], share=1.0, case_scale=0.2),
            dict(name="cow_sound_ndebug", harness="harness/C02_cow_sound.c", repo=LIBUPIPE, engine=MEMFIX, fault_malloc=True, cflags=["-DNDEBUG", "-DC02_EXEC_NAME=\"cow_sound_ndebug\""], share=1.0, case_scale=0.2)],
}
RULE = {
    "C02": "executors 'cow_pic_ndebug' / 'cow_sound_ndebug': the histories and oracles of cow_pic / cow_sound over the library compiled with -DNDEBUG (release configuration: "
           "asserts and debug-only bookkeeping of the managers compiled out) -- who may write, and what every handle shows, must not depend on debug code",
}

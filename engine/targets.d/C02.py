TARGET = dict(
    rule=("tape-decoded history (<=40 ops) over a family of <=8 handles sharing memory areas of one block manager "
          "(cow_block), or of one picture / sound manager whose planes are re-exported as blocks (cow_pic, cow_sound); "
          "after every operation every live handle is read back completely and compared with its own model copy, and every "
          "write-mapping request is judged against the model's owner sets (must refuse / must grant / either); "
          "non-trivial = the history contains a write refused because another live handle shows the same area, "
          "a write granted after all other referencing handles were freed, and (cow_block) a multi-segment handle sharing an area with "
          "another live handle / (cow_pic, cow_sound) a plane re-exported as a block that shared the area with a plane handle; "
          "distinct by hash of configuration, ops and arguments"),
    assumptions=["allocation-fault mode (15% of the cases): half of the operations run with their 1st..4th allocation refused (engine/faultmalloc.h force-included into the repository sources and inline headers); an operation may then fail, and every handle of the family -- content, size, who may write, owners at the end -- must be as the model says", "per-handle content copies and per-area owner sets kept by the harness (harness/C02_model.h)",
                 "one reference per segment ubuf / picture / sound ubuf on its umem area (ubuf_mem_shared), as anchored",
                 "only ubuf_free releases references for sure; truncate/resize/delete/split are 'possibly releasing'",
                 "argument domains as documented in include/upipe/ubuf_block.h (C03 checks the out-of-range behaviour)",
                 "ASan + exact-size counting umem areas"],
    execs=[dict(name="cow_block", harness="harness/C02_cow_block.c", repo=LIBUPIPE, engine=MEMFIX, fault_malloc=True, share=1.0),
           dict(name="cow_pic", harness="harness/C02_cow_pic.c", repo=LIBUPIPE, engine=MEMFIX, fault_malloc=True, share=1.0, case_scale=0.4),
           dict(name="cow_sound", harness="harness/C02_cow_sound.c", repo=LIBUPIPE, engine=MEMFIX, fault_malloc=True, share=1.0, case_scale=0.4)],
    quick=dict(cases=60000, budget=18), thorough=dict(cases=800000, budget=150),
)
META = dict(
    technique="model-based property testing (rapidcheck tapes -> stateful C executors) with per-handle content copies and per-area owner sets, under ASan",
    text="Generated sharing histories over block / picture / sound handles (dup, splice, split, insert, append, delete, truncate, resize, prepend, copy, plane re-export, crop/extend, write mapping, free). After every operation all live handles are compared with their model copies (isolation); every write-mapping request must be refused while another live handle shows octets of the same memory area, must be granted when the handle is the only possible owner with one reference, and is unconstrained otherwise; granted mappings are exercised by changing every octet of the window. Sampling.",
    design_ref="DESIGN.md section 6, C02",
    note="'may hold' sets over-approximate references (sound for the must-grant rule); the must-refuse rule is exact (derived from visible contents). Allocation failures are not generated. Three executors run one after the other on all workers (cow_block, cow_pic, cow_sound). replays/C02/cow_pic-reexport-overrun.tape reproduces a genuine out-of-bounds window of blocks re-exported from picture planes (pending/C02-pic-reexport-overrun.patch).",
)

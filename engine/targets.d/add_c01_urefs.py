# C01 at uref level: the C10 uref-accessor histories (uref alloc / dup / fork / sibling alloc / attach and detach of block ubufs / free,
# attribute operations over pooled and unpooled managers) with the memory oracles only, and allocation faults (engine/faultmalloc.h).
ADD = {
    "C01": [dict(name="urefs", harness="harness/C10_urefattr.c", repo=LIBUPIPE, engine=MEMFIX, cflags=["-DUREFATTR_AS_C01"], fault_malloc=True, share=1.0, case_scale=2.0)],
}
RULE = {
    "C01": "executor 'urefs': the histories of the C10 executor urefattr (<=64 operations over <=4 urefs of a uref_std manager with pool depth 0/1/4: alloc, dup, fork, sibling alloc, "
           "attach / detach of block buffers, attribute set / delete / import / copy, free) with the memory oracles only: ASan, and at the end the uref, udict, ubuf and umem managers back to "
           "one reference with nothing allocated; in 60% of the cases one operation in four runs with its 1st..4th allocation refused -- it may fail, but must give back exactly once what it had built",
}

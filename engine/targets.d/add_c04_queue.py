# The queue sink / source pair carries flow definitions in band: C04 ("a downstream pipe receives and accepts the current flow definition
# before the first buffer of that flow, again after every change") is judged on the far side of the queue with the C06 histories.
PIPEFIX = ["engine/umem_count.c", "engine/pipefix.c", "engine/fake_upump.c", "engine/heapcount.c"]
QMODS = lib("upipe-modules", only=["upipe_queue_sink.c", "upipe_queue_source.c", "upipe_queue.c", "upipe_transfer.c", "upipe_worker.c"]) + lib("upipe-pthread", only=["upipe_pthread_transfer.c", "uprobe_pthread_upump_mgr.c"])
ADD = {
    "C04": [dict(name="queue", harness="harness/C06_queue.c", repo=LIBUPIPE + QMODS, engine=PIPEFIX, cflags=["-DQUEUE_PROP=4"], share=1.0, case_scale=0.3, libs=["-lpthread"])],
}
RULE = {
    "C04": "executor 'queue': the histories of C06 (queue sinks whose queue fills up, definition changes in mid-stream, flush while stalled, partial drains) with the flow-definition oracles only: "
           "no buffer before a definition at the far end, every buffer under the version of the definition it was sent under, versions in order",
}

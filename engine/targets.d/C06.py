PIPEFIX = ["engine/umem_count.c", "engine/pipefix.c", "engine/fake_upump.c", "engine/heapcount.c"]
QMODS = lib("upipe-modules", only=["upipe_queue_sink.c", "upipe_queue_source.c", "upipe_queue.c", "upipe_transfer.c", "upipe_worker.c"]) + lib("upipe-pthread", only=["upipe_pthread_transfer.c", "uprobe_pthread_upump_mgr.c"])
TARGET = dict(
    rule=("tape-decoded history over one of five topologies -- 1 or 2 queue sinks -> queue source -> far sink; worker linear / worker sink / worker source "
          "(xfer manager with or without mutex, remote loop attached before or after the allocation, upump-manager probe frozen during the allocation, 1-2 mock "
          "remote pipes that record every entry, ask for a upump manager when entered during the allocation and throw transferable events; in a third of the worker "
          "cases thread B is a REAL thread created by upipe_pthread_xfer_mgr_alloc and both threads are served by the real uprobe_pthread_upump_mgr, run in strict "
          "alternation under the harness' control) -- with queue lengths 1-4 (biased), 5-255, 300; in 15% of the worker cases the command queue of the xfer manager and the event queues of the xfer pipes hold 1-2 messages and OVERFLOW (what is lost then is stated nowhere: those cases are judged by the thread rules and the sanitizer only -- no entry of a remote pipe, no event or log of an application-side pipe, and no event registered with the transfer probe, in the wrong thread); the two logical threads are two "
          "harness-owned event loops in one OS thread, and the history interleaves application calls (input directly or from a source pump, set_flow_def, flush, "
          "set_output(pseudo)/NULL, attach_upump_mgr (also answered with ANOTHER event loop: queue source moved for good, queue sink moved and moved back -- no watcher of the pipe may stay in the loop it left), set_max_length, forwarded control under freeze, release of any handle) with SINGLE pump callbacks of either "
          "loop; in addition an operation can be preempted at its n-th shared-memory access (UPIPE_VERIF hook: atomics, ring elements, event descriptors) by whole "
          "callbacks of the other loop; the tail releases everything and runs both loops dry. "
          "non-trivial = more buffers in flight than the queue holds AND one of: flush during a stall, flow definition change in mid-stream, release with undelivered "
          "buffers; distinct by hash of the decoded history"),
    assumptions=["two event loops stepped by the harness stand for the two threads: schedules at pump-callback granularity plus preemption at the hooked shared accesses; "
                 "finer interleavings inside callbacks and weak-memory effects are not generated",
                 "fake event loop and virtual event descriptors (engine/fake_upump.c), fake mutex recording freeze/thaw, recording probes with a side rule per pipe",
                 "named exclusion last-message-handover: no preemption while upipe_xfer_mgr_detach / upipe_qsrc_no_ref / upipe_xfer_probe_free is on the stack "
                 "(open finding, function names through the ASan symbolizer; if no symbolizer is available preemption inside calls is disabled altogether)",
                 "real-thread mode: the OS thread made by lib/upipe-pthread executes only what the harness hands it (lock-step turn variable), so the case stays a pure function of the tape; "
                 "free-running threads and TSan are not used"],
    execs=[dict(name="queue", harness="harness/C06_queue.c", repo=LIBUPIPE + QMODS, engine=PIPEFIX, share=1.0, libs=["-lpthread"])],
    quick=dict(cases=20000, budget=35, floor=2000), thorough=dict(cases=400000, budget=420, floor=20000),
)
META = dict(
    technique="stateful property-based testing with an owned schedule (rapidcheck tapes -> C executor; two harness-stepped event loops as the two threads, preemption at hooked shared accesses) against a sequence model of what was sent, under ASan",
    text="Generated histories over queue sink/source and worker (linear, sink, source) pipelines; the schedule of the two threads is part of the generated case. Oracle: model of every buffer sent (per producer: "
         "exactly once, in order, payload intact, under the flow definition in force when it was sent, nothing after a flush but what was sent after it), SOURCE_END only after the last buffer of a released producer and "
         "once per producer, a state where no pump of either loop can fire while buffers are undelivered is a stall (full queue must hold and later deliver), remote pipes are entered only while loop B runs or under "
         "freeze, events of application-side pipes and forwarded events arrive in thread A with their arguments, ASan for accesses to freed queues/pipes. Sampling; deterministic (no OS thread, no clock).",
    design_ref="DESIGN.md section 6, C06",
    note="schedules at callback granularity plus preemption points at the UPIPE_VERIF hooks; lib/upipe-pthread runs on a real second thread but in lock-step (no free-running threads, no TSan). Open finding last-message-handover is excluded by construction and replayed with the exclusion off (KNOWN-FINDING lines). The same executor compiled with -DQUEUE_PROP=1 serves C01 (end-of-case audit).",
)

PIPEFIX = ["engine/umem_count.c", "engine/pipefix.c", "engine/fake_upump.c", "engine/heapcount.c"]
QMODS = lib("upipe-modules", only=["upipe_queue_sink.c", "upipe_queue_source.c", "upipe_queue.c", "upipe_transfer.c", "upipe_worker.c"])
TARGET = dict(
    rule=("TODO"),
    assumptions=[],
    execs=[dict(name="queue", harness="harness/C06_queue.c", repo=LIBUPIPE + QMODS, engine=PIPEFIX, share=0.5)],
    quick=dict(cases=20000, budget=35), thorough=dict(cases=400000, budget=420),
)
META = dict(technique="TODO", text="TODO", design_ref="DESIGN.md section 6, C06", note="TODO")

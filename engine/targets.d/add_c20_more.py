# C20 for the option pairs of pipes outside the pipe zoo of pipes_core.c: queue sink / source, ts_sync, ts_check, genaux.
PIPEFIX = ["engine/umem_count.c", "engine/pipefix.c", "engine/fake_upump.c", "engine/heapcount.c"]
ADD = {
    "C20": [dict(name="more", harness="harness/C20_more.c",
                 repo=LIBUPIPE + lib("upipe-modules", only=["upipe_queue_sink.c", "upipe_queue_source.c", "upipe_queue.c", "upipe_genaux.c"])
                      + lib("upipe-ts", only=["upipe_ts_sync.c", "upipe_ts_check.c"]),
                 engine=PIPEFIX, share=1.0)],
}
RULE = {
    "C20": "executor 'more': history (<= 40 operations) of set(value: accepted and rejected ones) / get / data / loop step over a queue sink + queue source pair (max_length, pseudo-output, "
           "source output, source max_length and flow definition), ts_sync (output size, sync count), ts_check (output size) or genaux (attribute getter); model = last accepted value "
           "(documented default before); the history is run twice, with and without the getter calls, and everything the recording sinks saw must be identical; non-trivial = an accepted set, "
           "then a get, then data that was delivered",
}

TARGET = dict(
    rule=("pic: tape-decoded case = one picture format (every entry of uref_pic_flow_formats[], the 13 fourccs of ubuf_pic_mem_mgr_alloc_fourcc, or a generated plane set: "
          "macropixel 1/2/3/6, 1-4 planes, hsub/vsub 1/2/4, macropixel_size 1-16) x two managers (ubuf_pic_mem_mgr_alloc / ubuf_mem_mgr_alloc_from_flow_def / alloc_fourcc; "
          "hm/v prepend/append 0-16 incl. odd, align 0/1/16/32/64, align offset -8..8, pool 0/2) x <=40 operations over <=4 handles: alloc (sizes multiple and not multiple of the "
          "granularity), plane_read/plane_write windows (boundary-biased offsets incl. negative, below -size, beyond the end, misaligned; sizes incl. -1), ubuf_pic_resize (crop, extend into "
          "margins, beyond margins, misaligned), dup, ubuf_pic_copy/replace to either manager, ubuf_split_fields (row j of field f is line 2j+f of the picture, at its address), ubuf_block_mem_alloc_from_pic (the block spans exactly first to last visible pixel of the plane), fill, free; after every operation every handle/plane: full window mapped, every row inside the "
          "exact umem area, ownership stamps (no two positions share an octet), content equal to the model of still-visible pixels. "
          "ubuf_pic_plane_clear / ubuf_pic_plane_set_color (one-octet and macropixel-sized patterns) on in-domain windows of single-owner pictures: every octet outside the window keeps its value, nothing outside the allocation is written; non-trivial(pic) = format with subsampling or macropixel > 1, non-zero margins, and >= 2 accepted resizes on one handle incl. an extension. "
          "sound: sample size 1-8 x 1-8 planes x align 0/1/16/32/64 x two managers (ubuf_sound_mem_mgr_alloc / from flow def) x <=40 operations: alloc, plane_read/write windows, "
          "ubuf_sound_resize, dup, ubuf_sound_copy/replace (to a manager with another sample size: refused), ubuf_sound_interleave, fill, free, same per-step oracle. "
          "non-trivial(sound) = (sample size > 1 or >= 2 planes) and >= 2 accepted resizes/copies with a non-zero offset on the way to a verified window; "
          "distinct by hash of format, manager configurations, operations and arguments"),
    assumptions=["content model in the harness: 2-D octet array per plane for the visible window; pixels that leave the window are forgotten, pixels that enter it are learnt at first read",
                 "documented argument domains taken from include/upipe/ubuf_pic.h and ubuf_sound.h (negative offset = from the end, -1 = up to the end)",
                 "counting umem gives the exact span of the allocation (exact-size mallocs under ASan)",
                 "real margins of alloc_fourcc managers with 2-pixel macropixels and of default (-1) margins are not pinned by the documentation: no refusal demanded for extensions there"],
    execs=[dict(name="pic", harness="harness/C19_pic.c", repo=LIBUPIPE, engine=MEMFIX, share=0.75),
           dict(name="sound", harness="harness/C19_sound.c", repo=LIBUPIPE, engine=MEMFIX, share=0.25)],
    quick=dict(cases=60000, budget=40), thorough=dict(cases=900000, budget=270),
)
META = dict(
    technique="model-based property testing (rapidcheck tapes -> stateful C executors) with exact allocation spans from a counting umem, ownership stamps and position-coded content under ASan",
    text="Generated picture/sound formats, manager configurations (margins, alignment) and histories of alloc / window mapping / resize (crop and extension into margins) / dup / copy / replace / interleave "
         "with boundary-biased arguments; after every operation every plane of every handle is mapped in full, every row must lie inside the exact memory area of the buffer, no two "
         "(plane,row,column) positions may share an octet, and every pixel or sample that stayed visible must have kept its value; windows whose normalised offset or extent leaves the buffer, "
         "resizes beyond the allocated margins and requests that are not multiples of the granularity must be refused; documented in-range requests must be accepted. Sampling.",
    design_ref="DESIGN.md section 6, C19",
    note="ubuf_pic_plane_clear/set_color and ubuf_split_fields are outside the property as written; only the public inline API of ubuf_pic.h/ubuf_sound.h is driven (the internal control commands are "
         "reached through it); alignment of the returned addresses is not judged.",
)

_TEMPLATES = ["pop-reset", "push-reset", "two-producers", "two-consumers", "len2", "deal2", "deal2x2", "deal3", "deal-abort", "deal-abort2"]
TARGET = dict(
    rule=("tape-decoded scenario and schedule. queue: p producers x c consumers (p, c <= 2) move N <= 4 items through a uqueue of length 1-3, written as the real "
          "clients are (consumer = upipe_queue_source: wait until event_pop readable, one uqueue_pop, repeat; producer = upipe_queue_sink: uqueue_push, on refusal wait "
          "until event_push readable and retry), quotas match N; dealer: 2-3 contenders following tests/udeal_test.c / lib/upipe-av (udeal_start, call-back, udeal_grab, "
          "critical section, udeal_yield or udeal_abort) over a fake upump; descriptors are virtual counters (write +1, read zeroes, readable iff > 0), a waiting thread is "
          "enabled only while its descriptor is readable; scheduling points at every uatomic operation, ring-element access, descriptor read/write, critical-section step "
          "and return to the event loop; oracle: no deadlock (= lost wake-up), no step-bound overrun, occupancy lower bound <= length at every step, every item delivered "
          "exactly once, push/pop history linearizable as a FIFO bounded by the length, never two holders, every non-aborting contender gets in; non-trivial = a thread really "
          "slept on a non-readable descriptor and was woken; distinct by hash of program + schedule; plus enumeration of all schedules with <= K preemptions (K=2 quick, 3 thorough) of 10 templates"),
    assumptions=["sequentially consistent interleavings at the granularity of the UPIPE_VERIF hooks",
                 "virtual event descriptors with the non-semaphore eventfd semantics polled level-triggered (the pipe() fallback of ueventfd.h is not modelled)",
                 "client protocols modelled on upipe_queue_source.c / upipe_queue_sink.c and tests/udeal_test.c / lib/upipe-av; a thread observing 'readable' and then running its call-back is one scheduling step followed by the call-back's own steps",
                 "finite programs with matched totals: liveness is decided as absence of deadlock / step-bound overrun (5000 steps) only",
                 "executor built without ASan (semantic oracle, static structures); exhaustive only for the listed templates and preemption bound"],
    execs=[dict(name="wakeup", harness="harness/C08_wakeup.c", repo=[], engine=["engine/sched.c", "engine/lin.c"], san="none",
                extra=dict(quick=[["enum", "--template", t, "--bound", "2"] for t in _TEMPLATES],
                           thorough=[["enum", "--template", t, "--bound", "3"] for t in _TEMPLATES]))],
    quick=dict(cases=400000, budget=35), thorough=dict(cases=2500000, budget=420),
)
META = dict(
    technique="systematic concurrency testing: deterministic coroutine scheduler with virtual event descriptors over the real uqueue / udeal code, client protocols of the queue source/sink and of the dealer test, deadlock detection = lost wake-up, random / PCT / exhaustively enumerated bounded-preemption schedules",
    text="Generated producer/consumer programs on a uqueue (length 1-3, <=2x2 threads, <=4 items) and contender programs on a udeal (2-3 threads), the threads sleeping on virtual event descriptors exactly as upipe_queue_source/sink and udeal_test do; a deadlock of the scheduler is a lost wake-up, occupancy and holder counters are checked at every step, delivery is exactly-once and the queue history linearizable as a bounded FIFO. For 10 templates every schedule with <= 2 (quick) / <= 3 (thorough) preemptions is enumerated; the rest is sampled. Executor realfd: the same producer / consumer programs on real eventfd / pipe descriptors polled by a real libev loop, judged by wake-up implications only (a sleeper whose condition holds is woken within the loop iteration; no timing oracle).",
    design_ref="DESIGN.md section 6, C08; section 3.2; appendix A.5",
    note="SC interleavings at hook granularity; the uqueue 'counter' itself is not asserted (it legitimately wraps transiently when a pop overtakes the producer's fetch_add) — only what the property states; liveness beyond termination of finite programs is not addressed.",
)

# upipe_queue_sink.c is an anchor of C05 ("pipes that hold input while their sink is blocked deliver the held buffers first and in arrival order"):
# the queue / worker histories of C06 are run for C05 with the delivery oracles only (lost / duplicate / order / content / stall).
PIPEFIX = ["engine/umem_count.c", "engine/pipefix.c", "engine/fake_upump.c", "engine/heapcount.c"]
QMODS = lib("upipe-modules", only=["upipe_queue_sink.c", "upipe_queue_source.c", "upipe_queue.c", "upipe_transfer.c", "upipe_worker.c"]) + lib("upipe-pthread", only=["upipe_pthread_transfer.c", "uprobe_pthread_upump_mgr.c"])
ADD = {
    "C05": [dict(name="queue", harness="harness/C06_queue.c", repo=LIBUPIPE + QMODS, engine=PIPEFIX, cflags=["-DQUEUE_PROP=5"], share=1.0, case_scale=0.3, libs=["-lpthread"])],
}
RULE = {
    "C05": "executor 'queue': the histories of C06 (queue sinks with queues of length 1-4 that fill up, source pumps, partial drains by single callbacks of the consumer's loop, flush, release) "
           "with the delivery oracles only: every buffer exactly once, in order, unaltered; nothing stuck while a loop could run",
}

_FR = lib("upipe-framers", only=["upipe_h26x_common.c"])
_FRAMERS = lib("upipe-framers", only=["upipe_h26x_common.c", "upipe_framers_common.c",
                                      "upipe_h264_framer.c", "upipe_h265_framer.c"])
TARGET = dict(
    rule=("convert: tape-decoded frame of 1-8 NAL units (sizes 1..70000 biased to small and to 255/256/65535/65536) in NALU / Annex B (3- and 4-octet start codes mixed) / "
          "1-2-4-octet length form with the NAL offset and header size attributes the framers set, over a segmented block in a share of cases, converted A->B->A by "
          "upipe_h26xf_convert_frame; non-trivial = >=3 NAL units with mixed start-code lengths or a refused prefix overflow. "
          "expgolomb: 1-24 ue/se/fixed fields (code numbers up to 2^32-2) written by a reference writer, escaped by a reference emulation-prevention inserter, cut into a "
          "tape-chosen segmentation; non-trivial = an escape octet inside a code or a code longer than 24 bits, read from a segmented block. "
          "framer: H.264/H.265 elementary stream assembled by a reference encoder (parameter sets, AUD, SEI, IDR/non-IDR slices) or the recorded stream of "
          "tests/upipe_h264_framer_test.h, optionally mutated or arbitrary octets, fed under 3 cuttings (whole, one-octet buffers, tape-chosen cuts biased to start codes); three further tape octets choose "
          "access-unit-per-buffer input (NALU with offsets, 1/2/4-octet length prefixes, Annex B pieces, complete access units announced), parameter sets in band or only "
          "in the flow definition's global headers (Annex B with 3/4-octet start codes, or avcC / hvcC records written by the harness, encapsulation announced or to be inferred), "
          "the sink asking for global headers and for each output encapsulation, optional SPS syntax (scaling lists, full VUI with timing and NAL/VCL HRD), and damage to buffers and records; "
          "non-trivial = a cut inside a start code with >=2 access units; distinct by hash of the decoded case"),
    assumptions=["stand-in bitstream headers /verif/shim/bitstream/mpeg/h264.h and itu/h265.h (DESIGN.md section 5); the harness-side reference writers do not use them",
                 "reference NAL writer, exp-Golomb writer, emulation-prevention inserter and access-unit boundary rule (H.264 7.4.1.2.4, H.265 7.4.2.4.4) in the harness",
                 "slice payload after the fields that decide access unit boundaries is opaque filler",
                 "ASan, counting umem, manager refcount audit"],
    execs=[
        dict(name="convert", harness="harness/C17_convert.c", repo=LIBUPIPE + _FR, engine=MEMFIX, share=1.0),
        dict(name="expgolomb", harness="harness/C17_expgolomb.c", repo=LIBUPIPE + _FR, engine=MEMFIX, share=1.0),
        dict(name="framer", harness="harness/C17_framer.c", repo=LIBUPIPE + _FRAMERS, engine=MEMFIX, share=1.0),
    ],
    quick=dict(cases=20000, budget=14), thorough=dict(cases=600000, budget=150),
)
META = dict(
    technique="property-based testing (rapidcheck tapes -> C executors) with independent reference encoders, round-trip and metamorphic (re-cutting) oracles under ASan",
    text="Three executors. convert: generated frames in every NAL encapsulation converted A->B->A, compared with a reference serialisation (payloads, order, offsets, header size, refusal of prefix overflow). "
         "expgolomb: values written by a reference exp-Golomb writer and emulation-prevention inserter, read back through upipe_h26xf_stream_ue/se/fill_bits/get over arbitrary segmentations, value and position compared. "
         "framer: streams from a reference H.264/H.265 encoder, the recorded unit-test stream, mutations and arbitrary octets fed to the real framers under three cuttings; outputs compared with the generated access units and with each other; the same access units fed one per buffer in NALU / length-prefixed / Annex B form with in-band or out-of-band parameter sets must give one output per buffer in the encapsulation asked for, octet-identical NAL units, the same picture attributes as the stream run, and global headers (Annex B or avcC/hvcC, parsed by the harness) made of exactly the parameter sets sent. Sampling.",
    design_ref="DESIGN.md section 6, C17",
    note="decided for the repository sources compiled against the stand-in biTStream headers; the reference encoders cover baseline/main/high SPS with scaling lists and full VUI (timing, NAL/VCL HRD), PPS, AUD, buffering-period / pic-timing SEI, IDR/non-IDR slice headers up to the POC fields; input urefs carry no dates and no discontinuities (timestamp fix-ups are not judged)",
)

_RC_TEMPLATES = ["rel-rel", "use-rel", "2x2", "rel3", "use3", "two-each"]
_UB_TEMPLATES = ["free-free-nopool", "free-free-pool", "dup-free-pool", "dup-free-nopool", "free3-pool"]
TARGET = dict(
    rule=("executor refcount: 2-3 logical threads share one urefcount; the tape distributes 0-2 initial references per thread and a program of <=4 use/release "
          "each (executed only while the thread holds a reference; what is still held is released at the end) and the schedule; executor ubufshare: the same with "
          "handles of one ubuf_block_mem area (dup / free / read; optionally the pools flushed with idle structures beforehand, and the creator's references on the buffer manager and the memory manager released by a thread during the race) over the counting umem, ubuf and shared-structure pools of depth 0, 1 or 2; threads are coroutines "
          "over the real code with a scheduling point before every uatomic operation (and ring-element access of the pools); oracle: destructor / area free exactly "
          "once, never while the harness' outstanding-reference counter is non-zero, use never sees a dead refcount, bytes intact, no unknown free, nothing live at the end; "
          "non-trivial = two releases (frees) in flight at the same step; distinct by hash of program + schedule; plus enumeration of every interleaving of 6 refcount "
          "templates and of all schedules with <= K preemptions (K=2 quick, 3 thorough) of 5 buffer templates"),
    assumptions=["sequentially consistent interleavings at the granularity of the UPIPE_VERIF hooks (every uatomic operation; plain reads of urefcount.cb are not scheduling points)",
                 "programs respect the property's precondition: use/release/dup/free only through a reference the thread holds",
                 "counting umem (engine/umem_count.c) wrapped by the harness to observe the instant of the area's free; ASan on for the buffer executor (fiber-annotated coroutine switches), off for the urefcount executor (static object, semantic oracle)",
                 "exhaustive only for the listed templates (urefcount: all interleavings; buffers: preemption bound K)"],
    execs=[dict(name="refcount", harness="harness/C09_refcount.c", repo=[], engine=["engine/sched.c"], san="none", share=0.25,
                extra=dict(quick=[["enum", "--template", t, "--bound", "64"] for t in _RC_TEMPLATES],
                           thorough=[["enum", "--template", t, "--bound", "64"] for t in _RC_TEMPLATES])),
           dict(name="ubufshare", harness="harness/C09_ubufshare.c", repo=LIBUPIPE, engine=MEMFIX + ["engine/sched.c"], fault_malloc=True, share=0.75,
                extra=dict(quick=[["enum", "--template", t, "--bound", "2"] for t in _UB_TEMPLATES],
                           thorough=[["enum", "--template", t, "--bound", "3"] for t in _UB_TEMPLATES]))],
    quick=dict(cases=120000, budget=30), thorough=dict(cases=700000, budget=400),
)
META = dict(
    technique="systematic concurrency testing: deterministic coroutine scheduler over the real urefcount / ubuf_mem_shared / pool code, random / PCT / exhaustively enumerated schedules, destructor and allocator accounting oracle (ASan for the buffer executor)",
    text="Generated legal use/release programs of 2-3 threads on one urefcount, and dup/free/read programs on the handles of one ubuf_block_mem area (pool depths 0-2) over a counting umem, run under a deterministic scheduler with tape-driven schedules; the destructor (resp. the area's free) must happen exactly once and never while the harness counts an outstanding reference. Every interleaving of 6 small urefcount programs and every schedule with <= 2 (quick) / <= 3 (thorough) preemptions of 5 buffer programs is enumerated; the rest is sampled. Destructors that release another counted object re-entrantly, and a prelude of refused allocations before the race (the owner count must still be exact), are generated as well.",
    design_ref="DESIGN.md section 6, C09; section 3.2; appendix A.5",
    note="SC interleavings at hook granularity; pic/sound managers share ubuf_mem_shared and the pool helper with block (same inline code) and are not exercised separately; the mutant 'forget refcount->cb = NULL' is not observable by programs that respect the precondition.",
)

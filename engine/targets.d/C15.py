_TS = lambda *names: ["lib/upipe-ts/" + n for n in names]
TARGET = dict(
    rule=("roundtrip: generated access units (sizes 1..70000 biased to multiples of 184 and to 65535, dates absent / pts only / dts<pts / 33-bit wrap, random + discontinuity markers) "
          "through ts_encaps driven by its pull protocol (status event -> splice until not ready -> eos) or through ts_pes_encaps + the reference packetiser, every emitted packet parsed by an independent bit-level reference, "
          "then ts_decaps -> ts_pes_decaps compared octet for octet; decaps: reference-packetised well-formed sequences (adaptation fields 0..183, stuffing, PCR/OPCR/private data, adaptation-only, duplicate, missing and foreign-PID packets) "
          "through [ts_pid_filter][ts_split] ts_decaps ts_pes_decaps; corrupt: arbitrary packets in exact-size areas. "
          "An extension block of the tape adds: PSI mode (sections of 3..4098 octets through ts_encaps with the mpegtspsi flow definition, or through a reference section packetiser with several sections per packet and "
          "non-zero pointer fields, into ts_decaps; an independent section reassembler written from ISO/IEC 13818-1 2.4.4 recovers the sections from the packets and from ts_decaps' output); a late ubuf manager, "
          "release of ts_pes_encaps while it buffers, set_cr_prog, max_delay, getters, unknown commands, refused flow definitions, a flow-definition change in mid-stream (PID, stream id, header, rates), "
          "set_pcr_interval / cancel, set_tb_size, splice(T, NULL), UPIPE_FLUSH, set_max_length in mid-stream; ts_split outputs added and released and pid_filter add/del in mid-stream, "
          "a changed flow definition set again on ts_decaps, get_packets_lost; routing changes in the corrupt executor. "
          "non-trivial = an access unit / PES spanning >= 3 packets with an adaptation field in the last, or a stream with a duplicate or missing packet (corrupt: a packet reached ts_pes_decaps); distinct by hash of the decoded case"),
    assumptions=["repository sources compiled against the stand-in headers /verif/shim/bitstream/mpeg/{ts,pes}.h (written from ISO/IEC 13818-1)",
                 "independent bit-level reference packetiser/parser in the harness (harness/C15_ref.h) shares no code with the stand-in",
                 "ts_encaps preconditions as guaranteed by upipe_ts_mux: octetrate, tb_rate >= octetrate, PID, PES id, cr_sys on every uref, cr_prog when a PCR interval is set; splice(T, NULL) and UPIPE_FLUSH only while every held unit has a dts_sys (upipe_ts_tstd dates every uref)",
                 "PCR-due and set_cr_prog oracles apply only while the program clock at the mux date is non-negative (a PCR of -1 collides with the 'no PCR' sentinel)",
                 "ASan + exact-size packet areas"],
    execs=[
        dict(name="roundtrip", harness="harness/C15_roundtrip.c", share=1.0, case_scale=0.5,
             repo=LIBUPIPE + _TS("upipe_ts_encaps.c", "upipe_ts_decaps.c", "upipe_ts_pes_encaps.c", "upipe_ts_pes_decaps.c"), engine=MEMFIX),
        dict(name="decaps", harness="harness/C15_decaps.c", share=1.0, case_scale=0.75,
             repo=LIBUPIPE + _TS("upipe_ts_decaps.c", "upipe_ts_pes_decaps.c", "upipe_ts_split.c", "upipe_ts_pid_filter.c"), engine=MEMFIX),
        dict(name="corrupt", harness="harness/C15_corrupt.c", share=1.0, fuzz=dict(quick=(8, 10), thorough=(16, 120)),
             repo=LIBUPIPE + _TS("upipe_ts_decaps.c", "upipe_ts_pes_decaps.c", "upipe_ts_split.c", "upipe_ts_pid_filter.c"), engine=MEMFIX),
    ],
    quick=dict(cases=14000, budget=12), thorough=dict(cases=150000, budget=150),
)
META = dict(
    technique="property-based round-trip and differential testing against an independent bit-level TS/PES reference (rapidcheck tapes -> C executors) under ASan",
    text="Three executors: (1) generated access units through ts_encaps (pull protocol of the mux) or ts_pes_encaps, every packet parsed by an independent reference (188 octets, sync, PID, continuity, adaptation field, PES header, PTS/DTS/PCR values), then ts_decaps + ts_pes_decaps compared with the generated units; (2) reference-packetised well-formed sequences with every adaptation-field length, PCRs, duplicates, missing and foreign-PID packets through pid_filter/split/decaps/pes_decaps against an ISO 13818-1 model; (3) arbitrary packets in exact-size areas: no fault, no assert, no leak. PSI sections through ts_encaps / a reference section packetiser / ts_decaps are recovered by an independent section reassembler; control histories (PCR interval, set_cr_prog, splice-drop, flush, flow-definition changes, ts_split outputs and pid_filter PIDs changing in mid-stream, get_packets_lost) are judged against the documented meaning of each command. Sampling.",
    design_ref="DESIGN.md section 6, C15; section 5 (stand-in headers)",
    note="decided for the repository sources compiled against the stand-in biTStream headers; scrambling, the T-STD timing values of the status event, the queue-overflow drop of ts_encaps (max_length*2) and allocation failures are not checked.",
)

TARGET = dict(
    rule=("tape-decoded sequence of (width 1-32, value) fields, buffer size around the exact need, "
          "read back by ubits_get and by the block bit-stream reader over a generated segmentation and start bit offset; "
          "before it is read the block is re-segmented without changing its content (split + append at tape-chosen offsets, an access that moves the segment cache, resize + prepend of the first octets; the reader started at a later field; the block replaced by a splice whose window ends inside a segment; the lead octets deleted for good after an access further in; a piece cut out and inserted back with ubuf_block_insert); non-trivial = >=2 fields incl. a 32-bit field or one straddling the 32-bit cache, written into a buffer that is exactly full or too small; "
          "distinct by hash of (fields, buffer size, segmentation, bit offset)"),
    assumptions=["independent MSB-first reference packer in the harness", "ASan red zones around exact-size buffers"],
    execs=[dict(name="bits", harness="harness/C18_bits.c", repo=LIBUPIPE, engine=MEMFIX, fuzz=dict(quick=(4, 8), thorough=(8, 60)))],
    quick=dict(cases=60000, budget=40), thorough=dict(cases=1500000, budget=400),
)
META = dict(
    technique="property-based testing (rapidcheck tapes -> C executor) with reference-packer and round-trip oracles under ASan",
    text="Generated search: field sequences (widths 1-32, boundary-biased values), buffer sizes around the exact need, read-back through ubits_get and the block bit-stream reader over generated segmentations and start bit offsets; oracle = independent MSB-first packer + exact-size buffers under ASan. Sampling, not exhaustive.",
    design_ref="DESIGN.md section 6, C18",
    note="trusts the harness' reference packer (30 lines) and ASan red zones; block reader fields wider than 24 bits are read in two chunks as the macro contract requires",
)

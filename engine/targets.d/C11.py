TARGET = dict(
    rule=("tape-decoded history (<=40 ops, <=110 thorough) over one uref and up to 3 dups: per domain sys/prog/orig set as cr/dts/pts, generic set_date (type NONE included), "
          "delete, add, rebase to cr/dts/pts, set_rap; set/delete/copy of the three shared delays; dup/free; single getters (NULL pointer) and cmp; dates and delays full 64-bit, "
          "biased to 0, 1, 2^33, 2^63, UINT64_MAX-1, UINT64_MAX (unset), values around the currently readable views and values whose sums wrap; after every op all accessors of all live urefs "
          "are read twice and checked against the statement-level oracles and the reference model; "
          "non-trivial = some domain went through >=2 successful type-changing rebases in a case where a rebase was refused over an unset delay or crossed a wrapping sum; distinct by hash of ops+arguments"),
    assumptions=["reference model (stored stage + date per domain, three hops RAP-CR-DTS-PTS, mod 2^64) in the harness, written from uref.h / uref_attr.h / uref_clock.h",
                 "a delay equal to UINT64_MAX is unset (UREF_ATTR_UNSIGNED_UREF); a date is unset iff its type is NONE; the raw date under NONE is not compared",
                 "add_date on a stored value UINT64_MAX with a type set is don't-care (comment says adds, code skips)",
                 "only success/failure of the int-returning accessors is compared, not the exact error code"],
    execs=[dict(name="clock", harness="harness/C11_clock.c", repo=LIBUPIPE, engine=MEMFIX)],
    quick=dict(cases=150000, budget=40), thorough=dict(cases=700000, budget=360),
)
META = dict(
    technique="model-based property testing (rapidcheck tapes -> stateful C executor) against statement-level invariants and an independent modular-arithmetic reference model, under ASan",
    text="Generated histories of clock operations (set as cr/dts/pts, generic set_date, delete, add, rebase, set_rap, shared delays set/delete/copy, dup/free, single getters, cmp) over one uref and its dups in the three domains, with 64-bit dates and delays biased to 0, 1, 2^33, 2^63, UINT64_MAX-1, the unset value, the currently readable views +-1 and sums that wrap. After every operation every accessor of every live uref is read twice: dts = cr + cr_dts_delay, pts = dts + dts_pts_delay, rap = cr - rap_cr_delay on the observed values; rebase/getter/cmp/dup keep every date and rap readable before; set-as-T reads back as T; set_rap refused exactly when after the observed cr, else get_rap returns it; operations on one uref leave the others alone; everything compared with the reference model. Sampling.",
    design_ref="DESIGN.md section 6, C11",
    note="the accessors are static inline: the check compiles them into the harness from the repository headers. Exact error codes, uref_clock_match_*, duration/rate/latency/wrap dictionary attributes are not covered. Where the header is silent on the unset value (add_date on UINT64_MAX with a type) both behaviours are accepted.",
)

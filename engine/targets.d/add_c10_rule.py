# rule text of the operations added to the urefattr executor (session 3)
ADD = {}
RULE = {
    "C10": "urefattr also generates: the match accessors (string prefix; numeric range with bounds around the stored value, inverted, above 255 / 2^32), uref_attr_copy_list / "
           "delete_list (stop at the first error), set_opaque_from_hex (+_va; well-formed, empty, odd, malformed), the string _va setters and uref_flow_set_def_va, the priv member "
           "attribute, uref_fork / uref_sibling_alloc(_control) / uref_attach_ubuf / uref_detach_ubuf as far as attributes, flags and the held ubuf are concerned",
}

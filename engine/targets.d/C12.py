PIPEFIX = ["engine/umem_count.c", "engine/pipefix.c", "engine/fake_upump.c", "engine/heapcount.c"]
ZOO = lib("upipe-modules", only=["upipe_idem.c","upipe_skip.c","upipe_htons.c","upipe_delay.c","upipe_setattr.c","upipe_setflowdef.c","upipe_probe_uref.c","upipe_match_attr.c","upipe_setrap.c","upipe_dup.c","upipe_genaux.c","upipe_time_limit.c","upipe_video_blank.c","upipe_void_source.c","upipe_rtp_decaps.c","upipe_blit.c"])
QUEUE = lib("upipe-modules", only=["upipe_queue.c","upipe_queue_sink.c","upipe_queue_source.c"])
TS = lib("upipe-ts", only=["upipe_ts_align.c","upipe_ts_sync.c","upipe_ts_check.c"])
TARGET = dict(
    rule=("tape-decoded history over a chain of 1-6 pipes drawn from idem, skip, delay, setattr, probe_uref, setflowdef, setrap, htons, match_attr, dup, genaux (a pipe with a request of its own), "
          "ts_align (a bin built on helper_bin_input / helper_bin_output), and the kinds with requests of their own through the helpers: time_limit (helper_uclock, re-required after every successful control "
          "command until answered, attach_uclock), video_blank (helper_flow_format, whose answer requires a ubuf_mgr through helper_ubuf_mgr, whose answer becomes the output flow definition), rtp_decaps "
          "(demand_ubuf_mgr), void_source (head only: helper_uref_mgr, then helper_uclock, then its timer), blit (control_ubuf_mgr in front of control_output) and hbin, a bin written in the harness with the "
          "repository's UPIPE_HELPER_BIN_INPUT / BIN_OUTPUT / INNER / UCLOCK / UREF_MGR / UBUF_MGR macros around an idem (inner pipe dropped, built again, replaced directly; uclock and demanded uref_mgr "
          "requests of its own through register_bin_output_request; optionally control_ubuf_mgr in front), ending in two recording tails (policy: throw to its probe / hold and provide later / unhandled); "
          "executor 'queue' cuts the chain "
          "with qsink ~> qsrc on two harness-stepped loops; the harness registers and unregisters up to 8 requests of the five types (uref_mgr, flow_format, ubuf_mgr, uclock, sink_latency; flow-format "
          "dictionaries tagged with request id and generation) at any pipe, changes outputs (other tail, another pipe, NULL, back), sets flow definitions (which rebuilds the inner pipes of the bin, makes the "
          "pipes issue their own requests), "
          "provides lodged requests at the tails (once, repeatedly, after unregistration on the far side of the queue), steps either loop, releases pipes, lets a callback re-enter (register another request); "
          "service probes uprobe_uref_mgr / uprobe_ubuf_mem / uprobe_uclock are present or absent per case and their object is replaced during the history (uprobe_*_set: another object, NULL, the first one). "
          "non-trivial = an output was replaced while a request was registered and an answer arrived "
          "afterwards; distinct by hash of the decoded history"),
    assumptions=["reference model of the request lists of upipe_helper_output / helper_bin_input and of the out-of-band messages of the queue pipes (harness/C12_requests.c), written from the helper documentation",
                 "fixture: recording probes and tails, fake event loops (engine/pipefix.c, fake_upump.c); stand-in bitstream headers for ts_align's inner pipes (ts_sync, ts_check)",
                 "lodged requests are identified by type and tagged dictionary, never by pointer order; requests without dictionary that a tail cannot tell apart are told apart by following the proxies' pointers to the original request (in-thread only)",
                 "when each pipe calls require / demand is read from its source (time_limit, video_blank, rtp_decaps, void_source, genaux); what require, demand, provide and clean then do is the helpers' documentation",
                 "named exclusion blit-forwards-unanswered-ubuf-mgr (pending/C12-blit-forwards-unanswered-ubuf-mgr-request.patch): a blit is only built where uprobe_ubuf_mem answers every ubuf_mgr request that reaches it"],
    execs=[dict(name="inthread", harness="harness/C12_requests.c", repo=LIBUPIPE + ZOO + TS, engine=PIPEFIX, cflags=["-DC12_QUEUE=0"], share=0.5),
           dict(name="queue", harness="harness/C12_requests.c", repo=LIBUPIPE + ZOO + TS + QUEUE, engine=PIPEFIX, cflags=["-DC12_QUEUE=1"], share=0.5)],
    quick=dict(cases=12000, budget=40, floor=2000), thorough=dict(cases=300000, budget=600, floor=20000),
)
META = dict(
    technique="model-based stateful property testing (rapidcheck tapes -> C executor over real pipes, two harness-stepped event loops for the queue variant) against a reference model of request registration and answers, under ASan",
    text="Generated histories of register / unregister / set_output / set_flow_def / provide / loop step / release over chains of pass-through pipes, a pipe with its own request, a bin, and a thread queue. After every operation "
         "(and at loop quiescence) the model predicts and the check compares: the requests lodged at each tail (exactly one per registered upstream request that reaches it, right type and dictionary, none stale), the provide_request "
         "events thrown per probe when nobody downstream handles a request, the callbacks on the original requests (exactly one per answer, carrying the provided object, none after unregister), the pipe's own request being answered; "
         "provide_request events that no service probe answers reach the end of the probe chain; node kinds instantiating the uclock / flow_format / uref_mgr / ubuf_mgr helpers "
         "(time_limit, video_blank, rtp_decaps, void_source, blit) and a harness-defined bin; end-of-case audit for leaks. Sampling.",
    design_ref="DESIGN.md section 6, C12",
    note="bins other than ts_align and the harness-written hbin (same control idiom: filters, dvbcsa, hls, rtp_demux, id3v2, worker) are not exercised; allocation failures are not generated; "
         "demand_uref_mgr runs only in hbin's instance (its repository users are file / network / demux sources); blit's own flow_format negotiation is not modelled (no flow_format request is generated upstream of a blit)",
)

PIPEFIX = ["engine/umem_count.c", "engine/pipefix.c", "engine/fake_upump.c", "engine/heapcount.c"]
ZOO = lib("upipe-modules", only=["upipe_idem.c","upipe_skip.c","upipe_htons.c","upipe_delay.c","upipe_setattr.c","upipe_setflowdef.c","upipe_probe_uref.c","upipe_match_attr.c","upipe_setrap.c","upipe_dup.c","upipe_genaux.c"])
QUEUE = lib("upipe-modules", only=["upipe_queue.c","upipe_queue_sink.c","upipe_queue_source.c"])
TS = lib("upipe-ts", only=["upipe_ts_align.c","upipe_ts_sync.c","upipe_ts_check.c"])
TARGET = dict(
    rule="tbd",
    assumptions=["tbd"],
    execs=[dict(name="inthread", harness="harness/C12_requests.c", repo=LIBUPIPE + ZOO + TS, engine=PIPEFIX, cflags=["-DC12_QUEUE=0"], share=0.5),
           dict(name="queue", harness="harness/C12_requests.c", repo=LIBUPIPE + ZOO + TS + QUEUE, engine=PIPEFIX, cflags=["-DC12_QUEUE=1"], share=0.5)],
    quick=dict(cases=12000, budget=40), thorough=dict(cases=300000, budget=600),
)
META = dict(technique="tbd", text="tbd", design_ref="DESIGN.md section 6, C12", note="tbd")

_SCHED = ["engine/sched.c", "engine/lin.c"]
_TEMPLATES = ["aba-top", "aba-top3", "aba-free", "aba-free-lifo", "head-aba", "stale-next", "stale-next2", "stale-next3", "push-push-empty",
              "pop-push-one", "pop-push-one-lifo", "slot-exhaust", "slot-exhaust3", "slot-exhaust-lifo",
              "pool-recycle", "pool-full"]
TARGET = dict(
    rule=("tape-decoded client program (ufifo / ulifo / upool, capacity 1-3, sequential prefill, 2-3 logical threads x 1-4 push/pop resp. alloc/free) "
          "and schedule (byte-per-decision, PCT with <=3 priority change points, or explicit per-step prefix); threads are coroutines over the real "
          "inline code, one shared access (uatomic operation or plain ring-element access) per scheduling step; afterwards a sequential drain, refill "
          "with capacity+1 elements and second drain; the complete invocation/response history is searched for a linearization (Wing-Gong with memo) "
          "against the bounded FIFO/LIFO/bag with the push-refusal rule; non-trivial = a context switch inside an operation and two overlapping "
          "operations; distinct by hash of program + schedule; plus complete enumeration of all schedules with <= K preemptions (K=3 quick, 4 thorough) "
          "of 16 template programs aimed at the ABA, stale-next, racing-push, one-element and slot-exhaustion windows"),
    assumptions=["sequentially consistent interleavings at the granularity of the UPIPE_VERIF hooks (every uatomic operation, every plain access to a ring element); weak-memory reorderings of the plain accesses are outside",
                 "8/16-bit tag wrap-around (2^8 / 2^16 reuses of one slot inside one window) is out of reach of programs this small",
                 "linearizability checker engine/lin.c (sequential bounded FIFO/LIFO/bag; a refused push must be justified by stored elements + slots held by operations in progress >= capacity)",
                 "executor built without ASan: the oracle is semantic, the structures are static and the code under test does not allocate; asserts of uring.h are enabled",
                 "exhaustive only for the listed template programs and preemption bound"],
    execs=[dict(name="lin", harness="harness/C07_lin.c", repo=[], engine=_SCHED, san="none",
                extra=dict(quick=[["enum", "--template", t, "--bound", "3"] for t in _TEMPLATES],
                           thorough=[["enum", "--template", t, "--bound", "4"] for t in _TEMPLATES]))],
    quick=dict(cases=500000, budget=35), thorough=dict(cases=2000000, budget=420),
)
META = dict(
    technique="systematic concurrency testing: deterministic coroutine scheduler over the real lock-free code (yield hooks at every atomic and ring-element access), random / PCT / exhaustively enumerated bounded-preemption schedules, Wing-Gong linearizability checking",
    text="Generated client programs (2-3 threads x 1-4 operations, capacities 1-3) on ufifo, ulifo and upool run under a deterministic scheduler with schedules drawn from the tape (uniform, sparse, PCT, explicit prefix); every history incl. a sequential drain/refill epilogue is checked for linearizability against the bounded FIFO/LIFO/bag with the push-refusal rule, pool holders are tracked. For 16 template programs every schedule with <= 3 (quick) / <= 4 (thorough) preemptions is enumerated: these sub-spaces are covered completely, everything else is sampled.",
    design_ref="DESIGN.md section 6, C07; section 3.2 (enumerating driver); appendix A.5",
    note="SC interleavings at hook granularity only; tag wrap-around and weak-memory effects are out of reach; completeness is claimed only for the enumerated templates and bound (reported as exhaustive_subspaces in the evidence).",
)

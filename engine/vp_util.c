#include "vp.h"
#include <stdio.h>
#include <stdlib.h>
#include <string.h>

/* overridden by engine/heapcount.c when linked */
__attribute__((weak)) void hc_pause(int delta) { (void)delta; }

int vp_render_live; /* replay mode: print as we go so that a crash does not lose the rendering */

void vp_render(struct vp_report *rep, const char *fmt, ...)
{
    if (rep == NULL) return;
    if (vp_render_live) {
        va_list ap;
        va_start(ap, fmt);
        hc_pause(1);
        vfprintf(stdout, fmt, ap);
        fflush(stdout);
        hc_pause(-1);
        va_end(ap);
        return;
    }
    hc_pause(1);
    char buf[1024];
    va_list ap;
    va_start(ap, fmt);
    int n = vsnprintf(buf, sizeof(buf), fmt, ap);
    va_end(ap);
    if (n < 0) { hc_pause(-1); return; }
    if ((size_t)n >= sizeof(buf)) n = sizeof(buf) - 1;
    if (rep->render_len + n + 1 > rep->render_cap) {
        size_t cap = rep->render_cap ? rep->render_cap * 2 : 4096;
        while (cap < rep->render_len + n + 1) cap *= 2;
        if (cap > (1u << 20)) { hc_pause(-1); return; } /* cap renderings at 1 MiB */
        char *p = realloc(rep->render, cap);
        if (!p) { hc_pause(-1); return; }
        rep->render = p;
        rep->render_cap = cap;
    }
    memcpy(rep->render + rep->render_len, buf, n);
    rep->render_len += n;
    rep->render[rep->render_len] = '\0';
    hc_pause(-1);
}

int vp_fail(struct vp_report *rep, const char *key, const char *fmt, ...)
{
    if (rep->key[0]) return 1; /* keep the first failure */
    snprintf(rep->key, sizeof(rep->key), "%s", key);
    va_list ap;
    va_start(ap, fmt);
    vsnprintf(rep->msg, sizeof(rep->msg), fmt, ap);
    va_end(ap);
    return 1;
}

int vp_internal(struct vp_report *rep, const char *fmt, ...)
{
    snprintf(rep->key, sizeof(rep->key), "INTERNAL");
    va_list ap;
    va_start(ap, fmt);
    vsnprintf(rep->msg, sizeof(rep->msg), fmt, ap);
    va_end(ap);
    return 2;
}

uint64_t vp_hash_mix(uint64_t h, uint64_t v)
{
    h ^= v + 0x9e3779b97f4a7c15ULL + (h << 6) + (h >> 2);
    h *= 0x100000001b3ULL;
    return h;
}

uint64_t vp_hash_bytes(uint64_t h, const void *p, size_t n)
{
    const uint8_t *b = p;
    for (size_t i = 0; i < n; i++) { h ^= b[i]; h *= 0x100000001b3ULL; }
    return h;
}

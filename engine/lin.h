/* Linearizability checker (Wing & Gong search with memoisation) for the bounded
 * FIFO(cap), LIFO(cap) and BAG(cap) (= object pool) specifications of property C07.
 *
 * A history is a set of completed operations, each with the positions of its invocation and
 * response in the total order of events (distinct integers). It is accepted iff every operation can
 * be given a linearization point strictly between its invocation and its response such that, taken
 * in the order of these points, the operations behave like the sequential structure:
 *
 *   push v -> true   allowed iff size < cap; appends v
 *   push v -> false  allowed iff (stored elements) + (successful pushes in progress at that point and
 *                    not linearized yet) + (successful pops in progress at that point and already
 *                    linearized) >= cap, the pusher itself excluded. This is the property's "a push
 *                    fails only when every slot is taken by a stored element or by an operation still
 *                    in progress; exactly when full if nothing else is running", with every operation
 *                    accounting for at most one slot and an element never counted twice (a push in
 *                    progress whose element is already stored holds no further slot; a pop in progress
 *                    holds the slot of the element it has removed).
 *   pop -> v         allowed iff v is the oldest (FIFO) / newest (LIFO) / any (BAG) stored element
 *   pop -> nothing   allowed iff the structure is empty
 *
 * A point is a gap between two consecutive events; "in progress at a gap" = invoked before it and
 * not yet returned. Non-failing operations take the earliest possible gap (that can only help the
 * operations after them); a failed push takes the earliest gap that justifies the failure.
 */
#ifndef VS_LIN_H_
#define VS_LIN_H_
#include <stdint.h>
#include <stddef.h>

#define LIN_MAX_OPS 64
#define LIN_MAX_CAP 8
#define LIN_MAX_VAL 63          /* values 1..63 */

enum lin_spec { LIN_FIFO = 0, LIN_LIFO = 1, LIN_BAG = 2 };
enum lin_kind { LIN_PUSH = 0, LIN_POP = 1 };

struct lin_op {
    uint8_t  kind;              /* LIN_PUSH / LIN_POP */
    uint8_t  ok;                /* push: 1 stored, 0 refused; pop: 1 returned val, 0 returned nothing */
    uint8_t  val;               /* 1..LIN_MAX_VAL (ignored for a pop that returned nothing) */
    uint32_t inv, res;          /* event positions, inv < res, all distinct across the history */
};

struct lin_result {
    int      ok;                /* 1 = linearizable */
    int      n_order;           /* ok: n; else length of the longest consistent prefix found */
    uint8_t  order[LIN_MAX_OPS];/* a witness order (ok) or the longest consistent prefix */
    int      stuck[LIN_MAX_OPS];/* !ok: operations that could come next by real time but contradict the spec */
    int      n_stuck;
    unsigned states;            /* search nodes visited */
};

/* returns 1 if linearizable, 0 if not, -1 on bad arguments */
int lin_check(const struct lin_op *ops, int n, enum lin_spec spec, int cap, struct lin_result *res);

#endif

// Generic driver: links with exactly one executor (vp_executor) and offers
//   --replay FILE [--render] [--no-exclude] [--thorough]
//   --rc --out DIR --worker I [--thorough] [--budget S]   (RC_PARAMS from env)
//   --extra ...                                            (executor specific)
// Includes no upipe header. All randomness is rapidcheck's.
#include <rapidcheck.h>
#include <cstdio>
#include <cstdlib>
#include <cstring>
#include <string>
#include <vector>
#include <unordered_set>
#include <chrono>
#include <fcntl.h>
#include <unistd.h>
#include <signal.h>
#include <sys/time.h>
#include "vp.h"

// per-case CPU-time watchdog: a case that normally takes milliseconds and burns 20 s of CPU is a hang
static void on_vtalrm(int) { const char m[] = "\nHANG: case exceeded the CPU-time guard\n"; if (write(2, m, sizeof m - 1) < 0) {} _exit(96); }
static void arm_watchdog(int secs)
{
    struct itimerval it; memset(&it, 0, sizeof it);
    it.it_value.tv_sec = secs;
    setitimer(ITIMER_VIRTUAL, &it, NULL);
}

static std::string json_escape(const char *s)
{
    std::string o;
    if (!s) return o;
    for (; *s; s++) {
        unsigned char c = (unsigned char)*s;
        if (c == '"' || c == '\\') { o += '\\'; o += (char)c; }
        else if (c == '\n') o += "\\n";
        else if (c == '\t') o += "\\t";
        else if (c < 0x20 || c >= 0x7f) { char b[8]; snprintf(b, sizeof b, "\\u%04x", c); o += b; }
        else o += (char)c;
    }
    return o;
}

static bool read_file(const char *path, std::vector<uint8_t> &out)
{
    FILE *f = fopen(path, "rb");
    if (!f) return false;
    uint8_t buf[65536];
    size_t n;
    while ((n = fread(buf, 1, sizeof buf, f)) > 0) out.insert(out.end(), buf, buf + n);
    fclose(f);
    return true;
}

static void write_file(const std::string &path, const uint8_t *p, size_t n)
{
    FILE *f = fopen(path.c_str(), "wb");
    if (!f) return;
    if (n) fwrite(p, 1, n, f);
    fclose(f);
}

static int do_replay(const char *path, unsigned flags)
{
    std::vector<uint8_t> tape;
    if (!read_file(path, tape)) { fprintf(stderr, "cannot read %s\n", path); return 2; }
    struct vp_report rep;
    memset(&rep, 0, sizeof rep);
    vp_render_live = 1;
    arm_watchdog(20);
    int r = vp_executor.run(tape.data(), tape.size(), &rep, flags);
    arm_watchdog(0);
    if (rep.render) printf("%s", rep.render);
    printf("RESULT: %d\n", r);
    printf("NONTRIVIAL: %d\n", rep.nontrivial);
    printf("HASH: %016llx\n", (unsigned long long)rep.case_hash);
    printf("CLASSES: %016llx\n", (unsigned long long)rep.classes);
    if (r) { printf("KEY: %s\n", rep.key); printf("MSG: %s\n", rep.msg); }
    fflush(stdout);
    free(rep.render);
    return r;
}

struct Stats {
    unsigned long long cases = 0, nontrivial = 0, excluded = 0, skipped_budget = 0;
    unsigned long long class_counts[64] = {0};
    std::unordered_set<uint64_t> nt_hashes;
    std::vector<std::string> samples;
    unsigned long long tape_bytes = 0;
};

int main(int argc, char **argv)
{
    setvbuf(stdout, NULL, _IONBF, 0);
    signal(SIGVTALRM, on_vtalrm);
    const char *replay = NULL, *outdir = NULL;
    int worker = 0;
    unsigned flags = 0;
    bool rc_mode = false;
    double budget = 0;
    for (int i = 1; i < argc; i++) {
        if (!strcmp(argv[i], "--replay") && i + 1 < argc) replay = argv[++i];
        else if (!strcmp(argv[i], "--render")) flags |= VP_RENDER;
        else if (!strcmp(argv[i], "--no-exclude")) flags |= VP_NO_EXCLUDE;
        else if (!strcmp(argv[i], "--thorough")) flags |= VP_THOROUGH;
        else if (!strcmp(argv[i], "--rc")) rc_mode = true;
        else if (!strcmp(argv[i], "--out") && i + 1 < argc) outdir = argv[++i];
        else if (!strcmp(argv[i], "--worker") && i + 1 < argc) worker = atoi(argv[++i]);
        else if (!strcmp(argv[i], "--budget") && i + 1 < argc) budget = atof(argv[++i]);
        else if (!strcmp(argv[i], "--extra")) {
            if (!vp_executor.extra) { fprintf(stderr, "no extra mode\n"); return 2; }
            return vp_executor.extra(argc - i, argv + i);
        }
        else if (!strcmp(argv[i], "--info")) {
            printf("%s %s %zu\n", vp_executor.id, vp_executor.variant, vp_executor.tape_max);
            return 0;
        }
    }
    if (replay) return do_replay(replay, flags);
    if (!rc_mode || !outdir) { fprintf(stderr, "usage: --replay F | --rc --out D --worker I\n"); return 2; }

    Stats st;
    const size_t tape_max = vp_executor.tape_max ? vp_executor.tape_max : 256;
    std::string cur = std::string(outdir) + "/current-" + std::to_string(worker) + ".tape";
    int curfd = open(cur.c_str(), O_RDWR | O_CREAT | O_TRUNC, 0644);
    bool failed = false, internal = false;
    std::vector<uint8_t> fail_tape;
    std::string fail_key, fail_msg;
    auto t0 = std::chrono::steady_clock::now();
    auto tfail = t0;
    const double shrink_allowance = 25.0;
    const std::string early_fail = std::string(outdir) + "/worker-" + std::to_string(worker) + ".fail.tape";
    const unsigned runflags = flags & (VP_THOROUGH | VP_NO_EXCLUDE);

    using Tape = std::vector<uint8_t>;
    auto genTape = rc::gen::withSize([tape_max](int size) {
        // rapidcheck sizes run 0..max_size (default 100): scale lengths to tape_max.
        int maxlen = (int)((tape_max * (size_t)(size + 1)) / 100);
        if (maxlen < 4) maxlen = 4;
        if (maxlen > (int)tape_max) maxlen = (int)tape_max;
        auto rnd = rc::gen::resize(maxlen, rc::gen::container<Tape>(
                       rc::gen::resize(100, rc::gen::arbitrary<uint8_t>())));
        auto small = rc::gen::resize(maxlen, rc::gen::container<Tape>(
                       rc::gen::resize(size, rc::gen::arbitrary<uint8_t>())));
        auto bnd = rc::gen::resize(maxlen, rc::gen::container<Tape>(
                       rc::gen::element<uint8_t>(0, 1, 2, 3, 4, 5, 7, 8, 15, 16, 31, 32, 63, 64,
                                                 127, 128, 129, 200, 253, 254, 255)));
        auto rep = rc::gen::map(
            rc::gen::resize(maxlen / 3 + 1,
                rc::gen::container<std::vector<std::pair<uint8_t, uint8_t>>>(
                    rc::gen::pair(rc::gen::resize(100, rc::gen::arbitrary<uint8_t>()),
                                  rc::gen::resize(100, rc::gen::arbitrary<uint8_t>())))),
            [maxlen](std::vector<std::pair<uint8_t, uint8_t>> v) {
                Tape t;
                for (auto &p : v) {
                    int n = 1 + (p.second % 6);
                    for (int k = 0; k < n && (int)t.size() < maxlen; k++) t.push_back(p.first);
                }
                return t;
            });
        return rc::gen::oneOf(rnd, rnd, small, bnd, rep);
    });

    bool ok = rc::check(std::string(vp_executor.id) + "/" + vp_executor.variant, [&]() {
        Tape tape = *genTape;
        if (!failed && budget > 0) {
            double el = std::chrono::duration<double>(std::chrono::steady_clock::now() - t0).count();
            if (el > budget) { st.skipped_budget++; return; }
        }
        if (failed) {
            // in-process shrinking is bounded in time: once the allowance is used up every further candidate
            // "passes", which ends rapidcheck's shrink loop; the out-of-process minimiser carries on from there
            double el = std::chrono::duration<double>(std::chrono::steady_clock::now() - tfail).count();
            if (el > shrink_allowance) return;
        }
        if (curfd >= 0) {
            if (pwrite(curfd, tape.data(), tape.size(), 0) < 0) {}
            if (ftruncate(curfd, tape.size()) < 0) {}
        }
        struct vp_report rep;
        memset(&rep, 0, sizeof rep);
        arm_watchdog(20);
        int r = vp_executor.run(tape.data(), tape.size(), &rep, runflags);
        arm_watchdog(0);
        if (r == 2) {
            internal = true;
            fail_tape = tape; fail_key = rep.key; fail_msg = rep.msg;
            free(rep.render);
            RC_FAIL(std::string("internal harness error: ") + rep.msg);
        }
        if (!failed) {
            st.cases++;
            st.tape_bytes += tape.size();
            st.excluded += rep.excluded;
            for (int b = 0; b < 64; b++) if (rep.classes & (1ull << b)) st.class_counts[b]++;
            if (rep.nontrivial && r == 0) {
                st.nontrivial++;
                bool fresh = st.nt_hashes.insert(rep.case_hash).second;
                size_t n = st.nt_hashes.size();
                if (fresh && st.samples.size() < 4 && (n == 1 || n == 20 || n == 200 || n == 2000)) {
                    struct vp_report r2;
                    memset(&r2, 0, sizeof r2);
                    vp_executor.run(tape.data(), tape.size(), &r2, runflags | VP_RENDER);
                    if (r2.render) {
                        std::string s(r2.render);
                        if (s.size() > 3000) s = s.substr(0, 3000) + "...[truncated]";
                        st.samples.push_back(s);
                    }
                    free(r2.render);
                }
            }
        }
        free(rep.render);
        if (r == 1) {
            if (!failed) tfail = std::chrono::steady_clock::now();
            failed = true;
            fail_tape = tape; fail_key = rep.key; fail_msg = rep.msg;
            // kept up to date while shrinking, so that a worker killed in mid-shrink still leaves its best tape
            write_file(early_fail + ".tmp", fail_tape.data(), fail_tape.size());
            rename((early_fail + ".tmp").c_str(), early_fail.c_str());
            RC_FAIL(std::string(rep.key) + ": " + rep.msg);
        }
    });

    double wall = std::chrono::duration<double>(std::chrono::steady_clock::now() - t0).count();
    std::string base = std::string(outdir) + "/worker-" + std::to_string(worker);
    std::string failpath;
    if (!ok && (failed || internal)) {
        failpath = base + ".fail.tape";
        write_file(failpath, fail_tape.data(), fail_tape.size());
    }
    FILE *f = fopen((base + ".json").c_str(), "w");
    if (!f) return 2;
    fprintf(f, "{\"worker\": %d, \"cases\": %llu, \"nontrivial\": %llu, \"distinct_nontrivial\": %zu, "
               "\"excluded\": %llu, \"skipped_budget\": %llu, \"tape_bytes\": %llu, \"wall_s\": %.3f,\n",
            worker, st.cases, st.nontrivial, st.nt_hashes.size(), st.excluded, st.skipped_budget,
            st.tape_bytes, wall);
    fprintf(f, " \"class_counts\": {");
    bool first = true;
    if (vp_executor.class_names)
        for (int b = 0; b < 64 && vp_executor.class_names[b]; b++) {
            fprintf(f, "%s\"%s\": %llu", first ? "" : ", ", vp_executor.class_names[b], st.class_counts[b]);
            first = false;
        }
    fprintf(f, "},\n \"samples\": [");
    for (size_t i = 0; i < st.samples.size(); i++)
        fprintf(f, "%s\"%s\"", i ? ", " : "", json_escape(st.samples[i].c_str()).c_str());
    fprintf(f, "],\n \"ok\": %s, \"internal\": %s", ok ? "true" : "false", internal ? "true" : "false");
    if (!failpath.empty())
        fprintf(f, ",\n \"failure\": {\"tape\": \"%s\", \"key\": \"%s\", \"msg\": \"%s\"}",
                json_escape(failpath.c_str()).c_str(), json_escape(fail_key.c_str()).c_str(),
                json_escape(fail_msg.c_str()).c_str());
    fprintf(f, "}\n");
    fclose(f);
    // hashes of distinct non-trivial cases, for the union across workers
    FILE *h = fopen((base + ".hashes").c_str(), "wb");
    if (h) {
        for (uint64_t v : st.nt_hashes) fwrite(&v, sizeof v, 1, h);
        fclose(h);
    }
    if (curfd >= 0) { close(curfd); unlink(cur.c_str()); }
    if (internal) return 2;
    return ok ? 0 : 1;
}

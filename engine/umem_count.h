/* Counting umem manager: exact-size mallocs (ASan red zones touch the payload),
 * live-allocation table, unknown/double free detection. */
#ifndef UMEM_COUNT_H_
#define UMEM_COUNT_H_
#include "upipe/ubase.h"
#include "upipe/urefcount.h"
#include "upipe/umem.h"

struct umem_count_stats {
    unsigned long allocs, frees, reallocs;
    long live;             /* currently allocated areas */
    long live_bytes;
    unsigned long bad_free; /* free of an unknown area */
};

struct umem_mgr *umem_count_mgr_alloc(void);
struct umem_count_stats *umem_count_stats(struct umem_mgr *mgr);
/* returns true and fills base/size if p lies inside a live allocation of this manager */
bool umem_count_lookup(struct umem_mgr *mgr, const void *p, uint8_t **base_p, size_t *size_p);
/* fault injection: the n-th umem_alloc / umem_realloc from now on fails, once (0 disarms); umem_count_failures = how many were injected */
void umem_count_fail_nth(struct umem_mgr *mgr, unsigned n);
unsigned long umem_count_failures(struct umem_mgr *mgr);
/* number of references currently held on the manager */
bool umem_count_single(struct umem_mgr *mgr);
#endif

/* Per-case heap accounting through ASan's malloc/free hooks: which allocations made since
 * hc_begin() are still live at hc_end()?  Catches structures malloc'ed directly by pipes
 * (not through a manager) that are never freed. */
#ifndef HEAPCOUNT_H_
#define HEAPCOUNT_H_
#include <stddef.h>
void hc_begin(void);
/* returns the number of allocations made since hc_begin() that are still live; fills first pointer/size */
long hc_end(const void **first_p, size_t *size_p);
void hc_pause(int delta);   /* harness-internal allocations are not counted while paused */
#endif

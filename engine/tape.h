/* Tape reader: every byte string decodes to a finite structured case
 * (exhausted tape yields zeros; byte 0 is always the simplest choice). */
#ifndef TAPE_H_
#define TAPE_H_
#include <stdint.h>
#include <stddef.h>
#include <string.h>
#include <stdbool.h>

struct tape { const uint8_t *p; size_t len, pos; };

static inline void tp_init(struct tape *t, const uint8_t *p, size_t len)
{ t->p = p; t->len = len; t->pos = 0; }
static inline size_t tp_left(const struct tape *t)
{ return t->pos < t->len ? t->len - t->pos : 0; }
static inline bool tp_done(const struct tape *t) { return t->pos >= t->len; }
static inline uint8_t tp_u8(struct tape *t)
{ return t->pos < t->len ? t->p[t->pos++] : (t->pos++, 0); }
static inline uint16_t tp_u16(struct tape *t)
{ uint16_t a = tp_u8(t); return a | ((uint16_t)tp_u8(t) << 8); }
static inline uint32_t tp_u32(struct tape *t)
{ uint32_t a = tp_u16(t); return a | ((uint32_t)tp_u16(t) << 16); }
static inline uint64_t tp_u64(struct tape *t)
{ uint64_t a = tp_u32(t); return a | ((uint64_t)tp_u32(t) << 32); }
static inline bool tp_bool(struct tape *t) { return tp_u8(t) & 1; }
/* uniform-ish in [lo, hi], lo for byte 0 */
static inline int64_t tp_range(struct tape *t, int64_t lo, int64_t hi)
{
    if (hi <= lo) return lo;
    uint64_t span = (uint64_t)(hi - lo) + 1;
    uint64_t v;
    if (span <= 0x100) v = tp_u8(t);
    else if (span <= 0x10000) v = tp_u16(t);
    else if (span <= 0x100000000ULL) v = tp_u32(t);
    else v = tp_u64(t);
    return lo + (int64_t)(v % span);
}
static inline unsigned tp_pick(struct tape *t, unsigned n)
{ return n <= 1 ? 0 : (unsigned)tp_range(t, 0, n - 1); }
static inline void tp_bytes(struct tape *t, uint8_t *dst, size_t n)
{ for (size_t i = 0; i < n; i++) dst[i] = tp_u8(t); }

/* Boundary-biased offset into an object of `size` bytes whose interesting
 * internal boundaries are bnd[0..nb-1]. Selector 0 => 0. */
static inline int64_t tp_off(struct tape *t, int64_t size, const int64_t *bnd, int nb)
{
    uint8_t sel = tp_u8(t);
    switch (sel % 16) {
    case 0: return 0;
    case 1: return 1;
    case 2: return size - 1;
    case 3: return size;
    case 4: return size + 1;
    case 5: return -1;
    case 6: return -size;
    case 7: return -size - 1;
    case 8: case 9: case 10:
        if (nb > 0) { int64_t b = bnd[(sel / 16) % nb]; return b + (int)(sel % 16) - 9; }
        /* fallthrough */
    case 11: return size > 0 ? tp_range(t, 0, size - 1) : 0;
    case 12: return size > 0 ? -tp_range(t, 1, size) : 0;
    case 13: return size / 2;
    case 14: return tp_range(t, 0, size + 8);
    default: return size > 0 ? tp_range(t, 0, size - 1) : 0;
    }
}
/* Boundary-biased length for a range starting at off (already normalised, may be out of range) */
static inline int64_t tp_len(struct tape *t, int64_t size, int64_t off)
{
    uint8_t sel = tp_u8(t);
    int64_t rest = size - off;
    switch (sel % 12) {
    case 0: return -1;
    case 1: return 0;
    case 2: return 1;
    case 3: return rest;
    case 4: return rest - 1;
    case 5: return rest + 1;
    case 6: return size;
    case 7: return rest > 0 ? tp_range(t, 0, rest) : 0;
    case 8: return rest / 2;
    case 9: return -2;
    case 10: return tp_range(t, 0, size + 8);
    default: return rest > 0 ? tp_range(t, 1, rest) : 1;
    }
}
#endif

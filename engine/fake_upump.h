/* Harness-owned event loop: a upump manager built on upump_common exactly as upump_ev is,
 * with virtual time and virtual event descriptors (UPIPE_VERIF hook). One "step" dispatches
 * one callback; which one is the caller's (the tape's) choice among the runnable pumps. */
#ifndef FAKE_UPUMP_H_
#define FAKE_UPUMP_H_
#include "upipe/ubase.h"
#include "upipe/upump.h"
#include "upipe/uclock.h"

struct upump_mgr *fake_upump_mgr_alloc(uint16_t pool_depth, uint16_t blocker_pool_depth);
/* number of pumps currently allocated / active (started and not blocked) */
int fake_upump_count(struct upump_mgr *mgr);
/* watchers of the loop that were allocated with this opaque (pipes pass themselves) */
int fake_upump_count_opaque(struct upump_mgr *mgr, void *opaque);
int fake_upump_active(struct upump_mgr *mgr);
/* number of pumps that may fire now (ready fd pumps, due timers; idlers only when nothing else is ready) */
int fake_upump_runnable(struct upump_mgr *mgr);
/* dispatch the choice-th runnable pump (choice taken modulo the number); false if none runnable */
bool fake_upump_step(struct upump_mgr *mgr, unsigned choice);
/* advance virtual time to the earliest active timer's deadline (if any); returns false if no active timer */
bool fake_upump_advance(struct upump_mgr *mgr);
/* advance virtual time by delta ticks without firing */
void fake_upump_sleep(struct upump_mgr *mgr, uint64_t delta);
uint64_t fake_upump_now(struct upump_mgr *mgr);
/* which loop is currently dispatching a callback (NULL if none) */
struct upump_mgr *fake_upump_current(void);
/* global reset of the virtual event descriptors (top of every case) */
void fake_eventfd_reset(void);
int fake_eventfd_live(void);

/* ---- added for harness/pipes_hold.c: a harness-owned *source* pump (allocated on this loop with the ordinary
 * upump_alloc_* calls, typically an fd-read pump on a real descriptor, which the fake loop never finds ready by
 * itself) is fired explicitly by the harness, which plays the part of the event source ---- */
/* true if the pump is started and no blocker is registered on it (it would fire if its event came) */
bool fake_upump_pump_active(struct upump *upump);
/* dispatch this very pump now, exactly as the loop would (upump_common_dispatch); false (and nothing done) if it is not active */
bool fake_upump_fire(struct upump *upump);
/* number of blockers currently registered on the pump */
int fake_upump_pump_blockers(struct upump *upump);
/* number of active timers of the loop / earliest deadline among them (UINT64_MAX if none) */
int fake_upump_timers(struct upump_mgr *mgr, uint64_t *earliest_p);

/* ---- added for harness/C06_queue.c (real loop thread): what upump_mgr_run() does on a fake loop is the harness' business;
 * the callback runs on the calling thread and its return value is upump_mgr_run's (global, reset it to NULL after the case) ---- */
struct umutex;
void fake_upump_set_run_cb(int (*cb)(struct upump_mgr *mgr, struct umutex *mutex, void *opaque), void *opaque);

/* fake clock bound to a loop's virtual time */
struct uclock *fake_uclock_alloc(struct upump_mgr *mgr, uint64_t offset);
#endif

#!/usr/bin/env python3
"""Regenerates MANIFEST.json from engine/targets.py (claimed checks) + engine/manifest_meta.py."""
import json, os, sys, subprocess
here = os.path.dirname(os.path.abspath(__file__))
sys.path.insert(0, here)
import targets, manifest_meta as mm
props = [json.loads(l) for l in open(os.path.join(here, "..", "properties.jsonl"))]
checks = []
na = []
for p in props:
    pid = p["id"]
    if pid in targets.TARGETS and pid in mm.CLAIMED:
        m = targets.META[pid]
        checks.append({
            "property_id": pid,
            "quick_cmd": "bin/check %s --tier quick" % pid,
            "thorough_cmd": "bin/check %s --tier thorough" % pid,
            "evidence_file": "evidence/%s.json" % pid,
            "replay_cmd_template": "bin/check %s --replay {path}" % pid,
            "engine": m.get("engine", "tape-executor"),
            "level_claimed": {"category": targets.TARGETS[pid].get("level", "exploration"), "text": m["text"], "design_ref": m["design_ref"]},
            "level_note": m["note"],
            "technique": m["technique"],
        })
    else:
        na.append({"property_id": pid, "reason": mm.NOT_YET.get(pid, "check not built yet in this tree; see DESIGN.md section 10 for the build order")})
try:
    out = subprocess.run(["git", "-C", "/repo", "log", "--grep", "^verif hook", "--format=%h %s"], stdout=subprocess.PIPE).stdout.decode().strip().splitlines()
    if out:
        mm.HOOKS["source_commits"] = out[::-1]
except Exception:
    pass
man = {
    "version": 1,
    "setup_cmd": "bin/setup",
    "hooks": mm.HOOKS,
    "engines": mm.ENGINES,
    "checks": checks,
    "notes": mm.NOTES,
    "not_applicable": na,
}
json.dump(man, open(os.path.join(here, "..", "MANIFEST.json"), "w"), indent=1)
print("checks:", len(checks), "not claimed:", len(na))

#include "heapcount.h"
#include <stdint.h>
#include <string.h>

int __sanitizer_install_malloc_and_free_hooks(void (*malloc_hook)(const volatile void *, size_t),
                                              void (*free_hook)(const volatile void *));

#define HC_SLOTS (1u << 16)
static struct { const volatile void *p; size_t size; } tab[HC_SLOTS];
static int installed, tracking, paused;
static long live, overflow;

static unsigned slot_of(const volatile void *p) { return ((uintptr_t)p >> 4) * 2654435761u & (HC_SLOTS - 1); }

/* the hooks may run on two threads (C06 real loop thread: the C library frees thread-local blocks at thread exit) */
static volatile int hc_lock;
static void lock(void) { while (__atomic_exchange_n(&hc_lock, 1, __ATOMIC_ACQUIRE)) ; }
static void unlock(void) { __atomic_store_n(&hc_lock, 0, __ATOMIC_RELEASE); }

static void on_malloc(const volatile void *p, size_t size)
{
    if (!tracking || paused || p == NULL) return;
    lock();
    unsigned s = slot_of(p);
    for (unsigned i = 0; i < HC_SLOTS; i++, s = (s + 1) & (HC_SLOTS - 1))
        if (tab[s].p == NULL || tab[s].p == (void *)1) { tab[s].p = p; tab[s].size = size; live++; unlock(); return; }
    overflow++;
    unlock();
}

static void on_free(const volatile void *p)
{
    if (!tracking || p == NULL) return;
    lock();
    unsigned s = slot_of(p);
    for (unsigned i = 0; i < HC_SLOTS; i++, s = (s + 1) & (HC_SLOTS - 1)) {
        if (tab[s].p == p) { tab[s].p = (void *)1; live--; break; }
        if (tab[s].p == NULL) break;
    }
    unlock();
}

void hc_pause(int delta) { paused += delta; }

void hc_begin(void)
{
    if (!installed) { __sanitizer_install_malloc_and_free_hooks(on_malloc, on_free); installed = 1; }
    memset(tab, 0, sizeof(tab));
    live = 0; overflow = 0; paused = 0;
    tracking = 1;
}

long hc_end(const void **first_p, size_t *size_p)
{
    tracking = 0;
    if (overflow) return 0;
    if (live > 0 && first_p)
        for (unsigned s = 0; s < HC_SLOTS; s++)
            if (tab[s].p != NULL && tab[s].p != (void *)1) { *first_p = (const void *)tab[s].p; if (size_p) *size_p = tab[s].size; break; }
    return live;
}

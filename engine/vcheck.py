#!/usr/bin/env python3
"""bin/check driver: build from $VERIF_REPO, replay corpus, generated search, triage, evidence.
Python 3 standard library only."""
import os, sys, json, time, subprocess, hashlib, shutil, struct, re, glob, signal
from concurrent.futures import ThreadPoolExecutor

VERIF = os.path.dirname(os.path.dirname(os.path.abspath(__file__)))
REPO = os.environ.get("VERIF_REPO", "/repo")
BUILD = os.path.join(VERIF, "build")
NCPU = int(os.environ.get("VERIF_JOBS", os.cpu_count() or 8))
sys.path.insert(0, os.path.join(VERIF, "engine"))
import targets  # noqa: E402

CC = "clang"
CXX = "clang++"
CCACHE = shutil.which("ccache")
os.environ.setdefault("CCACHE_DIR", os.path.join(BUILD, "ccache"))
os.environ.setdefault("CCACHE_MAXSIZE", "2G")

ASAN_ENV = "quarantine_size_mb=16:thread_local_quarantine_size_kb=256:exitcode=99:abort_on_error=0:detect_leaks=0:allocator_may_return_null=1:detect_stack_use_after_return=0:handle_abort=1:malloc_context_size=12"
ASAN_ENV_REPLAY = ASAN_ENV.replace("detect_leaks=0", "detect_leaks=1")


def log(*a):
    print(*a, file=sys.stderr, flush=True)


def run(cmd, **kw):
    return subprocess.run(cmd, stdout=subprocess.PIPE, stderr=subprocess.PIPE, **kw)


def base_cflags(san):
    fl = ["-g", "-O1", "-fno-omit-frame-pointer", "-std=gnu99", "-D_GNU_SOURCE", "-DHAVE_CONFIG_H",
          "-DUPIPE_VERIF", "-Wno-everything",
          "-I" + os.path.join(REPO, "include"), "-I" + REPO, "-I" + os.path.join(REPO, "lib"),
          "-I" + os.path.join(VERIF, "engine"), "-I" + os.path.join(VERIF, "shim")]
    if os.environ.get("VERIF_COV"):
        # development aid (bin/anchorcov): source-based coverage of the repository code the executors run
        fl += ["-fprofile-instr-generate", "-fcoverage-mapping"]
    if san == "asan":
        fl += ["-fsanitize=address"]
    elif san == "tsan":
        fl += ["-fsanitize=thread"]
    elif san == "asan-fuzz":
        fl += ["-fsanitize=address,fuzzer-no-link"]
    return fl


def compile_one(args):
    src, obj, flags = args
    os.makedirs(os.path.dirname(obj), exist_ok=True)
    # written under a private name and renamed: several checks may build the same object at the same time
    tmp = "%s.%d.tmp.o" % (obj, os.getpid())
    cmd = ([CCACHE] if CCACHE else []) + [CC] + flags + ["-c", src, "-o", tmp]
    r = run(cmd)
    if r.returncode != 0:
        try:
            os.unlink(tmp)
        except OSError:
            pass
        return (src, r.stderr.decode(errors="replace"))
    os.replace(tmp, obj)
    return None


KEEP_BINARIES = False     # --build-only: the binary is the product, keep it under its plain name


def build_exec(pid, ex, san=None, fuzz=False):
    """Compile harness + engine + listed repo sources from REPO; link with the cached driver."""
    san = san or ex.get("san", "asan")
    if fuzz:
        san = "asan-fuzz"
    flags = base_cflags(san) + ex.get("cflags", [])
    eflags = flags
    if ex.get("fault_malloc"):
        # allocation fault injection: the repository sources and the harness (which holds the inline functions of the
        # repository headers) allocate through engine/faultmalloc.c; the engine files keep the C library's functions
        flags = flags + ["-include", "faultmalloc.h"]
    tag = hashlib.sha1((" ".join(flags) + REPO).encode()).hexdigest()[:10]
    objdir = os.path.join(BUILD, "obj", tag)
    jobs = []
    objs = []
    for rel in ex["repo"]:
        src = os.path.join(REPO, rel)
        if not os.path.exists(src):
            raise SystemExit("INTERNAL: missing source %s" % src)
        obj = os.path.join(objdir, "repo", rel[:-2] + ".o")
        jobs.append((src, obj, flags))
        objs.append(obj)
    for rel in [ex["harness"]] + ex.get("engine", []) + ["engine/vp_util.c", "engine/verif_rt.c"] + \
            (["engine/faultmalloc.c"] if ex.get("fault_malloc") else []):
        src = os.path.join(VERIF, rel)
        obj = os.path.join(objdir, "verif", rel[:-2] + ".o")
        jobs.append((src, obj, flags if rel == ex["harness"] else eflags))
        objs.append(obj)
    with ThreadPoolExecutor(NCPU) as tp:
        errs = [e for e in tp.map(compile_one, jobs) if e]
    if errs:
        for src, err in errs[:3]:
            log("COMPILE ERROR in", src, "\n", err[-3000:])
        raise SystemExit("INTERNAL: build of %s/%s failed (the tree does not compile?)" % (pid, ex["name"]))
    outdir = os.path.join(BUILD, pid)
    os.makedirs(outdir, exist_ok=True)
    binpath = os.path.join(outdir, ex["name"] + ("-fuzz" if fuzz else "") + "-" + tag)
    sanflag = {"asan": ["-fsanitize=address"], "tsan": ["-fsanitize=thread"], "none": [],
               "asan-fuzz": ["-fsanitize=address,fuzzer"]}[san]
    if fuzz:
        drv = driver_obj("fuzz_entry", san)
    else:
        drv = driver_obj("rc_driver", san)
    if not KEEP_BINARIES:
        binpath = "%s.%d" % (binpath, os.getpid())   # one binary per invocation: never replaced while another run executes it
    if os.environ.get("VERIF_COV"):
        sanflag = sanflag + ["-fprofile-instr-generate"]
    cmd = [CXX, "-g"] + sanflag + objs + [drv, "-o", binpath] + ([] if fuzz else ["-lrapidcheck"]) + \
          ["-lpthread", "-lm"] + ex.get("libs", [])
    r = run(cmd)
    if r.returncode != 0:
        log(r.stderr.decode(errors="replace")[-4000:])
        raise SystemExit("INTERNAL: link of %s/%s failed" % (pid, ex["name"]))
    if not KEEP_BINARIES:
        import atexit
        atexit.register(lambda p=binpath: os.path.exists(p) and os.unlink(p))
    return binpath


def driver_obj(name, san):
    """The C++ driver object is independent of /repo: cached per sanitizer."""
    d = os.path.join(BUILD, "driver")
    os.makedirs(d, exist_ok=True)
    ext = ".cpp" if name == "rc_driver" else ".c"
    src = os.path.join(VERIF, "engine", name + ext)
    h = hashlib.sha1(open(src, "rb").read() + open(os.path.join(VERIF, "engine", "vp.h"), "rb").read()).hexdigest()[:10]
    obj = os.path.join(d, "%s-%s-%s.o" % (name, san, h))
    if os.path.exists(obj):
        return obj
    sanflag = {"asan": ["-fsanitize=address"], "tsan": ["-fsanitize=thread"], "none": [],
               "asan-fuzz": ["-fsanitize=address"]}[san]
    if ext == ".cpp":
        cmd = [CXX, "-std=gnu++17", "-g", "-O1"] + sanflag + ["-I" + os.path.join(VERIF, "engine"), "-c", src, "-o", obj + ".tmp.o"]
    else:
        cmd = [CC, "-g", "-O1"] + sanflag + ["-I" + os.path.join(VERIF, "engine"), "-c", src, "-o", obj + ".tmp.o"]
    r = run(cmd)
    if r.returncode != 0:
        log(r.stderr.decode(errors="replace")[-4000:])
        raise SystemExit("INTERNAL: cannot build driver " + name)
    os.replace(obj + ".tmp.o", obj)
    return obj


# ---------------------------------------------------------------- replay / keys

KEY_RE = re.compile(r"^KEY: (.*)$", re.M)
MSG_RE = re.compile(r"^MSG: (.*)$", re.M)


def frame_func(text):
    """first stack frame that lies in the repository (or harness) sources"""
    for m in re.finditer(r"#\d+ 0x[0-9a-f]+ in (\S+) (\S+)", text):
        fn, loc = m.group(1), m.group(2)
        if "/repo/" in loc or REPO in loc or "/verif/" in loc:
            if fn.startswith("__") or "sanitizer" in loc:
                continue
            return fn
    return "?"


def classify_output(rc, out, err):
    """-> (status, key, msg); status 0 ok, 1 violation, 2 internal"""
    text = out + "\n" + err
    m = re.search(r"([\w./-]+):(\d+): (\S+): Assertion `(.*)' failed", text)
    if m:
        return 1, "ASSERT/%s/%s" % (os.path.basename(m.group(1)), m.group(3)), m.group(0)
    m = re.search(r"ERROR: AddressSanitizer: ([a-zA-Z0-9_-]+)", text)
    if m:
        kind = m.group(1)
        return 1, "ASAN/%s/%s" % (kind, frame_func(text[m.start():])), text[m.start():m.start() + 1500]
    m = re.search(r"ERROR: LeakSanitizer: detected memory leaks", text)
    if m:
        return 1, "LSAN/leak/%s" % frame_func(text[m.start():]), text[m.start():m.start() + 1500]
    m = re.search(r"WARNING: ThreadSanitizer: ([a-zA-Z0-9 _()-]+)", text)
    if m:
        return 1, "TSAN/%s/%s" % (m.group(1).strip().replace(" ", "-"), frame_func(text[m.start():])), text[m.start():m.start() + 2500]
    m = re.search(r"([\w./-]+):(\d+): (\S+): Assertion `(.*)' failed", text)
    if m:
        return 1, "ASSERT/%s/%s" % (os.path.basename(m.group(1)), m.group(3)), m.group(0)
    k = KEY_RE.search(out)
    if rc == 1 and k:
        mm = MSG_RE.search(out)
        return 1, k.group(1), mm.group(1) if mm else ""
    if rc == 2:
        mm = MSG_RE.search(out)
        return 2, "INTERNAL", (mm.group(1) if mm else "") + err[-500:]
    if rc == 0:
        return 0, "", ""
    if rc == 96:
        return 1, "HANG", "case exceeded the 20 s CPU-time guard"
    if rc < 0:
        return 1, "SIGNAL/%d" % (-rc), "killed by signal %d\n%s" % (-rc, err[-800:])
    return 2, "INTERNAL", "unexpected exit status %d\n%s" % (rc, err[-800:])


def replay(binpath, tape, extra=(), timeout=60, render=False, env_extra=None):
    env = dict(os.environ)
    env["ASAN_OPTIONS"] = ASAN_ENV_REPLAY
    env["TSAN_OPTIONS"] = "exitcode=98 " + env.get("TSAN_OPTIONS", "")
    if env_extra:
        env.update(env_extra)
    cmd = [binpath, "--replay", tape] + (["--render"] if render else []) + list(extra)
    try:
        r = subprocess.run(cmd, stdout=subprocess.PIPE, stderr=subprocess.PIPE, timeout=timeout, env=env)
    except subprocess.TimeoutExpired as e:
        return 1, "HANG", "no termination within %d s" % timeout, (e.stdout or b"").decode(errors="replace")
    out = r.stdout.decode(errors="replace")
    err = r.stderr.decode(errors="replace")
    st, key, msg = classify_output(r.returncode, out, err)
    return st, key, msg, out


def coarse(key):
    """failure keys are compared without trailing detail after the third component"""
    return "/".join(key.split("/")[:3])


def minimise(binpath, tape_path, key, extra=(), budget_s=90, hang_timeout=20):
    """ddmin on the byte string + byte lowering, requiring the same (coarse) failure key."""
    data = open(tape_path, "rb").read()
    tmp = tape_path + ".min"
    t0 = time.time()
    tests = [0]
    tmo = hang_timeout if key == "HANG" else 60

    def fails(cand):
        if time.time() - t0 > budget_s:
            return False
        tests[0] += 1
        p = "%s.%d" % (tmp, os.getpid())
        with open(p, "wb") as f:
            f.write(cand)
        st, k, _, _ = replay(binpath, p, extra, timeout=tmo)
        os.unlink(p)
        return st == 1 and coarse(k) == coarse(key)

    for _pass in range(3):
        before = data
        n = 2
        while len(data) >= 1 and time.time() - t0 < budget_s:
            chunk = max(1, len(data) // n)
            reduced = False
            i = 0
            while i < len(data):
                cand = data[:i] + data[i + chunk:]
                if fails(cand):
                    data = cand
                    reduced = True
                    n = max(n - 1, 2)
                else:
                    i += chunk
            if not reduced:
                if chunk == 1:
                    break
                n = min(n * 2, len(data))
        # lower byte values: 0, then bisect towards the smallest failing value
        for i in range(len(data)):
            if time.time() - t0 > budget_s:
                break
            b = data[i]
            if b == 0:
                continue
            if fails(data[:i] + b"\0" + data[i + 1:]):
                data = data[:i] + b"\0" + data[i + 1:]
                continue
            lo, hi = 0, b      # lo passes, hi fails
            while hi - lo > 1:
                mid = (lo + hi) // 2
                if fails(data[:i] + bytes([mid]) + data[i + 1:]):
                    hi = mid
                else:
                    lo = mid
            data = data[:i] + bytes([hi]) + data[i + 1:]
        if data == before:
            break
    # strip trailing zeros (equivalent to an exhausted tape) if still failing
    stripped = data.rstrip(b"\0")
    if stripped != data and fails(stripped):
        data = stripped
    return data, tests[0]


# ---------------------------------------------------------------- known findings

def load_findings(pid):
    p = os.path.join(VERIF, "known_findings.json")
    if not os.path.exists(p):
        return []
    return [f for f in json.load(open(p)) if f.get("property") == pid]


# ---------------------------------------------------------------- evidence

def write_evidence(pid, tier, seed, tgt, cov, wall, violations, assumptions):
    ev = {
        "property_id": pid, "tier": tier, "seed": seed, "level": tgt.get("level", "exploration"),
        "coverage": cov, "assumptions": assumptions, "wall_s": round(wall, 2), "violations": violations,
    }
    os.makedirs(os.path.join(VERIF, "evidence"), exist_ok=True)
    path = os.path.join(VERIF, "evidence", pid + ".json")
    if os.path.realpath(REPO) != "/repo":
        # sensitivity trial on a scratch copy: never overwrite the evidence of the real tree
        os.makedirs(os.path.join(BUILD, pid), exist_ok=True)
        path = os.path.join(BUILD, pid, "evidence-trial.json")
    with open(path + ".tmp", "w") as f:
        json.dump(ev, f, indent=1)
    os.replace(path + ".tmp", path)


# ---------------------------------------------------------------- main search

def save_violation(pid, binpath, ex, tape_path, key, msg, extra=()):
    """minimise, replay 3x, store under replays/<pid>/, return (path, confirmed) """
    data, ntests = minimise(binpath, tape_path, key, extra)
    h = hashlib.sha1(data).hexdigest()[:10]
    safe = re.sub(r"[^A-Za-z0-9_.-]+", "_", key)[:60]
    d = os.path.join(VERIF, "replays", pid, "found")
    os.makedirs(d, exist_ok=True)
    out = os.path.join(d, "%s-%s-%s.tape" % (ex["name"], safe, h))
    with open(out, "wb") as f:
        f.write(data)
    fails = 0
    text = ""
    for _ in range(3):
        st, k, m, o = replay(binpath, out, extra, render=True, timeout=20 if key == "HANG" else 60)
        if st == 1:
            fails += 1
            text = "executor: %s\nkey: %s\nmsg: %s\n\n%s" % (ex["name"], k, m, o)
    with open(out[:-5] + ".txt", "w") as f:
        f.write(text or "did not reproduce\n")
    return out, fails, ntests


def run_workers(pid, ex, binpath, tier, seed, nworkers, cases, budget, first_worker, flags):
    outdir = os.path.join(BUILD, pid, "run-%s-%d" % (ex["name"], os.getpid()))
    shutil.rmtree(outdir, ignore_errors=True)
    os.makedirs(outdir)
    import atexit
    atexit.register(shutil.rmtree, outdir, True)
    procs = []
    for i in range(nworkers):
        w = first_worker + i
        env = dict(os.environ)
        env["RC_PARAMS"] = "seed=%d max_success=%d max_size=100 max_discard_ratio=100 noshrink=0" % (seed * 1000 + w + 1, cases)
        env["ASAN_OPTIONS"] = ASAN_ENV
        cmd = [binpath, "--rc", "--out", outdir, "--worker", str(w), "--budget", str(budget)] + flags
        lf = open(os.path.join(outdir, "worker-%d.log" % w), "wb")
        procs.append((w, subprocess.Popen(cmd, stdout=lf, stderr=subprocess.STDOUT, env=env), lf))
    deadline = time.time() + budget * 4 + 120
    results = []
    for w, p, lf in procs:
        try:
            rc = p.wait(timeout=max(1, deadline - time.time()))
            hang = False
        except subprocess.TimeoutExpired:
            p.kill()
            p.wait()
            rc, hang = None, True
        lf.close()
        results.append((w, rc, hang))
    return outdir, results



def run_fuzz(pid, ex, tier, seed, jobs, secs, normal_bin):
    """coverage-guided campaign with libFuzzer over the same executor; returns (stats dict, hashes set, [failing tapes])"""
    try:
        info = run([normal_bin, "--info"]).stdout.decode().split()
        tape_max = int(info[2])
    except Exception:
        tape_max = 256
    binpath = build_exec(pid, ex, fuzz=True)
    outdir = os.path.join(BUILD, pid, "fuzz-%s-%d" % (ex["name"], os.getpid()))
    shutil.rmtree(outdir, ignore_errors=True)
    os.makedirs(outdir)
    import atexit
    atexit.register(shutil.rmtree, outdir, True)
    seeds = os.path.join(outdir, "seeds")
    os.makedirs(seeds)
    for t in glob.glob(os.path.join(VERIF, "replays", pid, ex["name"] + "-*.tape")):
        shutil.copy(t, seeds)
    with open(os.path.join(seeds, "empty"), "wb"):
        pass
    procs = []
    for j in range(jobs):
        corpus = os.path.join(outdir, "corpus-%d" % j)
        os.makedirs(corpus)
        env = dict(os.environ)
        env["VP_FUZZ_OUT"] = outdir
        env["ASAN_OPTIONS"] = ASAN_ENV
        if tier == "thorough":
            env["VP_FUZZ_THOROUGH"] = "1"
        cmd = [binpath, corpus, seeds, "-seed=%d" % (seed * 100 + j + 1), "-max_total_time=%d" % secs,
               "-max_len=%d" % max(64, tape_max * 2), "-artifact_prefix=%s/job%d-" % (outdir, j),
               "-detect_leaks=0", "-verbosity=0", "-print_final_stats=0", "-timeout=25", "-rss_limit_mb=3000"]
        lf = open(os.path.join(outdir, "job%d.log" % j), "wb")
        procs.append((subprocess.Popen(cmd, stdout=lf, stderr=subprocess.STDOUT, env=env), lf))
    for p, lf in procs:
        try:
            p.wait(timeout=secs * 3 + 120)
        except subprocess.TimeoutExpired:
            p.kill()
            p.wait()
        lf.close()
    st = {"jobs": jobs, "seconds": secs, "cases": 0, "nontrivial": 0, "class_counts": {}, "ignored_artifacts": 0}
    hashes = set()
    for jp in glob.glob(os.path.join(outdir, "fuzz-*.json")):
        try:
            js = json.load(open(jp))
        except Exception:
            continue
        st["cases"] += js["cases"]
        st["nontrivial"] += js["nontrivial"]
        for k, v in js["class_counts"].items():
            st["class_counts"][k] = st["class_counts"].get(k, 0) + v
        hp = jp[:-5] + ".hashes"
        if os.path.exists(hp):
            b = open(hp, "rb").read()
            for (v,) in struct.iter_unpack("<Q", b[:len(b) // 8 * 8]):
                hashes.add((ex["name"], v))
    fails = glob.glob(os.path.join(outdir, "job*-crash-*")) + glob.glob(os.path.join(outdir, "job*-leak-*")) + \
        glob.glob(os.path.join(outdir, "fail-*.tape"))
    st["ignored_artifacts"] = len(glob.glob(os.path.join(outdir, "job*-timeout-*")) + glob.glob(os.path.join(outdir, "job*-oom-*")) +
                                  glob.glob(os.path.join(outdir, "job*-slow-unit-*")))
    return st, hashes, fails


def check(pid, tier, seed):
    tgt = targets.TARGETS[pid]
    t0 = time.time()
    violations = []   # (replay path, key, msg)
    known_lines = []
    internal = []
    findings = load_findings(pid)
    cov = {"evaluations": 0, "distinct_nontrivial": 0, "rule": tgt["rule"], "samples": [],
           "class_counts": {}, "executors": {}, "replayed_regression_tapes": 0, "excluded_by_open_findings": 0,
           "skipped_for_time_budget": 0, "seeds": []}
    tcfg = tgt[tier]
    nexec = len(tgt["execs"])
    allhashes = set()
    worker_base = 0
    only = [x for x in os.environ.get("VERIF_EXECS", "").split(",") if x]    # development aid: restrict to some executors
    for ex in tgt["execs"]:
        if only and ex["name"] not in only:
            continue
        binpath = build_exec(pid, ex)
        flags = ["--thorough"] if tier == "thorough" else []
        # -- 1. regression tapes (fixed findings + earlier discoveries) and open findings
        rdir = os.path.join(VERIF, "replays", pid)
        open_tapes = {os.path.join(VERIF, f["replay"]): f for f in findings
                      if f.get("status") == "open" and f.get("replay") and f.get("executor", ex["name"]) == ex["name"]}
        for tape in sorted(glob.glob(os.path.join(rdir, ex["name"] + "-*.tape"))):
            if tape in open_tapes:
                continue
            st, key, msg, _ = replay(binpath, tape, flags)
            cov["replayed_regression_tapes"] += 1
            if st == 1:
                violations.append((tape, key, msg, ex["name"]))
            elif st == 2:
                internal.append("replay %s: %s" % (tape, msg))
        for tape, f in open_tapes.items():
            st, key, msg, _ = replay(binpath, tape, flags + ["--no-exclude"])
            # an open finding is identified by its failure key and, for sanitizer reports, by the functions that must be
            # on the reported stack (the call site): anything else failing on that tape is a different violation
            same = st == 1 and coarse(key) == coarse(f.get("failure_key", key)) and \
                all(fn in msg for fn in f.get("stack_contains", []))
            if same:
                known_lines.append("KNOWN-FINDING: property=%s %s" % (pid, f["what"]))
            elif st == 1:
                violations.append((tape, key, msg, ex["name"]))
        # -- 2. extra modes (bounded enumeration etc.)
        for xm in ex.get("extra", {}).get(tier, []):
            xout = os.path.join(BUILD, pid, "extra-%s-%d" % (ex["name"], os.getpid()))
            os.makedirs(xout, exist_ok=True)
            import atexit
            atexit.register(shutil.rmtree, xout, True)
            env = dict(os.environ)
            env["ASAN_OPTIONS"] = ASAN_ENV
            r = subprocess.run([binpath, "--extra"] + xm + ["--out", xout, "--seed", str(seed)],
                               stdout=subprocess.PIPE, stderr=subprocess.PIPE, env=env)
            out = r.stdout.decode(errors="replace")
            try:
                js = json.loads(out[out.index("{"):out.rindex("}") + 1])
            except Exception:
                js = None
            if js is None or r.returncode not in (0, 1):
                internal.append("extra mode %s: rc=%s %s" % (xm, r.returncode, (out + r.stderr.decode(errors="replace"))[-600:]))
                continue
            cov.setdefault("enumerations", []).append(js)
            cov["evaluations"] += js.get("evaluations", 0)
            for hh in js.get("nontrivial_hashes", []):
                allhashes.add(("x", ex["name"], hh))
            js.pop("nontrivial_hashes", None)
            if "distinct_nontrivial" in js:
                cov["extra_distinct_nontrivial"] = cov.get("extra_distinct_nontrivial", 0) + js["distinct_nontrivial"]
            if js.get("exhaustive"):
                cov["exhaustive_subspaces"] = cov.get("exhaustive_subspaces", []) + [js.get("space", " ".join(xm))]
            if r.returncode == 1 and js.get("failure"):
                violations.append((js["failure"]["tape"], js["failure"]["key"], js["failure"]["msg"], ex["name"]))
        # -- 3. generated search
        nworkers = max(1, int(ex.get("share", 1.0 / nexec) * NCPU + 0.5)) if tcfg.get("workers") is None else tcfg["workers"]
        cases = int(tcfg["cases"] * ex.get("case_scale", 1.0))
        if cases <= 0:
            continue
        outdir, results = run_workers(pid, ex, binpath, tier, seed, nworkers, cases,
                                      tcfg["budget"], worker_base, flags)
        exstat = {"workers": nworkers, "cases": 0, "nontrivial": 0, "class_counts": {}}
        for w, rc, hang in results:
            cov["seeds"].append(seed * 1000 + w + 1)
            jpath = os.path.join(outdir, "worker-%d.json" % w)
            js = json.load(open(jpath)) if os.path.exists(jpath) else None
            if js:
                exstat["cases"] += js["cases"]
                exstat["nontrivial"] += js["nontrivial"]
                cov["excluded_by_open_findings"] += js["excluded"]
                cov["skipped_for_time_budget"] += js["skipped_budget"]
                for k, v in js["class_counts"].items():
                    exstat["class_counts"][k] = exstat["class_counts"].get(k, 0) + v
                # a few rendered cases per executor (not only of the first one)
                if exstat.get("_nsamples", 0) < (2 if nexec > 2 else 3):
                    take = js["samples"][:1] if nexec > 2 else js["samples"][:2]
                    cov["samples"] += ["[%s] %s" % (ex["name"], s) for s in take]
                    exstat["_nsamples"] = exstat.get("_nsamples", 0) + len(take)
                hp = os.path.join(outdir, "worker-%d.hashes" % w)
                if os.path.exists(hp):
                    b = open(hp, "rb").read()
                    for (v,) in struct.iter_unpack("<Q", b[:len(b) // 8 * 8]):
                        allhashes.add((ex["name"], v))
                if js.get("internal"):
                    internal.append("%s worker %d: %s" % (ex["name"], w, js.get("failure", {}).get("msg", "")))
                elif js.get("failure"):
                    violations.append((js["failure"]["tape"], js["failure"]["key"], js["failure"]["msg"], ex["name"]))
            else:
                # crashed or hung: the tape being run is in current-<w>.tape
                cur = os.path.join(outdir, "current-%d.tape" % w)
                logtxt = open(os.path.join(outdir, "worker-%d.log" % w), errors="replace").read()
                early = os.path.join(outdir, "worker-%d.fail.tape" % w)
                st = 0
                if os.path.exists(early):
                    # killed while shrinking a failure it had already found: its best tape so far decides
                    st, key, msg, _ = replay(binpath, early, flags, timeout=30)
                    if st == 1 and not (key == "HANG" and not ex.get("hang_is_violation")):
                        violations.append((early, key, msg, ex["name"]))
                if st == 1:
                    pass
                elif os.path.exists(cur):
                    st, key, msg, _ = replay(binpath, cur, flags, timeout=30)
                    if st == 1:
                        if key == "HANG" and not ex.get("hang_is_violation"):
                            internal.append("%s worker %d hung: %s" % (ex["name"], w, cur))
                        else:
                            violations.append((cur, key, msg, ex["name"]))
                    else:
                        internal.append("%s worker %d died (rc=%s hang=%s) but its last tape passes in isolation; log tail: %s"
                                        % (ex["name"], w, rc, hang, logtxt[-1500:]))
                else:
                    internal.append("%s worker %d died (rc=%s) without a tape; log tail: %s" % (ex["name"], w, rc, logtxt[-1500:]))
        # -- 3b. coverage-guided campaign (libFuzzer) over the same executor
        fz = ex.get("fuzz", None)
        if fz is None:
            fz = {"thorough": (8, 60)} if ex.get("san", "asan") == "asan" else {}
        if fz and tier in fz:
            jobs, secs = fz[tier]
            fst, fh, ffails = run_fuzz(pid, ex, tier, seed, min(jobs, NCPU), secs, binpath)
            exstat["fuzz"] = fst
            cov["evaluations"] += fst["cases"]
            allhashes |= fh
            seenf = set()
            for ft in ffails:
                st_, key, msg, _ = replay(binpath, ft, flags, timeout=30)
                if st_ == 1 and coarse(key) not in seenf and not (key == "HANG" and not ex.get("hang_is_violation")):
                    seenf.add(coarse(key))
                    violations.append((ft, key, msg, ex["name"]))
        exstat.pop("_nsamples", None)
        cov["executors"][ex["name"]] = exstat
        cov["evaluations"] += exstat["cases"]
        for k, v in exstat["class_counts"].items():
            cov["class_counts"]["%s:%s" % (ex["name"], k) if nexec > 1 else k] = v
        worker_base += nworkers
        ex["_bin"] = binpath
        ex["_flags"] = flags

    cov["distinct_nontrivial"] = len(allhashes)
    # -- 4. triage: one report per distinct coarse key
    reported = []
    seen = set()
    exbyname = {e["name"]: e for e in tgt["execs"]}
    for tape, key, msg, exname in violations:
        ck = (exname, coarse(key))
        if ck in seen:
            continue
        seen.add(ck)
        ex = exbyname[exname]
        binpath = ex.get("_bin") or build_exec(pid, ex)
        flags = ex.get("_flags", [])
        path, fails, ntests = save_violation(pid, binpath, ex, tape, key, msg, flags)
        if fails == 3 or (fails > 0 and ex.get("nondeterministic")):
            reported.append((path, key, msg, fails))
        elif fails == 0 and tape.startswith(os.path.join(VERIF, "replays")):
            reported.append((tape, key, msg, 3))
        else:
            internal.append("failure %s (%s) reproduced %d/3 times after minimisation: flaky harness" % (key, tape, fails))
    wall = time.time() - t0
    floor = tcfg.get("floor", 200)
    if not reported and not internal and cov["distinct_nontrivial"] < floor:
        internal.append("only %d distinct non-trivial cases (< floor %d): generator too weak or budget too small"
                        % (cov["distinct_nontrivial"], floor))
    if not cov["samples"]:
        cov["samples"] = ["(no sample rendered)"]
    cov["known_findings_printed"] = len(known_lines)
    write_evidence(pid, tier, seed, tgt, cov, wall, len(reported), tgt.get("assumptions", []))
    for l in known_lines:
        print(l)
    for path, key, msg, fails in reported:
        print("VIOLATION property=%s replay=%s" % (pid, path))
        print("  key=%s reproduced=%d/3" % (key, fails))
        print("  " + msg.replace("\n", "\n  ")[:1500])
    if internal:
        for m in internal:
            print("INTERNAL-ERROR property=%s %s" % (pid, m))
    print("%s %s: %d cases, %d distinct non-trivial, %d violation(s), %.1f s" %
          (pid, tier, cov["evaluations"], cov["distinct_nontrivial"], len(reported), wall))
    if reported:
        return 1
    if internal:
        return 2
    return 0


def do_replay(pid, path):
    tgt = targets.TARGETS[pid]
    base = os.path.basename(path)
    rc = 0
    for ex in tgt["execs"]:
        if len(tgt["execs"]) > 1 and not base.startswith(ex["name"] + "-"):
            continue
        binpath = build_exec(pid, ex)
        st, key, msg, out = replay(binpath, path, render=True)
        print(out)
        if st == 1:
            print("VIOLATION property=%s replay=%s" % (pid, path))
            print("  key=%s\n  %s" % (key, msg))
            rc = 1
        elif st == 2:
            print("INTERNAL-ERROR", msg)
            rc = 2
    return rc


def main():
    import argparse
    ap = argparse.ArgumentParser()
    ap.add_argument("pid")
    ap.add_argument("--tier", default=os.environ.get("VERIF_TIER", "quick"))
    ap.add_argument("--replay")
    ap.add_argument("--build-only", action="store_true")
    a = ap.parse_args()
    if a.pid not in targets.TARGETS:
        raise SystemExit("unknown property " + a.pid)
    try:
        seed = int(os.environ.get("VERIF_SEED", "1") or "1")
    except ValueError:
        seed = 1
    if seed <= 0:
        seed = 1 + (-seed)
    seed = seed % 1000000 or 1
    if a.build_only:
        global KEEP_BINARIES
        KEEP_BINARIES = True
        for ex in targets.TARGETS[a.pid]["execs"]:
            print(build_exec(a.pid, ex))
        return 0
    if a.replay:
        return do_replay(a.pid, a.replay)
    return check(a.pid, a.tier if a.tier in ("quick", "thorough") else "quick", seed)


if __name__ == "__main__":
    sys.exit(main())

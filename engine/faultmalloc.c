#define VP_FAULTMALLOC_IMPL
#include "faultmalloc.h"
#undef malloc
#undef calloc
#undef realloc

static unsigned countdown, refused, seen;

int vp_fault_tick(void);
static int refuse(void) { return vp_fault_tick(); }

/* one allocation of the code under test (malloc family, or a memory area of the counting umem manager): refused? */
int vp_fault_tick(void)
{
    seen++;
    if (countdown && --countdown == 0) { refused++; return 1; }
    return 0;
}

void *vp_fmalloc(size_t size) { return refuse() ? NULL : malloc(size); }
void *vp_fcalloc(size_t n, size_t size) { return refuse() ? NULL : calloc(n, size); }
void *vp_frealloc(void *p, size_t size) { return refuse() ? NULL : realloc(p, size); }
void vp_fault_arm(unsigned nth) { countdown = nth; refused = 0; seen = 0; }
unsigned vp_fault_disarm(void) { countdown = 0; return refused; }
unsigned vp_fault_seen(void) { return seen; }
unsigned vp_fault_refused(void) { return refused; }

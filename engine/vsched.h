/* (named vsched.h, not sched.h: -Iengine would otherwise shadow the system <sched.h>)
 * Deterministic coroutine scheduler for the concurrency properties C07-C09
 * (DESIGN.md 3.2 "enumerating driver", A.5).
 *
 * Logical threads are coroutines running the REAL inline code of the upipe
 * headers compiled with UPIPE_VERIF. upipe_verif_yield() (called by the hooks
 * before every uatomic operation, every plain access to a ring element and
 * every event descriptor read/write) hands control back to the scheduler, so
 * that exactly one shared access happens between two scheduling decisions:
 * the explored executions are the sequentially consistent interleavings at
 * hook granularity. No OS thread, no clock: a run is a pure function of the
 * configuration (tape / prefix).
 *
 * A "step" = the scheduler resumes one enabled thread, which performs the
 * shared access it announced at its last yield and runs up to its next
 * yield / vs_wait / end. Threads are primed (run to their first scheduling
 * point, which happens before any shared access) when vs_run starts.
 */
#ifndef VS_SCHED_H_
#define VS_SCHED_H_
#include <stdint.h>
#include <stddef.h>
#include <stdbool.h>
#include "tape.h"
#include "vp.h"

#define VS_MAX_THREADS   6
#define VS_MAX_FDS       8
#define VS_MAX_OPS       96
#define VS_MAX_STEPS     20000     /* default step bound (livelock => failure) */

/* kinds of scheduling points beyond enum uverif_kind (1..11) */
enum {
    VS_K_START = 0,       /* not used in traces (threads are primed) */
    VS_K_WAKE = 32,       /* thread resumed from vs_wait (descriptor observed readable) */
    VS_K_USER = 33        /* explicit vs_yield() of the harness */
};

enum vs_policy {
    VS_TAPE = 0,   /* next tape byte (only when >1 thread enabled): index into the enabled threads
                      rotated so that 0 = keep running the current thread; with shift s > 0 a byte
                      whose low s bits are not all zero also means "keep running" */
    VS_PCT = 1,    /* random priorities + d priority change points, all from the tape */
    VS_ENUM = 2    /* replay a decision prefix (thread id + 1 per step, 0 = default), then run
                      without preemption: keep the current thread, lowest id when it cannot run */
};

enum vs_result { VS_DONE = 0, VS_DEADLOCK = 1, VS_LIVELOCK = 2, VS_ABORTED = 3, VS_INTERNAL = 4 };

struct vs_config {
    enum vs_policy policy;
    struct tape *tape;          /* VS_TAPE, VS_PCT; VS_ENUM when prefix == NULL (prefix read from the tape) */
    int tape_shift;             /* VS_TAPE: 0, 2, 4 */
    int pct_d;                  /* VS_PCT: number of priority change points (0..3) */
    unsigned pct_est;           /* VS_PCT: estimated run length in steps (change points are drawn below it) */
    const uint8_t *prefix;      /* VS_ENUM */
    size_t prefix_len;
    unsigned step_bound;        /* 0 = VS_MAX_STEPS */
    int (*on_step)(void *);     /* called in scheduler context after every step; non-zero aborts the run */
    void *opaque;
};

/* one logged operation (invocation / response) */
struct vs_op {
    uint8_t  thread;            /* logical thread, 0xff = sequential (outside any coroutine) */
    uint8_t  kind;              /* harness defined */
    uint8_t  obj;               /* harness defined structure id */
    uint8_t  done;              /* response logged */
    uint8_t  started;           /* invocation dated (lazily: at the first shared access) */
    intptr_t arg, ret;
    uint32_t inv_seq, res_seq;  /* position in the total order of invocation/response events */
    uint32_t inv_step, res_step;/* scheduler step index at that event (for the rendering) */
    uint16_t n_access;          /* shared accesses performed inside the operation */
    uint16_t n_cas, n_load;     /* of which compare-exchange / atomic loads */
    uint16_t n_fdr, n_fdw;      /* descriptor reads / writes */
    uint8_t  switched;          /* another thread ran between two accesses of this operation */
};

struct vs_stats {
    unsigned steps;             /* total steps so far in the session */
    unsigned preemptions;       /* switches away from a thread that could have continued */
    unsigned switches;          /* all switches */
    unsigned switch_in_op;      /* switches away from a thread in the middle of an operation */
    unsigned slept_woken;       /* vs_wait that really blocked and was later woken */
    unsigned waits;             /* vs_wait calls */
    unsigned fd_reads, fd_writes;
};

/* ---- session */
void vs_reset(void);                              /* open a session: no thread, no descriptor, empty history */
void vs_end(void);                                /* close it (descriptors are no longer virtualised) */
int  vs_spawn(void (*fn)(void *), void *arg);     /* -> thread id, or -1 */
int  vs_run(const struct vs_config *cfg);         /* -> enum vs_result; may be called again after spawning more threads */

/* schedule source decoded from the tape: one policy byte (0 = byte-per-decision) and its parameter */
void vs_config_from_tape(struct vs_config *cfg, struct tape *t);
const char *vs_policy_name(const struct vs_config *cfg, char *buf, size_t n);

/* ---- from a coroutine (no-ops / sequential behaviour when called outside) */
int  vs_self(void);                               /* thread id or -1 */
void vs_yield(int kind, const volatile void *addr);
void vs_wait(const void *ueventfd);               /* block until the virtual descriptor is readable */
void vs_abort(void);                              /* stop the whole run (oracle failure detected inside a thread) */
int  vs_op_begin(int kind, intptr_t arg, int obj);/* -> index in vs_hist */
void vs_op_end(intptr_t ret);
/* cb(op index) is called (scheduler context) at the instant an operation is dated as invoked, i.e. in the
 * same step as its first shared access; reset by vs_reset */
void vs_on_op_start(void (*cb)(int));
/* complete operation logged in one go (sequential context or call-backs) */
int  vs_op_log(int kind, intptr_t arg, int obj, intptr_t ret);

/* ---- virtual event descriptors (owned by the upipe_verif_eventfd hook) */
int  vs_fd_value(const void *ueventfd);           /* counter (>0 = readable), -1 if unknown */
int  vs_fd_count(void);

/* ---- results */
extern struct vs_op vs_hist[VS_MAX_OPS];
extern int vs_nhist;
extern struct vs_stats vs_stats;
/* trace: one entry per step */
extern uint8_t  vs_tr_thread[VS_MAX_STEPS + 8];
extern uint8_t  vs_tr_enabled[VS_MAX_STEPS + 8];  /* bit i = thread i could run */
extern uint8_t  vs_tr_kind[VS_MAX_STEPS + 8];     /* access performed by that step */
extern const volatile void *vs_tr_addr[VS_MAX_STEPS + 8];
extern unsigned vs_first_run_steps;               /* steps of the first vs_run of the session */
extern int vs_nthreads;
extern char vs_errmsg[160];                       /* VS_INTERNAL reason */

const char *vs_kind_name(int kind);
/* renders the schedule as runs "T0x5 T1x3 ..." into rep */
void vs_render_schedule(struct vp_report *rep, unsigned from, unsigned to);
/* one line per step; name() may translate an address (return NULL for unknown) */
void vs_render_steps(struct vp_report *rep, unsigned from, unsigned to,
                     const char *(*name)(const volatile void *addr, char *buf, size_t n));
uint64_t vs_trace_hash(uint64_t h);

/* ---- bounded enumeration of schedules (depth first, stateless: every schedule is replayed from scratch).
 * fn runs one case under VS_ENUM with the given prefix and fills rep like an executor's run (0/1/2).
 * All schedules of the first vs_run of the case with at most `bound` preemptions are visited exactly once.
 * Work is spread over `jobs` forked processes; a process killed by a signal (assert in the code under
 * test) is reported as a failure with the schedule it was running. */
struct vs_enum_result {
    uint64_t evaluations, nontrivial;
    uint64_t class_counts[32];
    uint64_t max_steps;
    int failed;                 /* 1 = violation, 2 = internal */
    int crashed;                /* the failure is a crash (signal) */
    char key[96];
    char msg[768];
    uint8_t  fail_prefix[VS_MAX_STEPS + 8];   /* thread id + 1 per step (0 = default) */
    uint32_t fail_len;
    int complete;               /* the whole bounded space was visited */
};
typedef int (*vs_enum_fn)(void *opaque, const uint8_t *prefix, size_t prefix_len, struct vp_report *rep);
int vs_enumerate(vs_enum_fn fn, void *opaque, int bound, int jobs, struct vs_enum_result *out);

/* helpers of the executors' extra mode */
void vs_enum_print_json(const struct vs_enum_result *r, int bound, const char *space,
                        const char *const *class_names, const char *failtape);
void vs_enum_merge(struct vs_enum_result *a, const struct vs_enum_result *b);
int vs_default_jobs(void);   /* VERIF_JOBS or the number of processors */

#endif
